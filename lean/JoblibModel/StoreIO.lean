import JoblibModel.Store
import JoblibModel.IOUtil
/-!
Concrete instances and text protocol shared by the C05 and C11 drivers (`Driver/C05.lean`, `Driver/C11.lean`):

* `checkCodeImpl` — byte-level transcription of `f.read().decode('utf-8')`, `memory.extract_first_line` and the
  comparison `old_func_code == func_code` of `_check_previous_func_code` (UTF-8 structure check, `startswith`,
  `split('\n')`, `int(...)`); used as `Codec.checkCode` by the drivers and tied to the real code on every torn length.
* a toy pickle / JSON codec (the theorems hold for every codec satisfying their hypotheses);
* parsing / printing of canonical paths and operations (the syntax of `harness/fstrace.py`);
* sequential histories of processes with kills (`runHistory`) and op-level interleavings of threads (`runPar`).
-/
namespace JoblibModel.StoreIO
open JoblibModel.Store JoblibModel.IOUtil

/-! ## `func_code.py` text -/

/-- `"# first line:"` -/
def firstLineText : Bytes := [35, 32, 102, 105, 114, 115, 116, 32, 108, 105, 110, 101, 58]

def digits (n : Nat) : Bytes := (Nat.toDigits 10 n).map (·.toNat)

/-- `"%s %i\n%s" % (FIRST_LINE_TEXT, first_line, func_code)` -/
def codeTextOf (firstLine : Nat) (src : Bytes) : Bytes :=
  firstLineText ++ [32] ++ digits firstLine ++ [10] ++ src

def isCont (b : Nat) : Bool := 0x80 ≤ b && b ≤ 0xBF

/-- Well-formed UTF-8 (what `bytes.decode('utf-8')` accepts). -/
def utf8Valid : Bytes → Bool
  | [] => true
  | b :: r =>
    if b < 0x80 then utf8Valid r
    else if 0xC2 ≤ b && b ≤ 0xDF then
      match r with
      | c1 :: r' => isCont c1 && utf8Valid r'
      | _ => false
    else if 0xE0 ≤ b && b ≤ 0xEF then
      match r with
      | c1 :: c2 :: r' =>
        isCont c1 && isCont c2 && (b != 0xE0 || 0xA0 ≤ c1) && (b != 0xED || c1 ≤ 0x9F) && utf8Valid r'
      | _ => false
    else if 0xF0 ≤ b && b ≤ 0xF4 then
      match r with
      | c1 :: c2 :: c3 :: r' =>
        isCont c1 && isCont c2 && isCont c3 && (b != 0xF0 || 0x90 ≤ c1) && (b != 0xF4 || c1 ≤ 0x8F) && utf8Valid r'
      | _ => false
    else false

def isSpace (b : Nat) : Bool := b == 32 || (9 ≤ b && b ≤ 13) || (28 ≤ b && b ≤ 31)
def isDigit (b : Nat) : Bool := 48 ≤ b && b ≤ 57

def dropSpaces : Bytes → Bytes
  | [] => []
  | b :: r => if isSpace b then dropSpaces r else b :: r

/-- digits with single underscores between digits (`prevDigit`: the previous character was a digit) -/
def digitsOk : Bool → Bytes → Bool
  | prev, [] => prev
  | prev, b :: r =>
    if isDigit b then digitsOk true r
    else if b == 95 then prev && (match r with | d :: _ => isDigit d | [] => false) && digitsOk false r
    else false

/-- `int(s)` does not raise (ASCII inputs: surrounding white space, optional sign, digits). -/
def pyIntOk (s : Bytes) : Bool :=
  let t := (dropSpaces (dropSpaces s).reverse).reverse
  match t with
  | [] => false
  | b :: r => if b == 43 || b == 45 then digitsOk false r else digitsOk false (b :: r)

def splitFirstNl : Bytes → Bytes × Option Bytes
  | [] => ([], none)
  | b :: r =>
    if b == 10 then ([], some r)
    else
      let (l, rest) := splitFirstNl r
      (b :: l, rest)

def startsWith : Bytes → Bytes → Bool
  | _, [] => true
  | [], _ :: _ => false
  | a :: s, b :: p => a == b && startsWith s p

/-- `_check_previous_func_code`'s reading of a `func_code.py` content against the live source `src`. -/
def checkCodeImpl (src : Bytes) (content : Bytes) : CodeRead :=
  if !utf8Valid content then .valueError
  else if startsWith content firstLineText then
    let (line0, rest) := splitFirstNl content
    if pyIntOk (line0.drop firstLineText.length) then
      (if rest.getD [] = src then .same else .differs)
    else .valueError
  else (if content = src then .same else .differs)

/-! ## Toy codec -/

def toyPickle (compress : Bool) (v : Val) : Bytes := [if compress then 120 else 128, v.ver, v.arg, v.gen, 46]

def toyUnpickle : Bytes → Option Val
  | [m, a, b, g, 46] => if m = 120 ∨ m = 128 then some ⟨a, b, g⟩ else none
  | _ => none

/-- `{"time": <stamp>}` -/
def toyMeta (stamp : Nat) : Bytes := [123, 116, stamp, 125]

def toyMetaStamp : Bytes → Option Nat
  | [123, 116, t, 125] => some t
  | _ => none

/-- `srcs`: source text of each version (index = version). -/
def mkCodec (compress : Bool) (firstLine : Nat) (srcs : List Bytes) : Codec where
  pickle := toyPickle compress
  unpickle := toyUnpickle
  metaText := toyMeta
  metaStamp := toyMetaStamp
  codeText := fun v => codeTextOf firstLine (srcs.getD v [])
  checkCode := fun v d => checkCodeImpl (srcs.getD v []) d
  gitText := [35, 10, 42, 10]

/-! ## Text syntax -/

def stripPrefix? (pre s : String) : Option String :=
  if s.startsWith pre then some (s.drop pre.length).toString else none

def nameOfString (s : String) : Option Name :=
  if s = "C" then some .cache
  else if s = ".gitignore" then some .gitignore
  else if s = "joblib" then some .joblib
  else if s = "M" then some .mod
  else if s = "F" then some .func
  else if s = "func_code.py" then some .funcCode
  else if s = "output.pkl" then some .output
  else if s = "metadata.json" then some .metadata
  else match stripPrefix? "output.pkl.tmp" s with
    | some n => n.toNat?.map .tmpOut
    | none => match stripPrefix? "metadata.json.tmp" s with
      | some n => n.toNat?.map .tmpMeta
      | none => match stripPrefix? "E" s with
        | some n => n.toNat?.map .entry
        | none => none

def nameToString : Name → String
  | .cache => "C" | .gitignore => ".gitignore" | .joblib => "joblib" | .mod => "M" | .func => "F"
  | .funcCode => "func_code.py" | .entry a => s!"E{a}" | .output => "output.pkl" | .metadata => "metadata.json"
  | .tmpOut o => s!"output.pkl.tmp{o}" | .tmpMeta o => s!"metadata.json.tmp{o}"

def pathToString (p : Path) : String := "/".intercalate (p.map nameToString)

def resToString : Res → String
  | .ok => "ok" | .yes => "yes" | .no => "no" | .enoent => "enoent" | .eexist => "eexist"
  | .enotempty => "enotempty" | .eisdir => "eisdir" | .enotdir => "enotdir"
  | .fd _ => "ok" | .data _ => "" | .names l => if l.isEmpty then "-" else ",".intercalate (l.map (nameToString ·.1))

/-- rank of a name = its position in the kernel order observed by the harness; unknown names last. -/
def rankOf (order : List Name) (n : Name) : Nat :=
  match order.idxOf? n with
  | some i => i
  | none => order.length

/-- Printed form of a call and its result; directory listings are printed in kernel order (`order`). -/
def opToString (order : List Name) (o : Op) (r : Res) : String :=
  let r := match r with
    | .names l => Res.names (sortRank (rankOf order) l)
    | r => r
  match o with
  | .stat p => s!"stat {pathToString p} {resToString r}"
  | .lstat p _ => s!"stat {pathToString p} {if r == .no then "no" else "yes"}"
  | .mkdir p => s!"mkdir {pathToString p} {resToString r}"
  | .creat p => s!"creat {pathToString p} {resToString r}"
  | .write p _ _ => s!"write {pathToString p}"
  | .rename p q => s!"rename {pathToString p} {pathToString q} {resToString r}"
  | .unlink p _ => s!"unlink {pathToString p} {resToString r}"
  | .rmdir p _ => s!"rmdir {pathToString p} {resToString r}"
  | .openr p => s!"openr {pathToString p} {resToString r}"
  | .read p _ => s!"read {pathToString p}"
  | .opendir p _ => s!"opendir {pathToString p} {resToString r}"
  | .readdir p _ => s!"readdir {pathToString p} {resToString r}"

def errToString : Err → String
  | .fileNotFound => "FileNotFoundError" | .fileExists => "FileExistsError" | .notADirectory => "NotADirectoryError"
  | .isADirectory => "IsADirectoryError" | .osError => "OSError" | .keyError => "KeyError"
  | .valueError => "ValueError" | .unpickleError => "UnpicklingError"

def hexVal (c : Char) : Option Nat :=
  if '0' ≤ c ∧ c ≤ '9' then some (c.toNat - 48)
  else if 'a' ≤ c ∧ c ≤ 'f' then some (c.toNat - 87) else none

def hexBytes : List Char → Option Bytes
  | [] => some []
  | a :: b :: r => do
    let x ← hexVal a
    let y ← hexVal b
    let rest ← hexBytes r
    pure ((x * 16 + y) :: rest)
  | _ => none

/-- `-` = empty, otherwise lower-case hex. -/
def parseHex (s : String) : Option Bytes := if s = "-" then some [] else hexBytes s.toList

def parseNames (s : String) : Option (List Name) :=
  if s = "-" then some [] else (s.splitOn ",").mapM nameOfString

def parseNats (s : String) : Option (List Nat) :=
  if s = "-" then some [] else (s.splitOn ".").mapM (·.toNat?)

/-- `key=value,key=value` -/
def parseKVs (s : String) : Option (List (String × String)) :=
  (s.splitOn ",").mapM fun kv =>
    match kv.splitOn "=" with
    | [k, v] => some (k, v)
    | _ => none

def kv (l : List (String × String)) (k : String) : Option String := (l.find? (·.1 = k)).map (·.2)
def kvNat (l : List (String × String)) (k : String) : Option Nat := (kv l k).bind (·.toNat?)
def kvBool (l : List (String × String)) (k : String) : Option Bool :=
  match kv l k with
  | some "0" => some false
  | some "1" => some true
  | _ => none

/-- What a process (or thread) of a history does. -/
inductive ProcSpec
  | call (a : Nat) (c : Cfg)
  | reduce (victims : List Nat) (c : Cfg)
  | clear (c : Cfg)
  | fclear (c : Cfg)              -- `memory.cache(f).clear()`
  | iclear (a : Nat) (c : Cfg)    -- `MemorizedResult(store, call_id).clear()`

structure Env where
  order : List Name
  firstLine : Nat
  srcs : List Bytes

/-- `cb=none|long|now|since<g>` -/
def parseCallback (s : String) : Option Callback :=
  if s = "none" then some .none
  else if s = "long" then some (.expires true)
  else if s = "now" then some (.expires false)
  else match stripPrefix? "since" s with
    | some n => n.toNat?.map .since
    | none => none

/-- `call:a=3,ver=1,cb=none,shelve=0,me=0,legacy=0[,compress=0][,gen=0]` | `reduce:me=0,victims=4.5` | `clear:me=0` |
`fclear:me=0,ver=0` | `iclear:a=3,me=0,ver=0`. `gen` (the generation the process lives in) and `compress` are 0 when
absent; when present they must parse. -/
def parseProc (env : Env) (s : String) : Option (ProcSpec × List (String × String)) :=
  match s.splitOn ":" with
  | [kind, args] => do
    let l ← parseKVs args
    let me ← kvNat l "me"
    let compress ← match kv l "compress" with
      | none => some false
      | some _ => kvBool l "compress"
    let gen ← match kv l "gen" with
      | none => some 0
      | some _ => kvNat l "gen"
    let codec := mkCodec compress env.firstLine env.srcs
    let rank := rankOf env.order
    if kind = "call" then do
      let a ← kvNat l "a"
      let ver ← kvNat l "ver"
      let cb ← (kv l "cb").bind parseCallback
      let shelve ← kvBool l "shelve"
      let legacy ← kvBool l "legacy"
      pure (.call a { codec, me, ver, gen, callback := cb, shelve, rank, legacy }, l)
    else if kind = "reduce" then do
      let v ← (kv l "victims").bind parseNats
      pure (.reduce v { codec, me, ver := 0, rank }, l)
    else if kind = "clear" then
      pure (.clear { codec, me, ver := 0, rank }, l)
    else if kind = "fclear" then do
      let ver ← kvNat l "ver"
      pure (.fclear { codec, me, ver, rank }, l)
    else if kind = "iclear" then do
      let a ← kvNat l "a"
      let ver ← kvNat l "ver"
      pure (.iclear a { codec, me, ver, rank }, l)
    else none
  | _ => none

/-- `v<ver>.<arg>`, followed by `@<gen>` for a value of a generation other than 0 -/
def valToString (v : Val) : String := if v.gen = 0 then s!"v{v.ver}.{v.arg}" else s!"v{v.ver}.{v.arg}@{v.gen}"

/-- All process kinds as programs returning a printable result. -/
def progOf : ProcSpec → Prog String
  | .call a c => (callProc c a).bind fun v => .ret (valToString v)
  | .reduce v c => (reduceProc c v).bind fun _ => .ret "done"
  | .clear c => (clearProc c).bind fun _ => .ret "done"
  | .fclear c => (configure c).bind fun _ => ensureFuncDir.bind fun _ => (clearFunc c).bind fun _ => .ret "done"
  | .iclear a c => (configure c).bind fun _ => ensureFuncDir.bind fun _ => (getMetadata c a).bind fun _ =>
      (clearItem c a).bind fun _ => .ret "done"

def outcomeToString : Outcome String → String
  | .ok s => "ok " ++ s
  | .raised e => "raise " ++ errToString e

def logToString (order : List Name) (l : List (Op × Res)) : String :=
  ";".intercalate (l.map fun x => opToString order x.1 x.2)

/-- Log of the first `k` calls of a solo run (the process is then killed; the k-th possibly torn). -/
def runKilled {α : Type} : Nat → Option Nat → Prog α → FS → List (Op × Res) × FS
  | 0, _, _, fs => ([], fs)
  | _ + 1, _, .ret _, fs => ([], fs)
  | _ + 1, _, .raise _, fs => ([], fs)
  | k + 1, torn, .op o kont, fs =>
    match k, torn with
    | 0, some n => let r := apply (tear n o) fs; ([(o, r.1)], r.2)
    | _, _ =>
      let r := apply o fs
      let rest := runKilled k torn (kont r.1) r.2
      ((o, r.1) :: rest.1, rest.2)

/-- One process of a sequential history → its printed log + outcome, and the file system it leaves. -/
def runOne (order : List Name) (ps : ProcSpec) (l : List (String × String)) (fs : FS) : String × FS :=
  match kvNat l "kill" with
  | some k =>
    let torn := kvNat l "torn"
    let r := runKilled k torn (progOf ps) fs
    (logToString order r.1 ++ " => killed", r.2)
  | none =>
    let r := runLog (progOf ps) fs
    (logToString order r.1 ++ " => " ++ outcomeToString r.2.1, r.2.2)

/-- Op-level interleaving: `sched` names the thread that makes the next system call. A thread that has finished (or a
bad index) makes the replay fail. Returns the global log and, at the end, every thread's program. -/
def runPar (threads : List (Prog String)) (fs : FS) : List Nat → Option (List (Nat × Op × Res) × List (Prog String) × FS)
  | [] => some ([], threads, fs)
  | t :: rest =>
    match threads[t]? with
    | some (.op o k) =>
      let r := apply o fs
      match runPar (threads.set t (k r.1)) r.2 rest with
      | some (log, th, fs') => some ((t, o, r.1) :: log, th, fs')
      | none => none
    | _ => none

def threadState : Prog String → String
  | .ret s => "ok " ++ s
  | .raise e => "raise " ++ errToString e
  | .op o _ => "running@" ++ opToString [] o .ok

end JoblibModel.StoreIO
