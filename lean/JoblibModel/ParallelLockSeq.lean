import JoblibModel.ParallelLock
/-!
M1L-Seq — a SEQUENCE of calls on ONE `joblib.Parallel` object at exactly the granularity of M1L
(`JoblibModel/ParallelLock.lean`: same threads, same scheduling points, same atomic steps), in which the completion-
callback threads and the parked batches of EARLIER calls stay alive and interleave arbitrarily with the running call.
The backend contract does not make `abort_everything` / `terminate` join them (a backend that keeps in-flight batches,
`abort_drops = False`, or a dask-like single callback thread).

REUSE.  The state of the running call is literally a state `St` of M1L (`SSt.cur`) and every step of the caller, of a
callback thread of the running call and every completion of one of its batches IS the M1L step
(`stepCaller` / `stepCb` / `complete`) on `cur` under the M1L configuration of that call (`curCfg`).  What this file adds:

  * `switchCall` — the end of one call and the beginning of the next one happen inside ONE atomic step of the caller
    thread (it returns / raises, calls `Parallel.__call__` again and parks before the lock acquisition of
    `_reset_run_tracking`).  The trackers of the finished call (with the program counters of their callback threads) are
    moved to `SSt.old`; the caller's locals and the input iterable are those of the next call; EVERYTHING the code
    leaves on the object persists: `n_dispatched_tasks`, `n_completed_tasks`, `_exception`, `_aborting`, `_aborted`,
    `_ready_batches`, `_original_iterator` (alive or not), the pre-dispatch islice, `_iterating`, `_running`, `_jobs`
    (whatever the `finally` block and later callbacks left there), `_call_id`, the scripted `compute_batch_size` position.
    The reset is NOT done by `switchCall` but by the M1L steps of the next call, as in the code: `_call_id` is drawn in the
    critical section of `_reset_run_tracking` (`Pc.resetAcq`, which also raises `RuntimeError` when `_running`), the
    counters and flags are rewritten by the unlocked writes `wNDisp … wAbort0`, `_ready_batches` under the lock
    (`readyAcq`), `_original_iterator` / `_iterating` by `wOrig` / `wIter0`.
  * `stepOld` — one atomic step of the callback thread of a tracker of an EARLIER call, acting on the object as it is
    now.  It is `stepCb` transcribed for a tracker that lives in `old` (same branches, same order), plus the code variant:
    `SCfg.dispatchNewGuard = true` is /repo as it is now (`_dispatch_new` compares `parallel._call_id` with the
    tracker's `parallel_call_id` right after acquiring the lock and returns on a mismatch — F50 repaired);
    `false` is the older code (no test there: `n_completed_tasks += batch_size` and `dispatch_next()` on the running call).
  * `completeOld` — the backend finishes a parked batch of an earlier call (its tasks are those of ITS call).

IDENTIFIERS.  `_call_id` of the object is `callBase + cur.callId` (`cur.callId` is 0 before the critical section of
`_reset_run_tracking` of the running call and 1 after it; `callBase` counts the ids drawn by the earlier calls); trackers
in `old` carry the absolute id.  Threads: 0 = the caller; `i + 1` for `i < old.length` = callback thread of `old[i]`;
`old.length + j + 1` = callback thread of `cur.trk[j]` — so a tracker keeps its thread number when it is moved to `old`.
Tracker indices inside `cur` (program counters, `_jobs`) are relative to `cur.trk`; `CbPc.submitC j` of a tracker in `old`
is absolute.  Task ids are relative to their call (`0 … n-1`); the driver prints them with the offset of the call; the
events of `old` threads (`hist`) are stored with absolute ids.  The lock is owned by the caller or a callback of the running
call (`cur.lockOwner`) or by an `old` thread (`oldOwner`).

`LScenario.calls` of the harness = `SCfg.calls`; the scripted `compute_batch_size()` values are consumed across calls
(`bsBase` = values consumed before the running call or by `old` threads, so that the M1L configuration of the running call
carries the rest of the script).

NOT covered (as M1L): timeouts, `generator_unordered`, abandoned generators, `with` blocks, n_jobs = 1.  In the UNGUARDED
variant two situations that only that variant can reach are not followed: a stale callback that runs `dispatch_next`
after `_aborting = False` and before `_original_iterator = iterator` of the next call pulls from the OLD input in the code
(the model has only the running call's input), and `_jobs` entries left behind by a finished call.
Import-free (besides M1L), total, computable.
-/
namespace JoblibModel.ParallelLockSeq
open JoblibModel.ParallelLock

/-- One call of the sequence: number of tasks, failing task positions, failing position of the input iterable. -/
structure CallCfg where
  n : Nat := 0
  fails : List Nat := []
  iterfail : Option Nat := none
deriving Repr, Inhabited, DecidableEq

structure SCfg where
  nj : Nat
  bsAuto : Bool
  bs : List Nat
  pdMode : Nat
  pd : Nat
  ra : Nat
  abortDrops : Bool
  recheck : Bool := false
  /-- code variant: `_dispatch_new` tests the call id under the lock (`true` = /repo now, F50 repaired). -/
  dispatchNewGuard : Bool := true
  /-- environment (backend contract variant): a batch completes only while no callback thread is active. -/
  seqCallbacks : Bool := false
  calls : List CallCfg
deriving Repr, Inhabited

/-- The M1L configuration of call `k` when `bsBase` scripted batch sizes have been consumed before it. -/
def SCfg.callCfg (sc : SCfg) (k bsBase : Nat) : Cfg :=
  let cc := sc.calls.getD k default
  { nj := sc.nj, bsAuto := sc.bsAuto, bs := sc.bs.drop (min bsBase (sc.bs.length - 1)), pdMode := sc.pdMode,
    pd := sc.pd, ra := sc.ra, abortDrops := sc.abortDrops, n := cc.n, fails := cc.fails, iterfail := cc.iterfail,
    recheck := sc.recheck }

/-- Offset of the task ids of call `k` (the harness numbers the tasks of a scenario consecutively). -/
def SCfg.base (sc : SCfg) (k : Nat) : Nat := ((sc.calls.take k).map (·.n)).sum

/-- A tracker of an earlier call (`t.callId` absolute, `submitC` absolute) and the index of the call that made it. -/
structure OldTrk where
  t : Tracker
  call : Nat
deriving Repr, Inhabited, DecidableEq

structure SSt where
  cur : St := init               -- the Parallel object and the running call (an M1L state)
  old : List OldTrk := []        -- trackers of the earlier calls, creation order
  k : Nat := 0                   -- index of the running call
  outs : List (Option Outcome) := []   -- outcomes of the finished calls
  bsBase : Nat := 0
  callBase : Nat := 0
  oldOwner : Option Nat := none  -- the lock is owned by the callback thread of `old[i]`
  hist : List Ev := []           -- events emitted by `old` threads (absolute task ids), newest first
deriving Repr, Inhabited, DecidableEq

def sinit : SSt := {}

def curCfg (sc : SCfg) (ss : SSt) : Cfg := sc.callCfg ss.k ss.bsBase

def getOld (ss : SSt) (i : Nat) : OldTrk := ss.old.getD i default

def setOld (ss : SSt) (i : Nat) (t : Tracker) : SSt :=
  { ss with old := ss.old.set i { getOld ss i with t := t } }

def setOldPc (ss : SSt) (i : Nat) (p : CbPc) : SSt := setOld ss i { (getOld ss i).t with pc := p }

/-- `submitC j` made absolute when a tracker is moved to `old`. -/
def shiftPc (off : Nat) : CbPc → CbPc
  | .submitC j => .submitC (off + j)
  | p => p

/-- The task ids of an event made absolute. -/
def shiftEv (b : Nat) : Ev → Ev
  | .pull t id l => .pull t (id + b) l
  | .submit t ids => .submit t (ids.map (· + b))
  | .complete i ids => .complete i (ids.map (· + b))
  | .yield v => .yield (v + b)
  | .ret l => .ret (l.map (· + b))
  | .raise (.task id) => .raise (.task (id + b))
  | .raise (.iter p) => .raise (.iter (p + b))
  | e => e

/-- `abort_everything` of a backend that drops what it holds also drops the parked batches of earlier calls. -/
def dropOld (ss : SSt) : SSt :=
  { ss with old := ss.old.map (fun o => if o.t.pc == .parked then { o with t := { o.t with pc := .dropped } } else o) }

/-- The caller thread has finished a call (`cur.pc = done`): record the outcome; if another call follows, the same
atomic step continues into it up to the lock acquisition of `_reset_run_tracking`. -/
def switchCall (sc : SCfg) (ss : SSt) : SSt :=
  let s := ss.cur
  if s.pc != .done then ss
  else if ss.k + 1 < sc.calls.length then
    let off := ss.old.length
    let moved : List OldTrk := s.trk.map (fun t =>
      { t := { t with callId := ss.callBase + t.callId, pc := shiftPc off t.pc }, call := ss.k })
    { ss with
      old := ss.old ++ moved
      k := ss.k + 1
      outs := ss.outs ++ [s.outcome]
      bsBase := ss.bsBase + s.bsI
      callBase := ss.callBase + s.callId
      oldOwner := match s.lockOwner with
        | some (j + 1) => some (off + j)
        | _ => ss.oldOwner
      cur := { init with
        nDispTasks := s.nDispTasks, nCompleted := s.nCompleted, exception := s.exception, aborting := s.aborting,
        aborted := s.aborted, ready := s.ready, origAlive := s.origAlive, preLeft := s.preLeft,
        iterating := s.iterating, running := s.running, jobs := s.jobs } }
  else { ss with outs := ss.outs ++ [s.outcome] }

def lockFree (ss : SSt) : Bool := ss.cur.lockOwner == none && ss.oldOwner == none

def callerEnabledS (ss : SSt) : Bool :=
  callerEnabled ss.cur && (!ss.cur.pc.isAcq || ss.oldOwner == none)

def cbIsAcq : CbPc → Bool
  | .acqA | .acqC => true
  | _ => false

def cbEnabledS (ss : SSt) (j : Nat) : Bool :=
  cbEnabled ss.cur j && (!cbIsAcq (getTrk ss.cur j).pc || ss.oldOwner == none)

def oldEnabled (ss : SSt) (i : Nat) : Bool :=
  match (getOld ss i).t.pc with
  | .idle | .parked | .dropped | .done _ => false
  | .acqA | .acqC => lockFree ss
  | _ => true

/-- The caller's step without the call switch (what `abort_everything` does to earlier calls' batches included). -/
def stepCallerCore (sc : SCfg) (ss : SSt) : SSt :=
  let c := curCfg sc ss
  let drops := match ss.cur.pc with
    | .abortCall _ => c.abortDrops
    | _ => false
  let ss := if drops then dropOld ss else ss
  { ss with cur := stepCaller c ss.cur }

def stepCallerS (sc : SCfg) (ss : SSt) : SSt := switchCall sc (stepCallerCore sc ss)

/-- An `old` thread leaves `dispatch_next` (`r` = what `dispatch_one_batch` returned) and releases the lock. -/
def oldAfterDispatch (i : Nat) (ss : SSt) (r : Bool) : SSt :=
  let s := ss.cur
  let s := if r then s else { s with iterating := false, origAlive := false }
  setOldPc { ss with cur := s, oldOwner := none } i .relC

/-- The locked region of `dispatch_one_batch(self._original_iterator)` run by the thread of `old[i]` on the running
call; its events go to `hist` with absolute ids. -/
def oldDispatch (sc : SCfg) (i : Nat) (ss : SSt) (bs : Nat) : SSt :=
  let s := ss.cur
  match dispatchLocked (curCfg sc ss) (i + 1) true bs s with
  | (s', r) =>
    let evs := (s'.log.take (s'.log.length - s.log.length)).map (shiftEv (sc.base ss.k))
    let ss := { ss with cur := { s' with log := s.log }, hist := evs ++ ss.hist }
    match r with
    | .submit j => setOldPc ss i (.submitC (ss.old.length + j))
    | .ret r => oldAfterDispatch i ss r

/-- `backend.submit` of the tracker with absolute index `j` by the thread of `old[i]`. -/
def oldSubmit (sc : SCfg) (i j : Nat) (ss : SSt) : SSt :=
  if j < ss.old.length then
    let o := getOld ss j
    let e := Ev.submit (i + 1) (o.t.items.map (· + sc.base o.call))
    setOldPc { ss with hist := e :: ss.hist } j .parked
  else
    let jj := j - ss.old.length
    let e := Ev.submit (i + 1) ((getTrk ss.cur jj).items.map (· + sc.base ss.k))
    { ss with cur := setCb ss.cur jj .parked, hist := e :: ss.hist }

/-- One atomic step of the callback thread of `old[i]` (thread `i + 1`): `BatchCompletionCallBack.__call__` /
`_dispatch_new` of a tracker of an earlier call, acting on the object as it is now. -/
def stepOld (sc : SCfg) (i : Nat) (ss : SSt) : SSt :=
  let t := (getOld ss i).t
  let s := ss.cur
  let stale := ss.callBase + s.callId != t.callId
  match t.pc with
  | .acqA =>
    if stale then setOldPc ss i (.relA false)
    else if s.aborting then setOldPc ss i (.relA false)
    else setOldPc { ss with oldOwner := some i } i .retr
  | .retr =>
    let ss := { ss with oldOwner := none }
    if t.status != .pending then setOldPc ss i (.relA (t.failed == none))
    else
      match t.failed with
      | some id =>
        setOld { ss with cur := { s with exception := true, aborting := true } } i
          { t with status := .error, result := .exc (.task id), pc := .relA false }
      | none => setOld ss i { t with status := .done, result := .vals t.items, pc := .relA true }
  | .relA ok => setOldPc ss i (if ok then .stats else .done false)
  | .stats => setOldPc ss i .acqC
  | .acqC =>
    if sc.dispatchNewGuard && stale then
      -- `if self.parallel._call_id != self.parallel_call_id: return` (lock taken and released in this step)
      setOldPc ss i (.relA false)
    else
      let s := { s with nCompleted := s.nCompleted + t.bsize }
      let ss := { ss with cur := s }
      if s.origAlive then
        let ss := setOldPc { ss with oldOwner := some i } i .bsC
        if s.aborting then oldAfterDispatch i ss false
        else if sc.bsAuto then ss
        else oldDispatch sc i ss (scriptedBs (curCfg sc ss) s)
      else setOldPc ss i .relC
  | .bsC =>
    let bs := scriptedBs (curCfg sc ss) s
    oldDispatch sc i { ss with bsBase := ss.bsBase + 1 } bs
  | .submitC j => oldAfterDispatch i (oldSubmit sc i j ss) true
  | .relC => setOldPc ss i (.done true)
  | _ => ss

/-- The backend finishes the parked batch `old[i]`: its tasks (of its own call) run up to the first that raises. -/
def completeOld (sc : SCfg) (i : Nat) (ss : SSt) : SSt :=
  let o := getOld ss i
  let fails := (sc.calls.getD o.call default).fails
  setOld ss i { o.t with pc := .acqA, failed := o.t.items.find? (fun id => fails.contains id) }

/-- Absolute indices of the parked trackers, in submission order. -/
def parkedIdsS (ss : SSt) : List Nat :=
  ((List.range ss.old.length).filter (fun i => (getOld ss i).t.pc == .parked)) ++
  (parkedIds ss.cur).map (· + ss.old.length)

def enabledS (ss : SSt) : Act → Bool
  | .thread 0 => callerEnabledS ss
  | .thread (g + 1) => if g < ss.old.length then oldEnabled ss g else cbEnabledS ss (g - ss.old.length)
  | .complete k => k < (parkedIdsS ss).length

/-- One action; an action that is not enabled leaves the state unchanged. -/
def stepS (sc : SCfg) (ss : SSt) : Act → SSt
  | .thread 0 => if callerEnabledS ss then stepCallerS sc ss else ss
  | .thread (g + 1) =>
    if g < ss.old.length then (if oldEnabled ss g then stepOld sc g ss else ss)
    else if cbEnabledS ss (g - ss.old.length) then
      { ss with cur := stepCb (curCfg sc ss) (g - ss.old.length) ss.cur }
    else ss
  | .complete k =>
    match (parkedIdsS ss)[k]? with
    | some g =>
      if g < ss.old.length then completeOld sc g ss
      else { ss with cur := complete (curCfg sc ss) (g - ss.old.length) ss.cur }
    | none => ss

def runS (sc : SCfg) (ss : SSt) : List Act → SSt
  | [] => ss
  | a :: r => runS sc (stepS sc ss a) r

def cbAlive : CbPc → Bool
  | .idle | .parked | .dropped | .done _ => false
  | _ => true

/-- Some callback thread exists and has not finished. -/
def anyCbAlive (ss : SSt) : Bool := ss.old.any (fun o => cbAlive o.t.pc) || ss.cur.trk.any (fun t => cbAlive t.pc)

/-- All enabled actions in canonical order: caller, callback threads by thread number, completions by submission order
(none while a callback thread is active, under `seqCallbacks`). -/
def enabledActsS (sc : SCfg) (ss : SSt) : List Act :=
  (if callerEnabledS ss then [Act.thread 0] else []) ++
  ((List.range ss.old.length).filter (oldEnabled ss)).map (fun i => Act.thread (i + 1)) ++
  ((List.range ss.cur.trk.length).filter (cbEnabledS ss)).map (fun j => Act.thread (ss.old.length + j + 1)) ++
  (if sc.seqCallbacks && anyCbAlive ss then [] else (List.range (parkedIdsS ss).length).map Act.complete)

def pickS (sc : SCfg) (ss : SSt) (ch : Nat) : Option Act :=
  let a := enabledActsS sc ss
  if a.length = 0 then none else a[ch % a.length]?

def pickLastS (sc : SCfg) (ss : SSt) : Option Act := (enabledActsS sc ss).getLast?

/-- The driver's total scheduling rule (same as `M1L.runChoices`). -/
def runChoicesS (sc : SCfg) : Nat → SSt → List Nat → SSt
  | 0, ss, _ => ss
  | fuel + 1, ss, ch :: rest =>
    match pickS sc ss ch with
    | some a => runChoicesS sc fuel (stepS sc ss a) rest
    | none => ss
  | fuel + 1, ss, [] =>
    match pickLastS sc ss with
    | some a => runChoicesS sc fuel (stepS sc ss a) []
    | none => ss

/-- The outcome of call `k`, once it has finished. -/
def outcomeOf (ss : SSt) (k : Nat) : Option Outcome := (ss.outs.getD k none)

end JoblibModel.ParallelLockSeq
