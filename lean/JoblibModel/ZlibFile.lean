/-
Model of `joblib.compressor.BinaryZlibFile` / `BinaryGzipFile` (joblib/compressor.py) and of the
part of the `joblib.load` path that decides how a damaged file ends (properties C13, C14).

Python → Lean (names of the Python variables kept):
* `bytes`                         : `Bytes = List UInt8`; `b[lo:hi]`, `b[lo:]` : `pySlice`, `pySliceFrom`
                                    (Python's clamping and negative-index rules)
* `_MODE_CLOSED/READ/READ_EOF/WRITE` : `Mode`
* `self._mode/_pos/_size/_buffer/_buffer_offset` : `ZFile.mode/pos/size/buffer/bufferOffset`
                                    (`_size = -1` kept as the integer -1; `_buffer_offset : Int` because a seek to a
                                    negative target really leaves a negative offset behind)
* `self._fp` + `self._decompressor` : the field `src : σ` together with a `Source σ`:
    `Source.step`   = ONE iteration of the body of `while self._buffer_offset == len(self._buffer)` in
                      `_fill_buffer`:  `eof` (the `except EOFError` arm), `chunk b src'` (`self._buffer = b`),
                      `err` (the decompressor raised `zlib.error`)
    `Source.rewind` = what `_rewind` does to `_fp` and `_decompressor`
  Two sources are defined:
    `chunkSource`   : the list of decompressed chunks `_fill_buffer` sees, some possibly empty (C13)
    `rawSource c` / `rawSourceOld c` : `_fp` as bytes + position, read in `_BUFFER_SIZE = 8192` blocks, and a
                      `zlib.decompressobj` with `eof` / `unused_data` over an abstract codec `c` (C14).
                      `rawSourceOld` is `_fill_buffer` of the pinned tree (finding F7), `rawSource` the repaired one
                      (fixes/F07-zlib-trailing-bytes.diff: `if self._decompressor.eof: raise EOFError` first).
* `_fill_buffer`                  : `fillBuffer` / `fillLoop` (fuel = number of loop-body executions)
* `_read_all`, `_read_block`      : `readAll` / `readAllLoop`, `readBlock` / `readBlockLoop`
* `read`, `readinto` (io.BufferedIOBase.readinto = `read(len(b))`), `readline` (io.IOBase.readline without
  `peek` = repeated `read(1)`), `tell`, `seek` (+ `_rewind`; the part after the whence arithmetic is `seekAbs`),
  `close` : same names
* `write`, `close` in mode "wb"   : `WFile.write`, `WFile.close` over an abstract `Compressor`
* `numpy_pickle_utils._detect_compressor` : `detectCompressor`
* `_read_bytes`                   : `readBytes`
* `load` on a zlib/gzip file      : `loadZ` = `io.BufferedReader(BinaryZlibFile, 1 MiB)` asking for `_IO_BUFFER_SIZE`
                                    bytes at a time until the unpickler has the `need` bytes of the pickle
* `MemorizedFunc._cached_call`'s `try: load … except Exception: recompute` : `cachedCall`
* `predictLoad` : the outcome class of `joblib.load` on a damaged file (`detectCompressor`, then `loadZ` for
  zlib/gzip, the unpickler contract `loadPlain` for an uncompressed file, contract only for bz2/lzma/xz);
  `scriptCodec` : a `Codec` given by a table of observed cumulative output lengths (used by the driver only)

Loops whose termination is part of the property take fuel; running out of fuel is the fault `outOfFuel`
(never a Python exception).  Import-free, total, computable.
-/
namespace JoblibModel.ZlibFile

abbrev Bytes := List UInt8

/-! ## Python slicing -/

/-- A Python slice bound `i` on a sequence of length `len`, clamped into `0..len`. -/
def pyIndex (len : Nat) (i : Int) : Nat :=
  if i < 0 then (i + len).toNat else min i.toNat len

/-- `b[lo:hi]` -/
def pySlice (b : Bytes) (lo hi : Int) : Bytes :=
  (b.drop (pyIndex b.length lo)).take (pyIndex b.length hi - pyIndex b.length lo)

/-- `b[lo:]` -/
def pySliceFrom (b : Bytes) (lo : Int) : Bytes := b.drop (pyIndex b.length lo)

/-! ## The file object -/

inductive Mode | closed | read | readEof | write
deriving Repr, DecidableEq

/-- Exception classes the code can raise (class name only). -/
inductive ExcKind | valueError | unsupportedOperation | zlibError | eofError
deriving Repr, DecidableEq

inductive Fault | exc (e : ExcKind) | outOfFuel
deriving Repr, DecidableEq

/-- Result of one execution of the loop body of `_fill_buffer`. -/
inductive Step (σ : Type) where
  | eof
  | chunk (b : Bytes) (src : σ)
  | err (e : ExcKind)

structure Source (σ : Type) where
  step : σ → Step σ
  rewind : σ → σ

structure ZFile (σ : Type) where
  mode : Mode
  pos : Nat
  size : Int
  buffer : Bytes
  bufferOffset : Int
  src : σ

/-- `BinaryZlibFile(fp, "rb")` -/
def openRead {σ : Type} (src : σ) : ZFile σ :=
  { mode := .read, pos := 0, size := -1, buffer := [], bufferOffset := 0, src := src }

section ops
variable {σ : Type} (S : Source σ)

/-- The `while self._buffer_offset == len(self._buffer)` loop of `_fill_buffer`. -/
def fillLoop : Nat → ZFile σ → Except Fault (ZFile σ × Bool)
  | fuel, s =>
    if s.bufferOffset = (s.buffer.length : Int) then
      match fuel with
      | 0 => .error .outOfFuel
      | fuel + 1 =>
        match S.step s.src with
        | .eof => .ok ({ s with mode := .readEof, size := s.pos }, false)
        | .err e => .error (.exc e)
        | .chunk b src' => fillLoop fuel { s with buffer := b, bufferOffset := 0, src := src' }
    else .ok (s, true)

/-- `_fill_buffer` -/
def fillBuffer (fuel : Nat) (s : ZFile σ) : Except Fault (ZFile σ × Bool) :=
  if s.mode = .readEof then .ok (s, false) else fillLoop S fuel s

/-- `while self._fill_buffer(): …` of `_read_all`; `k` bounds the iterations of this loop. -/
def readAllLoop (fuel : Nat) : Nat → ZFile σ → Bytes → Except Fault (ZFile σ × Bytes)
  | 0, _, _ => .error .outOfFuel
  | k + 1, s, blocks =>
    match fillBuffer S fuel s with
    | .error f => .error f
    | .ok (s, false) => .ok (s, blocks)
    | .ok (s, true) =>
      readAllLoop fuel k { s with pos := s.pos + s.buffer.length, buffer := [] } (blocks ++ s.buffer)

/-- `_read_all` (the data are returned also when Python's `return_data` is false; `seek` drops them). -/
def readAll (fuel : Nat) (s : ZFile σ) : Except Fault (ZFile σ × Bytes) :=
  readAllLoop S fuel fuel { s with buffer := pySliceFrom s.buffer s.bufferOffset, bufferOffset := 0 } []

/-- `while n_bytes > 0 and self._fill_buffer(): …` of `_read_block`. -/
def readBlockLoop (fuel : Nat) : Nat → Int → ZFile σ → Bytes → Except Fault (ZFile σ × Bytes)
  | k, n, s, blocks =>
    if n > 0 then
      match k with
      | 0 => .error .outOfFuel
      | k + 1 =>
        match fillBuffer S fuel s with
        | .error f => .error f
        | .ok (s, false) => .ok (s, blocks)
        | .ok (s, true) =>
          if n < (s.buffer.length : Int) then
            let data := pySlice s.buffer 0 n
            readBlockLoop fuel k (n - data.length)
              { s with bufferOffset := n, pos := s.pos + data.length } (blocks ++ data)
          else
            let data := s.buffer
            readBlockLoop fuel k (n - data.length)
              { s with buffer := [], pos := s.pos + data.length } (blocks ++ data)
    else .ok (s, blocks)

/-- `_read_block(n_bytes)` -/
def readBlock (fuel : Nat) (n : Int) (s : ZFile σ) : Except Fault (ZFile σ × Bytes) :=
  let end_ := s.bufferOffset + n
  if end_ ≤ (s.buffer.length : Int) then
    let data := pySlice s.buffer s.bufferOffset end_
    .ok ({ s with bufferOffset := end_, pos := s.pos + data.length }, data)
  else
    readBlockLoop S fuel fuel n
      { s with buffer := pySliceFrom s.buffer s.bufferOffset, bufferOffset := 0 } []

/-- `_check_can_read` / `_check_can_seek` (the underlying file is seekable). -/
def checkCanRead (s : ZFile σ) : Except Fault Unit :=
  match s.mode with
  | .read | .readEof => .ok ()
  | .closed => .error (.exc .valueError)
  | .write => .error (.exc .unsupportedOperation)

/-- `read(size)` -/
def read (fuel : Nat) (size : Int) (s : ZFile σ) : Except Fault (ZFile σ × Bytes) :=
  match checkCanRead s with
  | .error f => .error f
  | .ok () =>
    if size = 0 then .ok (s, [])
    else if size < 0 then readAll S fuel s
    else readBlock S fuel size s

/-- `readinto(b)` with `len(b) = n`: `io.BufferedIOBase.readinto` = `data = self.read(len(b)); b[:len(data)] = data`. -/
def readinto (fuel : Nat) (n : Nat) (s : ZFile σ) : Except Fault (ZFile σ × Bytes) :=
  read S fuel n s

/-- `io.IOBase.readline()` on an object without `peek`: `read(1)` until `b''` or a newline. -/
def readlineLoop (fuel : Nat) : Nat → Bytes → ZFile σ → Except Fault (ZFile σ × Bytes)
  | 0, _, _ => .error .outOfFuel
  | k + 1, res, s =>
    match read S fuel 1 s with
    | .error f => .error f
    | .ok (s, b) =>
      if b.isEmpty then .ok (s, res)
      else if b.getLast? = some 10 then .ok (s, res ++ b)
      else readlineLoop fuel k (res ++ b) s

def readline (fuel : Nat) (s : ZFile σ) : Except Fault (ZFile σ × Bytes) :=
  readlineLoop S fuel fuel [] s

/-- `tell()` -/
def tell (s : ZFile σ) : Except Fault Nat :=
  match s.mode with
  | .closed => .error (.exc .valueError)
  | _ => .ok s.pos

/-- `_rewind()` -/
def rewind (s : ZFile σ) : ZFile σ :=
  { s with mode := .read, pos := 0, buffer := [], bufferOffset := 0, src := S.rewind s.src }

/-- Second half of `seek`, `offset` being the absolute target: rewind if it lies behind, then read and
discard up to it. -/
def seekAbs (fuel : Nat) (offset : Int) (s : ZFile σ) : Except Fault (ZFile σ × Nat) :=
  -- Make it so that offset is the number of bytes to skip forward.
  let so : ZFile σ × Int := if offset < (s.pos : Int) then (rewind S s, offset) else (s, offset - s.pos)
  -- Read and discard data until we reach the desired position.
  match readBlock S fuel so.2 so.1 with
  | .error f => .error f
  | .ok (s, _) => .ok (s, s.pos)

/-- `seek(offset, whence)`; returns the new position. -/
def seek (fuel : Nat) (offset whence : Int) (s : ZFile σ) : Except Fault (ZFile σ × Nat) :=
  match checkCanRead s with
  | .error f => .error f
  | .ok () =>
    -- Recalculate offset as an absolute file position.
    if whence = 0 then seekAbs S fuel offset s
    else if whence = 1 then seekAbs S fuel ((s.pos : Int) + offset) s
    else if whence = 2 then
      -- Seeking relative to EOF - we need to know the file's size.
      if s.size < 0 then
        match readAll S fuel s with
        | .error f => .error f
        | .ok (s, _) => seekAbs S fuel (s.size + offset) s
      else seekAbs S fuel (s.size + offset) s
    else .error (.exc .valueError)

/-- `close()` of a file open for reading. -/
def close (s : ZFile σ) : ZFile σ :=
  { s with mode := .closed, buffer := [], bufferOffset := 0 }

/-! ## Operations as data (what the correspondence sends, what the refinement theorem quantifies over) -/

inductive Op
  | read (size : Int)            -- `read(size)`; `read()` is `read(-1)`
  | readinto (n : Nat)           -- `readinto(bytearray(n))`
  | readline
  | tell
  | seek (offset whence : Int)
  | close
deriving Repr, DecidableEq

inductive Out
  | bytes (b : Bytes)            -- read / readline
  | into (b : Bytes)             -- readinto: returned count = `b.length`, buffer prefix = `b`
  | num (n : Nat)                -- tell / seek
  | none                         -- close
  | exc (e : ExcKind)
  | hang                         -- the model ran out of fuel
deriving Repr, DecidableEq

def outOf {α : Type} (s : ZFile σ) (r : Except Fault (ZFile σ × α)) (f : α → Out) : ZFile σ × Out :=
  match r with
  | .ok (s', a) => (s', f a)
  | .error (.exc e) => (s, .exc e)
  | .error .outOfFuel => (s, .hang)

/-- One method call. After a fault the model keeps the state before the call. -/
def applyOp (fuel : Nat) (s : ZFile σ) : Op → ZFile σ × Out
  | .read n => outOf s (read S fuel n s) .bytes
  | .readinto n => outOf s (readinto S fuel n s) .into
  | .readline => outOf s (readline S fuel s) .bytes
  | .tell => match tell s with
    | .ok p => (s, .num p)
    | .error (.exc e) => (s, .exc e)
    | .error .outOfFuel => (s, .hang)
  | .seek o w => outOf s (seek S fuel o w s) .num
  | .close => (close s, .none)

def runOps (fuel : Nat) : ZFile σ → List Op → ZFile σ × List Out
  | s, [] => (s, [])
  | s, op :: ops =>
    let (s1, o) := applyOp S fuel s op
    let (s2, os) := runOps fuel s1 ops
    (s2, o :: os)

end ops

/-! ## The reference stream: `io.BytesIO(payload)` restricted to the property's operations -/
namespace Spec

/-- `readline` of a byte stream: up to and including the first `\n`. -/
def takeLine : Bytes → Bytes
  | [] => []
  | b :: r => if b = 10 then [b] else b :: takeLine r

/-- One operation on the reference stream at position `pos ≤ |p|`. `none` = outside the property
(a seek whose target is negative; `close`). Seeks past the end clamp to the end. -/
def applyOp (p : Bytes) (pos : Nat) : Op → Option (Nat × Out)
  | .read n =>
    if n < 0 then some (pos + (p.drop pos).length, .bytes (p.drop pos))
    else some (pos + ((p.drop pos).take n.toNat).length, .bytes ((p.drop pos).take n.toNat))
  | .readinto n => some (pos + ((p.drop pos).take n).length, .into ((p.drop pos).take n))
  | .readline => some (pos + (takeLine (p.drop pos)).length, .bytes (takeLine (p.drop pos)))
  | .tell => some (pos, .num pos)
  | .seek o w =>
    if w = 0 ∨ w = 1 ∨ w = 2 then
      let t : Int := if w = 0 then o else if w = 1 then (pos : Int) + o else (p.length : Int) + o
      if t < 0 then none else some (min t.toNat p.length, .num (min t.toNat p.length))
    else some (pos, .exc .valueError)
  | .close => none

def run (p : Bytes) : Nat → List Op → Option (Nat × List Out)
  | pos, [] => some (pos, [])
  | pos, op :: ops =>
    match applyOp p pos op with
    | none => none
    | some (pos1, o) =>
      match run p pos1 ops with
      | none => none
      | some (pos2, os) => some (pos2, o :: os)

end Spec

/-! ## Source 1 (C13): the decompressed chunks `_fill_buffer` sees -/

structure ChunkSrc where
  all : List Bytes
  rest : List Bytes

def chunkSource : Source ChunkSrc where
  step := fun c => match c.rest with
    | [] => .eof
    | b :: r => .chunk b { c with rest := r }
  rewind := fun c => { c with rest := c.all }

def openChunks (chunks : List Bytes) : ZFile ChunkSrc := openRead ⟨chunks, chunks⟩

/-! ## Source 2 (C14): raw 8192-byte blocks + `zlib.decompressobj` -/

def BUFFER_SIZE : Nat := 8192

/-- The codec as a function of ALL compressed bytes fed so far: `none` = `zlib.error`; otherwise everything
that can be decoded from them and, if the end-of-stream marker lies inside them, the offset just after it. -/
structure Codec where
  inflate : Bytes → Option (Bytes × Option Nat)

/-- `zlib.decompressobj()` -/
structure Decomp where
  fed : Bytes
  outLen : Nat
  eof : Bool
  unused : Bytes     -- `unused_data`
deriving Repr, DecidableEq

def Decomp.fresh : Decomp := ⟨[], 0, false, []⟩

/-- `decompress(x)`. After `eof` CPython returns `b''` and appends `x` to `unused_data` (probed). -/
def Decomp.decompress (c : Codec) (d : Decomp) (x : Bytes) : Option (Decomp × Bytes) :=
  if d.eof then some ({ d with unused := d.unused ++ x }, [])
  else
    match c.inflate (d.fed ++ x) with
    | none => none
    | some (o, e) =>
      let out := o.drop d.outLen
      match e with
      | none => some ({ fed := d.fed ++ x, outLen := o.length, eof := false, unused := [] }, out)
      | some k => some ({ fed := d.fed ++ x, outLen := o.length, eof := true, unused := (d.fed ++ x).drop k }, out)

structure RawSrc where
  file : Bytes       -- content of `_fp`
  fpos : Nat         -- its position
  dec : Decomp       -- `_decompressor`
deriving Repr, DecidableEq

/-- `self._fp.read(n)` on a regular file / BytesIO. -/
def fpRead (r : RawSrc) (n : Nat) : Bytes × RawSrc :=
  let b := (r.file.drop r.fpos).take n
  (b, { r with fpos := r.fpos + b.length })

/-- Loop body of `_fill_buffer` on the pinned tree:
`rawblock = self._decompressor.unused_data or self._fp.read(_BUFFER_SIZE)`; `if not rawblock: raise EOFError`;
`self._buffer = self._decompressor.decompress(rawblock)`. -/
def rawStepOld (c : Codec) (r : RawSrc) : Step RawSrc :=
  let (rawblock, r') := if r.dec.unused ≠ [] then (r.dec.unused, r) else fpRead r BUFFER_SIZE
  if rawblock = [] then .eof
  else
    match r'.dec.decompress c rawblock with
    | none => .err .zlibError
    | some (d', out) => .chunk out { r' with dec := d' }

/-- Repaired loop body (F07): `if self._decompressor.eof: raise EOFError` before anything else. -/
def rawStep (c : Codec) (r : RawSrc) : Step RawSrc :=
  if r.dec.eof then .eof else rawStepOld c r

/-- `_rewind`: `self._fp.seek(0, 0)`; `self._decompressor = zlib.decompressobj(self.wbits)`. -/
def rawRewind (r : RawSrc) : RawSrc := { r with fpos := 0, dec := .fresh }

def rawSourceOld (c : Codec) : Source RawSrc := ⟨rawStepOld c, rawRewind⟩
def rawSource (c : Codec) : Source RawSrc := ⟨rawStep c, rawRewind⟩

def openRaw (file : Bytes) : ZFile RawSrc := openRead ⟨file, 0, .fresh⟩

/-- Raw blocks still to be read from `_fp`: `⌈remaining / 8192⌉`. -/
def blocksLeft (r : RawSrc) : Nat := (r.file.length - r.fpos + (BUFFER_SIZE - 1)) / BUFFER_SIZE

/-- Every decompressor state the file object can reach: `unused_data` is empty before end of stream. -/
def Decomp.WF (d : Decomp) : Prop := d.eof = false → d.unused = []

/-! ## Write side -/

/-- `zlib.compressobj`: `compress(data)` and `flush()`. -/
structure Compressor (γ : Type) where
  compress : γ → Bytes → γ × Bytes
  flush : γ → Bytes

structure WFile (γ : Type) where
  mode : Mode
  pos : Nat
  comp : γ             -- `_compressor`
  fp : Bytes           -- everything written to `_fp`
  handed : List Bytes  -- ghost: the arguments of the `compress` calls, in order
  flushes : Nat        -- ghost: number of `flush()` calls

def openWrite {γ : Type} (init : γ) : WFile γ := ⟨.write, 0, init, [], [], 0⟩

/-- `write(data)`; returns `len(data)`. -/
def WFile.write {γ : Type} (C : Compressor γ) (w : WFile γ) (data : Bytes) : Except Fault (WFile γ × Nat) :=
  match w.mode with
  | .write =>
    let (g, compressed) := C.compress w.comp data
    .ok ({ w with comp := g, fp := w.fp ++ compressed, pos := w.pos + data.length,
                  handed := w.handed ++ [data] }, data.length)
  | .closed => .error (.exc .valueError)
  | _ => .error (.exc .unsupportedOperation)

/-- `close()` -/
def WFile.close {γ : Type} (C : Compressor γ) (w : WFile γ) : WFile γ :=
  match w.mode with
  | .write => { w with fp := w.fp ++ C.flush w.comp, flushes := w.flushes + 1, mode := .closed }
  | _ => { w with mode := .closed }

def WFile.writeAll {γ : Type} (C : Compressor γ) : WFile γ → List Bytes → Except Fault (WFile γ)
  | w, [] => .ok w
  | w, d :: ds => match w.write C d with
    | .error f => .error f
    | .ok (w', _) => WFile.writeAll C w' ds

/-- What a one-shot use of the compressor produces for the chunk sequence `ds`. -/
def Compressor.stream {γ : Type} (C : Compressor γ) : γ → List Bytes → Bytes
  | g, [] => C.flush g
  | g, d :: ds => (C.compress g d).2 ++ Compressor.stream C (C.compress g d).1 ds

/-! ## The load path as far as C14 needs it -/

inductive Comp | compat | zlib | gzip | bz2 | lzma | xz | lz4 | notCompressed
deriving Repr, DecidableEq

/-- Magic numbers in the order of `_COMPRESSORS` (registration order in numpy_pickle.py). -/
def prefixes : List (Comp × Bytes) :=
  [ (.zlib, [0x78]), (.gzip, [0x1f, 0x8b]), (.bz2, [0x42, 0x5a]), (.lzma, [0x5d, 0x00]),
    (.xz, [0xfd, 0x37, 0x7a, 0x58, 0x5a]), (.lz4, [0x04, 0x22, 0x4d, 0x18]) ]

def startsWith : Bytes → Bytes → Bool
  | _, [] => true
  | [], _ :: _ => false
  | a :: as, b :: bs => a == b && startsWith as bs

/-- `_detect_compressor` on the first bytes of the file. -/
def detectCompressor (first : Bytes) : Comp :=
  if startsWith first [0x5a, 0x46] then .compat   -- b"ZF"
  else
    match prefixes.find? (fun pc => startsWith first pc.2) with
    | some pc => pc.1
    | none => .notCompressed

def IO_BUFFER_SIZE : Nat := 1024 * 1024

inductive LoadClass | raises | returnsOriginal | hang
deriving Repr, DecidableEq

/-- `load` on a zlib/gzip file: `io.BufferedReader(BinaryZlibFile(f), 1 MiB)` fills its buffer with
`readinto(<1 MiB>)` as long as the unpickler wants more; the unpickler contract: it returns the original
object as soon as it has seen the `need` bytes of the pickle (it stops at STOP), and raises when the stream
ends (`b''`) before that. `rounds` bounds the number of buffer fills. -/
def loadZ {σ : Type} (S : Source σ) (fuel need : Nat) : Nat → Nat → ZFile σ → LoadClass
  | 0, _, _ => .hang
  | rounds + 1, got, s =>
    match readinto S fuel IO_BUFFER_SIZE s with
    | .error .outOfFuel => .hang
    | .error (.exc _) => .raises
    | .ok (s, b) =>
      if b.isEmpty then .raises
      else if got + b.length ≥ need then .returnsOriginal
      else loadZ S fuel need rounds (got + b.length) s

inductive CallOutcome | servedFromCache | recomputed | hang
deriving Repr, DecidableEq

/-- `MemorizedFunc._cached_call` on an entry that exists: `try: return load(output.pkl)`;
`except Exception: warn` and fall through to `self._call(...)`. -/
def cachedCall : LoadClass → CallOutcome
  | .returnsOriginal => .servedFromCache
  | .raises => .recomputed
  | .hang => .hang

/-- `numpy_pickle_utils._read_bytes(fp, size)` over `fp.read`: loop until `size` bytes or an empty read.
`some data` = returned, `none` = `ValueError` (short). -/
def readBytesLoop {σ : Type} (S : Source σ) (fuel size : Nat) :
    Nat → Bytes → ZFile σ → Except Fault (ZFile σ × Bytes)
  | 0, _, _ => .error .outOfFuel
  | k + 1, data, s =>
    match read S fuel ((size : Int) - data.length) s with
    | .error f => .error f
    | .ok (s, r) =>
      let data := data ++ r
      if r.length = 0 ∨ data.length = size then
        if data.length ≠ size then .error (.exc .valueError) else .ok (s, data)
      else readBytesLoop S fuel size k data s

def readBytes {σ : Type} (S : Source σ) (fuel size : Nat) (s : ZFile σ) : Except Fault (ZFile σ × Bytes) :=
  readBytesLoop S fuel size (size + 1) [] s

/-! ## What `joblib.load` does with a damaged file, as a class -/

/-- A codec given by a table (what CPython's zlib was observed to do on this very file): cumulative input
length ↦ cumulative output length; `eofAt` = offset just after the end-of-stream marker, if the file has one.
Lengths that are not in the table make `inflate` fail (the driver validates the table first). -/
def scriptCodec (payload : Bytes) (eofAt : Option Nat) (table : List (Nat × Nat)) : Codec where
  inflate := fun fed =>
    match table.find? (fun t => t.1 == fed.length) with
    | none => none
    | some t =>
      some (payload.take t.2,
            match eofAt with
            | some e => if e ≤ fed.length then some e else none
            | none => none)

inductive Prediction
  | exact (c : LoadClass)
  | cpythonCodec      -- bz2 / lzma / xz: CPython's own file objects; contract only: raises or returns the original
  | unmodelled
deriving Repr, DecidableEq

/-- `load` on a file that `_detect_compressor` takes for a plain pickle. `origPlain`: the undamaged file was
an uncompressed pickle of `origLen` bytes (then a strict prefix raises and an extension returns the original:
unpickler contract); otherwise the bytes are a damaged compressed file shorter than its magic number: no STOP
opcode (0x2e) in it ⇒ the unpickler cannot return. -/
def loadPlain (origPlain : Bool) (origLen : Nat) (file : Bytes) : Prediction :=
  if origPlain then
    if file.length < origLen then .exact .raises else .exact .returnsOriginal
  else if file.contains 0x2e then .unmodelled else .exact .raises

/-- The outcome class of `joblib.load` on `file`. `S`/`s0`: the zlib/gzip file object over the file. -/
def predictLoad {σ : Type} (S : Source σ) (s0 : ZFile σ) (fuel need : Nat)
    (origPlain : Bool) (origLen : Nat) (file : Bytes) : Prediction :=
  match detectCompressor file with
  | .zlib | .gzip => .exact (loadZ S fuel need (need / IO_BUFFER_SIZE + 3) 0 s0)
  | .bz2 | .lzma | .xz => .cpythonCodec
  | .lz4 => .exact .raises          -- lz4 is not installed: `_check_versions` raises ValueError
  | .compat => .unmodelled
  | .notCompressed => loadPlain origPlain origLen file

end JoblibModel.ZlibFile
