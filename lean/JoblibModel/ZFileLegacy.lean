/-
Model of the reader of joblib's LEGACY "Z-file" format (joblib < 0.10; joblib/numpy_pickle_compat.py), still
reached by `joblib.load(<file name>)` through `load_compatibility` for every file that starts with b"ZF"
(property C14).

On-disk format (`write_zfile`):  b"ZF" ++ hex_str(len(data)).ljust(_MAX_LEN) ++ zlib.compress(data)
(python 2 with joblib <= 0.8.4 wrote a field one character wider, i.e. one more space before the zlib data).

Python → Lean (names of the Python variables kept):
* `_ZFILE_PREFIX` = b"ZF"            : `ZFILE_PREFIX`
* `_MAX_LEN` = len(hex_str(2**64))   : `MAX_LEN` (= 19)
* `header_length`                    : `HEADER_LENGTH` (= 21)
* `int(length, 16)` on `bytes`       : `pyIntHex` (CPython's rules: ASCII white space stripped at both ends, an
                                        optional sign, an optional `0x`/`0X`, hexadecimal digits with single
                                        underscores between digits or right after the `0x`; `none` = ValueError)
* `file_handle.seek(0)`, `.read(n)`, `.read(1)`, `.seek(header_length)`, `.read()` on a regular file:
                                        `take`/`drop` on the content (`read` past the end returns b"", `seek` past
                                        the end is allowed)
* `zlib.decompress(data, 15, length)`: the PARAMETER `D : Bytes → Option Bytes` (`none` = `zlib.error`); its third
                                        argument is the size of the first output buffer and has no influence on the
                                        result, except that a negative one is rejected with ValueError (probed)
* `read_zfile`                       : `readZfile` — straight-line code, no loop: it is total WITHOUT fuel
* `load_compatibility`               : `loadCompat` = `readZfile` + the unpickler contract (`need` = length of the
                                        pickle: the unpickler returns the original once it has these bytes, raises on
                                        fewer)
Import-free except for the outcome classes shared with `ZlibFile`.
-/
import JoblibModel.ZlibFile
namespace JoblibModel.ZFileLegacy
open JoblibModel.ZlibFile (Bytes LoadClass)

def ZFILE_PREFIX : Bytes := [0x5a, 0x46]
def MAX_LEN : Nat := 19
def HEADER_LENGTH : Nat := 21

/-- Exception classes `read_zfile` can raise (class name only). -/
inductive ZExc | valueError | zlibError | assertionError
deriving Repr, DecidableEq

/-- `Py_ISSPACE`: space, \t \n \v \f \r. -/
def isSpace (b : UInt8) : Bool := b == 32 || (9 ≤ b && b ≤ 13)

def hexDigit (b : UInt8) : Option Nat :=
  if 48 ≤ b ∧ b ≤ 57 then some (b.toNat - 48)
  else if 97 ≤ b ∧ b ≤ 102 then some (b.toNat - 87)
  else if 65 ≤ b ∧ b ≤ 70 then some (b.toNat - 55)
  else none

/-- The digits of `int(·, 16)`: single underscores between digits only; `pu` = the previous byte was `_`. -/
def digitsGo : Bytes → Nat → Bool → Option Nat
  | [], acc, pu => if pu then none else some acc
  | b :: r, acc, pu =>
    if b == 95 then (if pu then none else digitsGo r acc true)
    else
      match hexDigit b with
      | none => none
      | some d => digitsGo r (16 * acc + d) false

/-- `int(b, 16)` for a `bytes` object; `none` = ValueError. -/
def pyIntHex (b : Bytes) : Option Int :=
  let s := ((b.dropWhile isSpace).reverse.dropWhile isSpace).reverse
  let (neg, s) : Bool × Bytes := match s with
    | 43 :: r => (false, r)
    | 45 :: r => (true, r)
    | _ => (false, s)
  -- `0x` / `0X`, then "one underscore allowed here"
  let s : Bytes := match s with
    | 48 :: x :: r => if x == 120 || x == 88 then (match r with | 95 :: r' => r' | _ => r) else s
    | _ => s
  match s with
  | [] => none
  | c :: _ =>
    if c == 95 then none
    else (digitsGo s 0 false).map fun n => if neg then -(n : Int) else (n : Int)

/-- `read_zfile(file_handle)` on a file whose content is `file`. -/
def readZfile (D : Bytes → Option Bytes) (file : Bytes) : Except ZExc Bytes :=
  -- file_handle.seek(0); length = file_handle.read(header_length)
  let length := file.take HEADER_LENGTH
  -- length = length[len(_ZFILE_PREFIX):]; length = int(length, 16)
  match pyIntHex (length.drop ZFILE_PREFIX.length) with
  | none => .error .valueError
  | some length =>
    -- next_byte = file_handle.read(1); if next_byte != b" ": file_handle.seek(header_length)
    let next_byte := (file.drop HEADER_LENGTH).take 1
    let pos := if next_byte = [0x20] then HEADER_LENGTH + 1 else HEADER_LENGTH
    -- data = zlib.decompress(file_handle.read(), 15, length)
    if length < 0 then .error .valueError
    else
      match D (file.drop pos) with
      | none => .error .zlibError
      | some data =>
        -- assert len(data) == length
        if (data.length : Int) = length then .ok data else .error .assertionError

/-- `joblib.load(<name of a ZF file>)` = `load_compatibility`: `ZipNumpyUnpickler(BytesIO(read_zfile(f))).load()`
under the unpickler contract (the pickle has `need` bytes). -/
def loadCompat (D : Bytes → Option Bytes) (need : Nat) (file : Bytes) : LoadClass :=
  match readZfile D file with
  | .error _ => .raises
  | .ok data => if need ≤ data.length then .returnsOriginal else .raises

end JoblibModel.ZFileLegacy
