/-
Transient faults on the WRITE of `func_code.py` (property C12), on top of `JoblibModel.FuncCode`.

`MemorizedFunc._write_func_code` calls `store_backend.store_cached_func_code([func_id], func_code)`:
`open(<func dir>/func_code.py, "wb")` then ONE `write`.  Either may raise (`EMFILE`, `ENOSPC`, `EACCES`, …)
while the writes of the results that follow succeed.  All three callers of `_write_func_code` — the
"no func_code.py" branch of `_check_previous_func_code`, `MemorizedFunc.clear` reached from its
`ValueError` / "the text differs" branches, and `MemorizedFunc.clear` itself — write into a function
directory that holds NO `func_code.py` at that moment (it was missing, or `clear_path` has just removed the
directory), so:

Python → Lean
* `open(..., "wb")` raises: no file is made                                      : `WriteFault.onOpen`
* `f.write(...)` raises: the file `open` created is left, empty (`extract_first_line("")` returns the empty
  source: readable, no function's text)                                          : `WriteFault.onWrite`
* the exception leaves `_write_func_code` AFTER `_FUNC_CODE_WRITERS.pop(writer_key, None)` and BEFORE
  `_FUNCTION_HASHES[func] = …` / `_FUNC_CODE_WRITERS[writer_key] = …`            : `writeFails`
* … and leaves `_check_previous_func_code`, `_cached_call` (before the function is executed, before
  anything is stored), `check_call_in_cache`, `clear`: the caller sees the `OSError` : `FOut.raised`
* an operation that runs while the next write of `func_code.py` fails           : `FOp.faulty f op`
  (the fault is one-shot and armed for that operation only: when the operation writes no `func_code.py` —
  the in-memory shortcut answers, or the stored text is the current one — it runs as usual)

`swallow` selects the version of `store_cached_func_code`:
* `false` — the code as it is: the exception propagates;
* `true`  — a seeded regression: the failing write is caught and only warned about (as `dump_item` and
  `store_metadata` do for results): `_write_func_code` goes on and registers the function in both
  in-memory tables, the call executes and stores its result in a directory WITHOUT `func_code.py`.

Import-free apart from `JoblibModel.FuncCode`; total, computable.
-/
import JoblibModel.FuncCode
namespace JoblibModel.FuncCode
open JoblibModel.FilterArgs (dget dset)

/-- Where the write of `func_code.py` fails. -/
inductive WriteFault where
  | onOpen
  | onWrite
deriving DecidableEq, Repr

/-- An operation, or an operation during which the write of `func_code.py` (if any) fails. -/
inductive FOp where
  | plain (op : Op)
  | faulty (f : WriteFault) (op : Op)
deriving DecidableEq, Repr

/-- The underlying operation. -/
def FOp.op : FOp → Op
  | .plain op => op
  | .faulty _ op => op

inductive FOut (R : Type) where
  | out (o : Out R)
  /-- the `OSError` of the failing write reaches the caller -/
  | raised
deriving DecidableEq, Repr

variable {R : Type}

/-- What the failing write leaves of `func_code.py` in a directory that had none. -/
def leftBy (c : CodeFile) : WriteFault → CodeFile
  | .onOpen => c
  | .onWrite => .other

/-- `_write_func_code` whose `store_cached_func_code` RAISES: the writer entry was popped, the tables are
not updated. -/
def writeFails (cfg : Cfg) (st : State R) (t : Target) (f : WriteFault) : State R :=
  { st with
    disk := dset t.dir { dirAt st t.dir with code := leftBy (dirAt st t.dir).code f } st.disk
    writers := ddel (wkey cfg t.key t.dir) st.writers }

/-- `_write_func_code` whose `store_cached_func_code` SWALLOWS the failure (the seeded regression): nothing
(or an empty file) on disk, but both tables are updated as after a successful write. -/
def writeSwallowed (cfg : Cfg) (st : State R) (t : Target) (f : WriteFault) : State R :=
  { st with
    disk := dset t.dir { dirAt st t.dir with code := leftBy (dirAt st t.dir).code f } st.disk
    table := if t.named then dset t.o t.cur st.table else st.table
    writers :=
      if t.named then dset (wkey cfg t.key t.dir) (t.o, t.cur) st.writers
      else ddel (wkey cfg t.key t.dir) st.writers }

/-- The failing `_write_func_code`: `none` = the exception propagates. -/
def failWrite (cfg : Cfg) (swallow : Bool) (st : State R) (t : Target) (f : WriteFault) :
    Option Bool × State R :=
  if swallow then (some false, writeSwallowed cfg st t f) else (none, writeFails cfg st t f)

/-- `clear_path` of the wrapper's function directory. -/
def clearPath (st : State R) (t : Target) : State R := { st with disk := dset t.dir {} st.disk }

/-- `_check_previous_func_code` while the write of `func_code.py` fails: the answer (`none`: it raised)
and the state afterwards. -/
def checkPreviousF (cfg : Cfg) (swallow : Bool) (st : State R) (t : Target) (f : WriteFault) :
    Option Bool × State R :=
  if shortcut cfg st t then (some true, st)
  else
    let fi := funcCodeInfo cfg t.cur t.ic
    let st1 := { st with wraps := dset t.w (t.wrapper fi.2) st.wraps }
    match (dirAt st t.dir).code with
    | .missing => failWrite cfg swallow st1 t f
    | .unreadable => failWrite cfg swallow (clearPath st1 t) t f
    | .other => failWrite cfg swallow (clearPath st1 t) t f
    | .ok old => if old = fi.1 then (some true, st1) else failWrite cfg swallow (clearPath st1 t) t f

def stepF (cfg : Cfg) (swallow : Bool) (sem : Src → Nat → R) (st : State R) : FOp → FOut R × State R
  | .plain op => (.out (step cfg sem st op).1, (step cfg sem st op).2)
  | .faulty f (.call w a) =>
    match lookup st w with
    | none => (.out .notLive, st)
    | some t =>
      let r := checkPreviousF cfg swallow st t f
      match r.1 with
      | none => (.raised, r.2)                       -- nothing executed, nothing stored
      | some b =>
        match (if b then dget a (dirAt r.2 t.dir).entries else none) with
        | some v => (.out (.value v false), r.2)
        | none =>
          let v := sem t.cur.2 a
          (.out (.value v true),
            { r.2 with disk := dset t.dir { dirAt r.2 t.dir with entries := dset a v (dirAt r.2 t.dir).entries } r.2.disk })
  | .faulty f (.check w a) =>
    match lookup st w with
    | none => (.out .notLive, st)
    | some t =>
      let r := checkPreviousF cfg swallow st t f
      match r.1 with
      | none => (.raised, r.2)
      | some b => (.out (.flag (if b then (dget a (dirAt r.2 t.dir).entries).isSome else false)), r.2)
  | .faulty f (.clearFn w) =>
    match lookup st w with
    | none => (.out .notLive, st)
    | some t =>
      let fi := funcCodeInfo cfg t.cur t.ic
      let r := failWrite cfg swallow (clearPath { st with wraps := dset w (t.wrapper fi.2) st.wraps } t) t f
      match r.1 with
      | none => (.raised, r.2)
      | some _ => (.out .done, r.2)
  -- no other operation writes `func_code.py`: the fault does not fire
  | .faulty _ op => (.out (step cfg sem st op).1, (step cfg sem st op).2)

/-- Outputs of a history with faults. -/
def runF (cfg : Cfg) (swallow : Bool) (sem : Src → Nat → R) : State R → List FOp → List (FOut R)
  | _, [] => []
  | st, op :: ops => (stepF cfg swallow sem st op).1 :: runF cfg swallow sem (stepF cfg swallow sem st op).2 ops

/-- State after a history with faults. -/
def execF (cfg : Cfg) (swallow : Bool) (sem : Src → Nat → R) : State R → List FOp → State R
  | st, [] => st
  | st, op :: ops => execF cfg swallow sem (stepF cfg swallow sem st op).2 ops

end JoblibModel.FuncCode
