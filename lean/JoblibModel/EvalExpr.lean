/-
Model of `joblib/_utils.py: eval_expr / eval_ / operators` and of the `pre_dispatch` resolution in
`joblib/parallel.py: Parallel.__call__` (the lines between `pre_dispatch = self.pre_dispatch` and
`iterator = itertools.islice(iterator, self._pre_dispatch_amount)`).  Import-free, total, structural recursion / fuel only.

Python → Lean

| Python                                                        | Lean                                                     |
|---------------------------------------------------------------|----------------------------------------------------------|
| `ast.parse(expr, mode="eval").body`                           | `Ast` (what the node CAN be); `parse` (a sub-grammar)    |
| `ast.Constant.value` (int, float, bool, str, bytes, None, …)  | `Const` = `Val` (the node's value is returned as it is)  |
| `ast.BinOp.op` (13 operator classes), `ast.UnaryOp.op` (4)    | `BinOp`, `UnOp`                                          |
| every other `ast.expr` class (Name, Call, Attribute, …)       | `Ast.other kind`                                         |
| `operators` (dict: 7 binary operator classes + `ast.USub`)    | `binFn?` (`none` = `KeyError`), `UnOp.usub`              |
| `operators[type(node.op)](eval_(node.left), eval_(node.right))` | `evalRaw`: LOOKUP first, then left, then right, then the call |
| `op.add … op.pow`, `op.neg` on Python objects                 | `Ops.apply`, `Ops.neg`; the instance `pyOps` (below)     |
| `eval_`                                                       | `eval_ := evalRaw pyOps`                                 |
| `eval_expr`: `except (TypeError, SyntaxError, KeyError) → ValueError` | `wrap`, `evalExpr`, `evalExprText`               |
| `pre_dispatch.replace("n_jobs", str(n_jobs))`                 | `substitute`                                             |
| `int(...)`                                                    | `intOf`                                                  |
| `itertools.islice(iterator, amount)`                          | `isliceStop` (negative or `> sys.maxsize` → `ValueError`) |
| the whole resolution                                          | `resolvePreDispatch`                                     |

`evalRaw` is generic in the interpretation `Ops α` of the eight operator functions: the "arithmetic only" theorems
(`JoblibProofs/C09.lean`) hold for EVERY interpretation, so they do not depend on how faithfully numbers are modelled.

The interpretation `pyOps` (what the operator functions do on the values a `Constant` can carry):

* `int` and `bool` (a `bool` operand counts as the int 0/1; the result of an operation is an `int`): exact. `//` and `%`
  are computed as CPython's `l_divmod` does (C truncating division, then the sign fix-up), `**` with a non-negative
  exponent by left-to-right square-and-multiply as `long_pow` does; a negative exponent goes to `float_pow`;
  `/` is the correctly rounded quotient (`long_true_divide`), `OverflowError` when it is too large for a float;
  division by zero → `ZeroDivisionError`. NOT caught by `eval_expr`: `ZeroDivisionError`, `OverflowError`.
* `float`: IEEE binary64 values, EXACTLY: `Flt.fin m e` is the double `m·2^e` (canonical: `m` odd, or `0·2^0`; the sign of
  zero is not tracked — no operator reachable from `eval_expr` observes it), `inf`, `ninf`, `nan`. `+ - * /` and the
  int→float conversion are correctly rounded (round-half-even, overflow to ±inf for `+ - *`, `OverflowError` for the
  conversion), `//` and `%` transcribe `_float_div_mod` / `float_rem` (exact `fmod`, then rounded operations).
  `**` transcribes the special cases of `float_pow`; in the general case (finite base, finite non-zero exponent)
  the result is tracked only when the exponent is an integer with `|exponent| ≤ 2200` and the real number `base^exponent`
  is itself a double (then any libm `pow` with error < 1 ulp returns it) or is `≥ 2^1024` (`OverflowError`); every other
  float power is `Res.untracked`: the model ABSTAINS (no prediction; the harness then compares nothing but the oracle).
* `str` / `bytes` (code points / byte values): `+` of two of the same kind, `*` with an int/bool on either side (result
  length ≤ 2^20, count within ssize_t; otherwise untracked); `%` with a str/bytes LEFT operand is printf-formatting:
  untracked; every other combination → `TypeError` (→ `ValueError`).
* `None`, `Ellipsis`: every operation → `TypeError` (→ `ValueError`).
* `complex` (`1j`; content not tracked): a constant evaluates to `cplx`, `-cplx = cplx`; every binary operation
  with a complex operand is untracked.
* Python's recursion limit (`RecursionError` for ASTs deeper than ~900) and `MemoryError` are outside the model.

`parse` covers the sub-grammar: decimal/hex/octal/binary integers, float and imaginary literals (with `_`), names,
`True`/`False`/`None`, parentheses, the 13 binary and 3 symbolic unary operators with Python's precedences, `.name`
trailers, `()`, blanks/tabs, `#` comments. Every text containing anything else (quotes, brackets, commas, comparisons,
keywords, newlines, non-ASCII, …) or longer than 400 characters is `PRes.abstain`: the model does not parse it.
-/
namespace JoblibModel.EvalExpr

/-! ## The AST -/

/-- The 13 subclasses of `ast.operator`. -/
inductive BinOp where
  | add | sub | mult | div | floorDiv | mod | pow | matMult | lShift | rShift | bitOr | bitXor | bitAnd
deriving DecidableEq, Repr, Inhabited

/-- The 4 subclasses of `ast.unaryop`. -/
inductive UnOp where
  | usub | uadd | not | invert
deriving DecidableEq, Repr, Inhabited

/-- An IEEE binary64 value; `fin m e` = `m · 2^e`. -/
inductive Flt where
  | fin (m : Int) (e : Int)
  | inf | ninf | nan
deriving DecidableEq, Repr, Inhabited

/-- What `ast.Constant.value` can be. `str`/`bytes` carry code points / byte values. -/
inductive Const where
  | int (n : Int)
  | flt (f : Flt)
  | bool (b : Bool)
  | str (s : List Nat)
  | bytes (s : List Nat)
  | none
  | ellipsis
  | cplx
deriving DecidableEq, Repr, Inhabited

/-- `eval_` returns `node.value` as it is: values are constants. -/
abbrev Val := Const

/-- Every `ast.expr` class other than `Constant`, `BinOp`, `UnaryOp` (Python 3.12). -/
inductive NodeKind where
  | name | call | attribute | subscript | compare | boolOp | ifExp | lambda | tuple | list | set | dict
  | listComp | setComp | dictComp | generatorExp | await | yield | yieldFrom | joinedStr | formattedValue
  | namedExpr | starred | slice
deriving DecidableEq, Repr, Inhabited

inductive Ast where
  | const (c : Const)
  | binOp (op : BinOp) (l r : Ast)
  | unaryOp (op : UnOp) (e : Ast)
  | other (kind : NodeKind)
deriving DecidableEq, Repr, Inhabited

inductive Exc where
  | ValueError | TypeError | KeyError | SyntaxError | ZeroDivisionError | OverflowError
deriving DecidableEq, Repr, Inhabited

/-- Outcome of a Python computation: a value, an exception class, or `untracked` (the MODEL abstains: it predicts
nothing about this computation; propagates like an exception). -/
inductive Res (α : Type) where
  | ok (v : α)
  | raise (e : Exc)
  | untracked
deriving DecidableEq, Repr, Inhabited

/-! ## `eval_`, generic in the operator functions -/

/-- The seven binary operator classes that are keys of `operators`. -/
inductive Fn where
  | add | sub | mul | truediv | floordiv | mod | pow
deriving DecidableEq, Repr, Inhabited

/-- `operators[type(node.op)]` for a `BinOp` node: `none` = `KeyError`. -/
def binFn? : BinOp → Option Fn
  | .add => some .add | .sub => some .sub | .mult => some .mul | .div => some .truediv
  | .floorDiv => some .floordiv | .mod => some .mod | .pow => some .pow
  | .matMult | .lShift | .rShift | .bitOr | .bitXor | .bitAnd => none

/-- An interpretation of `node.value` and of the operator functions `op.add … op.pow`, `op.neg`. -/
structure Ops (α : Type) where
  const : Const → α
  apply : Fn → α → α → Res α
  neg : α → Res α

/-- `eval_` (exceptions as raised, before `eval_expr` re-labels them). -/
def evalRaw {α : Type} (ops : Ops α) : Ast → Res α
  | .const c => .ok (ops.const c)
  | .binOp op l r =>
    match binFn? op with
    | none => .raise .KeyError                       -- the dictionary lookup comes first
    | some f =>
      match evalRaw ops l with
      | .ok a =>
        match evalRaw ops r with
        | .ok b => ops.apply f a b
        | .raise x => .raise x
        | .untracked => .untracked
      | .raise x => .raise x
      | .untracked => .untracked
  | .unaryOp op e =>
    match op with
    | .usub =>
      match evalRaw ops e with
      | .ok a => ops.neg a
      | .raise x => .raise x
      | .untracked => .untracked
    | .uadd | .not | .invert => .raise .KeyError
  | .other _ => .raise .TypeError

/-- `except (TypeError, SyntaxError, KeyError) as e: raise ValueError(...) from e`. -/
def wrap {α : Type} : Res α → Res α
  | .raise .TypeError | .raise .SyntaxError | .raise .KeyError => .raise .ValueError
  | r => r

/-- `eval_expr` on an already parsed expression, for any interpretation. -/
def evalExprWith {α : Type} (ops : Ops α) (e : Ast) : Res α := wrap (evalRaw ops e)

/-- The fragment `eval_` can evaluate: constants, the 7 supported binary operators, unary minus. -/
def isArith : Ast → Bool
  | .const _ => true
  | .binOp op l r => (binFn? op).isSome && isArith l && isArith r
  | .unaryOp .usub e => isArith e
  | .unaryOp _ _ => false
  | .other _ => false

/-! ## Integers as CPython computes them -/

/-- `l_divmod`: C division truncates; when the remainder is non-zero and its sign differs from the divisor's,
`mod += w; div -= 1`. -/
def pyDivMod (a b : Int) : Int × Int :=
  let q := Int.tdiv a b
  let r := Int.tmod a b
  if r ≠ 0 ∧ (decide (r < 0) != decide (b < 0)) then (q - 1, r + b) else (q, r)

/-- Bits of `n`, most significant first. -/
def bitsMsb : Nat → Nat → List Bool → List Bool
  | 0, _, acc => acc
  | f + 1, n, acc => if n = 0 then acc else bitsMsb f (n / 2) ((n % 2 == 1) :: acc)

/-- `long_pow` for a non-negative exponent: left-to-right binary exponentiation. -/
def pyPowNat (a : Int) (n : Nat) : Int :=
  (bitsMsb (n.log2 + 1) n []).foldl (fun z b => if b then z * z * a else z * z) 1

/-! ## binary64 -/

/-- Round-half-even of `n / d` (`d > 0`). -/
def rnDiv (n d : Nat) : Nat :=
  let q := n / d
  let r := n % d
  if 2 * r < d then q else if d < 2 * r then q + 1 else if q % 2 = 0 then q else q + 1

/-- Strip factors of two (canonical significand). -/
def canonFuel : Nat → Nat → Int → Nat × Int
  | 0, m, e => (m, e)
  | f + 1, m, e => if m ≠ 0 ∧ m % 2 = 0 then canonFuel f (m / 2) (e + 1) else (m, e)

def mkFin (neg : Bool) (m : Nat) (e : Int) : Flt :=
  if m = 0 then .fin 0 0
  else
    let p := canonFuel (m.log2 + 1) m e
    .fin (if neg then -(p.1 : Int) else (p.1 : Int)) p.2

/-- `n · 2^(-e) / d` as a pair numerator / denominator. -/
def scaled (n d : Nat) (e : Int) : Nat × Nat :=
  if 0 ≤ e then (n, d * 2 ^ e.toNat) else (n * 2 ^ (-e).toNat, d)

/-- The binary64 nearest to `± n/d` (`n, d > 0`), ties to even, gradual underflow, overflow to ±inf. -/
def roundPos (neg : Bool) (n d : Nat) : Flt :=
  let L : Int := (n.log2 : Int) - (d.log2 : Int)
  let e0 : Int := L - 52
  let s0 := scaled n d e0
  let e1 : Int := if s0.1 / s0.2 < 2 ^ 52 then e0 - 1 else e0
  let e : Int := if e1 < -1074 then -1074 else e1
  let s := scaled n d e
  let m := rnDiv s.1 s.2
  if 971 < e ∨ (e = 971 ∧ 2 ^ 53 ≤ m) then (if neg then .ninf else .inf) else mkFin neg m e

/-- The binary64 nearest to the rational `n/d` (`d > 0`). -/
def roundRat (n : Int) (d : Nat) : Flt :=
  if n = 0 then .fin 0 0 else roundPos (decide (n < 0)) n.natAbs d

/-- A finite double as an exact fraction with a power-of-two denominator. -/
def finRat (m e : Int) : Int × Nat :=
  if 0 ≤ e then (m * 2 ^ e.toNat, 1) else (m, 2 ^ (-e).toNat)

/-- `PyLong_AsDouble`: correctly rounded, `OverflowError` ("int too large to convert to float"). -/
def intToFlt (n : Int) : Res Flt :=
  match roundRat n 1 with
  | .inf | .ninf => .raise .OverflowError
  | f => .ok f

def Flt.neg : Flt → Flt
  | .fin m e => .fin (-m) e
  | .inf => .ninf
  | .ninf => .inf
  | .nan => .nan

/-- -1, 0, 1; `nan` has no sign (callers test `nan` first). -/
def Flt.sign : Flt → Int
  | .fin m _ => if m < 0 then -1 else if m = 0 then 0 else 1
  | .inf => 1
  | .ninf => -1
  | .nan => 0

def Flt.isZero : Flt → Bool
  | .fin m _ => m == 0
  | _ => false

def ofSign (s : Int) : Flt := if s < 0 then .ninf else .inf

def fadd : Flt → Flt → Flt
  | .nan, _ | _, .nan => .nan
  | .inf, .ninf | .ninf, .inf => .nan
  | .inf, _ | _, .inf => .inf
  | .ninf, _ | _, .ninf => .ninf
  | .fin m1 e1, .fin m2 e2 =>
    let a := finRat m1 e1
    let b := finRat m2 e2
    roundRat (a.1 * b.2 + b.1 * a.2) (a.2 * b.2)

def fsub (x y : Flt) : Flt := fadd x y.neg

def fmul : Flt → Flt → Flt
  | .nan, _ | _, .nan => .nan
  | .fin m1 e1, .fin m2 e2 =>
    let a := finRat m1 e1
    let b := finRat m2 e2
    roundRat (a.1 * b.1) (a.2 * b.2)
  | x, y => if x.isZero || y.isZero then .nan else ofSign (x.sign * y.sign)

/-- IEEE division; the callers have excluded a zero divisor. -/
def fdivNZ : Flt → Flt → Flt
  | .nan, _ | _, .nan => .nan
  | .fin m1 e1, .fin m2 e2 =>
    let a := finRat m1 e1
    let b := finRat m2 e2
    -- (a.1/a.2) / (b.1/b.2) = (a.1 * b.2) / (a.2 * b.1), sign moved to the numerator
    let num := a.1 * b.2 * (if b.1 < 0 then -1 else 1)
    roundRat num (a.2 * b.1.natAbs)
  | .fin _ _, _ => .fin 0 0
  | x, .fin m _ => ofSign (x.sign * (if m < 0 then -1 else 1))
  | _, _ => .nan

/-- C `fmod(x, y)` for `y ≠ 0`: exact; sign of `x`. -/
def fmodC : Flt → Flt → Flt
  | .nan, _ | _, .nan => .nan
  | .inf, _ | .ninf, _ => .nan
  | x, .inf | x, .ninf => x
  | .fin m1 e1, .fin m2 e2 =>
    let a := finRat m1 e1
    let b := finRat m2 e2
    roundRat (Int.tmod (a.1 * b.2) (b.1 * a.2)) (a.2 * b.2)

/-- C `floor`. -/
def ffloor : Flt → Flt
  | .fin m e =>
    let a := finRat m e
    roundRat (Int.fdiv a.1 a.2) 1
  | x => x

def Flt.ltZero (x : Flt) : Bool := x.sign < 0

/-- `x > 1/2` for the `div - floordiv > 0.5` test (false for `nan`). -/
def Flt.gtHalf : Flt → Bool
  | .fin m e => let a := finRat m e; decide ((a.2 : Int) < 2 * a.1)
  | .inf => true
  | _ => false

def one : Flt := .fin 1 0

/-- `float_rem` after the zero test. -/
def floatRem (vx wx : Flt) : Flt :=
  let mod := fmodC vx wx
  if !mod.isZero then
    if wx.ltZero != mod.ltZero then fadd mod wx else mod
  else .fin 0 0

/-- `_float_div_mod` (the quotient) after the zero test. -/
def floatFloorDiv (vx wx : Flt) : Flt :=
  let mod := fmodC vx wx
  let div0 := fdivNZ (fsub vx mod) wx
  let div := if !mod.isZero && (wx.ltZero != mod.ltZero) then fsub div0 one else div0
  if !div.isZero then
    let fl := ffloor div
    if (fsub div fl).gtHalf then fadd fl one else fl
  else .fin 0 0

/-- `DOUBLE_IS_ODD_INTEGER`. -/
def Flt.isOddInt : Flt → Bool
  | .fin m e => e == 0 && m % 2 != 0      -- canonical form: an odd integer is `m·2^0` with `m` odd
  | _ => false

/-- Is the finite double an integer? Canonical form: `e ≥ 0`, or zero. -/
def finIsInt (m e : Int) : Bool := decide (0 ≤ e) || m == 0

/-- `|x| == 1`, `|x| > 1` for finite / infinite `x`. -/
def absCmpOne : Flt → Int      -- -1: |x| < 1, 0: |x| = 1, 1: |x| > 1
  | .fin m e => let a := finRat m e; if a.1.natAbs < a.2 then -1 else if a.1.natAbs = a.2 then 0 else 1
  | _ => 1

/-- The largest `|exponent|` for which a float power is computed exactly by the model. -/
def powExpBound : Nat := 2200

/-- The general case of `float_pow`: finite `iv > 0`, `iv ≠ 1`, finite `iw ≠ 0` → libm `pow`, `OverflowError` on `ERANGE`
overflow. Tracked only when the exponent is an integer of absolute value ≤ `powExpBound` and the exact result is a
double or ≥ 2^1024. -/
def powGeneral (negate : Bool) (mv ev mw ew : Int) : Res Flt :=
  if !finIsInt mw ew then .untracked
  else
    let w := (finRat mw ew).1
    if powExpBound < w.natAbs then .untracked
    else
      let a := finRat mv ev
      let k := w.natAbs
      let num : Nat := if 0 ≤ w then a.1.natAbs ^ k else a.2 ^ k
      let den : Nat := if 0 ≤ w then a.2 ^ k else a.1.natAbs ^ k
      if 2 ^ 1024 * den ≤ num then .raise .OverflowError
      else
        match roundPos negate num den with
        | .fin m e =>
          let b := finRat m e
          -- exactly representable?  b.1/b.2 = ± num/den
          if b.1.natAbs * den = num * b.2 then .ok (.fin m e) else .untracked
        | _ => .untracked

/-- `float_pow(iv, iw)` (third argument `None`). A negative base with a non-integer exponent goes to `complex_pow`:
untracked. -/
def floatPow (iv iw : Flt) : Res Flt :=
  if iw.isZero then .ok one                                   -- x**0 is 1, even 0**0 and nan**0
  else match iv, iw with
  | .nan, _ => .ok .nan
  | _, .nan => .ok (if iv = one then one else .nan)
  | _, .inf | _, .ninf =>
    let c := absCmpOne iv
    if c = 0 then .ok one
    else if (decide (0 < iw.sign)) == (decide (0 < c)) then .ok .inf
    else .ok (.fin 0 0)
  | .inf, _ | .ninf, _ =>
    let odd := iw.isOddInt
    if 0 < iw.sign then .ok (if odd then iv else .inf)
    else .ok (.fin 0 0)
  | .fin mv ev, .fin mw ew =>
    if mv = 0 then
      if mw < 0 then .raise .ZeroDivisionError               -- "0.0 cannot be raised to a negative power"
      else .ok (.fin 0 0)
    else
      let negBase := decide (mv < 0)
      if negBase && !finIsInt mw ew then .untracked            -- complex result
      else
        let negate := negBase && iw.isOddInt
        let mv' := if negBase then -mv else mv
        if (Flt.fin mv' ev) = one then .ok (if negate then .fin (-1) 0 else one)
        else powGeneral negate mv' ev mw ew

/-! ## The operator functions on Python values (`pyOps`) -/

inductive Num where
  | i (n : Int)
  | f (x : Flt)

/-- int / bool / float operands (`bool` is a subclass of `int`). -/
def num? : Val → Option Num
  | .int n => some (.i n)
  | .bool b => some (.i (if b then 1 else 0))
  | .flt x => some (.f x)
  | _ => none

def Num.toFlt : Num → Res Flt
  | .i n => intToFlt n
  | .f x => .ok x

/-- A float operation after `CONVERT_TO_DOUBLE(v)`, `CONVERT_TO_DOUBLE(w)` (in this order). -/
def withFloats (a b : Num) (k : Flt → Flt → Res Val) : Res Val :=
  match a.toFlt with
  | .ok x =>
    match b.toFlt with
    | .ok y => k x y
    | .raise e => .raise e
    | .untracked => .untracked
  | .raise e => .raise e
  | .untracked => .untracked

def fltRes : Res Flt → Res Val
  | .ok x => .ok (.flt x)
  | .raise e => .raise e
  | .untracked => .untracked

/-- Bound (in bits) above which an integer power is not computed by the model. -/
def intPowBitBound : Nat := 4000000

def applyNum (f : Fn) (a b : Num) : Res Val :=
  match a, b with
  | .i x, .i y =>
    match f with
    | .add => .ok (.int (x + y))
    | .sub => .ok (.int (x - y))
    | .mul => .ok (.int (x * y))
    | .truediv =>
      if y = 0 then .raise .ZeroDivisionError
      else
        -- `long_true_divide`: the correctly rounded quotient
        match roundRat (x * (if y < 0 then -1 else 1)) y.natAbs with
        | .inf | .ninf => .raise .OverflowError
        | q => .ok (.flt q)
    | .floordiv => if y = 0 then .raise .ZeroDivisionError else .ok (.int (pyDivMod x y).1)
    | .mod => if y = 0 then .raise .ZeroDivisionError else .ok (.int (pyDivMod x y).2)
    | .pow =>
      if 0 ≤ y then
        if x = 0 ∨ x = 1 ∨ x = -1 ∨ (x.natAbs.log2 + 1) * y.toNat ≤ intPowBitBound then .ok (.int (pyPowNat x y.toNat))
        else .untracked
      else withFloats a b (fun u v => fltRes (floatPow u v))
  | _, _ =>
    match f with
    | .add => withFloats a b (fun u v => .ok (.flt (fadd u v)))
    | .sub => withFloats a b (fun u v => .ok (.flt (fsub u v)))
    | .mul => withFloats a b (fun u v => .ok (.flt (fmul u v)))
    | .truediv => withFloats a b (fun u v => if v.isZero then .raise .ZeroDivisionError else .ok (.flt (fdivNZ u v)))
    | .floordiv => withFloats a b (fun u v => if v.isZero then .raise .ZeroDivisionError else .ok (.flt (floatFloorDiv u v)))
    | .mod => withFloats a b (fun u v => if v.isZero then .raise .ZeroDivisionError else .ok (.flt (floatRem u v)))
    | .pow => withFloats a b (fun u v => fltRes (floatPow u v))

/-- Largest sequence the model builds for `seq * n`. -/
def seqLenBound : Nat := 2 ^ 20

def repeatSeq (s : List Nat) (n : Int) : Option (List Nat) :=
  if n < -(2 ^ 63) ∨ 2 ^ 63 ≤ n then none              -- `OverflowError`/`MemoryError` region: not modelled
  else if n ≤ 0 ∨ s.isEmpty then some []
  else if s.length * n.toNat ≤ seqLenBound then some ((List.replicate n.toNat s).flatten) else none

def isCplx : Val → Bool
  | .cplx => true
  | _ => false

def intLike? : Val → Option Int
  | .int n => some n
  | .bool b => some (if b then 1 else 0)
  | _ => none

/-- `operators[...]( a, b )`. -/
def applyVal (f : Fn) (a b : Val) : Res Val :=
  if isCplx a || isCplx b then .untracked
  else match num? a, num? b with
  | some x, some y => applyNum f x y
  | _, _ =>
    match f, a, b with
    | .mod, .str _, _ | .mod, .bytes _, _ => .untracked          -- printf-style formatting
    | .add, .str s, .str t => .ok (.str (s ++ t))
    | .add, .bytes s, .bytes t => .ok (.bytes (s ++ t))
    | .mul, .str s, y =>
      match intLike? y with
      | some n => (match repeatSeq s n with | some r => .ok (.str r) | none => .untracked)
      | none => .raise .TypeError
    | .mul, .bytes s, y =>
      match intLike? y with
      | some n => (match repeatSeq s n with | some r => .ok (.bytes r) | none => .untracked)
      | none => .raise .TypeError
    | .mul, x, .str s =>
      match intLike? x with
      | some n => (match repeatSeq s n with | some r => .ok (.str r) | none => .untracked)
      | none => .raise .TypeError
    | .mul, x, .bytes s =>
      match intLike? x with
      | some n => (match repeatSeq s n with | some r => .ok (.bytes r) | none => .untracked)
      | none => .raise .TypeError
    | _, _, _ => .raise .TypeError

/-- `op.neg(a)`. -/
def negVal : Val → Res Val
  | .int n => .ok (.int (-n))
  | .bool b => .ok (.int (if b then -1 else 0))
  | .flt x => .ok (.flt x.neg)
  | .cplx => .ok .cplx
  | _ => .raise .TypeError

def pyOps : Ops Val := ⟨id, applyVal, negVal⟩

/-- `eval_` of `_utils.py`. -/
def eval_ (e : Ast) : Res Val := evalRaw pyOps e

/-- `eval_expr` on the parsed expression. -/
def evalExpr (e : Ast) : Res Val := evalExprWith pyOps e

/-! ## Text: `.replace("n_jobs", str(n_jobs))` -/

abbrev Text := List Char

def digitChar : Nat → Char
  | 0 => '0' | 1 => '1' | 2 => '2' | 3 => '3' | 4 => '4' | 5 => '5' | 6 => '6' | 7 => '7' | 8 => '8' | _ => '9'

def digitsFuel : Nat → Nat → Text → Text
  | 0, _, acc => acc
  | f + 1, n, acc =>
    let acc' := digitChar (n % 10) :: acc
    if n / 10 = 0 then acc' else digitsFuel f (n / 10) acc'

/-- `str(n)` for an int. -/
def strInt (n : Int) : Text :=
  let d := digitsFuel (n.natAbs.log2 + 2) n.natAbs []
  if n < 0 then '-' :: d else d

def nJobsPat : Text := ['n', '_', 'j', 'o', 'b', 's']

/-- `str.replace(old="n_jobs", new)`: leftmost, non-overlapping occurrences; `skip` = characters of a matched
occurrence still to drop. -/
def replaceGo (new : Text) : Nat → Text → Text
  | _, [] => []
  | skip + 1, _ :: cs => replaceGo new skip cs
  | 0, c :: cs =>
    if nJobsPat.isPrefixOf (c :: cs) then new ++ replaceGo new 5 cs else c :: replaceGo new 0 cs

def substitute (s : Text) (n_jobs : Int) : Text := replaceGo (strInt n_jobs) 0 s

/-! ## Text: the parser (a sub-grammar of `ast.parse(…, mode="eval")`) -/

inductive Tok where
  | num (c : Const)
  | name (s : Text)
  | lpar | rpar | dot | tilde
  | bin (op : BinOp)          -- `+` and `-` are `bin add`, `bin sub` (also used as unary signs)
deriving DecidableEq, Repr, Inhabited

/-- Result of lexing / parsing: a value, `SyntaxError`, or the model abstains. -/
inductive PRes (α : Type) where
  | ok (v : α)
  | syntaxError
  | abstain
deriving DecidableEq, Repr, Inhabited

def isDigit (c : Char) : Bool := '0' ≤ c && c ≤ '9'
def isAlpha (c : Char) : Bool := ('a' ≤ c && c ≤ 'z') || ('A' ≤ c && c ≤ 'Z') || c == '_'
def isIdent (c : Char) : Bool := isAlpha c || isDigit c
def digitVal (c : Char) : Nat := c.toNat - 48
def hexVal? (c : Char) : Option Nat :=
  if isDigit c then some (c.toNat - 48)
  else if 'a' ≤ c && c ≤ 'f' then some (c.toNat - 87)
  else if 'A' ≤ c && c ≤ 'F' then some (c.toNat - 55)
  else none

/-- `tok_decimal_tail` and the hex/octal/binary loops: digits in `base` with single `_` between them. Called with the
rest of the input and the value so far; `needDigit` = a digit is required next (start, or just after `_`).
Returns value, number of digits read, rest; `none` = the tokenizer's "invalid … literal". -/
def digitsTail (base : Nat) : Text → Nat → Nat → Bool → Option (Nat × Nat × Text)
  | [], v, k, need => if need then none else some (v, k, [])
  | c :: cs, v, k, need =>
    if c == '_' then
      if need then none else digitsTail base cs v k true
    else
      match hexVal? c with
      | some d =>
        -- a decimal digit that is not a digit of the base ends an octal/binary literal with an error; a hex letter
        -- after a decimal/octal/binary literal is handled by the caller (end-of-number test)
        if d < base then digitsTail base cs (v * base + d) (k + 1) false
        else if need then none else some (v, k, c :: cs)
      | none => if need then none else some (v, k, c :: cs)

/-- `verify_end_of_number`: a number directly followed by an identifier character is a `SyntaxError`, except that the
keyword starts `a e f i o n` only warn (→ the model abstains); a digit here is a digit that does not belong to the
literal's base (`0b12`, `0o8`): `SyntaxError`. -/
def endOfNumber (rest : Text) : PRes Unit :=
  match rest with
  | [] => .ok ()
  | c :: _ =>
    if c == 'a' || c == 'e' || c == 'f' || c == 'i' || c == 'o' || c == 'n' then .abstain
    else if isIdent c then .syntaxError
    else .ok ()

/-- Largest decimal exponent magnitude the model converts. -/
def decExpBound : Nat := 2000

/-- The double written `mant · 10^exp10`. -/
def decToFlt (mant : Nat) (exp10 : Int) : Flt :=
  if 0 ≤ exp10 then roundRat (mant * 10 ^ exp10.toNat) 1 else roundRat mant (10 ^ (-exp10).toNat)

/-- After the integer part `ip` (of a decimal literal, `.5` has `ip = 0`): optional fraction, exponent, `j`.
`leadingZeroNonzero`: the integer part was an old-style `0…` with a non-zero digit (an error unless the literal turns
out to be a float or imaginary). -/
def lexAfterInt (ip : Nat) (rest : Text) (leadingZeroNonzero : Bool) : PRes (Tok × Text) :=
  -- fraction
  let frac : Option (Bool × Nat × Nat × Text) :=
    match rest with
    | '.' :: r =>
      match r with
      | d :: _ =>
        if isDigit d then
          match digitsTail 10 r 0 0 true with
          | some (v, k, r') => some (true, v, k, r')
          | none => none
        else some (true, 0, 0, r)
      | [] => some (true, 0, 0, [])
    | _ => some (false, 0, 0, rest)
  match frac with
  | none => .syntaxError
  | some (hasDot, fv, fk, r1) =>
    -- exponent
    let expo : PRes (Bool × Int × Text) :=
      match r1 with
      | c :: r =>
        if c == 'e' || c == 'E' then
          let (sgn, r2) : Int × Text :=
            match r with
            | '+' :: r2 => (1, r2)
            | '-' :: r2 => (-1, r2)
            | _ => (1, r)
          match r2 with
          | d :: _ =>
            if isDigit d then
              match digitsTail 10 r2 0 0 true with
              | some (v, _, r3) => if decExpBound < v then .abstain else .ok (true, sgn * v, r3)
              | none => .syntaxError
            else if r2.length == r.length then .abstain     -- `1e` + non-digit: `e` is not part of the number (keyword test)
            else .syntaxError                               -- `1e+` + non-digit
          | [] => if r2.length == r.length then .abstain else .syntaxError
        else .ok (false, 0, r1)
      | [] => .ok (false, 0, [])
    match expo with
    | .syntaxError => .syntaxError
    | .abstain => .abstain
    | .ok (hasExp, ev, r3) =>
      let isFloat := hasDot || hasExp
      match r3 with
      | 'j' :: r4 | 'J' :: r4 =>
        match endOfNumber r4 with
        | .ok () => .ok (.num .cplx, r4)
        | .syntaxError => .syntaxError
        | .abstain => .abstain
      | _ =>
        match endOfNumber r3 with
        | .syntaxError => .syntaxError
        | .abstain => .abstain
        | .ok () =>
          if isFloat then .ok (.num (.flt (decToFlt (ip * 10 ^ fk + fv) (ev - fk))), r3)
          else if leadingZeroNonzero then .syntaxError
          else .ok (.num (.int ip), r3)

/-- A radix literal after `0x` / `0o` / `0b`. -/
def lexRadix (base : Nat) (rest : Text) : PRes (Tok × Text) :=
  -- `"0" ("x" | "X") (["_"] hexdigit)+`: one `_` may follow the prefix
  let rest := match rest with | '_' :: r => r | _ => rest
  match digitsTail base rest 0 0 true with
  | none => .syntaxError
  | some (v, _, r) =>
    match r with
    | c :: _ =>
      if isDigit c then .syntaxError                       -- `0b12`, `0o8`: invalid digit
      else match endOfNumber r with
        | .ok () => .ok (.num (.int v), r)
        | .syntaxError => .syntaxError
        | .abstain => .abstain
    | [] => .ok (.num (.int v), [])

/-- A number starting at a digit. -/
def lexNumber (c : Char) (cs : Text) : PRes (Tok × Text) :=
  if c == '0' then
    match cs with
    | 'x' :: r | 'X' :: r => lexRadix 16 r
    | 'o' :: r | 'O' :: r => lexRadix 8 r
    | 'b' :: r | 'B' :: r => lexRadix 2 r
    | _ =>
      match digitsTail 10 (c :: cs) 0 0 true with
      | none => .syntaxError
      | some (v, _, r) => lexAfterInt v r (v != 0)
  else
    match digitsTail 10 (c :: cs) 0 0 true with
    | none => .syntaxError
    | some (v, _, r) => lexAfterInt v r false

def takeIdent : Text → Text → Text × Text
  | [], acc => (acc.reverse, [])
  | c :: cs, acc => if isIdent c then takeIdent cs (c :: acc) else (acc.reverse, c :: cs)

/-- Python 3.12 keywords other than `True`, `False`, `None` (an expression containing one is outside the sub-grammar). -/
def keywords : List Text :=
  ["and", "as", "assert", "async", "await", "break", "class", "continue", "def", "del", "elif", "else", "except",
   "finally", "for", "from", "global", "if", "import", "in", "is", "lambda", "nonlocal", "not", "or", "pass", "raise",
   "return", "try", "while", "with", "yield"].map String.toList

def lexFuel : Nat → Text → List Tok → PRes (List Tok)
  | 0, _, _ => .abstain
  | _ + 1, [], acc => .ok acc.reverse
  | f + 1, c :: cs, acc =>
    if c == ' ' || c == '\t' then lexFuel f cs acc
    else if c == '#' then .ok acc.reverse
    else if isDigit c then
      match lexNumber c cs with
      | .ok (t, r) => lexFuel f r (t :: acc)
      | .syntaxError => .syntaxError
      | .abstain => .abstain
    else if isAlpha c then
      let (w, r) := takeIdent (c :: cs) []
      if w == ['T', 'r', 'u', 'e'] then lexFuel f r (.num (.bool true) :: acc)
      else if w == ['F', 'a', 'l', 's', 'e'] then lexFuel f r (.num (.bool false) :: acc)
      else if w == ['N', 'o', 'n', 'e'] then lexFuel f r (.num .none :: acc)
      else if keywords.contains w then .abstain
      else lexFuel f r (.name w :: acc)
    else
      match c, cs with
      | '.', d :: r =>
        if isDigit d then
          -- `.5`: a decimal literal with an empty integer part
          match lexAfterInt 0 ('.' :: d :: r) false with
          | .ok (t, r') => lexFuel f r' (t :: acc)
          | .syntaxError => .syntaxError
          | .abstain => .abstain
        else if d == '.' then .abstain                      -- `...`
        else lexFuel f (d :: r) (.dot :: acc)
      | '.', [] => lexFuel f [] (.dot :: acc)
      | '(', _ => lexFuel f cs (.lpar :: acc)
      | ')', _ => lexFuel f cs (.rpar :: acc)
      | '~', _ => lexFuel f cs (.tilde :: acc)
      | '+', _ => lexFuel f cs (.bin .add :: acc)
      | '-', _ => lexFuel f cs (.bin .sub :: acc)
      | '*', '*' :: r => lexFuel f r (.bin .pow :: acc)
      | '*', _ => lexFuel f cs (.bin .mult :: acc)
      | '/', '/' :: r => lexFuel f r (.bin .floorDiv :: acc)
      | '/', _ => lexFuel f cs (.bin .div :: acc)
      | '%', _ => lexFuel f cs (.bin .mod :: acc)
      | '@', _ => lexFuel f cs (.bin .matMult :: acc)
      | '<', '<' :: r => lexFuel f r (.bin .lShift :: acc)
      | '>', '>' :: r => lexFuel f r (.bin .rShift :: acc)
      | '&', _ => lexFuel f cs (.bin .bitAnd :: acc)
      | '|', _ => lexFuel f cs (.bin .bitOr :: acc)
      | '^', _ => lexFuel f cs (.bin .bitXor :: acc)
      | _, _ => .abstain

/-- Operator followed by `=` (augmented assignment / comparison) is outside the sub-grammar; `lexFuel` abstains on `=`
anyway since `=` is not one of its characters. -/
def lex (s : Text) : PRes (List Tok) := lexFuel (s.length + 1) s []

/-- Binding levels of the binary operators, loosest first: `|` 0, `^` 1, `&` 2, shifts 3, `+ -` 4, `* / // % @` 5.
(`**` is handled in `power`.) -/
def binLevel : BinOp → Nat
  | .bitOr => 0 | .bitXor => 1 | .bitAnd => 2 | .lShift | .rShift => 3 | .add | .sub => 4
  | .mult | .div | .floorDiv | .mod | .matMult => 5
  | .pow => 7

mutual
/-- `lvl` 0..5: a left-associative chain at that level; 6: `factor`; 7: `power`; 8: `primary`. -/
def parseLevel : Nat → Nat → List Tok → PRes (Ast × List Tok)
  | 0, _, _ => .abstain
  | f + 1, lvl, toks =>
    if lvl ≤ 5 then
      match parseLevel f (lvl + 1) toks with
      | .ok (lhs, rest) => parseChain f lvl lhs rest
      | .syntaxError => .syntaxError
      | .abstain => .abstain
    else if lvl = 6 then
      -- factor: ('+' | '-' | '~') factor | power
      match toks with
      | .bin .add :: r =>
        (match parseLevel f 6 r with
         | .ok (e, rest) => .ok (.unaryOp .uadd e, rest) | .syntaxError => .syntaxError | .abstain => .abstain)
      | .bin .sub :: r =>
        (match parseLevel f 6 r with
         | .ok (e, rest) => .ok (.unaryOp .usub e, rest) | .syntaxError => .syntaxError | .abstain => .abstain)
      | .tilde :: r =>
        (match parseLevel f 6 r with
         | .ok (e, rest) => .ok (.unaryOp .invert e, rest) | .syntaxError => .syntaxError | .abstain => .abstain)
      | _ => parseLevel f 7 toks
    else if lvl = 7 then
      -- power: primary ['**' factor]
      match parseLevel f 8 toks with
      | .ok (b, .bin .pow :: r) =>
        (match parseLevel f 6 r with
         | .ok (e, rest) => .ok (.binOp .pow b e, rest) | .syntaxError => .syntaxError | .abstain => .abstain)
      | x => x
    else
      -- primary: atom trailers
      match toks with
      | .num c :: r => parseTrailers f (.const c) r
      | .name _ :: r => parseTrailers f (.other .name) r
      | .lpar :: .rpar :: r => parseTrailers f (.other .tuple) r
      | .lpar :: r =>
        (match parseLevel f 0 r with
         | .ok (e, .rpar :: rest) => parseTrailers f e rest
         | .ok _ => .syntaxError
         | .syntaxError => .syntaxError
         | .abstain => .abstain)
      | _ => .syntaxError

def parseChain : Nat → Nat → Ast → List Tok → PRes (Ast × List Tok)
  | 0, _, _, _ => .abstain
  | f + 1, lvl, lhs, toks =>
    match toks with
    | .bin op :: r =>
      if binLevel op = lvl then
        match parseLevel f (lvl + 1) r with
        | .ok (rhs, rest) => parseChain f lvl (.binOp op lhs rhs) rest
        | .syntaxError => .syntaxError
        | .abstain => .abstain
      else .ok (lhs, toks)
    | _ => .ok (lhs, toks)

/-- `.name` → `Attribute`; a call or a subscript after an atom is outside the sub-grammar. -/
def parseTrailers : Nat → Ast → List Tok → PRes (Ast × List Tok)
  | 0, _, _ => .abstain
  | f + 1, e, toks =>
    match toks with
    | .dot :: .name _ :: r => parseTrailers f (.other .attribute) r
    | .dot :: _ => .syntaxError
    | .lpar :: _ => .abstain
    | _ => .ok (e, toks)
end

/-- Longest text the model parses. -/
def maxTextLen : Nat := 400

/-- `ast.parse(text, mode="eval").body` on the sub-grammar. -/
def parse (s : Text) : PRes Ast :=
  if maxTextLen < s.length then .abstain
  else if s.any (fun c => (126 < c.toNat) || (c.toNat < 32 && c != '\t')) then .abstain
  else
    match s with
    | ' ' :: _ | '\t' :: _ =>
      -- "unexpected indent" (an `IndentationError`, a `SyntaxError`); only for texts the lexer understands
      (match lex s with | .abstain => .abstain | _ => .syntaxError)
    | _ =>
      match lex s with
      | .abstain => .abstain
      | .syntaxError => .syntaxError
      | .ok toks =>
        match parseLevel (16 * (toks.length + 2)) 0 toks with
        | .ok (e, []) => .ok e
        | .ok _ => .syntaxError
        | .syntaxError => .syntaxError
        | .abstain => .abstain

/-- `eval_expr(text)` where the model parses `text`. -/
def evalExprText (s : Text) : Res Val :=
  match parse s with
  | .ok e => evalExpr e
  | .syntaxError => .raise .ValueError
  | .abstain => .untracked

/-! ## `int(...)` and `islice` -/

/-- ASCII white space accepted around the digits by `int(str)` (`Py_UNICODE_ISSPACE` below 128) / `int(bytes)`
(`Py_ISSPACE`). -/
def isIntSpace (isBytes : Bool) (c : Nat) : Bool :=
  (9 ≤ c && c ≤ 13) || c == 32 || (!isBytes && 28 ≤ c && c ≤ 31)

/-- `sys.get_int_max_str_digits()` default. -/
def intMaxStrDigits : Nat := 4300

/-- digits with single underscores; value, digit count. -/
def intDigits : List Nat → Nat → Nat → Bool → Option (Nat × Nat × List Nat)
  | [], v, k, need => if need then none else some (v, k, [])
  | c :: cs, v, k, need =>
    if c == 95 then (if need then none else intDigits cs v k true)
    else if 48 ≤ c && c ≤ 57 then intDigits cs (v * 10 + (c - 48)) (k + 1) false
    else if need then none else some (v, k, c :: cs)

/-- `int(s)` for a str / bytes value, base 10. Non-ASCII characters: untracked. -/
def intOfSeq (isBytes : Bool) (s : List Nat) : Res Int :=
  if s.any (fun c => 127 < c) then (if isBytes then .raise .ValueError else .untracked)
  else
    let s1 := s.dropWhile (isIntSpace isBytes)
    let (sgn, s2) : Int × List Nat :=
      match s1 with
      | 43 :: r => (1, r)
      | 45 :: r => (-1, r)
      | _ => (1, s1)
    match intDigits s2 0 0 true with
    | none => .raise .ValueError
    | some (v, k, r) =>
      if (r.dropWhile (isIntSpace isBytes)).isEmpty then
        if intMaxStrDigits < k then .raise .ValueError else .ok (sgn * v)
      else .raise .ValueError

/-- `int(x)`. -/
def intOf : Val → Res Int
  | .int n => .ok n
  | .bool b => .ok (if b then 1 else 0)
  | .flt (.fin m e) => let a := finRat m e; .ok (Int.tdiv a.1 a.2)      -- truncation toward zero
  | .flt .inf | .flt .ninf => .raise .OverflowError
  | .flt .nan => .raise .ValueError
  | .str s => intOfSeq false s
  | .bytes s => intOfSeq true s
  | .none | .ellipsis | .cplx => .raise .TypeError

/-- `sys.maxsize` on the 64-bit platforms the harness runs on. -/
def maxsize : Nat := 2 ^ 63 - 1

/-- Outcome of the resolution. -/
inductive Resolved where
  | all                          -- `pre_dispatch == "all"`: no slice, `_original_iterator = None`
  | amount (n : Nat)             -- `islice(iterator, n)`; `_pre_dispatch_amount = n`
  | raise (e : Exc)
  | untracked
deriving DecidableEq, Repr, Inhabited

/-- `itertools.islice(iterator, n)`: "Stop argument for islice() must be None or an integer: 0 <= x <= sys.maxsize". -/
def isliceStop (n : Int) : Resolved :=
  if n < 0 ∨ (maxsize : Int) < n then .raise .ValueError else .amount n.toNat

def resolveInt : Res Int → Resolved
  | .ok n => isliceStop n
  | .raise e => .raise e
  | .untracked => .untracked

/-- `self._pre_dispatch_amount = pre_dispatch = int(pre_dispatch)` then `islice`, for a value. -/
def resolveVal (v : Val) : Resolved := resolveInt (intOf v)

/-- From the parsed (substituted) expression on. -/
def resolveAst (e : Ast) : Resolved :=
  match evalExpr e with
  | .ok v => resolveVal v
  | .raise x => .raise x
  | .untracked => .untracked

/-- The `pre_dispatch` argument of `Parallel`. `bytes` has `endswith`, its `.replace(str, str)` raises `TypeError`;
`other` = an object without `endswith` on which `int()` raises `TypeError` (`None`, a complex, …). -/
inductive PreDispatch where
  | str (s : Text)
  | int (n : Int)
  | flt (f : Flt)
  | bool (b : Bool)
  | bytes
  | other
deriving DecidableEq, Repr, Inhabited

def allText : Text := ['a', 'l', 'l']

/-- `Parallel.__call__`, from `pre_dispatch = self.pre_dispatch` to the `islice` (path `n_jobs ≠ 1`). -/
def resolvePreDispatch (pre_dispatch : PreDispatch) (n_jobs : Int) : Resolved :=
  match pre_dispatch with
  | .str s =>
    if s = allText then .all
    else
      match parse (substitute s n_jobs) with
      | .ok e => resolveAst e
      | .syntaxError => .raise .ValueError
      | .abstain => .untracked
  | .int n => resolveVal (.int n)
  | .flt f => resolveVal (.flt f)
  | .bool b => resolveVal (.bool b)
  | .bytes => .raise .TypeError
  | .other => .raise .TypeError

end JoblibModel.EvalExpr
