/-
Model of `joblib.hashing.Hasher` (joblib/hashing.py) on builtin scalars and containers: the exact
pickle protocol-3 byte stream that `Hasher.hash(obj)` hands to md5/sha1 (property C08).
`Hasher` subclasses CPython's pure-Python `pickle._Pickler`; the part of the pickler it reaches on
this universe is transcribed too (python 3.12 `pickle.py`).

Python → Lean
* a Python value                → `PyVal`; containers list their parts in ITERATION order (for a
                                  dict that is insertion order; for set/frozenset it is whatever the
                                  hash table yields: an input of the model)
* `float`                       → its IEEE-754 binary64 pattern as a `Nat` (< 2^64)
* `str`                         → the bytes of `s.encode('utf-8', 'surrogatepass')`; Python orders
                                  strings by code point, which is the byte order of that encoding
* a byte                        → `Nat` (every byte the model computes itself is `< 256`)
* `self.memo` / `len(self.memo)`→ `Memo.next`; the model never needs the memo's keys (`id(obj)`)
                                  except for the class objects saved with GLOBAL, whose memo index is
                                  remembered in `Memo.cset / cfset / fz` (BINGET on reuse).  Aliasing
                                  of any other object is outside the universe (property statement).
* `Hasher.memoize`              → no-op for `str`/`bytes` (so they never consume a memo index)
* `Pickler.save_long` …         → `saveLong`, `saveFloat`, `saveStr`, `saveBytes`
* `Pickler.save_tuple/list/dict`→ cases of `encF`; `_batch_appends/_batch_setitems` → `batch`
* `Hasher._batch_setitems`      → `sortedItems` (sorted items, else sorted `(hash(k), v)`)
* `Hasher.save_set`, `_ConsistentSet.__init__` → `wrapper`, `consistentSeq`
* `hash` (the module's own md5-hex function, which shadows the builtin inside hashing.py)
                                → parameter `H : Bs → Bs` (bytes of the full stream ↦ the 32 ASCII
                                  hex digits); `top` is the nested `hash(k)` call with a fresh memo
* `sorted(...)`                 → `sortOn` (stable insertion sort) guarded by `orderable`; Python's
                                  `sorted` raises `TypeError` iff two of the keys are not comparable
                                  (for the hashable, NaN-free values that can be keys: see `cmpK`)

Two versions of the code are modelled, selected by `Version`:
* `.fixed` — /verif/fixes/F06-frozenset-hash.diff applied: `frozenset` is dispatched to
  `save_frozenset` → `_ConsistentFrozenSet` (a subclass of `_ConsistentSet`), and keys/elements
  that hold a frozenset (`_holds_frozenset`) always take the digest fallback;
* `.old`   — the pinned tree: only `type(set())` is dispatched, a frozenset goes through
  `pickle._Pickler.save_frozenset` → `save_reduce(frozenset, (list(obj),))`, elements in ITERATION
  order.  Kept for the F6 witness.  (Old code with frozensets *inside keys/elements* reaches
  `sorted` with a partial order; that corner is not modelled — `pyCmp` answers `none` there.)

Import-free, total, computable; recursion is structural (on fuel for `encF`: `sorted` re-orders
the children, so the recursion is not structural in the value; `depth` is the fuel measure).
-/
namespace JoblibModel.HashStream

abbrev Bs := List Nat

inductive PyVal where
  | none
  | bool (b : Bool)
  | int (i : Int)
  | float (bits : Nat)
  | str (utf8 : List Nat)
  | bytes (b : List Nat)
  | list (l : List PyVal)
  | tuple (l : List PyVal)
  | set (l : List PyVal)
  | frozenset (l : List PyVal)
  | dict (l : List (PyVal × PyVal))
deriving Repr, Inhabited

inductive Version where
  | old
  | fixed
deriving Repr, DecidableEq

/-! ## opcodes (pickle.py) -/
def PROTO : Nat := 0x80
def STOP : Nat := 0x2e
def NONE : Nat := 0x4e
def NEWTRUE : Nat := 0x88
def NEWFALSE : Nat := 0x89
def BININT1 : Nat := 0x4b
def BININT2 : Nat := 0x4d
def BININT : Nat := 0x4a
def LONG1 : Nat := 0x8a
def LONG4 : Nat := 0x8b
def BINFLOAT : Nat := 0x47
def BINUNICODE : Nat := 0x58
def SHORT_BINBYTES : Nat := 0x43
def BINBYTES : Nat := 0x42
def EMPTY_LIST : Nat := 0x5d
def APPEND : Nat := 0x61
def APPENDS : Nat := 0x65
def MARK : Nat := 0x28
def EMPTY_TUPLE : Nat := 0x29
def TUPLE1 : Nat := 0x85
def TUPLE2 : Nat := 0x86
def TUPLE3 : Nat := 0x87
def TUPLE : Nat := 0x74
def EMPTY_DICT : Nat := 0x7d
def SETITEM : Nat := 0x73
def SETITEMS : Nat := 0x75
def GLOBAL : Nat := 0x63
def NEWOBJ : Nat := 0x81
def BUILD : Nat := 0x62
def REDUCE : Nat := 0x52
def BINPUT : Nat := 0x71
def LONG_BINPUT : Nat := 0x72
def BINGET : Nat := 0x68
def LONG_BINGET : Nat := 0x6a

/-! ## scalars -/

/-- `k` little-endian bytes of `u` (`struct.pack` / `int.to_bytes`, low bytes of `u`). -/
def leBytes : Nat → Nat → Bs
  | 0, _ => []
  | k + 1, u => (u % 256) :: leBytes k (u / 256)

/-- `x.to_bytes(k, 'little', signed=True)` for an `x` that fits: the `k` low bytes of the
two's-complement representation. -/
def leSigned (k : Nat) (x : Int) : Bs :=
  leBytes k (x % (256 ^ k : Nat)).toNat

/-- `int.bit_length`. -/
def bitLength (x : Int) : Nat :=
  if x = 0 then 0 else Nat.log2 x.natAbs + 1

/-- `pickle.encode_long`. -/
def encodeLong (x : Int) : Bs :=
  if x = 0 then []
  else
    let nbytes := bitLength x / 8 + 1
    let result := leSigned nbytes x
    if x < 0 ∧ nbytes > 1 ∧ result.getD (nbytes - 1) 0 = 0xff ∧ 128 ≤ result.getD (nbytes - 2) 0
    then result.take (nbytes - 1)
    else result

/-- `_Pickler.save_long` (binary protocol ≥ 2). -/
def saveLong (obj : Int) : Bs :=
  if 0 ≤ obj ∧ obj ≤ 0xff then BININT1 :: leBytes 1 obj.toNat
  else if 0 ≤ obj ∧ obj ≤ 0xffff then BININT2 :: leBytes 2 obj.toNat
  else if -0x80000000 ≤ obj ∧ obj ≤ 0x7fffffff then BININT :: leSigned 4 obj
  else
    let encoded := encodeLong obj
    let n := encoded.length
    if n < 256 then LONG1 :: n :: encoded
    else LONG4 :: (leBytes 4 n ++ encoded)

/-- `_Pickler.save_float`: `BINFLOAT + pack('>d', obj)`. -/
def saveFloat (bits : Nat) : Bs :=
  BINFLOAT :: (leBytes 8 bits).reverse

/-- `_Pickler.save_str` (protocol 3: always BINUNICODE); `Hasher.memoize` ignores strings. -/
def saveStr (utf8 : Bs) : Bs :=
  BINUNICODE :: (leBytes 4 utf8.length ++ utf8)

/-- `_Pickler.save_bytes` (protocol 3); `Hasher.memoize` ignores bytes. -/
def saveBytes (b : Bs) : Bs :=
  if b.length ≤ 0xff then SHORT_BINBYTES :: b.length :: b
  else BINBYTES :: (leBytes 4 b.length ++ b)

/-! ## memo -/

structure Memo where
  /-- `len(self.memo)`: the index the next memoized object gets -/
  next : Nat
  /-- memo index of the class `joblib.hashing._ConsistentSet`, once it has been saved -/
  cset : Option Nat
  /-- same for `_ConsistentFrozenSet` (fixed code) -/
  cfset : Option Nat
  /-- same for `builtins.frozenset` (old code) -/
  fz : Option Nat
deriving Repr, DecidableEq

def Memo.init : Memo := ⟨0, Option.none, Option.none, Option.none⟩

/-- `_Pickler.put`. -/
def put (idx : Nat) : Bs :=
  if idx < 256 then [BINPUT, idx] else LONG_BINPUT :: leBytes 4 idx

/-- `_Pickler.get`. -/
def get (i : Nat) : Bs :=
  if i < 256 then [BINGET, i] else LONG_BINGET :: leBytes 4 i

/-- `Pickler.memoize(obj)` for an object that is not a `str`/`bytes`: the bytes written and the
memo afterwards. -/
def memoize (m : Memo) : Bs × Memo :=
  (put m.next, { m with next := m.next + 1 })

/-- The three classes the stream refers to with GLOBAL. -/
inductive Cls where
  | cset
  | cfset
  | fz
deriving Repr, DecidableEq

def asciiBytes (s : String) : Bs := s.toList.map Char.toNat

/-- `module + '\n' + name + '\n'` of `save_global`. -/
def Cls.name : Cls → Bs
  | .cset => asciiBytes "joblib.hashing\n_ConsistentSet\n"
  | .cfset => asciiBytes "joblib.hashing\n_ConsistentFrozenSet\n"
  | .fz => asciiBytes "builtins\nfrozenset\n"

def Memo.cls (m : Memo) : Cls → Option Nat
  | .cset => m.cset
  | .cfset => m.cfset
  | .fz => m.fz

def Memo.setCls (m : Memo) (c : Cls) (i : Nat) : Memo :=
  match c with
  | .cset => { m with cset := some i }
  | .cfset => { m with cfset := some i }
  | .fz => { m with fz := some i }

/-- `save(cls)`: BINGET if the class object is in the memo, else `save_global` + memoize. -/
def saveClass (c : Cls) (m : Memo) : Bs × Memo :=
  match m.cls c with
  | some i => (get i, m)
  | Option.none => (GLOBAL :: (c.name ++ put m.next), { (m.setCls c m.next) with next := m.next + 1 })

/-! ## Python's ordering of the values that can be set elements / dict keys -/

/-- Exact numeric key of `bool`/`int`/`float`: `(tier, value · 2^1074)`, tier −1/0/+1 for
−inf/finite/+inf.  `none` for NaN and for non-numbers.  Every finite binary64 is an integer
multiple of 2^−1074, so comparing the keys is Python's exact int/float comparison. -/
def numKey : PyVal → Option (Int × Int)
  | .bool b => some (0, (if b then 1 else 0) * (2 ^ 1074 : Nat))
  | .int i => some (0, i * (2 ^ 1074 : Nat))
  | .float bits =>
    let neg := bits / 2 ^ 63 % 2 = 1
    let e := bits / 2 ^ 52 % 2048
    let mant := bits % 2 ^ 52
    if e = 2047 then
      if mant = 0 then some (if neg then -1 else 1, 0) else Option.none
    else
      let mag : Nat := if e = 0 then mant else (2 ^ 52 + mant) * 2 ^ (e - 1)
      some (0, if neg then -(mag : Int) else (mag : Int))
  | _ => Option.none

def cmpInt (a b : Int) : Ordering :=
  if a < b then .lt else if a = b then .eq else .gt

def cmpKey (a b : Int × Int) : Ordering :=
  match cmpInt a.1 b.1 with
  | .eq => cmpInt a.2 b.2
  | o => o

/-- Lexicographic order of byte strings (`str` by code point = by UTF-8 byte; `bytes`). -/
def cmpBs : Bs → Bs → Ordering
  | [], [] => .eq
  | [], _ :: _ => .lt
  | _ :: _, [] => .gt
  | a :: as, b :: bs => if a < b then .lt else if a = b then cmpBs as bs else .gt

/-- What Python's `<` / `==` look at in a value that can be a set element or dict key:
`None`, a number (exact key), a str, a bytes, a tuple of such; everything else — NaN, and whatever
holds a frozenset or an unhashable container — is `unorderable`. -/
inductive SortKey where
  | none
  | num (tier : Int) (scaled : Int)
  | str (s : Bs)
  | bytes (s : Bs)
  | tuple (l : List SortKey)
  | unorderable
deriving Repr, Inhabited

mutual
def toK : PyVal → SortKey
  | .none => .none
  | .bool b => match numKey (.bool b) with | some k => .num k.1 k.2 | Option.none => .unorderable
  | .int i => match numKey (.int i) with | some k => .num k.1 k.2 | Option.none => .unorderable
  | .float x => match numKey (.float x) with | some k => .num k.1 k.2 | Option.none => .unorderable
  | .str s => .str s
  | .bytes s => .bytes s
  | .tuple l => .tuple (toKList l)
  | _ => .unorderable
def toKList : List PyVal → List SortKey
  | [] => []
  | x :: xs => toK x :: toKList xs
end

mutual
/-- Python's comparison as `sorted` sees it: `some .lt/.eq/.gt`, or `none` when `a < b` raises
`TypeError`.  NaN and anything holding a frozenset answer `none` too (NaN compares False without
raising, frozensets compare by inclusion: for both `sorted` does not raise and its result
depends on the input order — NaN keys are outside the universe, and frozensets never reach
`sorted` in the fixed code). -/
def cmpK : SortKey → SortKey → Option Ordering
  | .none, .none => some .eq
  | .num t s, .num t' s' => some (cmpKey (t, s) (t', s'))
  | .str a, .str b => some (cmpBs a b)
  | .bytes a, .bytes b => some (cmpBs a b)
  | .tuple a, .tuple b => cmpKList a b
  | _, _ => Option.none
/-- `tuplerichcompare`: skip the common prefix of `==` items, compare the first differing pair
(or the lengths). -/
def cmpKList : List SortKey → List SortKey → Option Ordering
  | [], [] => some .eq
  | [], _ :: _ => some .lt
  | _ :: _, [] => some .gt
  | a :: as, b :: bs =>
    match cmpK a b with
    | some .eq => cmpKList as bs
    | r => r
end

def pyCmp (a b : PyVal) : Option Ordering := cmpK (toK a) (toK b)

mutual
/-- `_holds_frozenset` of the fixed code. -/
def holdsFrozenset : PyVal → Bool
  | .frozenset _ => true
  | .tuple l => holdsFrozensetList l
  | _ => false
def holdsFrozensetList : List PyVal → Bool
  | [] => false
  | x :: xs => holdsFrozenset x || holdsFrozensetList xs
end

/-- `p` on every pair of elements at different positions (earlier one first). -/
def allPairs {α : Type} (p : α → α → Bool) : List α → Bool
  | [] => true
  | x :: xs => xs.all (p x) && allPairs p xs

/-- Does `sorted(keys)` succeed (and, fixed code, is it attempted at all)? -/
def orderable (ver : Version) (keys : List PyVal) : Bool :=
  (ver = .old || !(keys.any holdsFrozenset)) && allPairs (fun a b => (pyCmp a b).isSome) keys

def insertOn {α : Type} (key : α → PyVal) (x : α) : List α → List α
  | [] => [x]
  | y :: ys => if pyCmp (key x) (key y) = some .lt then x :: y :: ys else y :: insertOn key x ys

/-- `sorted(xs)` for pairwise comparable keys: insertion sort (keeps ties in input order). -/
def sortOn {α : Type} (key : α → PyVal) : List α → List α
  | [] => []
  | x :: xs => insertOn key x (sortOn key xs)

/-! ## containers -/

/-- `for x in tmp: save(x)`: the per-item streams, with the memo threaded through. -/
def seqM (e : PyVal → Memo → Bs × Memo) : List PyVal → Memo → List Bs × Memo
  | [], m => ([], m)
  | x :: xs, m =>
    let r := e x m
    let rs := seqM e xs r.2
    (r.1 :: rs.1, rs.2)

/-- `for k, v in tmp: save(k); save(v)`. -/
def seqKV (e : PyVal → Memo → Bs × Memo) : List (PyVal × PyVal) → Memo → List Bs × Memo
  | [], m => ([], m)
  | (k, v) :: xs, m =>
    let rk := e k m
    let rv := e v rk.2
    let rs := seqKV e xs rv.2
    ((rk.1 ++ rv.1) :: rs.1, rs.2)

def BATCHSIZE : Nat := 1000

/-- The `while True:` loop of `_batch_appends` / `_batch_setitems` over already saved items:
`one`/`many` = APPEND/APPENDS or SETITEM/SETITEMS.  One iteration per unit of fuel. -/
def batchF (one many : Nat) : Nat → List Bs → Bs
  | 0, _ => []
  | fuel + 1, items =>
    let tmp := items.take BATCHSIZE
    let n := tmp.length
    (if n > 1 then MARK :: (tmp.flatten ++ [many])
     else if n = 1 then tmp.flatten ++ [one]
     else [])
    ++ (if n < BATCHSIZE then [] else batchF one many fuel (items.drop BATCHSIZE))

/-- The loop runs `len // 1000 + 1` times. -/
def batch (one many : Nat) (items : List Bs) : Bs :=
  batchF one many (items.length / BATCHSIZE + 1) items

/-- `save_list`: EMPTY_LIST, memoize, `_batch_appends`. -/
def saveList (e : PyVal → Memo → Bs × Memo) (l : List PyVal) (m : Memo) : Bs × Memo :=
  let p := memoize m
  let r := seqM e l p.2
  (EMPTY_LIST :: (p.1 ++ batch APPEND APPENDS r.1), r.2)

/-- `save_tuple` (no recursive tuples in the universe). -/
def saveTuple (e : PyVal → Memo → Bs × Memo) (l : List PyVal) (m : Memo) : Bs × Memo :=
  if l.isEmpty then ([EMPTY_TUPLE], m)
  else
    let r := seqM e l m
    let p := memoize r.2
    if l.length ≤ 3 then (r.1.flatten ++ (TUPLE1 + (l.length - 1)) :: p.1, p.2)
    else (MARK :: (r.1.flatten ++ TUPLE :: p.1), p.2)

def SEQUENCE : Bs := asciiBytes "_sequence"

/-- `Pickler.save(self, _ConsistentSet(...))` → `save_reduce(copyreg.__newobj__, (cls,), state)`
with `state = {'_sequence': seq}`: class, EMPTY_TUPLE, NEWOBJ, memoize(obj), then the state dict
(EMPTY_DICT, memoize, one SETITEM through `Hasher._batch_setitems`) and BUILD. -/
def wrapper (e : PyVal → Memo → Bs × Memo) (c : Cls) (seq : List PyVal) (m : Memo) : Bs × Memo :=
  let rc := saveClass c m
  let po := memoize rc.2
  let pd := memoize po.2
  let rl := saveList e seq pd.2
  (rc.1 ++ EMPTY_TUPLE :: NEWOBJ :: (po.1 ++ EMPTY_DICT :: (pd.1 ++ saveStr SEQUENCE ++ rl.1 ++ [SETITEM, BUILD])),
   rl.2)

/-- old code: `save_reduce(frozenset, (list(obj),), obj=obj)`: class, the 1-tuple holding the
list of the elements in iteration order, REDUCE, memoize(obj). -/
def reduceFrozenset (e : PyVal → Memo → Bs × Memo) (l : List PyVal) (m : Memo) : Bs × Memo :=
  let rc := saveClass .fz m
  let rl := saveList e l rc.2
  let pt := memoize rl.2
  let po := memoize pt.2
  (rc.1 ++ rl.1 ++ TUPLE1 :: (pt.1 ++ REDUCE :: po.1), po.2)

/-- The whole stream of one `Hasher().hash(v)` given the body encoder. -/
def frame (body : Bs) : Bs := PROTO :: 3 :: (body ++ [STOP])

/-- `hash(k)` inside the two fallbacks: a fresh `Hasher` (fresh memo) on the key, the hex digest
as a `str`. -/
def topOf (H : Bs → Bs) (e : PyVal → Memo → Bs × Memo) (k : PyVal) : PyVal :=
  .str (H (frame (e k Memo.init).1))

/-- What the keys are sorted by: themselves when `sorted(keys)` works, else their digests. -/
def keysOf (H : Bs → Bs) (ver : Version) (e : PyVal → Memo → Bs × Memo) (keys : List PyVal) : List PyVal :=
  if orderable ver keys then keys else keys.map (topOf H e)

/-- `Hasher._batch_setitems`: `sorted(items)`, else `sorted((hash(k), v) for k, v in items)`. -/
def itemsOf (H : Bs → Bs) (ver : Version) (e : PyVal → Memo → Bs × Memo) (items : List (PyVal × PyVal)) :
    List (PyVal × PyVal) :=
  if orderable ver (items.map Prod.fst) then items else items.map fun kv => (topOf H e kv.1, kv.2)

/-- The encoder, `fuel` levels deep.  `H` is `joblib.hashing.hash` seen as bytes ↦ hex digits. -/
def encF (H : Bs → Bs) (ver : Version) : Nat → PyVal → Memo → Bs × Memo
  | 0, _, m => ([], m)
  | f + 1, v, m =>
    let e := encF H ver f
    match v with
    | .none => ([NONE], m)
    | .bool b => ([if b then NEWTRUE else NEWFALSE], m)
    | .int i => (saveLong i, m)
    | .float bits => (saveFloat bits, m)
    | .str s => (saveStr s, m)
    | .bytes b => (saveBytes b, m)
    | .list l => saveList e l m
    | .tuple l => saveTuple e l m
    | .dict items =>
      /- `save_dict`: EMPTY_DICT, memoize, `Hasher._batch_setitems(obj.items())` -/
      let its := sortOn Prod.fst (itemsOf H ver e items)
      let p := memoize m
      let r := seqKV e its p.2
      (EMPTY_DICT :: (p.1 ++ batch SETITEM SETITEMS r.1), r.2)
    | .set l =>
      /- `_ConsistentSet.__init__` -/
      wrapper e .cset (sortOn id (keysOf H ver e l)) m
    | .frozenset l =>
      match ver with
      | .fixed => wrapper e .cfset (sortOn id (keysOf H ver e l)) m
      | .old => reduceFrozenset e l m

mutual
/-- Nesting depth: the fuel `encF` needs. -/
def depth : PyVal → Nat
  | .list l => depthList l + 1
  | .tuple l => depthList l + 1
  | .set l => depthList l + 1
  | .frozenset l => depthList l + 1
  | .dict l => depthItems l + 1
  | _ => 1
def depthList : List PyVal → Nat
  | [] => 0
  | x :: xs => max (depth x) (depthList xs)
def depthItems : List (PyVal × PyVal) → Nat
  | [] => 0
  | (k, v) :: xs => max (max (depth k) (depth v)) (depthItems xs)
end

/-- What `Hasher().hash(v)` leaves in `.stream.getvalue()` (and feeds to the digest). -/
def encodeV (H : Bs → Bs) (ver : Version) (v : PyVal) : Bs :=
  frame (encF H ver (depth v) v Memo.init).1

/-- The repaired code. -/
def encode (H : Bs → Bs) (v : PyVal) : Bs := encodeV H .fixed v

/-- The pinned code (frozenset in iteration order). -/
def encodeOld (H : Bs → Bs) (v : PyVal) : Bs := encodeV H .old v

/-! ## `collections.OrderedDict` (top level)

`pickle` reduces an `OrderedDict` (and every other dict subclass) to
`save_reduce(cls, (), dictitems=iter(obj.items()))`: GLOBAL, EMPTY_TUPLE, REDUCE, memoize, then
`self._batch_setitems(dictitems)` — `Hasher._batch_setitems` again, but this time `items` is a ONE-SHOT
ITERATOR, not a re-iterable view.  Three versions of `Hasher._batch_setitems` differ on it (F40): -/

inductive ItemsVer where
  /-- the pinned tree: `sorted(items)` consumes the iterator; if it raises `TypeError` the fallback
  `sorted((hash(k), v) for k, v in items)` finds it exhausted -/
  | pinned
  /-- commit aa0f898 (first F6 repair): the pre-scan `any(_holds_frozenset(k) for k, _ in items)` consumes
  the iterator — wholly when no key holds a frozenset, else up to and including the first key that does -/
  | regressed
  /-- `items = list(items)` first: the same as for a plain dict -/
  | repaired
deriving Repr, DecidableEq

/-- The items `Pickler._batch_setitems` finally receives from `Hasher._batch_setitems(iterator)`. -/
def iterItems (H : Bs → Bs) (e : PyVal → Memo → Bs × Memo) (iv : ItemsVer) (items : List (PyVal × PyVal)) :
    List (PyVal × PyVal) :=
  match iv with
  | .repaired => sortOn Prod.fst (itemsOf H .fixed e items)
  | .pinned => if orderable .old (items.map Prod.fst) then sortOn Prod.fst items else []
  | .regressed =>
    match items.dropWhile (fun kv => !holdsFrozenset kv.1) with
    | [] => []
    | _ :: rest => sortOn Prod.fst (rest.map fun kv => (topOf H e kv.1, kv.2))

def ODICT : Bs := asciiBytes "collections\nOrderedDict\n"

/-- The whole stream of `Hasher().hash(OrderedDict(items))` (items in insertion order). -/
def encodeOD (H : Bs → Bs) (iv : ItemsVer) (items : List (PyVal × PyVal)) : Bs :=
  let ver : Version := match iv with | .pinned => .old | _ => .fixed
  let e := encF H ver (depthItems items)
  let m0 := Memo.init
  let pc := memoize m0   -- the class object
  let po := memoize pc.2 -- the new object, after REDUCE
  let r := seqKV e (iterItems H e iv items) po.2
  frame (GLOBAL :: (ODICT ++ pc.1) ++ EMPTY_TUPLE :: REDUCE :: (po.1 ++ batch SETITEM SETITEMS r.1))

end JoblibModel.HashStream
