/-!
# Exception transport of the pool backends (C04: worker-side traceback capture)

A pure decision model of how the outcome of ONE submitted callable travels from the worker to the caller of
`Parallel` in the pool backends (`ThreadingBackend`, `MultiprocessingBackend`: `PoolManagerMixin`).

Python → Lean
* joblib/_utils.py `_TracebackCapturingWrapper.__call__`
    `try: return self.func(**kwargs)` / `except BaseException as e: return _ExceptionWithTraceback(e)`   → `wrap`
* loky `_ExceptionWithTraceback(exc)` (fields `exc`, `tb` = the formatted traceback STRING)              → `Wire.ewt e tb`
* loky `_ExceptionWithTraceback.__reduce__` = `(_rebuild_exc, (exc, tb))`,
  `_rebuild_exc(exc, tb)`: `exc.__cause__ = _RemoteTraceback(tb); return exc`                           → `rebuildExc`
* the pool's result channel: `ThreadPool` hands the object over as it is (`Transport.thread`);
  `multiprocessing.Pool` pickles it in the worker and unpickles it in the parent (`Transport.process`):
  unpickling an `_ExceptionWithTraceback` CALLS `_rebuild_exc` on the round-tripped exception, so what arrives
  is a bare exception instance with `__cause__` set                                                       → `transport`
* the pickle round trip of an exception instance is a PARAMETER `rt : ExcV → Option ExcV` (`none`: the
  instance cannot be pickled, or its class cannot be rebuilt from `cls(*args)`), constrained in the theorems
  by `RoundTripLaw` ("a round trip that succeeds preserves class and args"); lists of results round-trip to
  themselves (modelled, not verified: pickling of the results themselves)
* joblib/_utils.py `_retrieve_traceback_capturing_wrapped_call(out)`
    `if isinstance(out, _ExceptionWithTraceback): rebuild, args = out.__reduce__(); out = rebuild(*args)`
    `if isinstance(out, BaseException): raise out` / `return out`                                        → `retrieve`
* `PoolManagerMixin.retrieve_result_callback(result)` = `retrieve`; `PoolManagerMixin.submit` passes the SAME
  function as `callback` and `error_callback`: for a failure outside the task body (a result that cannot be
  pickled, …) the pool hands the raw exception instance to it                                             → `poolRaw`
* the whole path worker → caller                                                                          → `deliver`

Values: `Val.list` is what `BatchedCalls.__call__` returns (always a list); `Val.excInst` is an exception
INSTANCE returned — not raised — by a callable (possible only for a callable that is not a `BatchedCalls`).

Tie to the code: `harness/exc_transport.py` runs the real `_TracebackCapturingWrapper`,
`_retrieve_traceback_capturing_wrapped_call`, `_ExceptionWithTraceback` and `pickle` on a grid of synthetic tasks
and compares the outcome class with a Python TRANSCRIPTION of `wrap` / `transport` / `retrieve` / `deliver` kept
in that file (function for function). It is a transcription, not a run of a Lean driver: adding a driver
executable means editing the shared lakefile / ParallelDriver, which was ruled out for this late increment. To
keep the transcription honest the value of the finite table below (`table`) is proved by `decide` in
`JoblibProofs/C04.lean` (`C04.transport_table`), and the harness READS the literal rows of that theorem from the
file and compares them with what its transcription computes.
-/
namespace JoblibModel.ExcTransport

/-- an exception instance: its class, its `args`, and its `__cause__` (`some tb` = `_RemoteTraceback(tb)`) -/
structure ExcV where
  cls : Nat
  args : List Int
  cause : Option Nat := none
  deriving DecidableEq, Repr

/-- what a submitted callable can return -/
inductive Val where
  | list (xs : List Int)
  | excInst (e : ExcV)
  deriving DecidableEq, Repr

/-- outcome of the task body in the worker -/
inductive Outcome where
  | returns (v : Val)
  | raises (e : ExcV)
  deriving DecidableEq, Repr

/-- the object that crosses the pool's result channel -/
inductive Wire where
  | val (v : Val)
  | ewt (e : ExcV) (tb : Nat)
  deriving DecidableEq, Repr

inductive Transport where
  | thread
  | process
  deriving DecidableEq, Repr

/-- what the caller of `retrieve_result_callback` sees -/
inductive Delivered where
  | ret (v : Val)
  | raised (e : ExcV)
  | transportError
  deriving DecidableEq, Repr

/-- `_TracebackCapturingWrapper.__call__`; `tb` is the traceback string formatted in the worker -/
def wrap (o : Outcome) (tb : Nat) : Wire :=
  match o with
  | .returns v => .val v
  | .raises e => .ewt e tb

/-- `_rebuild_exc` -/
def rebuildExc (e : ExcV) (tb : Nat) : ExcV := { e with cause := some tb }

/-- the result channel of the pool; `none`: the object could not be pickled / rebuilt -/
def transport (t : Transport) (rt : ExcV → Option ExcV) (w : Wire) : Option Wire :=
  match t, w with
  | .thread, w => some w
  | .process, .val (.list xs) => some (.val (.list xs))
  | .process, .val (.excInst e) => (rt e).map fun e' => .val (.excInst e')
  | .process, .ewt e tb => (rt e).map fun e' => .val (.excInst (rebuildExc e' tb))

/-- `_retrieve_traceback_capturing_wrapped_call` -/
def retrieve (w : Wire) : Delivered :=
  let out : Val :=
    match w with
    | .ewt e tb => .excInst (rebuildExc e tb)
    | .val v => v
  match out with
  | .excInst e => .raised e
  | .list xs => .ret (.list xs)

/-- `error_callback=callback`: the pool hands a raw exception instance to the completion callback -/
def poolRaw (e : ExcV) : Wire := .val (.excInst e)

/-- worker → caller -/
def deliver (t : Transport) (rt : ExcV → Option ExcV) (o : Outcome) (tb : Nat) : Delivered :=
  match transport t rt (wrap o tb) with
  | some w => retrieve w
  | none => .transportError

/-- the law assumed of pickle: a round trip that succeeds preserves class and args -/
def RoundTripLaw (rt : ExcV → Option ExcV) : Prop :=
  ∀ e e', rt e = some e' → e'.cls = e.cls ∧ e'.args = e.args

/-- outcome class, as the harness canonicalises it -/
def Delivered.cls : Delivered → String
  | .ret (.list _) => "ret-list"
  | .ret (.excInst _) => "ret-exc"
  | .raised e => if e.cause.isSome then "raised-with-remote-traceback" else "raised"
  | .transportError => "transport-error"

/-- pickle as the harness's grid sees it: drops `__cause__`; instances of class 9 cannot make the trip -/
def rtGrid (e : ExcV) : Option ExcV := if e.cls = 9 then none else some { e with cause := none }

/-- the finite table the harness compares its transcription with (transport × kind); its value is
`C04.transport_table` -/
def table : List (String × String × String) := [
  ("thread", "returns-list", (deliver .thread rtGrid (.returns (.list [1, 2])) 5).cls),
  ("thread", "returns-exc", (deliver .thread rtGrid (.returns (.excInst ⟨1, [3], none⟩)) 5).cls),
  ("thread", "raises", (deliver .thread rtGrid (.raises ⟨1, [3], none⟩) 5).cls),
  ("thread", "raises-unrebuildable", (deliver .thread rtGrid (.raises ⟨9, [3], none⟩) 5).cls),
  ("thread", "returns-exc-unrebuildable", (deliver .thread rtGrid (.returns (.excInst ⟨9, [3], none⟩)) 5).cls),
  ("process", "returns-list", (deliver .process rtGrid (.returns (.list [1, 2])) 5).cls),
  ("process", "returns-exc", (deliver .process rtGrid (.returns (.excInst ⟨1, [3], none⟩)) 5).cls),
  ("process", "raises", (deliver .process rtGrid (.raises ⟨1, [3], none⟩) 5).cls),
  ("process", "raises-unrebuildable", (deliver .process rtGrid (.raises ⟨9, [3], none⟩) 5).cls),
  ("process", "returns-exc-unrebuildable", (deliver .process rtGrid (.returns (.excInst ⟨9, [3], none⟩)) 5).cls)]

end JoblibModel.ExcTransport
