/-
Model M4 `Store` — the on-disk protocol of `joblib.Memory` (properties C05, C11).

Anchors: joblib/_store_backends.py (StoreBackendMixin, FileSystemStoreBackend, concurrency_safe_write),
joblib/backports.py (concurrency_safe_rename = os.replace), joblib/disk.py (mkdirp, rm_subdirs, delete_folder),
joblib/memory.py (MemorizedFunc._cached_call, _is_in_cache_and_valid, _check_previous_func_code, _write_func_code,
clear, _call/_after_call, _persist_input, MemorizedResult.get, Memory.__init__/clear/reduce_size, expires_after),
CPython 3.12 os.makedirs, os.walk, shutil.rmtree (_rmtree_safe_fd).

Python → Lean
* the scratch directory that contains the cache directory            : the root path `[]` (always a directory)
* `<location>`, `<location>/.gitignore`, `<location>/joblib`          : `pCache`, `pGit`, `pLoc`
* `<location>/joblib/<module>/<func>` (= `func_id`)                   : `pMod`, `pFunc`;  `func_code.py` : `pCode`
* `<func dir>/<args_id>` (argument `a`; `args_id` is abstracted to `a`): `pEntry a`; `output.pkl`, `metadata.json`
* `<name>.thread-<id>-pid-<pid>` of the participant `o`               : `Name.tmpOut o`, `Name.tmpMeta o`
* a system call                                                        : `Op`; its result `Res`; `apply : Op → FS → Res × FS`
* open files survive `unlink`/`rename`: every file has an inode number; `creat` on an existing name truncates the same
  inode; replaced / unlinked inodes move to `orphans` (tagged with the name they had, like `/proc/<pid>/fd` shows `name (deleted)`); `write` is the (single) write of the whole content at offset 0
* a Python procedure                                                   : `Prog α` — a tree whose nodes are single system
  calls (`Prog.op o k`), leaves `ret a` (returns) / `raise e` (propagates an exception); `try/except` = `Prog.tryCatch`
* `numpy_pickle.dump/load`, `json.dumps/loads`, the `func_code.py` text and its comparison with the live source
                                                                       : `Codec` (parameters; hypotheses in JoblibProofs)
* kill -9 after k system calls, the k-th possibly torn                 : `crash`
* the cached function is NOT pure (its value changes over time)        : `Val.gen` — the GENERATION (epoch) of the execution
  that produced a value; `Cfg.gen` — the generation a process lives in (what its executions of the function read and
  what its `time.time()` stands for)
* `metadata['time']` (`_persist_input`: `time.time()`)                  : the STAMP — `Codec.metaText stamp`, read back by
  `Codec.metaStamp` (`get_metadata`; `{}` = `none`); written with the stamp `Cfg.gen`
* `cache_validation_callback`                                          : `Callback` — `none`, `expires fresh`
  (`expires_after(days=1)` / `(seconds=-1)`), `since g` (`expires_after(delta)` seen from a fixed instant: valid iff the
  stamp is of generation `g` or later); `Callback.accepts`
* the order `dump_item` → `store_metadata` of `_after_call` and the `clear_item` of a rejected entry are the code;
  `Cfg.metadataFirst`, `Cfg.keepRejected`, `Cfg.skipCallbackWithoutMetadata` are VARIANTS (seeded changes C05-r4-m1/m2)
  kept only for the counterexample theorems of JoblibProofs/C05.lean (`CfgOK` demands them off)
Import-free, total, computable.
-/
namespace JoblibModel.Store

/-! ## File system -/

inductive Name
  | cache | gitignore | joblib | mod | func | funcCode
  | entry (a : Nat) | output | metadata | tmpOut (o : Nat) | tmpMeta (o : Nat)
deriving DecidableEq, Repr, Inhabited

abbrev Path := List Name
abbrev Bytes := List Nat

inductive Node
  | dir (ino : Nat)
  | file (ino : Nat) (data : Bytes)
deriving DecidableEq, Repr, Inhabited

structure FS where
  names : List (Path × Node)
  /-- unlinked / replaced files that may still be open: (the name the file was removed from, inode, content) -/
  orphans : List (Path × Nat × Bytes)
  next : Nat
deriving Repr, Inhabited

def FS.empty : FS := ⟨[], [], 1⟩

def lookup (p : Path) : List (Path × Node) → Option Node
  | [] => none
  | (q, n) :: r => if q = p then some n else lookup p r

/-- The node at a path; the root is always a directory. -/
def FS.get (fs : FS) (p : Path) : Option Node :=
  if p = [] then some (.dir 0) else lookup p fs.names

def eraseName (p : Path) : List (Path × Node) → List (Path × Node)
  | [] => []
  | (q, n) :: r => if q = p then eraseName p r else (q, n) :: eraseName p r

def FS.set (fs : FS) (p : Path) (n : Node) : FS :=
  { fs with names := (p, n) :: eraseName p fs.names }

def FS.erase (fs : FS) (p : Path) : FS :=
  { fs with names := eraseName p fs.names }

def parent (p : Path) : Path := p.dropLast

/-- Names directly under `p`, with their "is a directory" flag, in the order of `fs.names`. -/
def childrenOf (p : Path) : List (Path × Node) → List (Name × Bool)
  | [] => []
  | (q, n) :: r =>
    match q.getLast? with
    | some last =>
      if q.dropLast = p then (last, match n with | .dir _ => true | .file _ _ => false) :: childrenOf p r
      else childrenOf p r
    | none => childrenOf p r

def FS.children (fs : FS) (p : Path) : List (Name × Bool) := childrenOf p fs.names

/-- `pwrite(fd, d, 0)` on content `c`. -/
def overwrite (c d : Bytes) : Bytes := d ++ c.drop d.length

def writeNames (i : Nat) (d : Bytes) : List (Path × Node) → List (Path × Node)
  | [] => []
  | (q, .file j c) :: r => (q, .file j (if j = i then overwrite c d else c)) :: writeNames i d r
  | (q, n) :: r => (q, n) :: writeNames i d r

def writeOrphans (i : Nat) (d : Bytes) : List (Path × Nat × Bytes) → List (Path × Nat × Bytes)
  | [] => []
  | (q, j, c) :: r => (q, j, if j = i then overwrite c d else c) :: writeOrphans i d r

def inoInOrphans (i : Nat) : List (Path × Nat × Bytes) → Option Bytes
  | [] => none
  | (_, j, c) :: r => if j = i then some c else inoInOrphans i r

/-- Content seen through a file descriptor obtained by opening `p` when it was inode `i`: the file at `p` if it still is
that inode, otherwise the removed-but-open inode. (Files opened for reading — `func_code.py`, `metadata.json`,
`output.pkl` — are never the *source* of a rename in this protocol, so a linked inode is always found at its own name.) -/
def FS.readData (fs : FS) (p : Path) (i : Nat) : Bytes :=
  match fs.get p with
  | some (.file j c) => if j = i then c else (inoInOrphans i fs.orphans).getD []
  | _ => (inoInOrphans i fs.orphans).getD []

/-- Content of the file at a path. -/
def FS.dataAt (fs : FS) (p : Path) : Option Bytes :=
  match fs.get p with
  | some (.file _ c) => some c
  | _ => none

def FS.isDir (fs : FS) (p : Path) : Bool :=
  match fs.get p with
  | some (.dir _) => true
  | _ => false

inductive Op
  | stat (p : Path)
  | lstat (p : Path) (dirfd : Option Nat := none)   -- `os.lstat` / `DirEntry.stat` of shutil.rmtree: also tells WHICH directory is there
  | mkdir (p : Path)
  | creat (p : Path)
  | write (p : Path) (ino : Nat) (d : Bytes)
  | rename (p q : Path)
  | unlink (p : Path) (dirfd : Option Nat := none)
  | rmdir (p : Path) (dirfd : Option Nat := none)
  | openr (p : Path)
  | read (p : Path) (ino : Nat)
  | opendir (p : Path) (dirfd : Option Nat := none)
  | readdir (p : Path) (ino : Nat)
deriving DecidableEq, Repr

inductive Res
  | ok | yes | no | enoent | eexist | enotempty | eisdir | enotdir
  | fd (ino : Nat)
  | data (d : Bytes)
  | names (l : List (Name × Bool))
deriving DecidableEq, Repr, Inhabited

/-- `dir_fd=`: the call names `p` relative to an open directory (inode `i`); it only finds anything while the directory at
`parent p` still is that inode (a removed directory has no entries, even if another one took its name). -/
def guardOK (fs : FS) (p : Path) : Option Nat → Bool
  | none => true
  | some i => match fs.get (parent p) with
    | some (.dir j) => j == i
    | _ => false

def apply : Op → FS → Res × FS
  | .stat p, fs => (if (fs.get p).isSome then .yes else .no, fs)
  | .lstat p g, fs =>
    if !guardOK fs p g then (.no, fs) else
    (match fs.get p with
      | some (.dir i) => .fd i
      | some (.file _ _) => .yes
      | none => .no, fs)
  | .mkdir p, fs =>
    match fs.get p with
    | some _ => (.eexist, fs)
    | none =>
      match fs.get (parent p) with
      | some (.dir _) => (.ok, { (fs.set p (.dir fs.next)) with next := fs.next + 1 })
      | some (.file _ _) => (.enotdir, fs)
      | none => (.enoent, fs)
  | .creat p, fs =>
    match fs.get p with
    | some (.dir _) => (.eisdir, fs)
    | some (.file i _) => (.fd i, fs.set p (.file i []))
    | none =>
      match fs.get (parent p) with
      | some (.dir _) => (.fd fs.next, { (fs.set p (.file fs.next [])) with next := fs.next + 1 })
      | some (.file _ _) => (.enotdir, fs)
      | none => (.enoent, fs)
  | .write _ i d, fs =>
    (.ok, { fs with names := writeNames i d fs.names, orphans := writeOrphans i d fs.orphans })
  | .rename p q, fs =>
    match fs.get p with
    | none => (.enoent, fs)
    | some (.dir _) => (.eisdir, fs)
    | some (.file i c) =>
      match fs.get (parent q) with
      | some (.dir _) =>
        match fs.get q with
        | some (.dir _) => (.eisdir, fs)
        | some (.file j c') =>
          if q = p then (.ok, fs)
          else (.ok, { ((fs.erase p).set q (.file i c)) with orphans := (q, j, c') :: fs.orphans })
        | none => (.ok, (fs.erase p).set q (.file i c))
      | some (.file _ _) => (.enotdir, fs)
      | none => (.enoent, fs)
  | .unlink p g, fs =>
    if !guardOK fs p g then (.enoent, fs) else
    match fs.get p with
    | none => (.enoent, fs)
    | some (.dir _) => (.eisdir, fs)
    | some (.file i c) => (.ok, { (fs.erase p) with orphans := (p, i, c) :: fs.orphans })
  | .rmdir p g, fs =>
    if !guardOK fs p g then (.enoent, fs) else
    match fs.get p with
    | none => (.enoent, fs)
    | some (.file _ _) => (.enotdir, fs)
    | some (.dir _) => if p = [] then (.enotempty, fs) else
      if (fs.children p).isEmpty then (.ok, fs.erase p) else (.enotempty, fs)
  | .openr p, fs =>
    match fs.get p with
    | none => (.enoent, fs)
    | some (.dir _) => (.eisdir, fs)
    | some (.file i _) => (.fd i, fs)
  | .read p i, fs => (.data (fs.readData p i), fs)
  | .opendir p g, fs =>
    if !guardOK fs p g then (.enoent, fs) else
    match fs.get p with
    | none => (.enoent, fs)
    | some (.file _ _) => (.enotdir, fs)
    | some (.dir i) => (.fd i, fs)
  | .readdir p i, fs =>
    (.names (match fs.get p with
      | some (.dir j) => if j = i then fs.children p else []
      | _ => []), fs)

/-- A `write` cut short by the kill: only the first `n` bytes reach the file. Other calls are atomic. -/
def tear (n : Nat) : Op → Op
  | .write p i d => .write p i (d.take n)
  | o => o

/-! ## Programs -/

inductive Err
  | fileNotFound | fileExists | notADirectory | isADirectory | osError
  | keyError | valueError | unpickleError
deriving DecidableEq, Repr, Inhabited

/-- `OSError` and its subclasses (what `except (IOError, OSError)` catches). -/
def Err.isOSError : Err → Bool
  | .fileNotFound | .fileExists | .notADirectory | .isADirectory | .osError => true
  | _ => false

inductive Prog (α : Type)
  | ret (a : α)
  | raise (e : Err)
  | op (o : Op) (k : Res → Prog α)

namespace Prog

def bind {α β : Type} : Prog α → (α → Prog β) → Prog β
  | ret a, f => f a
  | raise e, _ => raise e
  | op o k, f => op o (fun r => (k r).bind f)

/-- `try: p  except Exception as e: h e` -/
def tryCatch {α : Type} : Prog α → (Err → Prog α) → Prog α
  | ret a, _ => ret a
  | raise e, h => h e
  | op o k, h => op o (fun r => (k r).tryCatch h)

instance : Monad Prog where
  pure := ret
  bind := bind

def call (o : Op) : Prog Res := op o ret

end Prog

inductive Outcome (α : Type)
  | ok (a : α)
  | raised (e : Err)
deriving Repr

instance {α : Type} [DecidableEq α] : DecidableEq (Outcome α) := fun a b =>
  match a, b with
  | .ok x, .ok y => if h : x = y then isTrue (by rw [h]) else isFalse (by intro h'; cases h'; exact h rfl)
  | .raised x, .raised y => if h : x = y then isTrue (by rw [h]) else isFalse (by intro h'; cases h'; exact h rfl)
  | .ok _, .raised _ => isFalse (by intro h; cases h)
  | .raised _, .ok _ => isFalse (by intro h; cases h)

/-- Run a program alone (no other user of the directory) to completion. -/
def run {α : Type} : Prog α → FS → Outcome α × FS
  | .ret a, fs => (.ok a, fs)
  | .raise e, fs => (.raised e, fs)
  | .op o k, fs => run (k (apply o fs).1) (apply o fs).2

/-- The same, also returning the system calls made and their results. -/
def runLog {α : Type} : Prog α → FS → List (Op × Res) × Outcome α × FS
  | .ret a, fs => ([], .ok a, fs)
  | .raise e, fs => ([], .raised e, fs)
  | .op o k, fs =>
    let r := apply o fs
    let rest := runLog (k r.1) r.2
    ((o, r.1) :: rest.1, rest.2)

/-- File system after the process was killed: the first `k` system calls of `p` were made; when `torn = some n` the
last of them, if it is a `write`, only transferred its first `n` bytes. (A program that finishes earlier just finishes.) -/
def crash {α : Type} : Nat → Option Nat → Prog α → FS → FS
  | 0, _, _, fs => fs
  | _ + 1, _, .ret _, fs => fs
  | _ + 1, _, .raise _, fs => fs
  | k + 1, torn, .op o kont, fs =>
    match k, torn with
    | 0, some n => (apply (tear n o) fs).2
    | _, _ => crash k torn (kont (apply o fs).1) (apply o fs).2

/-- Number of system calls of a solo run. -/
def steps {α : Type} : Prog α → FS → Nat
  | .ret _, _ => 0
  | .raise _, _ => 0
  | .op o k, fs => steps (k (apply o fs).1) (apply o fs).2 + 1

/-! ## Paths of the store -/

def pCache : Path := [.cache]
def pGit : Path := [.cache, .gitignore]
def pLoc : Path := [.cache, .joblib]
def pMod : Path := [.cache, .joblib, .mod]
def pFunc : Path := [.cache, .joblib, .mod, .func]
def pCode : Path := [.cache, .joblib, .mod, .func, .funcCode]
def pEntry (a : Nat) : Path := [.cache, .joblib, .mod, .func, .entry a]
def pOut (a : Nat) : Path := [.cache, .joblib, .mod, .func, .entry a, .output]
def pMeta (a : Nat) : Path := [.cache, .joblib, .mod, .func, .entry a, .metadata]
def pTmpOut (a o : Nat) : Path := [.cache, .joblib, .mod, .func, .entry a, .tmpOut o]
def pTmpMeta (a o : Nat) : Path := [.cache, .joblib, .mod, .func, .entry a, .tmpMeta o]

/-! ## Codec and configuration -/

/-- The value a cached function returns: which version of the source computed it, for which argument, and in which
GENERATION (the function is not pure: it reads an epoch that changes between generations; `gen` is the epoch of the
execution that produced the value — "how old the value is"). -/
structure Val where
  ver : Nat
  arg : Nat
  gen : Nat
deriving DecidableEq, Repr, Inhabited

/-- Result of comparing the text read from `func_code.py` with the live source
(`extract_first_line` + `old_func_code == func_code`). -/
inductive CodeRead
  | same         -- the stored code is the live code
  | differs      -- readable, different
  | valueError   -- `.decode('utf-8')` or `int(first line)` raises ValueError
deriving DecidableEq, Repr, Inhabited

structure Codec where
  /-- `numpy_pickle.dump(v, f, compress=…)` -/
  pickle : Val → Bytes
  /-- `numpy_pickle.load(f)`; `none` = raises -/
  unpickle : Bytes → Option Val
  /-- `json.dumps(metadata).encode()` (duration, input_args, time); the argument is the STAMP: the generation in which
  `time.time()` was read by `_persist_input` -/
  metaText : Nat → Bytes
  /-- `json.loads(...)` succeeded and the dict has a `'time'` key: its stamp; anything else reads as `{}` = `none` -/
  metaStamp : Bytes → Option Nat
  /-- `'# first line: N\n' + source` of version `v` -/
  codeText : Nat → Bytes
  /-- comparison of a `func_code.py` content with the live version `v` -/
  checkCode : Nat → Bytes → CodeRead
  gitText : Bytes

/-- `cache_validation_callback`: none, or `expires_after(...)` whose answer for an entry with a readable time stamp is
`fresh` (`expires_after(days=1)`: true, `expires_after(seconds=-1)`: false), or `since g`: `expires_after(delta)` seen
from a fixed instant — an entry with a readable time stamp is valid iff its stamp is of generation `g` or later
(`time.time() - metadata['time'] < delta` with `now - delta` falling at the start of generation `g`). All of them answer
"not valid" for metadata without a time stamp (the repaired `expires_after`). -/
inductive Callback
  | none
  | expires (fresh : Bool)
  | since (g : Nat)
deriving DecidableEq, Repr

/-- the callback's answer for an entry whose metadata has the time stamp `t` -/
def Callback.accepts : Callback → Nat → Bool
  | .none, _ => true
  | .expires fresh, _ => fresh
  | .since g, t => g ≤ t

structure Cfg where
  codec : Codec
  /-- participant id (thread id + pid in the temporary names) -/
  me : Nat
  /-- live source version -/
  ver : Nat
  /-- the generation this process lives in: the epoch its executions of the function read and what its `time.time()`
  stands for -/
  gen : Nat := 0
  callback : Callback := .none
  /-- `call_and_shelve(...).get()` instead of `__call__` -/
  shelve : Bool := false
  /-- kernel's directory-entry order (`getdents64`): smaller rank first -/
  rank : Name → Nat := fun _ => 0
  /-- the unrepaired code (before fixes F08, F09): `expires_after` indexes `metadata['time']` unconditionally and a
  `ValueError` from reading `func_code.py` propagates -/
  legacy : Bool := false
  /-- VARIANT (seeded change C05-r4-m1, first half; not the code): `_after_call` stores `metadata.json` before `output.pkl` -/
  metadataFirst : Bool := false
  /-- VARIANT (C05-r4-m1, second half): `_is_in_cache_and_valid` does not `clear_item` an entry its callback rejected -/
  keepRejected : Bool := false
  /-- VARIANT (C05-r4-m2): `_is_in_cache_and_valid` returns early without reading the metadata when there is no callback
  and does not consult the callback when `get_metadata` returned `{}` -/
  skipCallbackWithoutMetadata : Bool := false


/-! ## Library procedures (CPython 3.12) -/

open Prog

def exists_ (p : Path) : Prog Bool :=
  op (.stat p) fun r => ret (r == .yes)

/-- `os.mkdir(p)` -/
def mkdir1 (p : Path) : Prog Unit :=
  op (.mkdir p) fun r =>
    match r with
    | .ok => ret ()
    | .eexist => raise .fileExists
    | .enoent => raise .fileNotFound
    | .enotdir => raise .notADirectory
    | _ => raise .osError

/-- `os.makedirs(p)` (exist_ok=False): probe the parent, create it first when missing (ignoring FileExistsError there),
then `mkdir`. The probe of the root (outside the cache directory) is not a modelled call. -/
def makedirs : Nat → Path → Prog Unit
  | 0, p => mkdir1 p
  | fuel + 1, p =>
    if parent p = [] then mkdir1 p
    else
      op (.stat (parent p)) fun r =>
        if r == .yes then mkdir1 p
        else
          ((makedirs fuel (parent p)).tryCatch fun e =>
            if e = .fileExists then ret () else raise e).bind fun _ => mkdir1 p

/-- `joblib.disk.mkdirp` -/
def mkdirp (p : Path) : Prog Unit :=
  (makedirs p.length p).tryCatch fun e => if e = .fileExists then ret () else raise e

/-- Insertion of a directory entry by kernel order. -/
def insertRank (rank : Name → Nat) (x : Name × Bool) : List (Name × Bool) → List (Name × Bool)
  | [] => [x]
  | y :: ys => if rank x.1 ≤ rank y.1 then x :: y :: ys else y :: insertRank rank x ys

def sortRank (rank : Name → Nat) : List (Name × Bool) → List (Name × Bool)
  | [] => []
  | x :: xs => insertRank rank x (sortRank rank xs)

/-- `os.scandir(fd)` + `list(...)`: the entries in kernel order; an error lists nothing. -/
def scandir (rank : Name → Nat) (p : Path) (i : Nat) (k : List (Name × Bool) → Prog α) : Prog α :=
  op (.readdir p i) fun r =>
    match r with
    | .names l => k (sortRank rank l)
    | _ => k []

/-- `for entry in entries:` of `shutil._rmtree_safe_fd`; `strict = false` is `ignore_errors=True`. -/
def rmLoop (strict : Bool) (recur : Path → Nat → Prog Unit) (p : Path) (di : Nat) : List (Name × Bool) → Prog Unit
  | [] => ret ()
  | (n, true) :: rest =>
    op (.lstat (p ++ [n]) (some di)) fun r0 =>           -- orig_st = entry.stat(follow_symlinks=False)
      if r0 == .no then (if strict then raise .fileNotFound else rmLoop strict recur p di rest)
      else op (.opendir (p ++ [n]) (some di)) fun r =>   -- os.open(entry.name, O_RDONLY, dir_fd=topfd)
        match r with
        | .fd j =>
          if r0 == .fd j then                  -- os.path.samestat(orig_st, os.fstat(dirfd))
            (recur (p ++ [n]) j).bind fun _ =>
            op (.rmdir (p ++ [n]) (some di)) fun r =>
              if strict && r != .ok then raise .osError else rmLoop strict recur p di rest
          else (if strict then raise .osError else rmLoop strict recur p di rest)   -- another directory took the name
        | _ => if strict then raise .fileNotFound else rmLoop strict recur p di rest
  | (n, false) :: rest =>
    op (.unlink (p ++ [n]) (some di)) fun r =>
      if strict && r != .ok then raise .fileNotFound else rmLoop strict recur p di rest

/-- `shutil._rmtree_safe_fd(topfd, path, onexc)`; the fuel bounds the directory depth (4 here). -/
def rmSafeFd (rank : Name → Nat) (strict : Bool) : Nat → Path → Nat → Prog Unit
  | 0, _, _ => ret ()
  | fuel + 1, p, i => scandir rank p i fun l => rmLoop strict (rmSafeFd rank strict fuel) p i l

/-- `shutil.rmtree(p, ignore_errors = !strict)` -/
def rmtree (rank : Name → Nat) (strict : Bool) (p : Path) : Prog Unit :=
  op (.lstat p) fun r0 =>                      -- orig_st = os.lstat(path)
    if r0 == .no then (if strict then raise .fileNotFound else ret ())
    else op (.opendir p) fun r =>              -- os.open(path, O_RDONLY)
      match r with
      | .fd i =>
        if r0 == .fd i then                    -- os.path.samestat(orig_st, os.fstat(fd))
          (rmSafeFd rank strict 5 p i).bind fun _ =>
          op (.rmdir p) fun r => if strict && r != .ok then raise .osError else ret ()
        else (if strict then raise .osError else ret ())
      | _ => if strict then raise .fileNotFound else ret ()

/-! ## joblib procedures -/

section
variable (c : Cfg)

/-- `FileSystemStoreBackend.configure` (called by `Memory.__init__`) -/
def configure : Prog Unit :=
  (exists_ pLoc).bind fun e =>
  (if e then ret () else mkdirp pLoc).bind fun _ =>
  op (.creat pGit) fun r =>
    match r with
    | .fd i => op (.write pGit i c.codec.gitText) fun _ => ret ()
    | .eisdir => raise .isADirectory
    | .enotdir => raise .notADirectory
    | _ => raise .fileNotFound

/-- `store_cached_func_code([func_id])` without code (called by `MemorizedFunc.__init__`) -/
def ensureFuncDir : Prog Unit :=
  (exists_ pFunc).bind fun e => if e then ret () else mkdirp pFunc

/-- `store_cached_func_code([func_id], func_code)` as called by `_write_func_code` -/
def writeFuncCode : Prog Unit :=
  ensureFuncDir.bind fun _ =>
  op (.creat pCode) fun r =>
    match r with
    | .fd i => op (.write pCode i (c.codec.codeText c.ver)) fun _ => ret ()
    | .eisdir => raise .isADirectory
    | .enotdir => raise .notADirectory
    | _ => raise .fileNotFound

/-- `MemorizedFunc.clear()` : `clear_path` + `_write_func_code` -/
def clearFunc : Prog Unit :=
  (exists_ pFunc).bind fun e =>
  (if e then rmtree c.rank false pFunc else ret ()).bind fun _ =>
  writeFuncCode c

/-- `_check_previous_func_code` in a process that has not validated this function yet. -/
def checkPrevious : Prog Bool :=
  op (.openr pCode) fun r =>
    match r with
    | .fd i =>
      op (.read pCode i) fun r =>
        match r with
        | .data d =>
          match c.codec.checkCode c.ver d with
          | .same => ret true
          | .differs => (clearFunc c).bind fun _ => ret false
          | .valueError =>
            if c.legacy then raise .valueError else (clearFunc c).bind fun _ => ret false
        | _ => raise .osError
    | _ => (writeFuncCode c).bind fun _ => ret false    -- except (IOError, OSError)

/-- `get_metadata`: `some t` iff the file reads as JSON with a `'time'` key (of stamp `t`); every failure reads as `{}`. -/
def getMetadata (a : Nat) : Prog (Option Nat) :=
  op (.openr (pMeta a)) fun r =>
    match r with
    | .fd i => op (.read (pMeta a) i) fun r =>
        match r with
        | .data d => ret (c.codec.metaStamp d)
        | _ => ret none
    | _ => ret none

/-- `clear_item` -/
def clearItem (a : Nat) : Prog Unit :=
  (exists_ (pEntry a)).bind fun e => if e then rmtree c.rank false (pEntry a) else ret ()

/-- `_is_in_cache_and_valid` -/
def isInCacheAndValid (a : Nat) : Prog Bool :=
  (checkPrevious c).bind fun okc =>
  if !okc then ret false else
  (exists_ (pOut a)).bind fun e =>
  if !e then ret false else
  if c.skipCallbackWithoutMetadata && c.callback == .none then ret true else
  (getMetadata c a).bind fun stamp =>
  /- the callback said "not valid": `clear_item`, `return False` -/
  let reject : Prog Bool := if c.keepRejected then ret false else (clearItem c a).bind fun _ => ret false
  match c.callback with
  | .none => ret true
  | cb =>
    match stamp with
    | .none =>
      if c.skipCallbackWithoutMetadata then ret true
      else if c.legacy then raise .keyError else reject
    | .some t => if cb.accepts t then ret true else reject

/-- `load_item` -/
def loadItem (a : Nat) : Prog Val :=
  (exists_ (pOut a)).bind fun e =>
  if !e then raise .keyError else
  op (.openr (pOut a)) fun r =>
    match r with
    | .fd i => op (.read (pOut a) i) fun r =>
        match r with
        | .data d =>
          match c.codec.unpickle d with
          | some v => ret v
          | none => raise .unpickleError
        | _ => raise .osError
    | .eisdir => raise .isADirectory
    | _ => raise .fileNotFound

/-- `_concurrency_safe_write`: private temporary, then `os.replace`. -/
def safeWrite (tmp final : Path) (d : Bytes) : Prog Unit :=
  op (.creat tmp) fun r =>
    match r with
    | .fd i =>
      op (.write tmp i d) fun _ =>
      op (.rename tmp final) fun r =>
        match r with
        | .ok => ret ()
        | .eisdir => raise .isADirectory
        | _ => raise .fileNotFound
    | .eisdir => raise .isADirectory
    | .enotdir => raise .notADirectory
    | _ => raise .fileNotFound

/-- `dump_item` (every exception becomes a warning) -/
def dumpItem (a : Nat) (v : Val) : Prog Unit :=
  ((exists_ (pEntry a)).bind fun e =>
   (if e then ret () else mkdirp (pEntry a)).bind fun _ =>
   safeWrite (pTmpOut a c.me) (pOut a) (c.codec.pickle v)).tryCatch fun _ => ret ()

/-- `store_metadata` (bare `except: pass`) -/
def storeMetadata (a : Nat) : Prog Unit :=
  ((mkdirp (pEntry a)).bind fun _ =>
   safeWrite (pTmpMeta a c.me) (pMeta a) (c.codec.metaText c.gen)).tryCatch fun _ => ret ()

/-- `MemorizedResult.get()` : `load_item`, `ValueError` re-raised as `KeyError` -/
def resultGet (a : Nat) : Prog Val :=
  (loadItem c a).tryCatch fun e => if e = .valueError then raise .keyError else raise e

/-- `_call` + `_after_call` + `_persist_input` (the function body itself makes no modelled call): the value is the one
of this process's generation, the metadata is stamped with it; `output.pkl` first, then `metadata.json`. -/
def computeAndStore (a : Nat) : Prog Val :=
  let v : Val := ⟨c.ver, a, c.gen⟩
  (if c.metadataFirst then (storeMetadata c a).bind fun _ => dumpItem c a v
   else (dumpItem c a v).bind fun _ => storeMetadata c a).bind fun _ =>
  if c.shelve then resultGet c a else ret v

/-- `MemorizedFunc._cached_call` (`__call__`, or `call_and_shelve(...).get()` when `c.shelve`) -/
def cachedCall (a : Nat) : Prog Val :=
  (isInCacheAndValid c a).bind fun valid =>
  if valid then
    if c.shelve then
      -- `_get_memorized_result(call_id)` reads the metadata again, `.get()` loads
      (getMetadata c a).bind fun _ => resultGet c a
    else
      ((loadItem c a).bind fun v => ret (some v)).tryCatch (fun _ => ret none) |>.bind fun r =>
        match r with
        | some v => ret v
        | none => computeAndStore c a
  else computeAndStore c a

/-- A fresh process: `Memory(location)`, `memory.cache(f)`, one call. -/
def callProc (a : Nat) : Prog Val :=
  (configure c).bind fun _ => (ensureFuncDir).bind fun _ => cachedCall c a

/-! ### `Memory.reduce_size` and `Memory.clear` -/

/-- body of the `os.walk` loop in `get_items` for a hash directory `E a`: `getatime(output.pkl)` (falling back to the
directory), `getsize` of every file; `true` = the entry is reported. -/
def itemStats (a : Nat) : List (Name × Bool) → Prog Bool
  | files =>
    op (.stat (pOut a)) fun r =>
      let sizes : List (Name × Bool) → Prog Bool := fun fl =>
        fl.foldr (fun nf acc => op (.stat (pEntry a ++ [nf.1])) fun r => if r == .yes then acc else ret false) (ret true)
      if r == .yes then sizes files
      else op (.stat (pEntry a)) fun r => if r == .yes then sizes files else ret false

/-- `os.walk(top)` as `get_items` uses it: list, run the body for hash directories, `islink` every sub-directory in
reverse order, then descend in listing order. Returns the arguments whose entries were reported. -/
def walk (rank : Name → Nat) : Nat → Path → Prog (List Nat)
  | 0, _ => ret []
  | fuel + 1, p =>
    op (.opendir p) fun r =>
      match r with
      | .fd i =>
        scandir rank p i fun l =>
          let dirs := l.filter (·.2)
          let files := l.filter (fun x => !x.2)
          let here : Prog (List Nat) :=
            match p.getLast? with
            | some (.entry a) => if p = pEntry a then (itemStats a files).bind fun b => ret (if b then [a] else []) else ret []
            | _ => ret []
          here.bind fun found =>
          (dirs.reverse.foldr (fun d acc => op (.stat (p ++ [d.1])) fun _ => acc) (ret ())).bind fun _ =>
          (dirs.foldr (fun d acc => (walk rank fuel (p ++ [d.1])).bind fun f1 => acc.bind fun f2 => ret (f1 ++ f2))
            (ret [])).bind fun sub => ret (found ++ sub)
      | _ => ret []

/-- `Memory.reduce_size`: inventory, then `rmtree` of the victims in eviction order (`OSError` ignored). `victims` is
the eviction order decided by `_get_items_to_delete` (model `Lru`, property C18) — an input here; only entries the
inventory reported are evicted. -/
def reduceProc (victims : List Nat) : Prog Unit :=
  (configure c).bind fun _ =>
  (walk c.rank 6 pLoc).bind fun found =>
  (victims.filter (found.contains ·)).foldr
    (fun a acc => ((rmtree c.rank false (pEntry a)).tryCatch fun e => if e.isOSError then ret () else raise e).bind fun _ => acc)
    (ret ())

/-- `disk.delete_folder(p)` with its retry loop (`fuel` = RM_SUBDIRS_N_RETRY + 1 attempts). -/
def deleteFolder (p : Path) : Nat → Prog Unit
  | 0 => raise .osError
  | fuel + 1 =>
    op (.opendir p) fun r =>          -- os.listdir(folder_path), outside the try
      match r with
      | .fd i =>
        scandir c.rank p i fun _ =>
          (rmtree c.rank true p).tryCatch fun e =>
            if e.isOSError then (if fuel = 0 then raise e else deleteFolder p fuel) else raise e
      | .enotdir => raise .notADirectory
      | _ => raise .fileNotFound

/-- `Memory.clear()` = `rm_subdirs(location)` -/
def clearProc : Prog Unit :=
  (configure c).bind fun _ =>
  op (.opendir pLoc) fun r =>
    match r with
    | .fd i =>
      scandir c.rank pLoc i fun l =>
        l.foldr (fun n acc =>
          op (.stat (pLoc ++ [n.1])) fun r =>       -- os.path.isdir
            (if r == .yes && n.2 then deleteFolder c (pLoc ++ [n.1]) 11 else ret ()).bind fun _ => acc) (ret ())
    | _ => raise .fileNotFound

end

end JoblibModel.Store
