/-
Model M4 `Store` — the on-disk protocol of `joblib.Memory` (properties C05, C11).

Anchors: joblib/_store_backends.py (StoreBackendMixin, FileSystemStoreBackend, concurrency_safe_write),
joblib/backports.py (concurrency_safe_rename = os.replace), joblib/disk.py (mkdirp, rm_subdirs, delete_folder),
joblib/memory.py (MemorizedFunc._cached_call, _is_in_cache_and_valid, _check_previous_func_code, _write_func_code,
clear, _call/_after_call, _persist_input, MemorizedResult.get, Memory.__init__/clear/reduce_size, expires_after),
CPython 3.12 os.makedirs, os.walk, shutil.rmtree (_rmtree_safe_fd).

Python → Lean
* the scratch directory that contains the cache directory            : the root path `[]` (always a directory)
* `<location>`, `<location>/.gitignore`, `<location>/joblib`          : `pCache`, `pGit`, `pLoc`
* `<location>/joblib/<module>/<func>` (= `func_id`)                   : `pMod`, `pFunc`;  `func_code.py` : `pCode`
* `<func dir>/<args_id>` (argument `a`; `args_id` is abstracted to `a`): `pEntry a`; `output.pkl`, `metadata.json`
* `<name>.thread-<id>-pid-<pid>` of the participant `o`               : `Name.tmpOut o`, `Name.tmpMeta o`
* a system call                                                        : `Op`; its result `Res`; `apply : Op → FS → Res × FS`
* open files survive `unlink`/`rename`: every file has an inode number; `creat` on an existing name truncates the same
  inode; replaced / unlinked inodes move to `orphans`; `write` is the (single) write of the whole content at offset 0
* a Python procedure                                                   : `Prog α` — a tree whose nodes are single system
  calls (`Prog.op o k`), leaves `ret a` (returns) / `raise e` (propagates an exception); `try/except` = `Prog.tryCatch`
* `numpy_pickle.dump/load`, `json.dumps/loads`, the `func_code.py` text and its comparison with the live source
                                                                       : `Codec` (parameters; hypotheses in JoblibProofs)
* kill -9 after k system calls, the k-th possibly torn                 : `crash`
Import-free, total, computable.
-/
namespace JoblibModel.Store

/-! ## File system -/

inductive Name
  | cache | gitignore | joblib | mod | func | funcCode
  | entry (a : Nat) | output | metadata | tmpOut (o : Nat) | tmpMeta (o : Nat)
deriving DecidableEq, Repr, Inhabited

abbrev Path := List Name
abbrev Bytes := List Nat

inductive Node
  | dir (ino : Nat)
  | file (ino : Nat) (data : Bytes)
deriving DecidableEq, Repr, Inhabited

structure FS where
  names : List (Path × Node)
  orphans : List (Nat × Bytes)
  next : Nat
deriving Repr, Inhabited

def FS.empty : FS := ⟨[], [], 1⟩

def lookup (p : Path) : List (Path × Node) → Option Node
  | [] => none
  | (q, n) :: r => if q = p then some n else lookup p r

/-- The node at a path; the root is always a directory. -/
def FS.get (fs : FS) (p : Path) : Option Node :=
  if p = [] then some (.dir 0) else lookup p fs.names

def eraseName (p : Path) : List (Path × Node) → List (Path × Node)
  | [] => []
  | (q, n) :: r => if q = p then eraseName p r else (q, n) :: eraseName p r

def FS.set (fs : FS) (p : Path) (n : Node) : FS :=
  { fs with names := (p, n) :: eraseName p fs.names }

def FS.erase (fs : FS) (p : Path) : FS :=
  { fs with names := eraseName p fs.names }

def parent (p : Path) : Path := p.dropLast

/-- Names directly under `p`, with their "is a directory" flag, in the order of `fs.names`. -/
def childrenOf (p : Path) : List (Path × Node) → List (Name × Bool)
  | [] => []
  | (q, n) :: r =>
    match q.getLast? with
    | some last =>
      if q.dropLast = p then (last, match n with | .dir _ => true | .file _ _ => false) :: childrenOf p r
      else childrenOf p r
    | none => childrenOf p r

def FS.children (fs : FS) (p : Path) : List (Name × Bool) := childrenOf p fs.names

/-- `pwrite(fd, d, 0)` on content `c`. -/
def overwrite (c d : Bytes) : Bytes := d ++ c.drop d.length

def writeNames (i : Nat) (d : Bytes) : List (Path × Node) → List (Path × Node)
  | [] => []
  | (q, .file j c) :: r => (q, .file j (if j = i then overwrite c d else c)) :: writeNames i d r
  | (q, n) :: r => (q, n) :: writeNames i d r

def writeOrphans (i : Nat) (d : Bytes) : List (Nat × Bytes) → List (Nat × Bytes)
  | [] => []
  | (j, c) :: r => (j, if j = i then overwrite c d else c) :: writeOrphans i d r

def inoInNames (i : Nat) : List (Path × Node) → Option Bytes
  | [] => none
  | (_, .file j c) :: r => if j = i then some c else inoInNames i r
  | _ :: r => inoInNames i r

def inoInOrphans (i : Nat) : List (Nat × Bytes) → Option Bytes
  | [] => none
  | (j, c) :: r => if j = i then some c else inoInOrphans i r

/-- Content of the open file with inode `i` (linked or not). -/
def FS.inoData (fs : FS) (i : Nat) : Bytes :=
  match inoInNames i fs.names with
  | some c => c
  | none => (inoInOrphans i fs.orphans).getD []

/-- Content of the file at a path. -/
def FS.dataAt (fs : FS) (p : Path) : Option Bytes :=
  match fs.get p with
  | some (.file _ c) => some c
  | _ => none

def FS.isDir (fs : FS) (p : Path) : Bool :=
  match fs.get p with
  | some (.dir _) => true
  | _ => false

inductive Op
  | stat (p : Path)
  | mkdir (p : Path)
  | creat (p : Path)
  | write (p : Path) (ino : Nat) (d : Bytes)
  | rename (p q : Path)
  | unlink (p : Path)
  | rmdir (p : Path)
  | openr (p : Path)
  | read (p : Path) (ino : Nat)
  | opendir (p : Path)
  | readdir (p : Path) (ino : Nat)
deriving DecidableEq, Repr

inductive Res
  | ok | yes | no | enoent | eexist | enotempty | eisdir | enotdir
  | fd (ino : Nat)
  | data (d : Bytes)
  | names (l : List (Name × Bool))
deriving DecidableEq, Repr, Inhabited

def apply : Op → FS → Res × FS
  | .stat p, fs => (if (fs.get p).isSome then .yes else .no, fs)
  | .mkdir p, fs =>
    match fs.get p with
    | some _ => (.eexist, fs)
    | none =>
      match fs.get (parent p) with
      | some (.dir _) => (.ok, { (fs.set p (.dir fs.next)) with next := fs.next + 1 })
      | some (.file _ _) => (.enotdir, fs)
      | none => (.enoent, fs)
  | .creat p, fs =>
    match fs.get p with
    | some (.dir _) => (.eisdir, fs)
    | some (.file i _) => (.fd i, fs.set p (.file i []))
    | none =>
      match fs.get (parent p) with
      | some (.dir _) => (.fd fs.next, { (fs.set p (.file fs.next [])) with next := fs.next + 1 })
      | some (.file _ _) => (.enotdir, fs)
      | none => (.enoent, fs)
  | .write _ i d, fs =>
    (.ok, { fs with names := writeNames i d fs.names, orphans := writeOrphans i d fs.orphans })
  | .rename p q, fs =>
    match fs.get p with
    | none => (.enoent, fs)
    | some (.dir _) => (.eisdir, fs)
    | some (.file i c) =>
      match fs.get (parent q) with
      | some (.dir _) =>
        match fs.get q with
        | some (.dir _) => (.eisdir, fs)
        | some (.file j c') =>
          if q = p then (.ok, fs)
          else (.ok, { ((fs.erase p).set q (.file i c)) with orphans := (j, c') :: fs.orphans })
        | none => (.ok, (fs.erase p).set q (.file i c))
      | some (.file _ _) => (.enotdir, fs)
      | none => (.enoent, fs)
  | .unlink p, fs =>
    match fs.get p with
    | none => (.enoent, fs)
    | some (.dir _) => (.eisdir, fs)
    | some (.file i c) => (.ok, { (fs.erase p) with orphans := (i, c) :: fs.orphans })
  | .rmdir p, fs =>
    match fs.get p with
    | none => (.enoent, fs)
    | some (.file _ _) => (.enotdir, fs)
    | some (.dir _) => if p = [] then (.enotempty, fs) else
      if (fs.children p).isEmpty then (.ok, fs.erase p) else (.enotempty, fs)
  | .openr p, fs =>
    match fs.get p with
    | none => (.enoent, fs)
    | some (.dir _) => (.eisdir, fs)
    | some (.file i _) => (.fd i, fs)
  | .read _ i, fs => (.data (fs.inoData i), fs)
  | .opendir p, fs =>
    match fs.get p with
    | none => (.enoent, fs)
    | some (.file _ _) => (.enotdir, fs)
    | some (.dir i) => (.fd i, fs)
  | .readdir p i, fs =>
    (.names (match fs.get p with
      | some (.dir j) => if j = i then fs.children p else []
      | _ => []), fs)

/-- A `write` cut short by the kill: only the first `n` bytes reach the file. Other calls are atomic. -/
def tear (n : Nat) : Op → Op
  | .write p i d => .write p i (d.take n)
  | o => o

/-! ## Programs -/

inductive Err
  | fileNotFound | fileExists | notADirectory | isADirectory | osError
  | keyError | valueError | unpickleError
deriving DecidableEq, Repr, Inhabited

/-- `OSError` and its subclasses (what `except (IOError, OSError)` catches). -/
def Err.isOSError : Err → Bool
  | .fileNotFound | .fileExists | .notADirectory | .isADirectory | .osError => true
  | _ => false

inductive Prog (α : Type)
  | ret (a : α)
  | raise (e : Err)
  | op (o : Op) (k : Res → Prog α)

namespace Prog

def bind {α β : Type} : Prog α → (α → Prog β) → Prog β
  | ret a, f => f a
  | raise e, _ => raise e
  | op o k, f => op o (fun r => (k r).bind f)

/-- `try: p  except Exception as e: h e` -/
def tryCatch {α : Type} : Prog α → (Err → Prog α) → Prog α
  | ret a, _ => ret a
  | raise e, h => h e
  | op o k, h => op o (fun r => (k r).tryCatch h)

instance : Monad Prog where
  pure := ret
  bind := bind

def call (o : Op) : Prog Res := op o ret

end Prog

inductive Outcome (α : Type)
  | ok (a : α)
  | raised (e : Err)
deriving Repr

instance {α : Type} [DecidableEq α] : DecidableEq (Outcome α) := fun a b =>
  match a, b with
  | .ok x, .ok y => if h : x = y then isTrue (by rw [h]) else isFalse (by intro h'; cases h'; exact h rfl)
  | .raised x, .raised y => if h : x = y then isTrue (by rw [h]) else isFalse (by intro h'; cases h'; exact h rfl)
  | .ok _, .raised _ => isFalse (by intro h; cases h)
  | .raised _, .ok _ => isFalse (by intro h; cases h)

/-- Run a program alone (no other user of the directory) to completion. -/
def run {α : Type} : Prog α → FS → Outcome α × FS
  | .ret a, fs => (.ok a, fs)
  | .raise e, fs => (.raised e, fs)
  | .op o k, fs => run (k (apply o fs).1) (apply o fs).2

/-- The same, also returning the system calls made and their results. -/
def runLog {α : Type} : Prog α → FS → List (Op × Res) × Outcome α × FS
  | .ret a, fs => ([], .ok a, fs)
  | .raise e, fs => ([], .raised e, fs)
  | .op o k, fs =>
    let r := apply o fs
    let rest := runLog (k r.1) r.2
    ((o, r.1) :: rest.1, rest.2)

/-- File system after the process was killed: the first `k` system calls of `p` were made; when `torn = some n` the
last of them, if it is a `write`, only transferred its first `n` bytes. (A program that finishes earlier just finishes.) -/
def crash {α : Type} : Nat → Option Nat → Prog α → FS → FS
  | 0, _, _, fs => fs
  | _ + 1, _, .ret _, fs => fs
  | _ + 1, _, .raise _, fs => fs
  | k + 1, torn, .op o kont, fs =>
    match k, torn with
    | 0, some n => (apply (tear n o) fs).2
    | _, _ => crash k torn (kont (apply o fs).1) (apply o fs).2

/-- Number of system calls of a solo run. -/
def steps {α : Type} : Prog α → FS → Nat
  | .ret _, _ => 0
  | .raise _, _ => 0
  | .op o k, fs => steps (k (apply o fs).1) (apply o fs).2 + 1

/-! ## Paths of the store -/

def pCache : Path := [.cache]
def pGit : Path := [.cache, .gitignore]
def pLoc : Path := [.cache, .joblib]
def pMod : Path := [.cache, .joblib, .mod]
def pFunc : Path := [.cache, .joblib, .mod, .func]
def pCode : Path := [.cache, .joblib, .mod, .func, .funcCode]
def pEntry (a : Nat) : Path := [.cache, .joblib, .mod, .func, .entry a]
def pOut (a : Nat) : Path := [.cache, .joblib, .mod, .func, .entry a, .output]
def pMeta (a : Nat) : Path := [.cache, .joblib, .mod, .func, .entry a, .metadata]
def pTmpOut (a o : Nat) : Path := [.cache, .joblib, .mod, .func, .entry a, .tmpOut o]
def pTmpMeta (a o : Nat) : Path := [.cache, .joblib, .mod, .func, .entry a, .tmpMeta o]

/-! ## Codec and configuration -/

/-- The value a cached function returns: which version of the source computed it, for which argument. -/
structure Val where
  ver : Nat
  arg : Nat
deriving DecidableEq, Repr, Inhabited

/-- Result of comparing the text read from `func_code.py` with the live source
(`extract_first_line` + `old_func_code == func_code`). -/
inductive CodeRead
  | same         -- the stored code is the live code
  | differs      -- readable, different
  | valueError   -- `.decode('utf-8')` or `int(first line)` raises ValueError
deriving DecidableEq, Repr, Inhabited

structure Codec where
  /-- `numpy_pickle.dump(v, f, compress=…)` -/
  pickle : Val → Bytes
  /-- `numpy_pickle.load(f)`; `none` = raises -/
  unpickle : Bytes → Option Val
  /-- `json.dumps(metadata).encode()` (duration, input_args, time) -/
  metaText : Bytes
  /-- `json.loads(...)` succeeded and the dict has a `'time'` key; anything else reads as `{}` -/
  metaHasTime : Bytes → Bool
  /-- `'# first line: N\n' + source` of version `v` -/
  codeText : Nat → Bytes
  /-- comparison of a `func_code.py` content with the live version `v` -/
  checkCode : Nat → Bytes → CodeRead
  gitText : Bytes

/-- `cache_validation_callback`: none, or `expires_after(...)` whose answer for an entry with a readable time stamp is
`fresh` (`expires_after(days=1)`: true, `expires_after(seconds=-1)`: false). -/
inductive Callback
  | none
  | expires (fresh : Bool)
deriving DecidableEq, Repr

structure Cfg where
  codec : Codec
  /-- participant id (thread id + pid in the temporary names) -/
  me : Nat
  /-- live source version -/
  ver : Nat
  callback : Callback := .none
  /-- `call_and_shelve(...).get()` instead of `__call__` -/
  shelve : Bool := false
  /-- kernel's directory-entry order (`getdents64`): smaller rank first -/
  rank : Name → Nat := fun _ => 0
  /-- the unrepaired code (before fixes F08, F09): `expires_after` indexes `metadata['time']` unconditionally and a
  `ValueError` from reading `func_code.py` propagates -/
  legacy : Bool := false

end JoblibModel.Store
