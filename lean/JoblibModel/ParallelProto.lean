/-
M1 — the dispatch / completion / retrieval protocol of `joblib.Parallel` (joblib/parallel.py) for backends
with `supports_retrieve_callback` (threading, loky, multiprocessing, and the harness backend), `n_jobs ≥ 2`.

Granularity: the caller's code runs between *hook points*; at a hook point the schedule delivers completions of
parked batches, each completion callback (`BatchCompletionCallBack.__call__`, incl. `_dispatch_new` /
`dispatch_next`) running to completion.  Hook points are `backend.configure`, `backend.compute_batch_size`
(caller only), the retrieval loop's `time.sleep`, consumer pauses, `backend.abort_everything` (inside `_abort`, after
`_aborting` is set), and the moments between two calls / after the last call on the object.  This is exactly what harness/ctl.py executes
on the real code, so the correspondence is event-for-event.  (Interleavings *inside* a callback or between two
bytecodes of the caller are finer than this model: see DESIGN "M1 granularity".)

Python → Lean (names kept): `_ready_batches`→`ready`, `_jobs`→`jobs`, `_jobs_set`→`jobsSet`,
`_original_iterator is not None`→`origAlive`, the `pre_dispatch`-long islice→`preLeft`, trackers
(`BatchCompletionCallBack`)→`trk` table indexed by creation order, `_call_id`→`callId`.
Import-free, total, computable; loops take fuel (bounded in the proofs).
-/
namespace JoblibModel.ParallelProto

inductive Exc where
  | task (id : Nat)      -- raised by task `id`
  | iter (id : Nat)      -- raised by the input iterable at global position `id`
  | timeout              -- TimeoutError registered by the caller
  | runtime              -- RuntimeError("This Parallel instance is already running")
  | attr                 -- AttributeError: a tracker without `_result` was asked for its result
  | key                  -- KeyError: `_jobs_set.remove` of a tracker that is not in the set
deriving DecidableEq, Repr, Inhabited

inductive Status where
  | pending | done | error
deriving DecidableEq, Repr, Inhabited

inductive Res where
  | none
  | vals (l : List Nat)
  | exc (e : Exc)
deriving DecidableEq, Repr, Inhabited

structure Tracker where
  items : List Nat
  bsize : Nat
  callId : Nat
  status : Status := .pending
  result : Res := .none
  toCounter : Option Int := none
deriving Repr, Inhabited

structure Cfg where
  nj : Nat
  bsAuto : Bool
  bs : List Nat
  pdMode : Nat           -- 0 int, 1 'all', 2 expression (evaluated to `pd` by the harness)
  pd : Nat
  ra : Nat               -- 0 list, 1 generator, 2 generator_unordered
  timeout : Int          -- -1 = None, else ticks
  managed0 : Bool
  abortDrops : Bool
deriving Repr, Inhabited

structure CallSpec where
  n : Nat
  fail : List Nat
  iterfail : Int
  cons : List Nat
deriving Repr, Inhabited

structure St where
  -- harness / environment
  log : List String := []          -- newest first
  sched : List (List Nat) := []
  parked : List Nat := []          -- tracker ids, submit order
  bsI : Nat := 0
  idle : Nat := 0
  now : Int := 1000
  inCb : Bool := false
  hung : Bool := false
  failIds : List Nat := []         -- global ids of the tasks that raise
  -- the current call's input iterable
  base : Nat := 0
  spec : CallSpec := ⟨0, [], -1, []⟩
  srcPos : Nat := 0
  srcDead : Bool := false
  -- the Parallel object
  ready : List (List Nat) := []
  preLeft : Option Nat := none
  origAlive : Bool := false
  jobs : List Nat := []
  jobsSet : List Nat := []
  trk : List Tracker := []
  nDispTasks : Nat := 0
  nDispBatches : Nat := 0
  nCompleted : Nat := 0
  nbConsumed : Nat := 0
  iterating : Bool := false
  aborting : Bool := false
  aborted : Bool := false
  exception : Bool := false
  running : Bool := false
  calling : Bool := false
  managed : Bool := false
  callId : Nat := 0
  callCtr : Nat := 0
deriving Repr, Inhabited

def ordered (c : Cfg) : Bool := c.ra != 2
def isGen (c : Cfg) : Bool := c.ra != 0

def ev (s : St) (e : String) : St := { s with log := e :: s.log }

def idsStr (l : List Nat) : String := ",".intercalate (l.map toString)

def cbTag (s : St) : String := if s.inCb then " @cb" else ""

def getTrk (s : St) (i : Nat) : Tracker := s.trk.getD i default

def setTrk (s : St) (i : Nat) (t : Tracker) : St := { s with trk := s.trk.set i t }

/-- `list.remove(x)` of the first occurrence. -/
def removeFirst (x : Nat) : List Nat → List Nat
  | [] => []
  | y :: ys => if x = y then ys else y :: removeFirst x ys

/-- `[islice[i : i + k] for i in range(0, len(islice), k)]` for `k ≥ 1`. -/
def chunks (k : Nat) (l : List Nat) : List (List Nat) :=
  go l.length l
where
  go : Nat → List Nat → List (List Nat)
    | 0, _ => []
    | _, [] => []
    | fuel + 1, l => l.take (max k 1) :: go fuel (l.drop (max k 1))

/-- Pull up to `k` items from the shared input iterator. `fromOrig`: through `_original_iterator` (callbacks)
rather than through the caller's `pre_dispatch`-long islice. Returns the items and whether the iterator raised. -/
def pullUpTo (fromOrig : Bool) : Nat → St → St × List Nat × Bool
  | 0, s => (s, [], false)
  | k + 1, s =>
    if (!fromOrig) && s.preLeft == some 0 then (s, [], false)
    else if s.srcDead then (s, [], false)
    else if (s.srcPos : Int) = s.spec.iterfail then
      (ev { s with srcDead := true } ("pull-raise" ++ cbTag s), [], true)
    else if s.srcPos ≥ s.spec.n then ({ s with srcDead := true }, [], false)
    else
      let id := s.base + s.srcPos
      let s1 := ev s ("pull " ++ toString id ++ cbTag s)
      let s2 := { s1 with srcPos := s.srcPos + 1,
                          preLeft := if fromOrig then s.preLeft else s.preLeft.map (· - 1) }
      let (s3, rest, raised) := pullUpTo fromOrig k s2
      (s3, id :: rest, raised)

/-- `BatchCompletionCallBack._register_outcome`. -/
def registerOutcome (c : Cfg) (s : St) (i : Nat) (st : Status) (r : Res) : St :=
  let t := getTrk s i
  if t.status != .pending then s
  else
    let s := setTrk s i { t with status := st, result := r }
    let s := if st == .error then { s with exception := true, aborting := true } else s
    if ordered c then s else { s with jobs := s.jobs ++ [i] }

/-- `Parallel._dispatch` (called with the lock held). -/
def dispatch (c : Cfg) (s : St) (batch : List Nat) : St :=
  if s.aborting then s
  else
    let i := s.trk.length
    let t : Tracker := { items := batch, bsize := batch.length, callId := s.callId }
    let s := { s with nDispTasks := s.nDispTasks + batch.length, nDispBatches := s.nDispBatches + 1,
                      trk := s.trk ++ [t] }
    let s := if ordered c then { s with jobs := s.jobs ++ [i] } else { s with jobsSet := s.jobsSet ++ [i] }
    let s := ev s ("submit " ++ idsStr batch ++ cbTag s)
    { s with parked := s.parked ++ [i] }

/-- The scripted `compute_batch_size()` / the fixed batch size. -/
def scriptedBs (c : Cfg) (s : St) : Nat := c.bs.getD (min s.bsI (c.bs.length - 1)) 1

/-- The locked region of `dispatch_one_batch`, given the batch size. -/
def dispatchLocked (c : Cfg) (fromOrig : Bool) (bs : Nat) (s : St) : St × Bool :=
  -- `if self._aborting: return False` re-checked with the lock held
  if s.aborting then (s, false) else
  match s.ready with
  | tasks :: rest =>
    if tasks.length = 0 then ({ s with ready := rest }, false)
    else (dispatch c { s with ready := rest } tasks, true)
  | [] =>
    let big := bs * c.nj
    let (s, islice, raised) := pullUpTo fromOrig big s
    if raised then
      -- the iterable raised: a tracker carrying the error is registered (the items pulled so far are dropped)
      let i := s.trk.length
      let t : Tracker := { items := [], bsize := bs, callId := s.callId }
      let s := { s with trk := s.trk ++ [t] }
      let s := if ordered c then { s with jobs := s.jobs ++ [i] } else { s with jobsSet := s.jobsSet ++ [i] }
      let pos := s.base + s.srcPos
      (registerOutcome c s i .error (.exc (.iter pos)), true)
    else if islice.length = 0 then (s, false)
    else
      let final :=
        if fromOrig && islice.length < big then max 1 (islice.length / (10 * c.nj))
        else max 1 (islice.length / c.nj)
      match chunks final islice with
      | [] => (s, false)
      | tasks :: rest =>
        if tasks.length = 0 then ({ s with ready := rest }, false)
        else (dispatch c { s with ready := rest } tasks, true)

/-- `Parallel.dispatch_one_batch(self._original_iterator)` as called from a completion callback
(`dispatch_next`): the whole body runs with the lock held and is no hook point. -/
def dispatchOneCb (c : Cfg) (s : St) : St × Bool :=
  if s.aborting then (s, false)
  else
    let bs := scriptedBs c s
    let s := if c.bsAuto then { s with bsI := s.bsI + 1 } else s
    dispatchLocked c true bs s

/-- Worker side: `BatchedCalls.__call__` runs the tasks in order until one raises. -/
def execBatch (s : St) : List Nat → St × Option Nat
  | [] => (s, none)
  | id :: r =>
    let s := ev s ("exec " ++ toString id)
    if s.failIds.contains id then (s, some id) else execBatch s r

/-- `BatchCompletionCallBack.__call__(out)` for tracker `i`, where `failed` is the task that raised (if any). -/
def callback (c : Cfg) (s : St) (i : Nat) (failed : Option Nat) : St :=
  let t := getTrk s i
  if s.callId != t.callId then s
  else if s.aborting then s
  else
    match failed with
    | some id => registerOutcome c s i .error (.exc (.task id))
    | none =>
      let s := registerOutcome c s i .done (.vals t.items)
      -- `_dispatch_new`
      let s := { s with nCompleted := s.nCompleted + t.bsize }
      if s.origAlive then
        let (s, more) := dispatchOneCb c s
        if more then s else { s with iterating := false, origAlive := false }
      else s

/-- Deliver the completion of parked batch number `k` (harness `Run.deliver`): the worker executes the
batch, then the completion callback runs to its end. -/
def deliver (c : Cfg) (k : Nat) (s : St) : St :=
  match s.parked[k]? with
  | none => s
  | some i =>
    let s := { s with parked := s.parked.eraseIdx k }
    let t := getTrk s i
    let s := ev s ("complete " ++ idsStr t.items)
    let (s, failed) := execBatch s t.items
    let s := callback c { s with inCb := true } i failed
    { s with inCb := false }

def deliverAll (c : Cfg) (s : St) : List Nat → St
  | [] => s
  | idx :: r =>
    let s := if s.parked.length = 0 then s else deliver c (idx % s.parked.length) s
    deliverAll c s r

/-- A hook point of harness/ctl.py: consume one schedule entry (deliver the listed parked batches); when the
schedule is exhausted, a `sleep` hook completes the oldest parked batch, or counts an idle tick. -/
def hook (c : Cfg) (sleep : Bool) (s : St) : St :=
  match s.sched with
  | entry :: rest =>
    let s := deliverAll c { s with sched := rest } entry
    if sleep then { s with idle := 0 } else s
  | [] =>
    if sleep then
      if s.parked.length > 0 then deliver c 0 { s with idle := 0 }
      else
        let s := { s with idle := s.idle + 1 }
        if s.idle > 60 + c.timeout.toNat then { s with hung := true } else s
    else s

/-- `Parallel.dispatch_one_batch(iterator)` as called by the caller thread in `_start`. -/
def dispatchOneMain (c : Cfg) (s : St) : St × Bool :=
  if s.aborting then (s, false)
  else
    let bs := scriptedBs c s
    let s := if c.bsAuto then hook c false { s with bsI := s.bsI + 1 } else s
    if s.hung then (s, false) else dispatchLocked c false bs s

/-- `while self.dispatch_one_batch(iterator): pass`. -/
def startLoop (c : Cfg) : Nat → St → St
  | 0, s => ev s "fuel!"
  | fuel + 1, s =>
    let (s, more) := dispatchOneMain c s
    if more && !s.hung then startLoop c fuel s else s

/-- `Parallel._start`. -/
def start (c : Cfg) (fuel : Nat) (s : St) : St :=
  let s := { s with iterating := false }
  let (s, more) := dispatchOneMain c s
  if s.hung then s else
  let s := if more then { s with iterating := s.origAlive } else s
  let s := startLoop c fuel s
  if s.hung then s else
  if c.pdMode == 1 then { s with iterating := false } else s

/-- `Parallel._abort`. `backend.abort_everything` is a hook point: batches still in flight may complete while the
backend is being told to cancel them (their callbacks find `_aborting` already set). -/
def abort (c : Cfg) (s : St) : St :=
  let s := { s with aborting := true }
  let s := if !s.aborted then
      let s := ev s ("abort " ++ (if s.managed then "1" else "0"))
      let s := hook c false s
      if c.abortDrops then { s with parked := [] } else s
    else s
  { s with aborted := true }

/-- `Parallel._terminate_and_reset`. -/
def terminateAndReset (s : St) : St :=
  let s := if s.calling then ev s "stop_call" else s
  let s := { s with calling := false }
  if !s.managed then ev s "terminate" else s

inductive Phase where
  | start | retrieve | tail | done
deriving DecidableEq, Repr, Inhabited

/-- The suspended `_get_outputs` generator. -/
structure Gen where
  phase : Phase := .start
  buf : List Nat := []
  remaining : List Nat := []
  tcj : Option Nat := none
deriving Repr, Inhabited

inductive Out where
  | value (v : Nat)
  | stop
  | raise (e : Exc)
  | hang
deriving DecidableEq, Repr, Inhabited

/-- The `finally:` block of `_get_outputs`; returns the `_remaining_outputs`. -/
def finallyBlock (s : St) : St × List Nat :=
  let remaining := if s.exception then [] else s.jobs
  let s := { s with jobs := [], jobsSet := [], running := false }
  (terminateAndReset s, remaining)

/-- `except BaseException: self._exception = True; self._abort(); raise` followed by `finally`. -/
def handleException (c : Cfg) (s : St) : St :=
  let s := abort c { s with exception := true }
  (finallyBlock s).1

/-- `tracker.get_status(timeout)`. -/
def getStatus (c : Cfg) (s : St) (i : Nat) : St × Status :=
  let t := getTrk s i
  if c.timeout < 0 || t.status != .pending then (s, t.status)
  else
    let ctr := t.toCounter.getD s.now
    let s := setTrk s i { t with toCounter := some ctr }
    let s := if s.now - ctr > c.timeout then registerOutcome c s i .error (.exc .timeout) else s
    (s, (getTrk s i).status)

/-- `tracker.get_result()` → `_return_or_raise` (deletes `_result`). -/
def getResult (s : St) (i : Nat) : St × Except Exc (List Nat) :=
  let t := getTrk s i
  let s' := setTrk s i { t with result := .none }
  match t.result with
  | .none => (s, .error .attr)
  | .vals l => if t.status == .error then (s', .error .attr) else (s', .ok l)
  | .exc e => if t.status == .error then (s', .error e) else (s', .ok [])

def firstErrorJob (s : St) : List Nat → Option Nat
  | [] => none
  | i :: r => if (getTrk s i).status == .error then some i else firstErrorJob s r

/-- The tail loop over `_remaining_outputs` (after `finally`, outside the `try`). -/
def tailLoop : Nat → St → Gen → St × Gen × Out
  | 0, s, g => (ev s "fuel!", { g with phase := .done }, .stop)
  | fuel + 1, s, g =>
    match g.buf with
    | v :: r => (s, { g with buf := r, phase := .tail }, .value v)
    | [] =>
      match g.remaining with
      | [] => (s, { g with phase := .done }, .stop)
      | i :: rest =>
        match getResult s i with
        | (s, .error e) => (s, { g with phase := .done, remaining := rest }, .raise e)
        | (s, .ok l) => tailLoop fuel s { g with buf := l, remaining := rest }

/-- `yield from self._retrieve()` and what follows it, resumed by `next()`. -/
def retrieveLoop (c : Cfg) : Nat → St → Gen → St × Gen × Out
  | 0, s, g => (ev s "fuel!", { g with phase := .done }, .stop)
  | fuel + 1, s, g =>
    match g.buf with
    | v :: r => ({ s with nbConsumed := s.nbConsumed + 1 }, { g with buf := r, phase := .retrieve }, .value v)
    | [] =>
      -- `while self._wait_retrieval():`
      if !(s.aborting || s.iterating || s.nCompleted < s.nDispTasks) then
        let (s, rem) := finallyBlock s
        tailLoop (fuel + rem.length + 1) s { g with phase := .tail, remaining := rem }
      else if s.aborting then
        -- `_raise_error_fast`; `break`
        match firstErrorJob s s.jobs with
        | some i =>
          match getResult s i with
          | (s, .error e) => (handleException c s, { g with phase := .done }, .raise e)
          | (s, .ok _) =>
            let (s, rem) := finallyBlock s
            tailLoop (fuel + rem.length + 1) s { g with phase := .tail, remaining := rem }
        | none =>
          let (s, rem) := finallyBlock s
          tailLoop (fuel + rem.length + 1) s { g with phase := .tail, remaining := rem }
      else if ordered c then
        match s.jobs with
        | [] =>
          let s := hook c true { s with now := s.now + 1 }
          if s.hung then (s, g, .hang) else retrieveLoop c fuel s g
        | i :: rest =>
          let (s, st) := getStatus c s i
          if st == .pending then
            let s := hook c true { s with now := s.now + 1 }
            if s.hung then (s, g, .hang) else retrieveLoop c fuel s g
          else
            let s := { s with jobs := rest }
            match getResult s i with
            | (s, .error e) => (handleException c s, { g with phase := .done }, .raise e)
            | (s, .ok l) => retrieveLoop c fuel s { g with buf := l }
      else
        match s.jobs with
        | [] =>
          let tcj := match g.tcj with
            | some j => some j
            | none => s.jobsSet.head?
          let s := match tcj with
            | some j => (getStatus c s j).1
            | none => s
          let s := hook c true { s with now := s.now + 1 }
          if s.hung then (s, { g with tcj := tcj }, .hang) else retrieveLoop c fuel s { g with tcj := tcj }
        | i :: rest =>
          let s := match g.tcj with
            | some j => setTrk s j { getTrk s j with toCounter := none }
            | none => s
          let g := { g with tcj := none }
          if !s.jobsSet.contains i then
            (handleException c { s with jobs := rest }, { g with phase := .done }, .raise .key)
          else
          let s := { s with jobs := rest, jobsSet := removeFirst i s.jobsSet }
          match getResult s i with
          | (s, .error e) => (handleException c s, { g with phase := .done }, .raise e)
          | (s, .ok l) => retrieveLoop c fuel s { g with buf := l }

/-- `next(g)` on the output generator. -/
def genNext (c : Cfg) (fuel : Nat) (s : St) (g : Gen) : St × Gen × Out :=
  match g.phase with
  | .start => retrieveLoop c fuel s { g with phase := .retrieve }
  | .retrieve => retrieveLoop c fuel s g
  | .tail => tailLoop fuel s g
  | .done => (s, g, .stop)

/-- `g.close()` / dropping the last reference (GeneratorExit at the suspension point). -/
def genClose (c : Cfg) (s : St) (g : Gen) : St × Gen :=
  match g.phase with
  | .start | .retrieve =>
    let s := abort c { s with exception := true }
    ((finallyBlock s).1, { g with phase := .done })
  | .tail | .done => (s, { g with phase := .done })

/-- `Parallel.__call__` up to and including the first `next(output)` (i.e. `_start`). -/
def callStart (c : Cfg) (fuel : Nat) (base : Nat) (spec : CallSpec) (s : St) : St × Option Exc :=
  -- `_reset_run_tracking`
  if s.running then (s, some .runtime)
  else
    -- the new call id is drawn in the same critical section as `_running = True`
    let s := { s with running := true, callCtr := s.callCtr + 1, callId := s.callCtr + 1 }
    let s := { s with nDispBatches := 0, nDispTasks := 0, nCompleted := 0, nbConsumed := 0,
                      exception := false, aborting := false, aborted := false }
    let s := if !s.managed then hook c false (ev s "configure") else s
    if s.hung then (s, none) else
    -- `self._ready_batches = queue.Queue()`: look-ahead batches of an interrupted earlier call are discarded
    let s := { s with ready := [] }
    let s := ev s "start_call"
    -- `iterator = iter(iterable)`: from here on the input of THIS call is what `_original_iterator` refers to
    let s := { s with calling := true, base := base, spec := spec, srcPos := 0, srcDead := false }
    let s := if c.pdMode == 1 then { s with origAlive := false, preLeft := none }
             else { s with origAlive := true, preLeft := some c.pd }
    (start c fuel s, none)

def excStr : Exc → String
  | .task id => "TaskBoom(" ++ toString id ++ ")"
  | .iter id => "IterBoom(" ++ toString id ++ ")"
  | .timeout => "TimeoutError"
  | .runtime => "RuntimeError"
  | .attr => "AttributeError"
  | .key => "KeyError"

/-- `list(output)`. -/
def drain (c : Cfg) : Nat → Nat → St → Gen → List Nat → St × Gen × List Nat × Out
  | 0, _, s, g, acc => (ev s "fuel!", g, acc, .stop)
  | n + 1, fuel, s, g, acc =>
    match genNext c fuel s g with
    | (s, g, .value v) => drain c n fuel s g (acc ++ [v])
    | (s, g, o) => (s, g, acc, o)

/-- How a list-mode call ends. -/
inductive CallOutcome where
  | ret (vals : List Nat)
  | raised (e : Exc)
  | hung
deriving DecidableEq, Repr, Inhabited

/-- One call in list mode: `Parallel.__call__` with `return_as='list'`. -/
def callList (c : Cfg) (fuel : Nat) (base : Nat) (spec : CallSpec) (s : St) : St × CallOutcome :=
  match callStart c fuel base spec s with
  | (s, some e) => (s, .raised e)
  | (s, none) =>
    if s.hung then (s, .hung) else
    match drain c fuel fuel s {} [] with
    | (s, _, acc, .stop) => (s, .ret acc)
    | (s, _, _, .raise e) => (s, .raised e)
    | (s, _, _, _) => (s, .hung)

/-- One call of the scenario in list mode, with its outcome logged. -/
def runCallList (c : Cfg) (fuel : Nat) (base : Nat) (spec : CallSpec) (s : St) : St :=
  match callList c fuel base spec s with
  | (s, .ret acc) => ev s ("ret " ++ idsStr acc)
  | (s, .raised e) => ev s ("raise " ++ excStr e)
  | (s, .hung) => s

/-- A nested `par(iter(()))` issued by the consumer while the first generator is still alive (op 4), drained. -/
def recall (c : Cfg) (fuel : Nat) (s : St) : St :=
  match callStart c fuel s.base ⟨0, [], -1, []⟩ s with
  | (s, some .runtime) => ev s "recall-RuntimeError"
  | (s, some e) => ev s ("recall-raise " ++ excStr e)
  | (s, none) =>
    if s.hung then s else
    match drain c fuel fuel s {} [] with
    | (s, _, _, .stop) => ev s "recall-ok"
    | (s, _, _, .raise e) => ev s ("recall-raise " ++ excStr e)
    | (s, _, _, _) => s

/-- `Parallel.__exit__` (leaving the `with` block). -/
def exitBlock (c : Cfg) (s : St) : St :=
  let s := { s with managed := false }
  let s := if isGen c && s.calling then abort c s else s
  ev (terminateAndReset s) "exit"

/-- The consumer of a generator-mode call: ops, then `next` until exhaustion. Op 6: the consumer leaves the `with`
block while the generator is alive (`managed` doubles as "the block has not been left yet"). -/
def consume (c : Cfg) : Nat → Nat → St → Gen → List Nat → St
  | 0, _, s, _, _ => ev s "fuel!"
  | n + 1, fuel, s, g, ops =>
    if s.hung then s else
    let (op, ops) := match ops with
      | [] => (1, [])
      | o :: r => (o, r)
    if op == 1 then
      match genNext c fuel (ev s "next") g with
      | (s, g, .value v) => consume c n fuel (ev s ("yield " ++ toString v)) g ops
      | (s, _, .stop) => ev s "stop"
      | (s, _, .raise e) => ev s ("raise " ++ excStr e)
      | (s, _, .hang) => s
    else if op == 2 then ev (genClose c s g).1 "closed"
    else if op == 3 then ev (genClose c s g).1 "dropped"
    else if op == 4 then consume c n fuel (recall c fuel s) g ops
    else if op == 6 then consume c n fuel (if s.managed then exitBlock c s else s) g ops
    else consume c n fuel (hook c false s) g ops

def runCallGen (c : Cfg) (fuel : Nat) (base : Nat) (spec : CallSpec) (s : St) : St :=
  match callStart c fuel base spec s with
  | (s, some e) => ev s ("raise " ++ excStr e)
  | (s, none) => if s.hung then s else consume c fuel fuel s {} spec.cons

def runCalls (c : Cfg) (fuel : Nat) : Nat → Nat → List CallSpec → St → St
  | _, _, [], s => s
  | k, base, spec :: rest, s =>
    if s.hung then s else
    -- between two calls: completions of batches of earlier calls that are still parked may arrive (a hook point)
    let s := if k ≥ 1 then hook c false s else s
    let s := ev s ("call " ++ toString k)
    let s := if isGen c then runCallGen c fuel base spec s else runCallList c fuel base spec s
    runCalls c fuel (k + 1) (base + spec.n) rest s

def failIdsOf : Nat → List CallSpec → List Nat
  | _, [] => []
  | base, spec :: rest => spec.fail.map (base + ·) ++ failIdsOf (base + spec.n) rest

def totalTasks (calls : List CallSpec) : Nat := (calls.map (·.n)).foldl (· + ·) 0

/-- The whole scenario of harness/ctl.py; returns the event log, oldest first. -/
def runScenario (c : Cfg) (calls : List CallSpec) (sched : List (List Nat)) : List String :=
  let fuel := 10 * totalTasks calls + 4 * sched.length + 400 + 2 * c.timeout.toNat
  let s : St := { sched := sched, failIds := failIdsOf 0 calls }
  let s := if c.managed0 then ev (hook c false (ev { s with managed := true, calling := false } "configure")) "enter" else s
  let s := runCalls c fuel 0 0 calls s
  let s := if s.hung then ev s "hang"
    else
      -- after the last call: one more hook point for late completions, then `__exit__` unless op 6 already left
      let s := hook c false s
      if s.managed then exitBlock c s else s
  s.log.reverse

end JoblibModel.ParallelProto
