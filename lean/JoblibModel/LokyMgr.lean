/-
Model of loky's executor-manager event loop and of the reusable-executor decision — property C10
("a dying loky worker yields a prompt error, never a hang, and workers heal").

Sources: joblib/externals/loky/process_executor.py (`_ExecutorManagerThread.run`,
`add_call_item_to_queue`, `wait_result_broken_or_wakeup`, `process_result_item`, `is_shutting_down`,
`terminate_broken`, `flag_executor_shutting_down`, `kill_workers`, `join_executor_internals`,
`_process_worker`, `ProcessPoolExecutor.submit/_ensure_executor_running/_adjust_process_count/shutdown`,
`_ExecutorFlags`), joblib/externals/loky/reusable_executor.py (`_ReusablePoolExecutor.get_reusable_executor`,
`_resize`), joblib/_parallel_backends.py (`LokyBackend.configure/submit/terminate/abort_everything`),
joblib/executor.py (`MemmappingExecutor.terminate`).

Python → Lean:
* `executor._flags` (`shutdown`, `broken`, `kill_workers`)     : `Flags` (`broken : Option Exc`, `None` = `none`)
* `executor._processes` (dict pid → Process)                  : `State.processes : List Worker` (insertion order);
      a `Worker` is the OS process as far as the manager can tell: `alive` (its sentinel is ready iff `alive = false`),
      `current` (the call item it took off the call queue), `sending` (it has written the first bytes of a result
      message and holds `result_queue._wlock`), `exiting` (it has announced a clean exit by putting its pid)
* `Future._state` of the future of each work item             : `Fut` (`pending`/`running`/`result v`/`exception e`);
      `State.futures[wid]` is the future of work id `wid` together with the argument it was submitted with;
      `executor._queue_count` = `futures.length` (work ids are 0, 1, 2, … in submission order)
* `executor._pending_work_items` (dict work_id → _WorkItem)   : `pending_work_items : List Nat` (the keys; the work
      item is `futures[wid]`); `dict.pop(k, None)` = `List.filter (· ≠ k)`; `.clear()` = `[]`
* `executor._running_work_items` (list)                        : `running_work_items`; `list.remove` = `List.erase`,
      and the `ValueError` of `remove` on a missing id = the manager thread dies (`Mgr.crashed`)
* `executor._work_ids` (queue.Queue)                           : `work_ids`
* `executor._call_queue` (bounded mp Queue of `_CallItem`)     : `call_queue : List CallItem`, `queue_size`
* `executor._result_queue` (SimpleQueue over ONE pipe)         : `result_pipe : List Msg` — the COMPLETE messages in
      the pipe, in order — plus `partialMsg : Option pid` — the pipe's tail holds the first bytes of a message whose
      writer is `pid`. Writers serialise on `_wlock`, so at most one message is ever incomplete, and nothing can be
      appended behind it until its writer finishes (`beginSend`/`sendResult`/… need `partialMsg = none`).
      The parent and every worker hold the write end, so the reader never sees EOF.
* `_ThreadWakeup` pipe                                          : `wakeups : Nat` (bytes waiting); `clear()` = `0`; its `_closed`
      flag, the test/write split of `wakeup()`, `_shutdown_lock` and the wait set: the fine-grained layer at the end
* `wait(readers + worker_sentinels)`                            : `ready` (`Ready`: result reader readable iff the pipe
      holds ANY byte — a complete message or the partial one —, wake-up reader, the pids of dead processes)
* `result_reader.recv()`                                        : returns the head complete message; with only a partial
      message in the pipe it BLOCKS: `StepResult.blockedInRecv w` while the writer `w` is alive (it will finish),
      `StepResult.stuckInRecv w` when the writer is dead (nobody will ever complete the message; no EOF) — F15
* one iteration of `_ExecutorManagerThread.run`                 : `managerStep`
* the manager thread                                            : `Mgr` (`notStarted`/`running`/`exited`/`crashed`);
      `crashed` = an uncaught `KeyError`/`ValueError` inside the loop (proved unreachable: `Inv`)
* worker-side code (`_process_worker`) and the OS               : the environment events of `Event` (`take`, `sendResult`,
      `sendTaskExc`, `beginSend`/`endSend` for a message written in two parts, `unpickleFail`, `announceExit`, `kill`)
* the task's function                                           : a parameter `fn : Nat → Nat` of `step` (value of a task = `fn arg`)
* `reusable_executor._executor`, `_next_executor_id`            : `Pool` (`execs` = every executor ever created, position =
      `executor_id`; `current`); `get_reusable_executor` = `getReusableExecutor`
* `LokyBackend._workers`                                        : `Backend.workers : Option Nat` (an executor id)

Not modelled (stated in the evidence): `Future.cancel` (joblib never cancels loky futures), `_on_queue_feeder_error`
(a task that cannot be pickled), `_global_shutdown` and garbage collection of the executor, worker idle time-outs as a
clock (the `announceExit` event stands for them), memory-leak restarts, the two busy-wait loops of `_resize`
(`resize` keeps only their effect), process start-up time, the bytes of a message (a message is either complete or
"partial"). Import-free, total, computable.
-/
namespace JoblibModel.LokyMgr

/-- Exception classes a future can carry. -/
inductive Exc where
  | terminatedWorker   -- `TerminatedWorkerError` (a `BrokenProcessPool`)
  | brokenPool         -- `BrokenProcessPool` ("failed to un-serialize")
  | shutdownExecutor   -- `ShutdownExecutorError`
  | taskError          -- the exception raised by the task itself, sent back in a `_ResultItem`
deriving DecidableEq, Repr, Inhabited, Hashable

/-- `Future._state` (+ its payload). -/
inductive Fut where
  | pending
  | running
  | result (v : Nat)
  | exception (e : Exc)
deriving DecidableEq, Repr, Inhabited, Hashable

def Fut.unresolved : Fut → Bool
  | .pending => true
  | .running => true
  | _ => false

structure FutRec where
  arg : Nat
  st : Fut
deriving DecidableEq, Repr, Inhabited, Hashable

/-- `_CallItem(work_id, fn, args, kwargs)`. -/
structure CallItem where
  wid : Nat
  arg : Nat
deriving DecidableEq, Repr, Inhabited, Hashable

/-- What a complete message in the result pipe can be. -/
inductive Msg where
  | result (wid v : Nat)   -- `_ResultItem(work_id, result=v)`
  | taskExc (wid : Nat)    -- `_ResultItem(work_id, exception=…)`
  | pid (p : Nat)          -- a worker announcing its clean exit
  | remoteTb               -- `_RemoteTraceback`: `call_queue.get()` raised in a worker
  | unpicklable            -- a complete message whose `recv()` raises in the parent
deriving DecidableEq, Repr, Inhabited, Hashable

structure Worker where
  pid : Nat
  alive : Bool
  current : Option CallItem
  sending : Bool
  exiting : Bool
deriving DecidableEq, Repr, Inhabited, Hashable

structure Flags where
  shutdown : Bool
  broken : Option Exc
  kill_workers : Bool
deriving DecidableEq, Repr, Inhabited, Hashable

inductive Mgr where
  | notStarted | running | exited | crashed
deriving DecidableEq, Repr, Inhabited, Hashable

structure State where
  max_workers : Nat
  queue_size : Nat
  next_pid : Nat
  processes : List Worker
  futures : List FutRec
  pending_work_items : List Nat
  running_work_items : List Nat
  work_ids : List Nat
  call_queue : List CallItem
  result_pipe : List Msg
  partialMsg : Option Nat
  wakeups : Nat
  flags : Flags
  mgr : Mgr
deriving DecidableEq, Repr, Inhabited, Hashable

/-- `ProcessPoolExecutor.__init__` (+ `_ReusablePoolExecutor._setup_queues`: the queue size is an input). -/
def State.init (max_workers queue_size first_pid : Nat) : State :=
  { max_workers, queue_size, next_pid := first_pid, processes := [], futures := [],
    pending_work_items := [], running_work_items := [], work_ids := [], call_queue := [],
    result_pipe := [], partialMsg := none, wakeups := 0,
    flags := ⟨false, none, false⟩, mgr := .notStarted }

/-! ### Small accessors -/

def setFut (fs : List FutRec) (wid : Nat) (st : Fut) : List FutRec :=
  match fs[wid]? with
  | some r => fs.set wid { r with st := st }
  | none => fs

def getWorker (ps : List Worker) (pid : Nat) : Option Worker :=
  ps.find? (fun w => w.pid == pid)

def updWorker (ps : List Worker) (pid : Nat) (f : Worker → Worker) : List Worker :=
  ps.map (fun w => if w.pid == pid then f w else w)

/-- Is `pid` a live process (a process the manager killed or reaped is gone, hence not alive). -/
def writerAlive (s : State) (pid : Nat) : Bool :=
  match getWorker s.processes pid with
  | some w => w.alive
  | none => false

/-- `[p.sentinel for p in processes.values()]` that are ready: the pids of dead processes. -/
def deadPids (ps : List Worker) : List Nat :=
  (ps.filter (fun w => !w.alive)).map (·.pid)

/-! ### `_adjust_process_count` -/

def spawn : Nat → State → State
  | 0, s => s
  | n + 1, s =>
    spawn n { s with processes := s.processes ++ [⟨s.next_pid, true, none, false, false⟩],
                     next_pid := s.next_pid + 1 }

/-- `while len(self._processes) < self._max_workers: … p.start()`. -/
def adjustProcessCount (s : State) : State :=
  spawn (s.max_workers - s.processes.length) s

/-! ### Client side: `submit`, `shutdown` -/

/-- The body of `submit` once the flags allow it: new future and work item under id `_queue_count`,
`_work_ids.put`, `_queue_count += 1`, wake-up. -/
def register (s : State) (arg : Nat) : State :=
  { s with futures := s.futures ++ [⟨arg, .pending⟩],
           pending_work_items := s.pending_work_items ++ [s.futures.length],
           work_ids := s.work_ids ++ [s.futures.length],
           wakeups := s.wakeups + 1 }

/-- `_start_executor_manager_thread`. -/
def startManager (s : State) : State :=
  { s with mgr := if s.mgr = .notStarted then .running else s.mgr }

/-- `_ensure_executor_running`. -/
def ensureRunning (s : State) : State :=
  startManager (if s.processes.length ≠ s.max_workers then adjustProcessCount s else s)

/-- `ProcessPoolExecutor.submit`: the new state and the work id of the future, or the exception raised. -/
def submit (s : State) (arg : Nat) : State × Except Exc Nat :=
  match s.flags.broken with
  | some b => (s, .error b)
  | none =>
    if s.flags.shutdown then (s, .error .shutdownExecutor)
    else (ensureRunning (register s arg), .ok s.futures.length)

/-- `ProcessPoolExecutor.shutdown(wait, kill_workers)` up to (not including) the join of the manager thread:
`flag_as_shutting_down(kill_workers)` and a wake-up. -/
def shutdown (s : State) (kill_workers : Bool) : State :=
  { s with flags := { s.flags with shutdown := true, kill_workers := kill_workers },
           wakeups := s.wakeups + 1 }

/-! ### The manager thread -/

/-- One successful iteration of `add_call_item_to_queue`: `work_id` taken from `work_ids`, the future set
running (`set_running_or_notify_cancel()`; no cancellation: always True), `running_work_items += [work_id]`,
`call_queue.put(_CallItem(work_id, …))`. -/
def enqueue (s : State) (wid : Nat) (rest : List Nat) (r : FutRec) : State :=
  { s with work_ids := rest,
           futures := setFut s.futures wid .running,
           running_work_items := s.running_work_items ++ [wid],
           call_queue := s.call_queue ++ [⟨wid, r.arg⟩] }

/-- The manager thread dies of an uncaught exception (`work_ids` already popped). -/
def crash (s : State) (rest : List Nat) : State := { s with work_ids := rest, mgr := .crashed }

/-- `add_call_item_to_queue`. Recursion on the content of `work_ids` (the first argument is `s.work_ids`;
every iteration pops it with `work_ids.get(block=False)`). -/
def addCallItemsLoop : List Nat → State → State
  | [], s => s                                             -- `queue.Empty`
  | wid :: rest, s =>
    if s.call_queue.length ≥ s.queue_size then s           -- `call_queue.full()`
    else if wid ∈ s.pending_work_items then
      match s.futures[wid]? with
      | some r => addCallItemsLoop rest (enqueue s wid rest r)
      | none => crash s rest
    else crash s rest                                      -- `KeyError` on `pending_work_items[work_id]`

def addCallItems (s : State) : State := addCallItemsLoop s.work_ids s

structure Ready where
  result : Bool
  wakeup : Bool
  sentinels : List Nat
deriving DecidableEq, Repr

/-- What `wait(readers + worker_sentinels)` reports ready. -/
def ready (s : State) : Ready :=
  { result := !s.result_pipe.isEmpty || s.partialMsg.isSome,
    wakeup := decide (s.wakeups > 0),
    sentinels := deadPids s.processes }

/-- `wait` blocks exactly when nothing is ready. -/
def Ready.nothing (r : Ready) : Bool := !r.result && !r.wakeup && r.sentinels.isEmpty

/-- `kill_workers`: every process is SIGKILLed and forgotten. -/
def killWorkers (s : State) : State := { s with processes := [] }

/-- `join_executor_internals`: sentinels, queues closed, processes joined; the thread returns. -/
def joinExecutorInternals (s : State) : State :=
  { s with processes := [], mgr := .exited }

/-- `for work_item in pending_work_items.values(): work_item.future.set_exception(bpe)`. -/
def failAll (fs : List FutRec) (wids : List Nat) (e : Exc) : List FutRec :=
  wids.foldl (fun fs wid => setFut fs wid (.exception e)) fs

/-- Every pending work item's future gets the exception `e`; `pending_work_items.clear()`. -/
def failPending (s : State) (e : Exc) : State :=
  { s with futures := failAll s.futures s.pending_work_items e, pending_work_items := [] }

/-- `flag_as_broken(bpe)`. -/
def flagAsBroken (s : State) (bpe : Exc) : State :=
  { s with flags := { s.flags with shutdown := true, broken := some bpe } }

/-- `terminate_broken(bpe)`. -/
def terminateBroken (s : State) (bpe : Exc) : State :=
  joinExecutorInternals (killWorkers (failPending (flagAsBroken s bpe) bpe))

/-- The `_ResultItem` branch of `process_result_item` for a work id found in `pending_work_items`:
`pop`, `set_result`/`set_exception`, `running_work_items.remove`. -/
def complete (s : State) (wid : Nat) (st : Fut) : State :=
  { s with pending_work_items := s.pending_work_items.filter (· != wid),
           futures := setFut s.futures wid st,
           running_work_items := s.running_work_items.erase wid }

/-- The `int` branch of `process_result_item`: a worker announced its clean exit. -/
def reapWorker (s : State) (p : Nat) : State :=
  let s1 := { s with processes := s.processes.filter (fun w => w.pid != p) }   -- `processes.pop(pid, None)`; join
  let n_pending := s1.pending_work_items.length
  let n_running := s1.running_work_items.length
  if (n_pending > n_running || n_running > s1.processes.length)
      && decide (s1.processes.length < s1.max_workers) then
    adjustProcessCount s1
  else s1

/-- `process_result_item`. -/
def processResultItem (s : State) : Msg → State
  | .pid p => reapWorker s p
  | .result wid v =>
    if wid ∈ s.pending_work_items then
      if wid ∈ s.running_work_items then complete s wid (.result v)
      else { s with mgr := .crashed }        -- `ValueError` of `running_work_items.remove`
    else s                                   -- "work_item can be None if another process terminated"
  | .taskExc wid =>
    if wid ∈ s.pending_work_items then
      if wid ∈ s.running_work_items then complete s wid (.exception .taskError)
      else { s with mgr := .crashed }
    else s
  | .remoteTb => s      -- never passed here (`is_broken`)
  | .unpicklable => s   -- never passed here (`is_broken`)

/-- `is_shutting_down` (without `_global_shutdown` and garbage collection of the executor). -/
def isShuttingDown (s : State) : Bool := s.flags.shutdown && s.flags.broken.isNone

/-- `flag_executor_shutting_down`. -/
def flagExecutorShuttingDown (s : State) : State :=
  let s1 := { s with flags := { s.flags with shutdown := true } }
  if s1.flags.kill_workers then killWorkers (failPending s1 .shutdownExecutor) else s1

/-- How one iteration of the manager's loop ended. -/
inductive StepResult where
  | notRunning                 -- the thread is not running (not started, returned, or crashed)
  | progressed                 -- the iteration completed; the loop goes on
  | exited                     -- the iteration ended with `return`
  | crashed                    -- an uncaught exception inside the loop
  | blockedInWait              -- `wait(...)`: nothing ready — the thread sleeps until something is
  | blockedInRecv (writer : Nat)   -- `recv()` on a partial message whose writer is alive
  | stuckInRecv (writer : Nat)     -- `recv()` on a partial message whose writer is dead: blocked for ever
deriving DecidableEq, Repr

/-- The tail of `run`'s loop body after the broken test. -/
def finishIteration (s : State) : State × StepResult :=
  if s.mgr = .crashed then (s, .crashed)
  else if isShuttingDown s then
    let s1 := flagExecutorShuttingDown s
    if s1.pending_work_items.isEmpty then (joinExecutorInternals s1, .exited) else (s1, .progressed)
  else (s, .progressed)

/-- The head message was received (or, with `rest = []` on an empty pipe, nothing was): the pipe keeps `rest`;
`thread_wakeup.clear()`. -/
def received (s : State) (rest : List Msg) : State := { s with result_pipe := rest, wakeups := 0 }

/-- One iteration of `_ExecutorManagerThread.run`:
`add_call_item_to_queue(); wait_result_broken_or_wakeup(); terminate_broken | process_result_item; shutting down?` -/
def managerStep (s : State) : State × StepResult :=
  if s.mgr ≠ .running then (s, .notRunning)
  else
    let s1 := addCallItems s
    if s1.mgr = .crashed then (s1, .crashed)
    else
      -- `ready = wait(readers + worker_sentinels)`; `if result_reader in ready … elif wakeup_reader in ready … else …`
      match s1.result_pipe, s1.partialMsg with
      | m :: rest, _ =>
        -- `result_item = result_reader.recv()`; `thread_wakeup.clear()`
        let s2 := received s1 rest
        match m with
        | .remoteTb => (terminateBroken s2 .brokenPool, .exited)
        | .unpicklable => (terminateBroken s2 .brokenPool, .exited)
        | m => finishIteration (processResultItem s2 m)
      | [], some w =>
        -- the result reader is readable, but `recv()` needs the whole message
        if writerAlive s1 w then (s1, .blockedInRecv w) else (s1, .stuckInRecv w)
      | [], none =>
        if s1.wakeups > 0 then finishIteration (received s1 [])
        else if (deadPids s1.processes).isEmpty then (s1, .blockedInWait)
        else (terminateBroken s1 .terminatedWorker, .exited)

/-! ### Environment: workers, the OS, the client -/

inductive Event where
  | submit (arg : Nat)
  | shutdown (kill_workers : Bool)
  | mgr
  | take (pid : Nat)            -- `call_queue.get()` returns the head call item
  | unpickleFail (pid : Nat)    -- `call_queue.get()` raises: the worker puts `_RemoteTraceback` and exits
  | sendResult (pid : Nat)      -- the task returned; its `_ResultItem` is written in one piece
  | sendTaskExc (pid : Nat)     -- the task raised; ditto
  | beginSend (pid : Nat)       -- the first bytes of the `_ResultItem` are written (`_wlock` held)
  | endSend (pid : Nat)         -- the rest is written
  | announceExit (pid : Nat)    -- an idle worker puts its pid (time-out / `None` sentinel)
  | kill (pid : Nat)            -- abrupt death, at any instant
deriving DecidableEq, Repr

def Worker.idle (w : Worker) : Bool := w.alive && w.current.isNone && !w.sending && !w.exiting

/-- One step of the whole system. An event that is not enabled leaves the state unchanged. -/
def step (fn : Nat → Nat) (s : State) : Event → State
  | .submit arg => (submit s arg).1
  | .shutdown kw => shutdown s kw
  | .mgr => (managerStep s).1
  | .take pid =>
    match getWorker s.processes pid, s.call_queue with
    | some w, item :: rest =>
      if w.idle then
        { s with processes := updWorker s.processes pid (fun w => { w with current := some item }),
                 call_queue := rest }
      else s
    | _, _ => s
  | .unpickleFail pid =>
    match getWorker s.processes pid, s.call_queue with
    | some w, _ :: rest =>
      if w.idle && s.partialMsg.isNone then
        { s with processes := updWorker s.processes pid (fun w => { w with alive := false }),
                 call_queue := rest, result_pipe := s.result_pipe ++ [.remoteTb] }
      else s
    | _, _ => s
  | .sendResult pid =>
    match getWorker s.processes pid with
    | some w =>
      match w.current with
      | some item =>
        if w.alive && !w.sending && s.partialMsg.isNone then
          { s with processes := updWorker s.processes pid (fun w => { w with current := none }),
                   result_pipe := s.result_pipe ++ [.result item.wid (fn item.arg)] }
        else s
      | none => s
    | none => s
  | .sendTaskExc pid =>
    match getWorker s.processes pid with
    | some w =>
      match w.current with
      | some item =>
        if w.alive && !w.sending && s.partialMsg.isNone then
          { s with processes := updWorker s.processes pid (fun w => { w with current := none }),
                   result_pipe := s.result_pipe ++ [.taskExc item.wid] }
        else s
      | none => s
    | none => s
  | .beginSend pid =>
    match getWorker s.processes pid with
    | some w =>
      if w.alive && w.current.isSome && !w.sending && s.partialMsg.isNone then
        { s with processes := updWorker s.processes pid (fun w => { w with sending := true }),
                 partialMsg := some pid }
      else s
    | none => s
  | .endSend pid =>
    match getWorker s.processes pid with
    | some w =>
      match w.current with
      | some item =>
        if w.alive && w.sending && s.partialMsg == some pid then
          { s with processes := updWorker s.processes pid
                      (fun w => { w with current := none, sending := false }),
                   result_pipe := s.result_pipe ++ [.result item.wid (fn item.arg)],
                   partialMsg := none }
        else s
      | none => s
    | none => s
  | .announceExit pid =>
    match getWorker s.processes pid with
    | some w =>
      if w.idle && s.partialMsg.isNone then
        { s with processes := updWorker s.processes pid (fun w => { w with exiting := true }),
                 result_pipe := s.result_pipe ++ [.pid pid] }
      else s
    | none => s
  | .kill pid =>
    { s with processes := updWorker s.processes pid (fun w => { w with alive := false }) }

/-- A history: the state after a list of events. -/
def run (fn : Nat → Nat) (s : State) (evs : List Event) : State := evs.foldl (step fn) s

/-- `k` consecutive iterations of the manager with nothing else happening. -/
def managerSteps : Nat → State → State
  | 0, s => s
  | k + 1, s => managerSteps k (managerStep s).1

/-! ### The error message of `TerminatedWorkerError` (`backend/utils.py`)

`wait_result_broken_or_wakeup` builds its message from the workers' exit codes BEFORE it returns the error to
`run`, in the manager thread: an exception there would kill the thread with the executor never flagged and the
futures never failed. -/

inductive PyErr where
  | valueError
deriving DecidableEq, Repr

/-- `signal.Signals(n).name`: `names` is the enum (number ↦ name); a number that is not a member raises `ValueError`
(on Linux the real-time signals strictly between SIGRTMIN and SIGRTMAX have no name). -/
def signalsName (names : List (Nat × String)) (n : Nat) : Except PyErr String :=
  match names.lookup n with
  | some s => .ok s
  | none => .error .valueError

/-- `_get_exitcode_name(exitcode)` (posix): `try: return signal.Signals(-exitcode).name / except ValueError: return
"UNKNOWN"` for a negative exit code; `"EXIT"` for every other code but 255; `"UNKNOWN"` for 255. -/
def getExitcodeName (names : List (Nat × String)) (exitcode : Int) : Except PyErr String :=
  if exitcode < 0 then
    match signalsName names (-exitcode).toNat with
    | .ok s => .ok s
    | .error .valueError => .ok "UNKNOWN"
  else if exitcode ≠ 255 then .ok "EXIT"
  else .ok "UNKNOWN"

/-- `_format_exitcodes(exitcodes)`: `"{" + ", ".join(f"{_get_exitcode_name(e)}({e})" …) + "}"`. -/
def formatExitcodes (names : List (Nat × String)) (exitcodes : List Int) : Except PyErr String := do
  let parts ← exitcodes.mapM (fun e => do
    let n ← getExitcodeName names e
    pure (n ++ "(" ++ toString e ++ ")"))
  pure ("{" ++ ", ".intercalate parts ++ "}")

/-! ### `terminate_broken` step by step, with the client in between

`terminateBroken` above is the manager's tear-down run without interruption. The client thread is not stopped while
it runs: `submits` are the `submit` calls it may issue between two steps. -/

/-- `submit` for each argument in turn (the outcomes are dropped). -/
def submits (s : State) (args : List Nat) : State := args.foldl (fun s a => (submit s a).1) s

/-- The order of the code: `flag_as_broken` — client — fail and clear the pending items — client — `kill_workers`
— client — `join_executor_internals`. -/
def terminateBrokenInterleaved (s : State) (bpe : Exc) (a1 a2 a3 : List Nat) : State :=
  joinExecutorInternals
    (submits (killWorkers (submits (failPending (submits (flagAsBroken s bpe) a1) bpe) a2)) a3)

/-- The OTHER order (not the code's): fail and clear first, flag afterwards. -/
def terminateBrokenFlagLast (s : State) (bpe : Exc) (a1 : List Nat) : State :=
  joinExecutorInternals (killWorkers (flagAsBroken (submits (failPending s bpe) a1) bpe))

/-! ### `get_reusable_executor` and the loky backend of joblib -/

structure Pool where
  /-- every executor ever created; position = `executor_id` (`_next_executor_id = execs.length`) -/
  execs : List State
  /-- the module global `_executor` -/
  current : Option Nat
deriving DecidableEq, Repr, Inhabited, Hashable

def Pool.empty : Pool := ⟨[], none⟩

/-- Distinct pid ranges for distinct executors (the OS hands out fresh pids). -/
def firstPid (executor_id : Nat) : Nat := 100 * (executor_id + 1)

/-- `_resize(max_workers)` — its effect only: same size: nothing; manager not started: just the number;
growing: `_adjust_process_count`; shrinking: the surplus workers get a `None` sentinel, announce their
pid and are reaped — collapsed into dropping the last processes. -/
def resize (s : State) (max_workers : Nat) : State :=
  if max_workers = s.max_workers then s
  else if s.mgr = .notStarted then { s with max_workers := max_workers }
  else adjustProcessCount { s with max_workers := max_workers, processes := s.processes.take max_workers }

/-- `cls(_executor_lock, max_workers=…, executor_id=_get_next_executor_id(), **kwargs)`; `_executor = executor`. -/
def createExecutor (p : Pool) (max_workers queue_size : Nat) : Pool × Nat :=
  let id := p.execs.length
  ({ execs := p.execs ++ [State.init max_workers queue_size (firstPid id)], current := some id }, id)

/-- `_ReusablePoolExecutor.get_reusable_executor(max_workers, reuse=…, kill_workers=…)`.
`reuse` is the already evaluated `reuse == "auto" → kwargs == _executor_kwargs`.
Returns the pool, the id of the executor handed out, and whether it was reused.
The `executor.shutdown(wait=True, …)` of the replaced instance is its `shutdown` event; the `wait`
(join of its manager thread) is the caller's business (`Driver/C10.lean` runs that manager to its end). -/
def getReusableExecutor (p : Pool) (max_workers queue_size : Nat) (reuse kill_workers : Bool) :
    Pool × Nat × Bool :=
  match p.current with
  | none => let (p', id) := createExecutor p max_workers queue_size; (p', id, false)
  | some i =>
    match p.execs[i]? with
    | none => let (p', id) := createExecutor p max_workers queue_size; (p', id, false)
    | some e =>
      if e.flags.broken.isSome || e.flags.shutdown || !reuse then
        let p1 : Pool := { execs := p.execs.set i (shutdown e kill_workers), current := none }
        let (p', id) := createExecutor p1 max_workers queue_size
        (p', id, false)
      else
        ({ p with execs := p.execs.set i (resize e max_workers) }, i, true)

/-- A history of the module: events of any executor ever created and calls of `get_reusable_executor`. -/
inductive PoolOp where
  | exec (i : Nat) (e : Event)
  | get (max_workers queue_size : Nat) (reuse kill_workers : Bool)
deriving DecidableEq, Repr

/-- One operation; the second component accumulates the ids handed out by `get_reusable_executor` (latest first). -/
def poolStep (fn : Nat → Nat) (pr : Pool × List Nat) : PoolOp → Pool × List Nat
  | .exec i e =>
    match pr.1.execs[i]? with
    | some x => ({ pr.1 with execs := pr.1.execs.set i (step fn x e) }, pr.2)
    | none => pr
  | .get mw qs reuse kw =>
    let (p', id, _) := getReusableExecutor pr.1 mw qs reuse kw
    (p', id :: pr.2)

def poolRun (fn : Nat → Nat) (pr : Pool × List Nat) (ops : List PoolOp) : Pool × List Nat :=
  ops.foldl (poolStep fn) pr

/-- `LokyBackend` as far as C10 needs it. -/
structure Backend where
  workers : Option Nat     -- `self._workers`
deriving DecidableEq, Repr, Inhabited, Hashable

/-- `LokyBackend.configure` (`get_memmapping_executor(n_jobs, …)`: same kwargs every time → `reuse = true`). -/
def configure (p : Pool) (n_jobs queue_size : Nat) : Pool × Backend :=
  let (p', id, _) := getReusableExecutor p n_jobs queue_size true false
  (p', ⟨some id⟩)

/-- `LokyBackend.submit` → `self._workers.submit(func)`. `none` = `AttributeError` on `None.submit`. -/
def backendSubmit (p : Pool) (b : Backend) (arg : Nat) : Option (Pool × Except Exc Nat) :=
  match b.workers with
  | none => none
  | some i =>
    match p.execs[i]? with
    | none => none
    | some e => let (e', r) := submit e arg; some ({ p with execs := p.execs.set i e' }, r)

/-- `LokyBackend.terminate`. -/
def backendTerminate (_b : Backend) : Backend := ⟨none⟩

/-- `LokyBackend.abort_everything(ensure_ready)`:
`self._workers.terminate(kill_workers=True)` (= `shutdown(kill_workers=True)`, join left to the caller);
`self._workers = None`; `if ensure_ready: self.configure(...)`. `none` = `AttributeError` (`_workers is None`). -/
def abortEverything (p : Pool) (b : Backend) (n_jobs queue_size : Nat) (ensure_ready : Bool) :
    Option (Pool × Backend) :=
  match b.workers with
  | none => none
  | some i =>
    match p.execs[i]? with
    | none => none
    | some e =>
      let p1 : Pool := { p with execs := p.execs.set i (shutdown e true) }
      if ensure_ready then some (configure p1 n_jobs queue_size) else some (p1, ⟨none⟩)

/-! ### The wake-up pipe, the shutdown lock and the start order of the manager thread (fine-grained layer)

Everything above treats `submit`, `shutdown` and one iteration of the manager's loop as single steps, and lets the
manager look at the sentinels of ALL processes at the instant it acts. The code is finer, and two things depend on it:

* `wait_result_broken_or_wakeup` builds `worker_sentinels = [p.sentinel for p in list(self.processes.values())]`
  ONCE, when the thread (re-)enters the wait; a process registered while the thread sleeps is not waited on until
  something else wakes the thread. `MPh.waiting ws` carries that list (`ws` = the pids).
* `_ThreadWakeup.wakeup` is a test and a write (`if not self._closed: self._writer.send_bytes(b"")`); `close` sets
  `_closed` and closes both ends; a write to a closed connection raises `OSError("handle is closed")`. The two are kept
  apart by `_shutdown_lock`: `submit` holds it from its flag test to its end, `shutdown` around its `wakeup()`,
  `join_executor_internals` around `thread_wakeup.close()`, `flag_as_broken`/`flag_as_shutting_down` around the flags.

Python → Lean (this layer):
* `_ThreadWakeup._closed`                                         : `WState.closed`; the bytes in the pipe stay `base.wakeups`
* `executor._shutdown_lock`                                       : `WState.lock` (`true` = held by the CALLER thread across steps;
      the manager thread takes and releases it inside one step, which is therefore enabled only when `lock = false`)
* the caller thread inside `submit` / `shutdown`                  : `CPc` (`submit`: flag test + registration — `callSubmit` —,
      `subTest`, `subWrite` = `wakeup()`, `subEns1`, `subEns2` = the two statements of `_ensure_executor_running` (which of
      the two pairs comes first: `Cfg.wakeupBeforeRespawn`),
      `_adjust_process_count` spawning ONE process per step; `shutdown`: `callShutdown` = `flag_as_shutting_down`,
      `shutAcquire`, `shutTest`, `shutWrite`)
* the manager thread inside `run`                                 : `MPh` (`top` = before `add_call_item_to_queue()`;
      `waiting ws` = inside `wait(readers + worker_sentinels)`; `closing` = `join_executor_internals` before
      `with self.shutdown_lock: self.thread_wakeup.close()`; `done`)
* `OSError` out of `send_bytes`                                   : `WState.oserror`
* the order of `_ensure_executor_running`, the lock around `close` and the place of `wakeup()` in `submit` are `Cfg`
  switches; `Cfg.code` is the code as it is (`_adjust_process_count()` BEFORE `_start_executor_manager_thread()`; `close`
  under the lock; `wakeup()` AFTER `_ensure_executor_running()` — repair F53), `Cfg.preF53` the code before F53. -/

/-- The two places where an order / a lock of the code can be varied. `Cfg.code` = the code as it is. -/
structure Cfg where
  /-- `_start_executor_manager_thread()` BEFORE `_adjust_process_count()` (not the code's order). -/
  managerFirst : Bool
  /-- `thread_wakeup.close()` in `join_executor_internals` WITHOUT `shutdown_lock` (not what the code does). -/
  closeUnlocked : Bool
  /-- `submit` calls `wakeup()` BEFORE `_ensure_executor_running()` — the order of the code before the repair F53
  (fixes/F53-wakeup-after-respawn.diff); `false` = the wake-up is the LAST statement of `submit`. -/
  wakeupBeforeRespawn : Bool
deriving DecidableEq, Repr, Inhabited, Hashable

/-- The code as it is (with the repair F53: the wake-up of `submit` comes after the workers are (re)spawned). -/
def Cfg.code : Cfg := ⟨false, false, false⟩
/-- The code before the repair F53. -/
def Cfg.preF53 : Cfg := ⟨false, false, true⟩

/-- `submit` between the flag tests and `wakeup()`: future, work item, `_work_ids.put`, `_queue_count += 1`. -/
def registerItem (s : State) (arg : Nat) : State :=
  { s with futures := s.futures ++ [⟨arg, .pending⟩],
           pending_work_items := s.pending_work_items ++ [s.futures.length],
           work_ids := s.work_ids ++ [s.futures.length] }

/-- `self._writer.send_bytes(b"")` on an open pipe. -/
def writeWakeup (s : State) : State := { s with wakeups := s.wakeups + 1 }

/-- `flag_as_shutting_down(kill_workers)`. -/
def flagShutdown (s : State) (kill_workers : Bool) : State :=
  { s with flags := { s.flags with shutdown := true, kill_workers := kill_workers } }

/-- `[p.sentinel for p in list(self.processes.values())]`, as pids. -/
def pidsOf (ps : List Worker) : List Nat := ps.map (·.pid)

/-- The sentinels that are ready AMONG THOSE WAITED ON. -/
def deadWaited (ws : List Nat) (ps : List Worker) : List Nat := (deadPids ps).filter (fun p => ws.contains p)

/-- `wait(readers + worker_sentinels)` with the sentinel list `ws` returns. -/
def waitReady (s : State) (ws : List Nat) : Bool :=
  !s.result_pipe.isEmpty || s.partialMsg.isSome || decide (s.wakeups > 0) || !(deadWaited ws s.processes).isEmpty

/-- `wait_result_broken_or_wakeup` with the sentinel list `ws`, and the rest of the iteration: `managerStep` after
`add_call_item_to_queue`, looking only at the sentinels of `ws`. -/
def waitStep (s1 : State) (ws : List Nat) : State × StepResult :=
  match s1.result_pipe, s1.partialMsg with
  | m :: rest, _ =>
    let s2 := received s1 rest
    match m with
    | .remoteTb => (terminateBroken s2 .brokenPool, .exited)
    | .unpicklable => (terminateBroken s2 .brokenPool, .exited)
    | m => finishIteration (processResultItem s2 m)
  | [], some w =>
    if writerAlive s1 w then (s1, .blockedInRecv w) else (s1, .stuckInRecv w)
  | [], none =>
    if s1.wakeups > 0 then finishIteration (received s1 [])
    else if (deadWaited ws s1.processes).isEmpty then (s1, .blockedInWait)
    else (terminateBroken s1 .terminatedWorker, .exited)

/-- Where the caller thread stands. -/
inductive CPc where
  | idle
  | subTest | subWrite | subEns1 | subEns2
  | shutAcquire | shutTest | shutWrite
deriving DecidableEq, Repr, Inhabited, Hashable

/-- Where the manager thread stands (meaningful while `base.mgr` is `running` / `exited`). -/
inductive MPh where
  | top
  | waiting (ws : List Nat)
  | closing
  | done
deriving DecidableEq, Repr, Inhabited, Hashable

structure WState where
  base : State
  cpc : CPc
  mph : MPh
  lock : Bool
  closed : Bool
  oserror : Bool
deriving DecidableEq, Repr, Inhabited, Hashable

def WState.init (max_workers queue_size first_pid : Nat) : WState :=
  { base := State.init max_workers queue_size first_pid, cpc := .idle, mph := .top,
    lock := false, closed := false, oserror := false }

/-- Events of workers and of the OS (the client and the manager have their own steps in this layer). -/
inductive EnvEv where
  | take (pid : Nat) | unpickleFail (pid : Nat) | sendResult (pid : Nat) | sendTaskExc (pid : Nat)
  | beginSend (pid : Nat) | endSend (pid : Nat) | announceExit (pid : Nat) | kill (pid : Nat)
deriving DecidableEq, Repr

def EnvEv.toEvent : EnvEv → Event
  | .take p => .take p | .unpickleFail p => .unpickleFail p | .sendResult p => .sendResult p
  | .sendTaskExc p => .sendTaskExc p | .beginSend p => .beginSend p | .endSend p => .endSend p
  | .announceExit p => .announceExit p | .kill p => .kill p

inductive WEvent where
  | callSubmit (arg : Nat)          -- the caller (idle) enters `submit`: lock, flag tests, registration
  | callShutdown (kill_workers : Bool)  -- the caller (idle) enters `shutdown`: `flag_as_shutting_down`
  | caller                          -- the caller thread's next statement
  | manager                         -- the manager thread's next statement
  | env (e : EnvEv)
deriving DecidableEq, Repr

/-- Does the rest of the iteration take `shutdown_lock` (`flag_as_broken`, `flag_as_shutting_down`)? -/
def takesLock (r : State × StepResult) : Bool := r.2 == .exited || isShuttingDown r.1

/-- `submit` returns: the lock is released. -/
def submitReturns (s : WState) : WState := { s with cpc := .idle, lock := false }

/-- The caller thread's next statement. Inside `submit` (lock held throughout):
before F53 `wakeup()` (`subTest`, `subWrite`) then `_ensure_executor_running()` (`subEns1`, `subEns2`); with F53 the
other way round. -/
def callerStep (cfg : Cfg) (s : WState) : WState :=
  /- what follows `wakeup()` / `_ensure_executor_running()` inside `submit` -/
  let afterWakeup (s : WState) : WState := if cfg.wakeupBeforeRespawn then { s with cpc := .subEns1 } else submitReturns s
  let afterEnsure (s : WState) : WState := if cfg.wakeupBeforeRespawn then submitReturns s else { s with cpc := .subTest }
  match s.cpc with
  | .idle => s
  | .subTest => if s.closed then afterWakeup s else { s with cpc := .subWrite }
  | .subWrite =>
    if s.closed then { s with oserror := true, cpc := .idle, lock := false }      -- `OSError` leaves `submit`
    else afterWakeup { s with base := writeWakeup s.base }
  | .subEns1 =>
    if cfg.managerFirst then { s with base := startManager s.base, cpc := .subEns2 }
    else if s.base.processes.length < s.base.max_workers then { s with base := spawn 1 s.base }
    else { s with cpc := .subEns2 }
  | .subEns2 =>
    if cfg.managerFirst then
      if s.base.processes.length < s.base.max_workers then { s with base := spawn 1 s.base }
      else afterEnsure s
    else afterEnsure { s with base := startManager s.base }
  | .shutAcquire => if s.lock then s else { s with lock := true, cpc := .shutTest }
  | .shutTest => if s.closed then { s with cpc := .idle, lock := false } else { s with cpc := .shutWrite }
  | .shutWrite =>
    if s.closed then { s with oserror := true, cpc := .idle, lock := false }      -- `OSError` leaves `shutdown`
    else { s with base := writeWakeup s.base, cpc := .idle, lock := false }

/-- The manager thread's next statement. -/
def managerMicro (cfg : Cfg) (s : WState) : WState :=
  match s.base.mgr, s.mph with
  | .running, .top =>
    let s1 := addCallItems s.base
    if s1.mgr = .crashed then { s with base := s1 }
    else { s with base := s1, mph := .waiting (pidsOf s1.processes) }
  | .running, .waiting ws =>
    if !waitReady s.base ws then s
    else
      let r := waitStep s.base ws
      if takesLock r && s.lock then s
      else
        match r.2 with
        | .progressed => { s with base := r.1, mph := .top }
        | .exited => { s with base := r.1, mph := .closing }
        | .crashed => { s with base := r.1 }
        | _ => s
  | .exited, .closing =>
    if s.lock && !cfg.closeUnlocked then s else { s with closed := true, mph := .done }
  | _, _ => s

def wstep (cfg : Cfg) (fn : Nat → Nat) (s : WState) : WEvent → WState
  | .callSubmit arg =>
    if s.cpc ≠ .idle || s.lock then s
    else if s.base.flags.broken.isSome || s.base.flags.shutdown then s       -- `submit` raises the stored error
    else { s with base := registerItem s.base arg, cpc := if cfg.wakeupBeforeRespawn then .subTest else .subEns1, lock := true }
  | .callShutdown kw =>
    if s.cpc ≠ .idle || s.lock then s
    else { s with base := flagShutdown s.base kw, cpc := .shutAcquire }
  | .caller => callerStep cfg s
  | .manager => managerMicro cfg s
  | .env e => { s with base := step fn s.base e.toEvent }

def wrun (cfg : Cfg) (fn : Nat → Nat) (s : WState) (evs : List WEvent) : WState := evs.foldl (wstep cfg fn) s

/-- The manager thread sleeps in `wait` and nothing it waits on is ready. -/
def WState.asleep (s : WState) : Bool :=
  match s.base.mgr, s.mph with
  | .running, .waiting ws => !waitReady s.base ws
  | _, _ => false

/-- What `Parallel.__call__` re-raises when a future of the call carries `e` and its abort
(`abort_everything` → `executor.shutdown(kill_workers=True)`) has run: the abort's own `OSError` replaces `e`. -/
inductive Raised where
  | exc (e : Exc)
  | osError
deriving DecidableEq, Repr

def WState.raised (s : WState) (e : Exc) : Raised := if s.oserror then .osError else .exc e

end JoblibModel.LokyMgr
