import JoblibModel.TrackerClient
/-
The ASYNCHRONOUS pipe between the clients and the resource tracker — a variant of the composition used in
`JoblibModel.TrackerClient` (there `send` = write + the tracker's `step` at once), cut down to what finding F60 needs:
one manager, one context, one unmanaged `Parallel` object on the loky backend called repeatedly, arrays named by a
number. The tracker is the real `Tracker.step`; the request lines are `TrackerClient.reqLine` on `TrackerClient.FileKey`.

Python → Lean
* the pipe (`os.write(fd, msg)` in `_send`, `f.readline()` in `main`)   : `LState.queue` (FIFO: `enqueue` at the end,
                                                                          `deliver` takes the head) — the tracker
                                                                          consumes at arbitrary later points
* `ArrayMemmapForwardReducer.__call__` (memmapping branch)              : `Op.reduce a` (as `TrackerClient.memmapArray`:
    `REGISTER` for the task, the extra `REGISTER` when the name is new, `if not os.path.exists(filename): dump`)
    — `os.path.exists` reads the disk as the tracker has left it SO FAR (`LState.files`)
* `load_temporary_memmap` in a worker                                    : `Op.load i` (`FileNotFoundError` → `loadfail`)
* the memmap's finalizer `_log_and_unlink`                               : `Op.drop i` (`MAYBE_UNLINK` written)
* `_clean_temporary_resources(force=False)` at the end of a call         : `Op.endCall` (`os.listdir`, once per file:
                                                                          `_released_files`); the folder is not modelled
* the tracker reading one line / everything that waits                   : `Op.deliver` / `Op.catchUp`
Synchronous composition = every client operation followed by `drain` (`runSync`): the assumption of `TrackerClient`.
Ghost: `bad` = files unlinked by the tracker while a pickled task in flight or a live memmap needs them.
-/
namespace JoblibModel.TrackerLag
open JoblibModel.Tracker JoblibModel.TrackerClient

structure LState where
  reg : Registry
  /-- the dumps on disk, as the tracker has left it so far -/
  files : List Nat
  /-- written to the pipe, not yet read by the tracker (oldest first) -/
  queue : List Line
  /-- `reducer._temporary_memmaped_filenames` -/
  temporary : List Nat
  /-- `manager._released_files` -/
  released : List Nat
  /-- pickled tasks on their way to a worker (each one a registered user of its file) -/
  inflight : List Nat
  /-- memmaps alive in workers -/
  holdings : List Nat
  bad : List Nat
  loadfail : Nat
deriving Repr

def LState.init : LState := ⟨Registry.empty, [], [], [], [], [], [], [], 0⟩

def fk (a : Nat) : FileKey := ⟨0, 1, a⟩

inductive Op where
  | reduce (a : Nat)
  | load (i : Nat)
  | drop (i : Nat)
  | endCall
  | deliver
  /-- the tracker reads everything that is waiting -/
  | catchUp
deriving Repr

def enqueue (s : LState) (c : Cmd) (a : Nat) : LState := { s with queue := s.queue ++ [reqLine c .file (fk a).name] }

def inUse (s : LState) (a : Nat) : Bool := decide (a ∈ s.inflight) || decide (a ∈ s.holdings)

/-- What a clean-up action of the tracker does to the disk. -/
def applyAction (s : LState) : Action → LState
  | .cleanup .file n =>
    { s with bad := s.bad ++ s.files.filter (fun a => decide ((fk a).name = n) && inUse s a),
             files := s.files.filter (fun a => (fk a).name ≠ n) }
  | _ => s

/-- The tracker reads the next line of the pipe. -/
def deliver (s : LState) : LState :=
  match s.queue with
  | [] => s
  | l :: q =>
    let r := step s.reg l
    r.2.foldl applyAction { s with reg := r.1, queue := q }

/-- The tracker catches up (fuel = the number of lines waiting). -/
def drain (s : LState) : LState := (List.range s.queue.length).foldl (fun s _ => deliver s) s

def releaseOnce (s : LState) (a : Nat) : LState :=
  if a ∈ s.released then s else enqueue { s with released := a :: s.released } .maybeUnlink a

def stepL (s : LState) : Op → LState
  | .reduce a =>
    let known := decide (a ∈ s.temporary)
    let s := if known then s else { s with temporary := a :: s.temporary }
    let s := enqueue s .register a                                     -- the task's reference
    let s := if known then s else enqueue s .register a                -- is_new_memmap: the extra reference
    let s := if a ∈ s.files then s else { s with files := s.files ++ [a] }   -- if not os.path.exists: dump
    { s with inflight := s.inflight ++ [a] }
  | .load i =>
    match s.inflight[i]? with
    | none => s
    | some a =>
      let s := { s with inflight := removeAt s.inflight i }
      if a ∈ s.files then { s with holdings := s.holdings ++ [a] } else { s with loadfail := s.loadfail + 1 }
  | .drop i =>
    match s.holdings[i]? with
    | none => s
    | some a => enqueue { s with holdings := removeAt s.holdings i } .maybeUnlink a
  | .endCall => s.files.foldl releaseOnce s
  | .deliver => deliver s
  | .catchUp => drain s

/-- The lagging system: the schedule says when the tracker reads. -/
def runL (s : LState) (ops : List Op) : LState := ops.foldl stepL s

/-- The synchronous composition: the tracker has caught up before the clients' next step. -/
def runSync (s : LState) (ops : List Op) : LState := ops.foldl (fun s op => drain (stepL s op)) s

/-- F60: two calls of one unmanaged `Parallel` object with the same array; the worker's `MAYBE_UNLINK` of call 1 is
still in the pipe when call 2's reducer looks at the disk. -/
def f60Client : List Op := [.reduce 1, .load 0, .endCall, .drop 0, .reduce 1, .load 0]

/-- The same client steps with the tracker lagging behind the worker's `MAYBE_UNLINK`. -/
def f60Lagging : List Op :=
  [.reduce 1, .deliver, .deliver, .load 0, .endCall, .deliver, .drop 0, .reduce 1, .deliver, .deliver, .load 0]

end JoblibModel.TrackerLag
