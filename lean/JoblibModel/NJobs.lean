import JoblibModel.Config
/-
Model M2/`NJobs` — how many workers a `Parallel` call gets (property C15).

Python → Lean
* `loky.backend.context.cpu_count(only_physical_cores)`        : `cpuCount`
    `os.cpu_count()`                                           : `CpuEnv.osCpuCount` (`none` = `None`)
    `sys.platform == "win32"` / `_MAX_WINDOWS_WORKERS`         : `CpuEnv.winCap`
    `_cpu_count_affinity`  (`len(os.sched_getaffinity(0))`)    : `CpuEnv.affinity` (`none` = not available)
    `_cpu_count_cgroup`    (`cpu.max` / `cfs_quota_us`,`cfs_period_us`) : `CpuEnv.cgroup` (`none` = "max"/no file)
    `os.environ.get("LOKY_MAX_CPU_COUNT")` then `int(...)`     : `CpuEnv.lokyMax`
    `_count_physical_cores()`                                  : `CpuEnv.physical` (`none` = "not found")
* `mp is None`, `mp.current_process().daemon`, `in_main_thread()`,
  `process_executor._CURRENT_DEPTH`, `cpu_count()`             : `EffEnv`
* `SequentialBackend/PoolManagerMixin/MultiprocessingBackend/LokyBackend.effective_n_jobs(n_jobs)`
                                                               : `effectiveNJobs cls self.nesting_level env n_jobs`
* `backend.configure(...)` + `Parallel._initialize_backend` (the `FallbackToBackend` loop)
                                                               : `initializeBackend`
* `ParallelBackendBase.get_nested_backend` / `SequentialBackend.get_nested_backend`
                                                               : `getNestedBackend`
* loky's reusable executor, as far as the NUMBER of live worker processes goes
  (`_ReusablePoolExecutor.get_reusable_executor` / `_resize` / `submit` → `_adjust_process_count`)
                                                               : `Pool`, `resize`, `submitEnsure`, `getReusableExecutor`
* the `ThreadPool` of ONE `ThreadingBackend` instance (the instance may serve many `Parallel` calls: the one a
  `parallel_config(backend=...)` block holds, or the nested instance `BatchedCalls` installs for the tasks of a batch)
    `self._pool` / `self._pool._processes`, `self._n_jobs`     : `TBackend.pool`, `TBackend.nJobs`
    `ThreadingBackend.configure` (after `effective_n_jobs`)    : `tConfigure`
    `ThreadingBackend._get_pool` (called by every `submit`)    : `tGetPool`
    `PoolManagerMixin.terminate`                               : `tTerminate`
    `Parallel(n_jobs=n)(tasks)` (`_initialize_backend`, dispatches, `_terminate_and_reset`)        : `tPlain`
    `with Parallel(n_jobs=n) as p:` (`__enter__`: configure; own calls do not configure; `__exit__`: terminate)
                                                               : `tManaged`, `tBody`
Import-free apart from the backend classes of `JoblibModel.Config`; total, computable.
-/
namespace JoblibModel.NJobs
open JoblibModel.Config (BackendClass Backend)

inductive Err
  | valueError
deriving Repr, DecidableEq, Inhabited

/-! ## cpu_count -/

structure CpuEnv where
  osCpuCount : Option Nat
  winCap : Option Nat
  affinity : Option Nat
  cgroup : Option (Int × Int)            -- (cpu_quota_us, cpu_period_us)
  lokyMax : Option (Option Int)          -- unset | set but not an int literal | set to an int
  physical : Option Nat
deriving Repr, DecidableEq, Inhabited

/-- `os.cpu_count() or 1`. -/
def osCpuCountRaw (e : CpuEnv) : Nat :=
  match e.osCpuCount with
  | none => 1
  | some n => if n = 0 then 1 else n

/-- `os_cpu_count`: the above, capped on Windows. -/
def osCpuCount (e : CpuEnv) : Int :=
  match e.winCap with
  | some w => min (osCpuCountRaw e : Int) (w : Int)
  | none => osCpuCountRaw e

/-- `math.ceil(a / b)` for `b > 0`. -/
def ceilDiv (a b : Int) : Int := (a + b - 1) / b

/-- `_cpu_count_cgroup(os_cpu_count)`. -/
def cpuCountCgroup (os_cpu_count : Int) : Option (Int × Int) → Int
  | none => os_cpu_count
  | some (q, p) => if q > 0 ∧ p > 0 then ceilDiv q p else os_cpu_count

/-- `_cpu_count_affinity(os_cpu_count)`. -/
def cpuCountAffinity (os_cpu_count : Int) : Option Nat → Int
  | none => os_cpu_count
  | some a => a

/-- `int(os.environ.get("LOKY_MAX_CPU_COUNT", os_cpu_count))`. -/
def cpuCountLoky (os_cpu_count : Int) : Option (Option Int) → Except Err Int
  | none => .ok os_cpu_count
  | some none => .error .valueError
  | some (some v) => .ok v

/-- `_cpu_count_user(os_cpu_count)`. -/
def cpuCountUser (e : CpuEnv) (os_cpu_count : Int) : Except Err Int := do
  let cpu_count_affinity := cpuCountAffinity os_cpu_count e.affinity
  let cpu_count_cgroup := cpuCountCgroup os_cpu_count e.cgroup
  let cpu_count_loky ← cpuCountLoky os_cpu_count e.lokyMax
  pure (min cpu_count_affinity (min cpu_count_cgroup cpu_count_loky))

/-- `cpu_count(only_physical_cores)`. -/
def cpuCount (e : CpuEnv) (only_physical_cores : Bool) : Except Err Int := do
  let os_cpu_count := osCpuCount e
  let cpu_count_user ← cpuCountUser e os_cpu_count
  let aggregate_cpu_count := max (min os_cpu_count cpu_count_user) 1
  if !only_physical_cores then
    pure aggregate_cpu_count
  else if cpu_count_user < os_cpu_count then
    pure (max cpu_count_user 1)
  else
    match e.physical with
    | some p => if p < 1 then pure aggregate_cpu_count else pure (p : Int)   -- "< 1 → not found"
    | none => pure aggregate_cpu_count

/-! ## effective_n_jobs -/

structure EffEnv where
  mpNone : Bool            -- `mp is None` (JOBLIB_MULTIPROCESSING=0)
  daemon : Bool            -- `mp.current_process().daemon`
  mainThread : Bool        -- `in_main_thread()`
  lokyDepth : Nat          -- `process_executor._CURRENT_DEPTH`
  cpus : Int               -- `cpu_count()`
deriving Repr, DecidableEq, Inhabited

/-- `PoolManagerMixin.effective_n_jobs` (ThreadingBackend, and the tail of MultiprocessingBackend). -/
def poolEffective (env : EffEnv) (n_jobs : Option Int) : Except Err Int :=
  if n_jobs = some 0 then .error .valueError
  else if env.mpNone then .ok 1
  else match n_jobs with
    | none => .ok 1
    | some n => if n < 0 then .ok (max (env.cpus + 1 + n) 1) else .ok n

/-- `not (self.in_main_thread() or self.nesting_level == 0)`. -/
def nestedBelowThread (env : EffEnv) (level : Option Nat) : Bool :=
  !(env.mainThread || level == some 0)

/-- `backend.effective_n_jobs(n_jobs)` for a backend of class `cls` with `nesting_level = level`. -/
def effectiveNJobs (cls : BackendClass) (level : Option Nat) (env : EffEnv)
    (n_jobs : Option Int) : Except Err Int :=
  match cls with
  | .sequential => if n_jobs = some 0 then .error .valueError else .ok 1
  | .threading => poolEffective env n_jobs
  | .multiprocessing =>
    if env.mpNone then .ok 1
    else if env.daemon then .ok 1
    else if env.lokyDepth > 0 then .ok 1
    else if nestedBelowThread env level then .ok 1
    else poolEffective env n_jobs
  | .loky =>
    if n_jobs = some 0 then .error .valueError
    else if env.mpNone then .ok 1
    else match n_jobs with
      | none => .ok 1
      | some n =>
        if env.daemon then .ok 1
        else if nestedBelowThread env level then .ok 1
        else if n < 0 then .ok (max (env.cpus + 1 + n) 1)
        else .ok n

/-- What `Parallel._initialize_backend()` ends with: the backend finally used, the `n_jobs` it
returns, and the size the worker pool / executor was asked for (`none`: no pool). -/
structure InitResult where
  cls : BackendClass
  n_jobs : Int
  pool : Option Int
deriving Repr, DecidableEq

/-- `Parallel._initialize_backend` for `self._backend` of class `cls`, `self.n_jobs = n_jobs`:
`configure` computes `effective_n_jobs`; the pool backends raise
`FallbackToBackend(SequentialBackend(...))` when it is 1, and the loop configures that one. -/
def initializeBackend (cls : BackendClass) (level : Option Nat) (env : EffEnv)
    (n_jobs : Option Int) : Except Err InitResult := do
  let n ← effectiveNJobs cls level env n_jobs
  match cls with
  | .sequential => pure ⟨.sequential, n, none⟩
  | c =>
    if n = 1 then do
      let n' ← effectiveNJobs .sequential level env n_jobs     -- SequentialBackend.configure
      pure ⟨.sequential, n', none⟩
    else pure ⟨c, n, some n⟩

/-! ## nesting -/

/-- `backend.get_nested_backend()[0]` for a backend of class `cls` whose `nesting_level` is the
integer `level` (it is one by then: `Parallel.__init__` and `_check_backend` replace a `None`);
`active` is what `get_active_backend()` returns in the calling thread (only the sequential
backend looks at it). -/
def getNestedBackend (cls : BackendClass) (level : Nat) (active : BackendClass × Nat) :
    BackendClass × Nat :=
  match cls with
  | .sequential => active
  | _ =>
    let nesting_level := level + 1
    if nesting_level > 1 then (.sequential, nesting_level)
    else (.threading, nesting_level)

/-- The backend a `Parallel(...)` without `backend=` uses `depth` levels below a top-level call
running on `top`: inside the workers of a call the active backend is the nested backend of the
call's backend (`BatchedCalls.__call__`), and a call that runs sequentially leaves it alone. -/
def defaultAt (top : BackendClass × Nat) : Nat → BackendClass × Nat
  | 0 => top
  | d + 1 => let b := defaultAt top d; getNestedBackend b.1 b.2 b

/-- Where the tasks of a call that got more than one worker on `cls` run (facts about
`ThreadPool`, `multiprocessing.Pool` and loky's executor; measured by the harness, not proved). -/
def workerEnv (cls : BackendClass) (env : EffEnv) : EffEnv :=
  match cls with
  | .sequential => env
  | .threading => { env with mainThread := false }
  | .multiprocessing => { env with daemon := true, mainThread := true }
  | .loky => { env with daemon := false, mainThread := true, lokyDepth := env.lokyDepth + 1 }

/-- The class starts worker *processes* when it gets more than one job. -/
def processBased : BackendClass → Bool
  | .multiprocessing => true | .loky => true | _ => false

/-! ## loky's reusable executor: how many workers a later call finds -/

/-- `_max_workers`, `len(self._processes)` (live workers), `_executor_manager_thread is not None`. -/
structure Pool where
  maxWorkers : Nat
  alive : Nat
  started : Bool
deriving Repr, DecidableEq, Inhabited

/-- A new executor: nothing is spawned before the first `submit`. -/
def Pool.fresh (max_workers : Nat) : Pool := ⟨max_workers, 0, false⟩

/-- `_ReusablePoolExecutor._resize(max_workers)` (called between calls: no job is pending). -/
def resize (p : Pool) (max_workers : Nat) : Pool :=
  if max_workers = p.maxWorkers then p
  else if !p.started then { p with maxWorkers := max_workers }   -- no process spawned yet
  else
    -- one `None` sentinel per surplus live worker, wait until they are gone …
    let nb_children_alive := min p.alive max_workers
    -- … then `_adjust_process_count()` spawns up to `max_workers`
    { p with maxWorkers := max_workers, alive := max nb_children_alive max_workers }

/-- `submit` → `_ensure_executor_running` → `_adjust_process_count`:
`while len(self._processes) < self._max_workers: spawn`. -/
def submitEnsure (p : Pool) : Pool :=
  { p with started := true, alive := max p.alive p.maxWorkers }

/-- `get_reusable_executor(max_workers=n_jobs, …)`: a new executor when there is none or its
arguments (worker environment, timeout, …) differ; otherwise the existing one, resized. -/
def getReusableExecutor (cur : Option Pool) (same_args : Bool) (n_jobs : Nat) : Pool :=
  match cur with
  | some p => if same_args then resize p n_jobs else Pool.fresh n_jobs
  | none => Pool.fresh n_jobs

/-! ## The `ThreadPool` of one `ThreadingBackend` instance across the calls it serves -/

/-- `self._pool` (`none` = `None`; `some k` = a `ThreadPool` with `_processes = k`, i.e. `k` worker
threads) and `self._n_jobs` (`0`: `configure` never ran). -/
structure TBackend where
  pool : Option Nat
  nJobs : Nat
deriving Repr, DecidableEq, Inhabited

/-- A new instance (`_pool = None` is a class attribute). -/
def TBackend.fresh : TBackend := ⟨none, 0⟩

/-- `asIs`: the code. `keepLarger`: the pool-keeping variant used as a witness of why `terminate`
and the lazy `_get_pool` matter: `terminate` leaves the pool of a shared instance alone and
`_get_pool` rebuilds it only when it is smaller than `_n_jobs`. -/
inductive TVariant
  | asIs | keepLarger
deriving Repr, DecidableEq

/-- `ThreadingBackend.configure(n_jobs)`, `n` being `effective_n_jobs(n_jobs)` (≥ 1): for `n = 1`
`FallbackToBackend` is raised BEFORE `self._n_jobs` is assigned (the call then runs on a
`SequentialBackend` and never touches this instance again). -/
def tConfigure (b : TBackend) (n : Nat) : TBackend :=
  if n = 1 then b else { b with nJobs := n }

/-- `_get_pool()`: the instance afterwards and the `_processes` of the pool the task is put on. -/
def tGetPool (v : TVariant) (b : TBackend) : TBackend × Nat :=
  match b.pool with
  | none => ({ b with pool := some b.nJobs }, b.nJobs)       -- `ThreadPool(self._n_jobs)`
  | some k =>
    match v with
    | .asIs => (b, k)
    | .keepLarger => if k < b.nJobs then ({ b with pool := some b.nJobs }, b.nJobs) else (b, k)

/-- `terminate()`: close + terminate (join) the pool, `self._pool = None`. -/
def tTerminate (v : TVariant) (b : TBackend) : TBackend :=
  match v with
  | .asIs => { b with pool := none }
  | .keepLarger => b

/-- `tasks` consecutive `submit`s (each goes through `_get_pool()`): the pool sizes they see. -/
def tSubmits (v : TVariant) (b : TBackend) : Nat → TBackend × List Nat
  | 0 => (b, [])
  | t + 1 =>
    let r := tGetPool v b
    let rest := tSubmits v r.1 t
    (rest.1, r.2 :: rest.2)

/-- `Parallel(n_jobs=n)(<tasks>)` through this instance (not inside its own `with` block):
`_initialize_backend` → `configure`; dispatches; `_terminate_and_reset` → `terminate`.
With `n = 1` the call runs on the fallback `SequentialBackend`: no submit reaches this instance
and `terminate` is the sequential backend's. -/
def tPlain (v : TVariant) (b : TBackend) (n tasks : Nat) : TBackend × List Nat :=
  if n = 1 then (b, [])
  else
    let r := tSubmits v (tConfigure b n) tasks
    (tTerminate v r.1, r.2)

/-- What is seen of one call: the `n_jobs` it resolved, the size of the pool each of its tasks was
put on, and `self._pool` once the call has returned. -/
structure TObs where
  n : Nat
  sizes : List Nat
  after : Option Nat
deriving Repr, DecidableEq

/-- Inside `with Parallel(n_jobs=n) as p:` — `own t`: `p(<t tasks>)`; `foreign m t`: ANOTHER
`Parallel(n_jobs=m)(<t tasks>)` that resolves to the same backend instance (possible whenever the
instance is shared: `parallel_config(backend=...)`, the nested instance of a batch). -/
inductive TItem
  | own (tasks : Nat)
  | foreign (n tasks : Nat)
deriving Repr, DecidableEq

/-- The body of a `with Parallel(n_jobs=n) as p` block (`n` already configured by `__enter__`;
`seq` = the block fell back to the sequential backend). -/
def tBody (v : TVariant) (n : Nat) : TBackend → List TItem → TBackend × List TObs
  | b, [] => (b, [])
  | b, .own t :: rest =>
    let r := if n = 1 then (b, []) else tSubmits v b t      -- a managed call does not configure
    let more := tBody v n r.1 rest
    (more.1, ⟨n, r.2, r.1.pool⟩ :: more.2)
  | b, .foreign m t :: rest =>
    let r := tPlain v b m t
    let more := tBody v n r.1 rest
    (more.1, ⟨m, r.2, r.1.pool⟩ :: more.2)

/-- One statement of a history. -/
inductive TCall
  | plain (n tasks : Nat)
  | managed (n : Nat) (body : List TItem)
deriving Repr, DecidableEq

/-- `with Parallel(n_jobs=n) as p: <body>`: `__enter__` configures, `__exit__` terminates (on the
sequential fallback when `n = 1`). -/
def tManaged (v : TVariant) (b : TBackend) (n : Nat) (body : List TItem) : TBackend × List TObs :=
  let r := tBody v n (tConfigure b n) body
  (if n = 1 then r.1 else tTerminate v r.1, r.2)

/-- A whole history of statements on one instance; the last component of a step's observations
(`after`) is read before the next statement starts. -/
def tRun (v : TVariant) : TBackend → List TCall → TBackend × List TObs
  | b, [] => (b, [])
  | b, .plain n t :: rest =>
    let r := tPlain v b n t
    let more := tRun v r.1 rest
    (more.1, ⟨n, r.2, r.1.pool⟩ :: more.2)
  | b, .managed n body :: rest =>
    let r := tManaged v b n body
    let more := tRun v r.1 rest
    (more.1, r.2 ++ more.2)

/-- No foreign call inside a `with Parallel` block. -/
def TCall.clean : TCall → Bool
  | .plain _ _ => true
  | .managed _ body => body.all (fun i => match i with | .own _ => true | .foreign _ _ => false)

end JoblibModel.NJobs
