import JoblibModel.Config
/-
Model M2/`NJobs` — how many workers a `Parallel` call gets (property C15).

Python → Lean
* `loky.backend.context.cpu_count(only_physical_cores)`        : `cpuCount`
    `os.cpu_count()`                                           : `CpuEnv.osCpuCount` (`none` = `None`)
    `sys.platform == "win32"` / `_MAX_WINDOWS_WORKERS`         : `CpuEnv.winCap`
    `_cpu_count_affinity`  (`len(os.sched_getaffinity(0))`)    : `CpuEnv.affinity` (`none` = not available)
    `_cpu_count_cgroup`    (`cpu.max` / `cfs_quota_us`,`cfs_period_us`) : `CpuEnv.cgroup` (`none` = "max"/no file)
    `os.environ.get("LOKY_MAX_CPU_COUNT")` then `int(...)`     : `CpuEnv.lokyMax`
    `_count_physical_cores()`                                  : `CpuEnv.physical` (`none` = "not found")
* `mp is None`, `mp.current_process().daemon`, `in_main_thread()`,
  `process_executor._CURRENT_DEPTH`, `cpu_count()`             : `EffEnv`
* `SequentialBackend/PoolManagerMixin/MultiprocessingBackend/LokyBackend.effective_n_jobs(n_jobs)`
                                                               : `effectiveNJobs cls self.nesting_level env n_jobs`
* `backend.configure(...)` + `Parallel._initialize_backend` (the `FallbackToBackend` loop)
                                                               : `initializeBackend`
* `ParallelBackendBase.get_nested_backend` / `SequentialBackend.get_nested_backend`
                                                               : `getNestedBackend`
* loky's reusable executor, as far as the NUMBER of live worker processes goes
  (`_ReusablePoolExecutor.get_reusable_executor` / `_resize` / `submit` → `_adjust_process_count`)
                                                               : `Pool`, `resize`, `submitEnsure`, `getReusableExecutor`
Import-free apart from the backend classes of `JoblibModel.Config`; total, computable.
-/
namespace JoblibModel.NJobs
open JoblibModel.Config (BackendClass Backend)

inductive Err
  | valueError
deriving Repr, DecidableEq, Inhabited

/-! ## cpu_count -/

structure CpuEnv where
  osCpuCount : Option Nat
  winCap : Option Nat
  affinity : Option Nat
  cgroup : Option (Int × Int)            -- (cpu_quota_us, cpu_period_us)
  lokyMax : Option (Option Int)          -- unset | set but not an int literal | set to an int
  physical : Option Nat
deriving Repr, DecidableEq, Inhabited

/-- `os.cpu_count() or 1`. -/
def osCpuCountRaw (e : CpuEnv) : Nat :=
  match e.osCpuCount with
  | none => 1
  | some n => if n = 0 then 1 else n

/-- `os_cpu_count`: the above, capped on Windows. -/
def osCpuCount (e : CpuEnv) : Int :=
  match e.winCap with
  | some w => min (osCpuCountRaw e : Int) (w : Int)
  | none => osCpuCountRaw e

/-- `math.ceil(a / b)` for `b > 0`. -/
def ceilDiv (a b : Int) : Int := (a + b - 1) / b

/-- `_cpu_count_cgroup(os_cpu_count)`. -/
def cpuCountCgroup (os_cpu_count : Int) : Option (Int × Int) → Int
  | none => os_cpu_count
  | some (q, p) => if q > 0 ∧ p > 0 then ceilDiv q p else os_cpu_count

/-- `_cpu_count_affinity(os_cpu_count)`. -/
def cpuCountAffinity (os_cpu_count : Int) : Option Nat → Int
  | none => os_cpu_count
  | some a => a

/-- `int(os.environ.get("LOKY_MAX_CPU_COUNT", os_cpu_count))`. -/
def cpuCountLoky (os_cpu_count : Int) : Option (Option Int) → Except Err Int
  | none => .ok os_cpu_count
  | some none => .error .valueError
  | some (some v) => .ok v

/-- `_cpu_count_user(os_cpu_count)`. -/
def cpuCountUser (e : CpuEnv) (os_cpu_count : Int) : Except Err Int := do
  let cpu_count_affinity := cpuCountAffinity os_cpu_count e.affinity
  let cpu_count_cgroup := cpuCountCgroup os_cpu_count e.cgroup
  let cpu_count_loky ← cpuCountLoky os_cpu_count e.lokyMax
  pure (min cpu_count_affinity (min cpu_count_cgroup cpu_count_loky))

/-- `cpu_count(only_physical_cores)`. -/
def cpuCount (e : CpuEnv) (only_physical_cores : Bool) : Except Err Int := do
  let os_cpu_count := osCpuCount e
  let cpu_count_user ← cpuCountUser e os_cpu_count
  let aggregate_cpu_count := max (min os_cpu_count cpu_count_user) 1
  if !only_physical_cores then
    pure aggregate_cpu_count
  else if cpu_count_user < os_cpu_count then
    pure (max cpu_count_user 1)
  else
    match e.physical with
    | some p => if p < 1 then pure aggregate_cpu_count else pure (p : Int)   -- "< 1 → not found"
    | none => pure aggregate_cpu_count

/-! ## effective_n_jobs -/

structure EffEnv where
  mpNone : Bool            -- `mp is None` (JOBLIB_MULTIPROCESSING=0)
  daemon : Bool            -- `mp.current_process().daemon`
  mainThread : Bool        -- `in_main_thread()`
  lokyDepth : Nat          -- `process_executor._CURRENT_DEPTH`
  cpus : Int               -- `cpu_count()`
deriving Repr, DecidableEq, Inhabited

/-- `PoolManagerMixin.effective_n_jobs` (ThreadingBackend, and the tail of MultiprocessingBackend). -/
def poolEffective (env : EffEnv) (n_jobs : Option Int) : Except Err Int :=
  if n_jobs = some 0 then .error .valueError
  else if env.mpNone then .ok 1
  else match n_jobs with
    | none => .ok 1
    | some n => if n < 0 then .ok (max (env.cpus + 1 + n) 1) else .ok n

/-- `not (self.in_main_thread() or self.nesting_level == 0)`. -/
def nestedBelowThread (env : EffEnv) (level : Option Nat) : Bool :=
  !(env.mainThread || level == some 0)

/-- `backend.effective_n_jobs(n_jobs)` for a backend of class `cls` with `nesting_level = level`. -/
def effectiveNJobs (cls : BackendClass) (level : Option Nat) (env : EffEnv)
    (n_jobs : Option Int) : Except Err Int :=
  match cls with
  | .sequential => if n_jobs = some 0 then .error .valueError else .ok 1
  | .threading => poolEffective env n_jobs
  | .multiprocessing =>
    if env.mpNone then .ok 1
    else if env.daemon then .ok 1
    else if env.lokyDepth > 0 then .ok 1
    else if nestedBelowThread env level then .ok 1
    else poolEffective env n_jobs
  | .loky =>
    if n_jobs = some 0 then .error .valueError
    else if env.mpNone then .ok 1
    else match n_jobs with
      | none => .ok 1
      | some n =>
        if env.daemon then .ok 1
        else if nestedBelowThread env level then .ok 1
        else if n < 0 then .ok (max (env.cpus + 1 + n) 1)
        else .ok n

/-- What `Parallel._initialize_backend()` ends with: the backend finally used, the `n_jobs` it
returns, and the size the worker pool / executor was asked for (`none`: no pool). -/
structure InitResult where
  cls : BackendClass
  n_jobs : Int
  pool : Option Int
deriving Repr, DecidableEq

/-- `Parallel._initialize_backend` for `self._backend` of class `cls`, `self.n_jobs = n_jobs`:
`configure` computes `effective_n_jobs`; the pool backends raise
`FallbackToBackend(SequentialBackend(...))` when it is 1, and the loop configures that one. -/
def initializeBackend (cls : BackendClass) (level : Option Nat) (env : EffEnv)
    (n_jobs : Option Int) : Except Err InitResult := do
  let n ← effectiveNJobs cls level env n_jobs
  match cls with
  | .sequential => pure ⟨.sequential, n, none⟩
  | c =>
    if n = 1 then do
      let n' ← effectiveNJobs .sequential level env n_jobs     -- SequentialBackend.configure
      pure ⟨.sequential, n', none⟩
    else pure ⟨c, n, some n⟩

/-! ## nesting -/

/-- `backend.get_nested_backend()[0]` for a backend of class `cls` whose `nesting_level` is the
integer `level` (it is one by then: `Parallel.__init__` and `_check_backend` replace a `None`);
`active` is what `get_active_backend()` returns in the calling thread (only the sequential
backend looks at it). -/
def getNestedBackend (cls : BackendClass) (level : Nat) (active : BackendClass × Nat) :
    BackendClass × Nat :=
  match cls with
  | .sequential => active
  | _ =>
    let nesting_level := level + 1
    if nesting_level > 1 then (.sequential, nesting_level)
    else (.threading, nesting_level)

/-- The backend a `Parallel(...)` without `backend=` uses `depth` levels below a top-level call
running on `top`: inside the workers of a call the active backend is the nested backend of the
call's backend (`BatchedCalls.__call__`), and a call that runs sequentially leaves it alone. -/
def defaultAt (top : BackendClass × Nat) : Nat → BackendClass × Nat
  | 0 => top
  | d + 1 => let b := defaultAt top d; getNestedBackend b.1 b.2 b

/-- Where the tasks of a call that got more than one worker on `cls` run (facts about
`ThreadPool`, `multiprocessing.Pool` and loky's executor; measured by the harness, not proved). -/
def workerEnv (cls : BackendClass) (env : EffEnv) : EffEnv :=
  match cls with
  | .sequential => env
  | .threading => { env with mainThread := false }
  | .multiprocessing => { env with daemon := true, mainThread := true }
  | .loky => { env with daemon := false, mainThread := true, lokyDepth := env.lokyDepth + 1 }

/-- The class starts worker *processes* when it gets more than one job. -/
def processBased : BackendClass → Bool
  | .multiprocessing => true | .loky => true | _ => false

/-! ## loky's reusable executor: how many workers a later call finds -/

/-- `_max_workers`, `len(self._processes)` (live workers), `_executor_manager_thread is not None`. -/
structure Pool where
  maxWorkers : Nat
  alive : Nat
  started : Bool
deriving Repr, DecidableEq, Inhabited

/-- A new executor: nothing is spawned before the first `submit`. -/
def Pool.fresh (max_workers : Nat) : Pool := ⟨max_workers, 0, false⟩

/-- `_ReusablePoolExecutor._resize(max_workers)` (called between calls: no job is pending). -/
def resize (p : Pool) (max_workers : Nat) : Pool :=
  if max_workers = p.maxWorkers then p
  else if !p.started then { p with maxWorkers := max_workers }   -- no process spawned yet
  else
    -- one `None` sentinel per surplus live worker, wait until they are gone …
    let nb_children_alive := min p.alive max_workers
    -- … then `_adjust_process_count()` spawns up to `max_workers`
    { p with maxWorkers := max_workers, alive := max nb_children_alive max_workers }

/-- `submit` → `_ensure_executor_running` → `_adjust_process_count`:
`while len(self._processes) < self._max_workers: spawn`. -/
def submitEnsure (p : Pool) : Pool :=
  { p with started := true, alive := max p.alive p.maxWorkers }

/-- `get_reusable_executor(max_workers=n_jobs, …)`: a new executor when there is none or its
arguments (worker environment, timeout, …) differ; otherwise the existing one, resized. -/
def getReusableExecutor (cur : Option Pool) (same_args : Bool) (n_jobs : Nat) : Pool :=
  match cur with
  | some p => if same_args then resize p n_jobs else Pool.fresh n_jobs
  | none => Pool.fresh n_jobs

end JoblibModel.NJobs
