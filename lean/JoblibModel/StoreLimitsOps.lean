import JoblibModel.StoreLimits
/-
Two things `JoblibModel.StoreLimits` leaves out, both about what an OBSERVER of the store can see of
`Memory.reduce_size` besides the state it ends in (property C18; imports only `JoblibModel.StoreLimits`).

1. INTERRUPTION of the deletion loop. `enforce_store_limits` is

       for item in items_to_delete:
           try: self.clear_location(item.path)
           except OSError: pass

   Anything that is not an `OSError` — `KeyboardInterrupt` (Ctrl-C), `MemoryError`, an exception of a custom backend,
   and, seen from the file system, a kill / crash / power loss — leaves the loop between two `clear_location` calls:
   the store then is what the first `k` calls left. `enforceLoopInt raises k` is the loop in which call number `k`
   (0-based) raises such an exception BEFORE removing anything (the calls before it behave as in `enforceLoop`, under
   the same `OSError` fault pattern `raises`); with fewer than `k + 1` selected items the loop completes. The order of
   the calls is therefore observable: `C18.interrupted_eviction_is_lru_prefix`.

2. HISTORIES on one `Memory` object. `Memory` and `FileSystemStoreBackend` keep no inventory between calls
   (`get_items` walks the directory again each time), so the model's state is the directory tree alone: `Op` is what can
   happen between two `reduce_size` calls — another `reduce_size` (completed or interrupted), or ANY change of the tree
   made behind the object's back (`change f`: entries recomputed with another size after `MemorizedFunc.clear()` / a code
   change, rewritten in place by `MemorizedFunc.call()`, removed by another `Memory` object or by hand, read (access
   times), added). `runOps` folds a history over the tree. `C18.reduce_size_history_independent`.
-/
namespace JoblibModel.StoreLimits
open JoblibModel.Lru

/-- The loop of `enforce_store_limits` when `clear_location` call number `stop` (0-based) raises something the
`except OSError` does not catch, before it removed anything. Returns the tree, the `clear_location` calls STARTED
(the interrupted one included, last) and whether the exception propagated. -/
def enforceLoopInt (raises : Path → Bool) : Nat → List (Item Path) → Dir → List Path → Dir × List Path × Bool
  | _, [], t, calls => (t, calls, false)
  | 0, item :: _, t, calls => (t, calls ++ [item.id], true)
  | stop + 1, item :: rest, t, calls =>
    match clearLocation raises item.id t with
    | (true, t') => /- except OSError: pass -/ enforceLoopInt raises stop rest t' (calls ++ [item.id])
    | (false, t') => enforceLoopInt raises stop rest t' (calls ++ [item.id])

inductive OutcomeI where
  | returned (tree : Dir) (calls : List Path)
  | raised (exc : String)
  /-- the exception of the last call of `calls` left `reduce_size`; `tree` is the store it left behind -/
  | interrupted (tree : Dir) (calls : List Path)
deriving Repr

def OutcomeI.ofOutcome : Outcome → OutcomeI
  | .returned t c => .returned t c
  | .raised e => .raised e

/-- `enforce_store_limits` with an optional interruption (`none` = every call returns or raises `OSError`). -/
def enforceStoreLimitsInt (bytes : Option BytesArg) (items deadline : Option Int) (raises : Path → Bool)
    (stop : Option Nat) (t : Dir) : OutcomeI :=
  match stop with
  | none => .ofOutcome (enforceStoreLimits bytes items deadline raises t)
  | some k =>
    match resolveBytes bytes with
    | .error e => .raised e
    | .ok b =>
      match enforceLoopInt raises k (itemsToDelete (getItems t) ⟨b, items, deadline⟩) t [] with
      | (t', calls, true) => .interrupted t' calls
      | (t', calls, false) => .returned t' calls

/-- `Memory.reduce_size` with an optional interruption of the deletion loop. -/
def reduceSizeInt (hasBackend : Bool) (bytes : Option BytesArg) (items deadline : Option Int)
    (raises : Path → Bool) (stop : Option Nat) (t : Dir) : OutcomeI :=
  if !hasBackend then .returned t []
  else if bytes.isNone && items.isNone && deadline.isNone then .returned t []
  else enforceStoreLimitsInt bytes items deadline raises stop t

/-- The store an outcome leaves (`raised`: the size string was rejected before the store was read). -/
def OutcomeI.treeOr (t : Dir) : OutcomeI → Dir
  | .returned t' _ => t'
  | .raised _ => t
  | .interrupted t' _ => t'

/-- One thing that happens to the store of one `Memory` object. -/
inductive Op where
  | reduce (bytes : Option BytesArg) (items deadline : Option Int) (raises : Path → Bool) (stop : Option Nat)
  | change (f : Dir → Dir)

def Op.apply (t : Dir) : Op → Dir
  | .reduce bytes items deadline raises stop => (reduceSizeInt true bytes items deadline raises stop t).treeOr t
  | .change f => f t

/-- The store after a history. -/
def runOps (h : List Op) (t : Dir) : Dir := h.foldl Op.apply t

/-- The outcome of a `reduce_size` call issued after the history `h` on the same `Memory` object. -/
def reduceAfter (h : List Op) (t0 : Dir) (bytes : Option BytesArg) (items deadline : Option Int)
    (raises : Path → Bool) (stop : Option Nat) : OutcomeI :=
  reduceSizeInt true bytes items deadline raises stop (runOps h t0)

end JoblibModel.StoreLimits
