import JoblibModel.ParallelLock
/-
M1LU — the model M1L (`ParallelLock.lean`: small-step, multi-threaded, one call on a fresh object, `n_jobs ≥ 2`,
backend with `supports_retrieve_callback`) EXTENDED to `return_as='generator_unordered'` and to `timeout`, at the SAME
granularity (scheduling points: outermost acquire / release of `Parallel._lock`, backend calls, `time.sleep`, every
access without the lock to `_aborting, _exception, _iterating, _original_iterator, n_dispatched_tasks,
n_completed_tasks, _jobs, _jobs_set` of the Parallel object and to `status` of a tracker).

M1L's definitions are NOT changed: this file imports `ParallelLock.lean` and reuses what coincides (`Tid`, `Status`,
`CbPc` = the callback's program points, `DK`, `DRes`, `Act`, `chunks`, `idsStr`); everything that mentions exceptions,
trackers or the caller's program counter is defined again, because there are new exceptions (`TimeoutError`), a new
tracker attribute (`_completion_timeout_counter` → `tcnt`) and new program points of the caller.

WHAT IS NEW with respect to M1L (joblib/parallel.py):
  * `_register_new_job`: ordered → `_jobs.append(tracker)`; unordered → `_jobs_set.add(tracker)` (`jobsSet`, insertion
    order).
  * `_register_outcome` (run by the callback thread INSIDE its first critical section, the lock is re-entrant): for
    unordered modes ends with `with self.parallel._lock: self.parallel._jobs.append(self)` — for a callback that is
    still inside the outer `with`, so the status, the two flags and the append are ONE atomic step (`CbPc.retr`).
    The tracker registered for an error of the input iterable (`dispatch_one_batch`) goes through the same function:
    unordered → it is in `_jobs_set` AND in `_jobs`.
  * `_retrieve`, unordered branch: `len(self._jobs)` [`rtLen`]; empty → pick the timeout control job under the lock
    [`ctlAcq`, `ctlRel`] unless one is held, `get_status` of it, `time.sleep`; non-empty → release the control job
    (`_completion_timeout_counter = None`, a local step), `popleft` + `_jobs_set.remove` under the lock.
    `next(iter(self._jobs_set), None)` picks an ARBITRARY element of a set: the model takes the pick from a script
    `Cfg.ctl` (value `v` → element `v % len` in insertion order; last value repeats); the harness installs an
    insertion-ordered set that follows the same script, so every pick is exercised and the theorems hold for all scripts.
  * `get_status(timeout)`: `timeout is None` → one read of `status` [`gsRet`]; otherwise a first read [`gsStatus`],
    pending → the fake clock is read (`time.time()`, no scheduling point; the clock is the number of `time.sleep`s of
    the retrieval loop so far), the counter is started if it is `None`, and when `now - counter > timeout` the caller
    thread runs `_register_outcome(TimeoutError)` WITHOUT owning the lock: `with _lock:` status test + `status = ERROR`
    [`toAcq`, `toRel`], `_result = …`, unlocked read of `status` [`toStatus`], unlocked writes of `_exception`
    [`toExcW`] and `_aborting` [`toAbortW`], for unordered a second `with _lock: _jobs.append(self)` [`toAcq2`,
    `toRel2`]; finally `return self.status` [`gsRet`].
  * `finally` of `_get_outputs`: `self._jobs_set = set()` is one more unlocked write [`finSetW`].
  * ghost fields: `appended` (tracker indices in the order of `_jobs.append` by `_register_outcome`), `delivered`
    (trackers whose values were handed to the consumer, in order), `toWait` (set when a TimeoutError is registered:
    tracker, value of its counter, clock).

Python → Lean as in M1L; additionally `_jobs_set`→`jobsSet`, local `timeout_control_job`→`ctlJob`,
`_completion_timeout_counter`→`Tracker.tcnt`, fake `time.time()`→`clock`, `Parallel.timeout`→`Cfg.timeout`.
`Cfg.ra`: 0 list, 1 generator, 2 generator_unordered.  `Cfg.recheck` as in M1L (true = the pinned tree now).
Total, computable; imports only `ParallelLock.lean`.
-/
namespace JoblibModel.ParallelLockU

open JoblibModel.ParallelLock (Tid Status CbPc DK DRes Act chunks idsStr)

inductive Exc where
  | task (id : Nat)      -- raised by task `id`
  | iter (pos : Nat)     -- raised by the input iterable at position `pos`
  | runtime              -- "This Parallel instance is already running"
  | attr                 -- AttributeError: a tracker without `_result` was asked for its result
  | index                -- IndexError: `popleft` / `[0]` on an empty deque
  | key                  -- KeyError: `_jobs_set.remove` of a tracker that is not in the set
  | timeout              -- TimeoutError registered by `get_status`
  | typeErr              -- TypeError: `_return_or_raise` returned an exception object and the caller iterates over it
deriving DecidableEq, Repr, Inhabited

inductive Res where
  | none
  | vals (l : List Nat)
  | exc (e : Exc)
deriving DecidableEq, Repr, Inhabited

structure Tracker where
  items : List Nat
  bsize : Nat
  callId : Nat
  status : Status := .pending
  result : Res := .none
  pc : CbPc := .idle
  failed : Option Nat := none      -- set by `complete`: the task that raised in the worker
  tcnt : Option Nat := none        -- `_completion_timeout_counter`
deriving DecidableEq, Repr, Inhabited

structure Cfg where
  nj : Nat
  bsAuto : Bool
  bs : List Nat          -- auto: scripted `compute_batch_size()` values (last repeats); fixed: `[k]`
  pdMode : Nat           -- 0 int, 1 'all', 2 expression (evaluated to `pd`)
  pd : Nat
  ra : Nat               -- 0 list, 1 generator, 2 generator_unordered
  abortDrops : Bool
  n : Nat                -- number of tasks
  fails : List Nat       -- ids of the tasks that raise
  iterfail : Option Nat  -- position at which the input iterable raises
  recheck : Bool := true
  timeout : Option Nat := none   -- `Parallel(timeout=…)` in clock ticks
  ctl : List Nat := []   -- scripted picks of `next(iter(self._jobs_set))` (last repeats; `[]` = always the oldest)
deriving Repr, Inhabited

/-- Who called `get_status`: the ordered branch on `self._jobs[0]`, or the unordered branch on the control job. -/
inductive GK where
  | head | ctl
deriving DecidableEq, Repr, Inhabited

/-- Program counter of the caller thread; every constructor is the scheduling point the thread is parked at. -/
inductive Pc where
  | resetAcq | resetRel | wNDisp | wNComp | wExc0 | wAbort0 | readyAcq | readyRel | wOrig | wIter0
  | dPre (k : DK)                    -- r:_aborting    `dispatch_one_batch`
  | dBs (k : DK)                     -- bs
  | dAcq (k : DK) (bs : Nat)         -- acq
  | dIn (k : DK)                     -- (transient marker, never a parking point)
  | dSubmit (k : DK) (j : Nat)       -- submit (owns the lock)
  | dRel (k : DK) (r : Bool)         -- rel
  | itAcq | itRel | wIterAll
  | wtAbort | wtIter | wtNComp
  | wtNDisp (nc : Nat)
  | wtAbort2
  | rtAbort                          -- r:_aborting    `_retrieve`
  | rtLen                            -- r:_jobs        `len(self._jobs)`
  | rtHead                           -- r:_jobs        `self._jobs[0]` (ordered)
  | ctlAcq                           -- acq   unordered: `with self._lock: timeout_control_job = next(iter(self._jobs_set), None)`
  | ctlRel                           -- rel
  | gsStatus (i : Nat) (k : GK)      -- r:status       `get_status`: `self.status != TASK_PENDING` (timeout is not None)
  | toAcq (i : Nat) (k : GK)         -- acq   `_register_outcome(TimeoutError)`: first `with`
  | toRel (i : Nat) (k : GK) (reg : Bool)   -- rel; `reg` = the status was still pending and is now TASK_ERROR
  | toStatus (i : Nat) (k : GK)      -- r:status       `if self.status == TASK_ERROR`
  | toExcW (i : Nat) (k : GK)        -- w:_exception
  | toAbortW (i : Nat) (k : GK)      -- w:_aborting
  | toAcq2 (i : Nat) (k : GK)        -- acq   unordered: `with self.parallel._lock: self.parallel._jobs.append(self)`
  | toRel2 (i : Nat) (k : GK)        -- rel
  | gsRet (i : Nat) (k : GK)         -- r:status       `return self.status`
  | sleep
  | popAcq
  | popRel (i : Nat)
  | resStatus (i : Nat)              -- r:status       `_return_or_raise`
  | refAcq                           -- acq   `_raise_error_fast`
  | refRel (e : Option Nat)
  | refStatus (i : Nat)
  | excW (e : Exc)                   -- w:_exception   `except BaseException`
  | abortW (e : Exc)                 -- w:_aborting    `_abort`
  | abortCall (e : Exc)              -- abort
  | finExc (e : Option Exc)          -- r:_exception   `finally`
  | finJobsR (e : Option Exc)        -- r:_jobs
  | finJobsW (e : Option Exc) (rem : List Nat)   -- w:_jobs
  | finSetW (e : Option Exc) (rem : List Nat)    -- w:_jobs_set
  | tailStatus (i : Nat) (rem : List Nat)        -- r:status   tail loop over `_remaining_outputs`
  | done
deriving DecidableEq, Repr, Inhabited

inductive Outcome where
  | ret (l : List Nat)
  | raised (e : Exc)
deriving DecidableEq, Repr, Inhabited

inductive Ev where
  | pull (t : Tid) (id : Nat) (locked : Bool)
  | pullraise (t : Tid)
  | submit (t : Tid) (ids : List Nat)
  | complete (i : Nat) (ids : List Nat)
  | yield (v : Nat)
  | ret (l : List Nat)
  | raise (e : Exc)
  | stop
  | abort
deriving DecidableEq, Repr, Inhabited

structure St where
  log : List Ev := []              -- newest first
  lockOwner : Option Tid := none
  pc : Pc := .resetAcq
  out : List Nat := []
  outcome : Option Outcome := none
  bsI : Nat := 0
  srcPos : Nat := 0
  srcDead : Bool := false
  srcRaised : Bool := false
  preLeft : Option Nat := none
  origAlive : Bool := false
  ready : List (List Nat) := []
  jobs : List Nat := []
  jobsSet : List Nat := []         -- `_jobs_set`, insertion order
  trk : List Tracker := []
  nDispTasks : Nat := 0
  nCompleted : Nat := 0
  iterating : Bool := false
  aborting : Bool := false
  aborted : Bool := false
  exception : Bool := false
  running : Bool := false
  callId : Nat := 0
  ctlJob : Option Nat := none      -- local `timeout_control_job` of `_retrieve`
  ctlI : Nat := 0                  -- number of picks of a control job so far (index into `Cfg.ctl`)
  clock : Nat := 0                 -- fake `time.time()`: number of `time.sleep`s of the retrieval loop
  nPop : Nat := 0                  -- ghost: number of `popleft`s of the retrieval loop
  appended : List Nat := []        -- ghost: trackers in the order of `_jobs.append` by `_register_outcome`
  delivered : List Nat := []       -- ghost: trackers whose values were handed to the consumer
  toWait : Option (Nat × Nat × Nat) := none   -- ghost: (tracker, counter, clock) of the registered TimeoutError
deriving DecidableEq, Repr, Inhabited

def init : St := {}

def getTrk (s : St) (i : Nat) : Tracker := s.trk.getD i default

def setTrk (s : St) (i : Nat) (t : Tracker) : St := { s with trk := s.trk.set i t }

def setCb (s : St) (i : Nat) (p : CbPc) : St := setTrk s i { getTrk s i with pc := p }

def ev (s : St) (e : Ev) : St := { s with log := e :: s.log }

def stopAt (c : Cfg) : Nat :=
  match c.iterfail with
  | some f => min f c.n
  | none => c.n

def pullLim (fromOrig : Bool) (k : Nat) (s : St) : Nat :=
  if fromOrig then k else match s.preLeft with
    | some p => min k p
    | none => k

/-- `list(itertools.islice(iterator, k))` by thread `t` (as in M1L). -/
def pull (c : Cfg) (t : Tid) (fromOrig : Bool) (k : Nat) (s : St) : St × List Nat × Bool :=
  let lim := pullLim fromOrig k s
  if lim = 0 ∨ s.srcDead then (s, [], false)
  else
    let m := min lim (stopAt c - s.srcPos)
    let ids := List.range' s.srcPos m
    let hitEnd := decide (m < lim)
    let raised := hitEnd && (c.iterfail == some (s.srcPos + m))
    let locked := s.lockOwner == some t
    let evs := (ids.map (fun id => Ev.pull t id locked)).reverse
    let evs := if raised then Ev.pullraise t :: evs else evs
    ({ s with srcPos := s.srcPos + m, srcDead := hitEnd, srcRaised := raised,
              preLeft := if fromOrig then s.preLeft else s.preLeft.map (· - m),
              log := evs ++ s.log }, ids, raised)

/-- `_register_new_job`: ordered → `_jobs.append`, unordered → `_jobs_set.add`. -/
def registerNewJob (c : Cfg) (j : Nat) (s : St) : St :=
  if c.ra == 2 then { s with jobsSet := s.jobsSet ++ [j] } else { s with jobs := s.jobs ++ [j] }

/-- The last lines of `_register_outcome`: unordered → `_jobs.append(self)` (lock held). -/
def appendOutcome (c : Cfg) (i : Nat) (s : St) : St :=
  if c.ra == 2 then { s with jobs := s.jobs ++ [i], appended := s.appended ++ [i] } else s

/-- `if len(tasks) == 0: return False else: self._dispatch(tasks); return True`, up to `backend.submit`. -/
def dispatchTasks (c : Cfg) (s : St) (tasks : List Nat) : St × DRes :=
  if tasks.length = 0 then (s, .ret false)
  else if s.aborting then (s, .ret true)          -- `_dispatch`: `if self._aborting: return`
  else
    let j := s.trk.length
    let t : Tracker := { items := tasks, bsize := tasks.length, callId := s.callId }
    (registerNewJob c j { s with nDispTasks := s.nDispTasks + tasks.length, trk := s.trk ++ [t] }, .submit j)

/-- The input iterable raised inside `dispatch_one_batch`: a tracker carrying the error is registered
(`_register_new_job`, then `_register_outcome`, all with the lock held). -/
def registerIterError (c : Cfg) (bs : Nat) (s : St) : St :=
  let j := s.trk.length
  let t : Tracker := { items := [], bsize := bs, callId := s.callId, status := .error,
                       result := .exc (.iter s.srcPos) }
  appendOutcome c j (registerNewJob c j { s with trk := s.trk ++ [t], exception := true, aborting := true })

/-- The locked region of `dispatch_one_batch` (thread `t` owns the lock), given the batch size. -/
def dispatchLocked (c : Cfg) (t : Tid) (fromOrig : Bool) (bs : Nat) (s : St) : St × DRes :=
  if s.aborting then (s, .ret false) else
  match s.ready with
  | tasks :: rest => dispatchTasks c { s with ready := rest } tasks
  | [] =>
    let big := bs * c.nj
    let (s, islice, raised) := pull c t fromOrig big s
    if raised then (registerIterError c bs s, .ret true)
    else if islice.length = 0 then (s, .ret false)
    else
      let final :=
        if fromOrig && islice.length < big then max 1 (islice.length / (10 * c.nj))
        else max 1 (islice.length / c.nj)
      match chunks final islice with
      | [] => (s, .ret false)
      | tasks :: rest => dispatchTasks c { s with ready := rest } tasks

def scriptedBs (c : Cfg) (s : St) : Nat := c.bs.getD (min s.bsI (c.bs.length - 1)) 1

/-- `next(iter(self._jobs_set), None)`: the scripted element of the set (insertion order), `none` when it is empty. -/
def pickCtl (c : Cfg) (s : St) : Option Nat :=
  if s.jobsSet.length = 0 then none
  else s.jobsSet[(c.ctl.getD (min s.ctlI (c.ctl.length - 1)) 0) % s.jobsSet.length]?

def doSubmit (t : Tid) (j : Nat) (s : St) : St :=
  setCb (ev s (.submit t (getTrk s j).items)) j .parked

def afterDispatch (c : Cfg) : DK → Bool → Pc
  | .first, true => .itAcq
  | .first, false => .dPre .loop
  | .loop, true => .dPre .loop
  | .loop, false => if c.pdMode == 1 then .wIterAll else .wtAbort

/-- `tracker._return_or_raise()` (after the unlocked read of `status`): the values, or the exception to raise. -/
def returnOrRaise (s : St) (i : Nat) : St × Except Exc (List Nat) :=
  let t := getTrk s i
  let s' := setTrk s i { t with result := .none }
  match t.result with
  | .none => (s, .error .attr)
  | .vals l => if t.status == .error then (s', .error .attr) else (s', .ok l)
  | .exc e => if t.status == .error then (s', .error e) else (s', .error .typeErr)

def firstErrorJob (s : St) : List Nat → Option Nat
  | [] => none
  | i :: r => if (getTrk s i).status == .error then some i else firstErrorJob s r

/-- The consumer receives the values of the batch of tracker `i`. -/
def deliverVals (c : Cfg) (s : St) (i : Nat) (l : List Nat) : St :=
  let s := { s with out := s.out ++ l, delivered := s.delivered ++ [i] }
  if c.ra != 0 then { s with log := (l.map Ev.yield).reverse ++ s.log } else s

def finishRet (c : Cfg) (s : St) : St :=
  let s := if c.ra != 0 then ev s .stop else ev s (.ret s.out)
  { s with pc := .done, outcome := some (.ret s.out) }

def finishRaise (s : St) (e : Exc) : St :=
  { ev s (.raise e) with pc := .done, outcome := some (.raised e) }

def tailNext (c : Cfg) (s : St) : List Nat → St
  | [] => finishRet c s
  | i :: rest => { s with pc := .tailStatus i rest }

def dropParked (s : St) : St :=
  { s with trk := s.trk.map (fun t => if t.pc == .parked then { t with pc := .dropped } else t) }

/-- Entry of `tracker.get_status(timeout=self.timeout)`. -/
def getStatusEntry (c : Cfg) (i : Nat) (k : GK) : Pc :=
  match c.timeout with
  | none => .gsRet i k
  | some _ => .gsStatus i k

/-- One atomic step of the caller thread (thread 0). -/
def stepCaller (c : Cfg) (s : St) : St :=
  match s.pc with
  | .resetAcq =>
    if s.running then finishRaise s .runtime
    else { s with running := true, callId := s.callId + 1, pc := .resetRel }
  | .resetRel => { s with pc := .wNDisp }
  | .wNDisp => { s with nDispTasks := 0, pc := .wNComp }
  | .wNComp => { s with nCompleted := 0, pc := .wExc0 }
  | .wExc0 => { s with exception := false, pc := .wAbort0 }
  | .wAbort0 => { s with aborting := false, aborted := false, pc := .readyAcq }
  | .readyAcq => { s with ready := [], pc := .readyRel }
  | .readyRel => { s with pc := .wOrig }
  | .wOrig =>
    if c.pdMode == 1 then { s with origAlive := false, preLeft := none, pc := .wIter0 }
    else { s with origAlive := true, preLeft := some c.pd, pc := .wIter0 }
  | .wIter0 => { s with iterating := false, pc := .dPre .first }
  | .dPre k =>
    if s.aborting then { s with pc := afterDispatch c k false }
    else if c.bsAuto then { s with pc := .dBs k }
    else { s with pc := .dAcq k (scriptedBs c s) }
  | .dBs k => { s with bsI := s.bsI + 1, pc := .dAcq k (scriptedBs c s) }
  | .dAcq k bs =>
    match dispatchLocked c 0 false bs { s with lockOwner := some 0, pc := .dIn k } with
    | (s, .submit j) => { s with pc := .dSubmit k j }
    | (s, .ret r) => { s with lockOwner := none, pc := .dRel k r }
  | .dIn _ => s
  | .dSubmit k j => { doSubmit 0 j { s with pc := .dIn k } with lockOwner := none, pc := .dRel k true }
  | .dRel k r => { s with pc := afterDispatch c k r }
  | .itAcq => { s with iterating := s.origAlive, pc := .itRel }
  | .itRel => { s with pc := .dPre .loop }
  | .wIterAll => { s with iterating := false, pc := .wtAbort }
  | .wtAbort => if s.aborting then { s with pc := .rtAbort } else { s with pc := .wtIter }
  | .wtIter => if s.iterating then { s with pc := .rtAbort } else { s with pc := .wtNComp }
  | .wtNComp => { s with pc := .wtNDisp s.nCompleted }
  | .wtNDisp nc =>
    if nc < s.nDispTasks then { s with pc := .rtAbort }
    else if c.recheck then { s with pc := .wtAbort2 }
    else { s with pc := .finExc none }
  | .wtAbort2 => if s.aborting then { s with pc := .rtAbort } else { s with pc := .finExc none }
  | .rtAbort => if s.aborting then { s with pc := .refAcq } else { s with pc := .rtLen }
  | .rtLen =>
    if c.ra != 2 then
      if s.jobs.length = 0 then { s with pc := .sleep } else { s with pc := .rtHead }
    else if s.jobs.length = 0 then
      match s.ctlJob with
      | none => { s with pc := .ctlAcq }
      | some j => { s with pc := getStatusEntry c j .ctl }
    else
      match s.ctlJob with
      | none => { s with pc := .popAcq }
      | some j =>
        -- `timeout_control_job._completion_timeout_counter = None; timeout_control_job = None`
        { setTrk s j { getTrk s j with tcnt := none } with ctlJob := none, pc := .popAcq }
  | .rtHead =>
    match s.jobs with
    | [] => { s with pc := .excW .index }
    | i :: _ => { s with pc := getStatusEntry c i .head }
  | .ctlAcq => { s with ctlJob := pickCtl c s, ctlI := s.ctlI + 1, pc := .ctlRel }
  | .ctlRel =>
    match s.ctlJob with
    | none => { s with pc := .sleep }
    | some j => { s with pc := getStatusEntry c j .ctl }
  | .gsStatus i k =>
    let t := getTrk s i
    if t.status != .pending then { s with pc := .gsRet i k }
    else
      let cnt := t.tcnt.getD s.clock
      let s := setTrk s i { t with tcnt := some cnt }
      if c.timeout.getD 0 < s.clock - cnt then { s with pc := .toAcq i k } else { s with pc := .gsRet i k }
  | .toAcq i k =>
    let t := getTrk s i
    if t.status != .pending then { s with pc := .toRel i k false }
    else { setTrk s i { t with status := .error } with
             toWait := some (i, t.tcnt.getD s.clock, s.clock), pc := .toRel i k true }
  | .toRel i k reg =>
    if reg then { setTrk s i { getTrk s i with result := .exc .timeout } with pc := .toStatus i k }
    else { s with pc := .gsRet i k }
  | .toStatus i k =>
    if (getTrk s i).status == .error then { s with pc := .toExcW i k }
    else if c.ra != 2 then { s with pc := .gsRet i k } else { s with pc := .toAcq2 i k }
  | .toExcW i k => { s with exception := true, pc := .toAbortW i k }
  | .toAbortW i k =>
    if c.ra != 2 then { s with aborting := true, pc := .gsRet i k } else { s with aborting := true, pc := .toAcq2 i k }
  | .toAcq2 i k => { appendOutcome c i s with pc := .toRel2 i k }
  | .toRel2 i k => { s with pc := .gsRet i k }
  | .gsRet i k =>
    match k with
    | .head => if (getTrk s i).status == .pending then { s with pc := .sleep } else { s with pc := .popAcq }
    | .ctl => { s with pc := .sleep }
  | .sleep => { s with clock := s.clock + 1, pc := .wtAbort }
  | .popAcq =>
    match s.jobs with
    | [] => { s with pc := .excW .index }
    | i :: rest =>
      if c.ra != 2 then { s with jobs := rest, nPop := s.nPop + 1, pc := .popRel i }
      else if s.jobsSet.contains i then
        { s with jobs := rest, jobsSet := s.jobsSet.erase i, nPop := s.nPop + 1, pc := .popRel i }
      else { s with jobs := rest, nPop := s.nPop + 1, pc := .excW .key }
  | .popRel i => { s with pc := .resStatus i }
  | .resStatus i =>
    match returnOrRaise s i with
    | (s, .error e) => { s with pc := .excW e }
    | (s, .ok l) => { deliverVals c s i l with pc := .wtAbort }
  | .refAcq => { s with pc := .refRel (firstErrorJob s s.jobs) }
  | .refRel none => { s with pc := .finExc none }
  | .refRel (some i) => { s with pc := .refStatus i }
  | .refStatus i =>
    match returnOrRaise s i with
    | (s, .error e) => { s with pc := .excW e }
    | (s, .ok _) => { s with pc := .finExc none }
  | .excW e => { s with exception := true, pc := .abortW e }
  | .abortW e =>
    if s.aborted then { s with aborting := true, pc := .finExc (some e) }
    else { s with aborting := true, pc := .abortCall e }
  | .abortCall e =>
    let s := ev s .abort
    let s := if c.abortDrops then dropParked s else s
    { s with aborted := true, pc := .finExc (some e) }
  | .finExc e => if s.exception then { s with pc := .finJobsW e [] } else { s with pc := .finJobsR e }
  | .finJobsR e => { s with pc := .finJobsW e s.jobs }
  | .finJobsW e rem => { s with jobs := [], pc := .finSetW e rem }
  | .finSetW e rem =>
    let s := { s with jobsSet := [], running := false }
    match e with
    | some e => finishRaise s e
    | none => tailNext c s rem
  | .tailStatus i rem =>
    match returnOrRaise s i with
    | (s, .error e) => finishRaise s e
    | (s, .ok l) => tailNext c (deliverVals c s i l) rem
  | .done => s

def cbAfterDispatch (i : Nat) (s : St) (r : Bool) : St :=
  let s := if r then s else { s with iterating := false, origAlive := false }
  setCb { s with lockOwner := none } i .relC

def cbDispatchResult (i : Nat) : St × DRes → St
  | (s, .submit j) => setCb s i (.submitC j)
  | (s, .ret r) => cbAfterDispatch i s r

/-- One atomic step of the callback thread of tracker `i` (thread `i + 1`). -/
def stepCb (c : Cfg) (i : Nat) (s : St) : St :=
  let t := getTrk s i
  match t.pc with
  | .acqA =>
    if s.callId != t.callId then setCb s i (.relA false)
    else if s.aborting then setCb s i (.relA false)
    else setCb { s with lockOwner := some (i + 1) } i .retr
  | .retr =>
    -- `_retrieve_result` → `_register_outcome` (status, result, flags, unordered: `_jobs.append(self)`, all with the
    -- lock held), then the release of the first critical section
    let s := { s with lockOwner := none }
    if t.status != .pending then setCb s i (.relA (t.failed == none))
    else
      match t.failed with
      | some id =>
        appendOutcome c i (setTrk { s with exception := true, aborting := true } i
          { t with status := .error, result := .exc (.task id), pc := .relA false })
      | none => appendOutcome c i (setTrk s i { t with status := .done, result := .vals t.items, pc := .relA true })
  | .relA ok => setCb s i (if ok then .stats else .done false)
  | .stats => setCb s i .acqC
  | .acqC =>
    if s.origAlive then
      let s := setCb { s with lockOwner := some (i + 1), nCompleted := s.nCompleted + t.bsize } i .bsC
      if s.aborting then cbAfterDispatch i s false
      else if c.bsAuto then s
      else cbDispatchResult i (dispatchLocked c (i + 1) true (scriptedBs c s) s)
    else setCb { s with nCompleted := s.nCompleted + t.bsize } i .relC
  | .bsC =>
    let bs := scriptedBs c s
    cbDispatchResult i (dispatchLocked c (i + 1) true bs { s with bsI := s.bsI + 1 })
  | .submitC j => cbAfterDispatch i (doSubmit (i + 1) j (setCb s i .bsC)) true
  | .relC => setCb s i (.done true)
  | _ => s

def complete (c : Cfg) (i : Nat) (s : St) : St :=
  let t := getTrk s i
  setTrk (ev s (.complete i t.items)) i { t with pc := .acqA, failed := t.items.find? (fun id => c.fails.contains id) }

def Pc.isAcq : Pc → Bool
  | .resetAcq | .readyAcq | .dAcq _ _ | .itAcq | .popAcq | .refAcq | .ctlAcq | .toAcq _ _ | .toAcq2 _ _ => true
  | _ => false

def callerEnabled (s : St) : Bool :=
  s.pc != .done && (!s.pc.isAcq || s.lockOwner == none)

def cbEnabled (s : St) (i : Nat) : Bool :=
  match (getTrk s i).pc with
  | .idle | .parked | .dropped | .done _ => false
  | .acqA | .acqC => s.lockOwner == none
  | _ => true

def parkedIds (s : St) : List Nat :=
  (List.range s.trk.length).filter (fun i => (getTrk s i).pc == .parked)

def enabled (s : St) : Act → Bool
  | .thread 0 => callerEnabled s
  | .thread (i + 1) => cbEnabled s i
  | .complete k => k < (parkedIds s).length

def step (c : Cfg) (s : St) : Act → St
  | .thread 0 => if callerEnabled s then stepCaller c s else s
  | .thread (i + 1) => if cbEnabled s i then stepCb c i s else s
  | .complete k =>
    match (parkedIds s)[k]? with
    | some i => complete c i s
    | none => s

def run (c : Cfg) (s : St) : List Act → St
  | [] => s
  | a :: r => run c (step c s a) r

def enabledActs (s : St) : List Act :=
  (if callerEnabled s then [Act.thread 0] else []) ++
  ((List.range s.trk.length).filter (cbEnabled s)).map (fun i => Act.thread (i + 1)) ++
  (List.range (parkedIds s).length).map Act.complete

def pick (s : St) (ch : Nat) : Option Act :=
  let a := enabledActs s
  if a.length = 0 then none else a[ch % a.length]?

def pickLast (s : St) : Option Act := (enabledActs s).getLast?

-- rendering, for the driver

def excStr : Exc → String
  | .task id => "TaskBoom(" ++ toString id ++ ")"
  | .iter id => "IterBoom(" ++ toString id ++ ")"
  | .runtime => "RuntimeError"
  | .attr => "AttributeError"
  | .index => "IndexError"
  | .key => "KeyError"
  | .timeout => "TimeoutError"
  | .typeErr => "TypeError"

def evStr : Ev → String
  | .pull _ id _ => "pull " ++ toString id
  | .pullraise _ => "pullraise"
  | .submit _ ids => "submit " ++ idsStr ids
  | .complete _ ids => "complete " ++ idsStr ids
  | .yield v => "yield " ++ toString v
  | .ret l => "ret " ++ idsStr l
  | .raise e => "raise " ++ excStr e
  | .stop => "stop"
  | .abort => "abort"

def Pc.point : Pc → String
  | .resetAcq | .readyAcq | .dAcq _ _ | .itAcq | .popAcq | .refAcq | .ctlAcq | .toAcq _ _ | .toAcq2 _ _ => "acq"
  | .resetRel | .readyRel | .dRel _ _ | .itRel | .popRel _ | .refRel _ | .ctlRel | .toRel _ _ _ | .toRel2 _ _ => "rel"
  | .wNDisp => "w:n_dispatched_tasks"
  | .wNComp => "w:n_completed_tasks"
  | .wExc0 | .excW _ | .toExcW _ _ => "w:_exception"
  | .wAbort0 | .abortW _ | .toAbortW _ _ => "w:_aborting"
  | .wOrig => "w:_original_iterator"
  | .wIter0 | .wIterAll => "w:_iterating"
  | .dPre _ | .wtAbort | .rtAbort | .wtAbort2 => "r:_aborting"
  | .dBs _ => "bs"
  | .dSubmit _ _ => "submit"
  | .dIn _ => "in"
  | .wtIter => "r:_iterating"
  | .wtNComp => "r:n_completed_tasks"
  | .wtNDisp _ => "r:n_dispatched_tasks"
  | .rtLen | .rtHead | .finJobsR _ => "r:_jobs"
  | .gsStatus _ _ | .toStatus _ _ | .gsRet _ _ | .resStatus _ | .refStatus _ | .tailStatus _ _ => "r:status"
  | .sleep => "sleep"
  | .abortCall _ => "abort"
  | .finExc _ => "r:_exception"
  | .finJobsW _ _ => "w:_jobs"
  | .finSetW _ _ => "w:_jobs_set"
  | .done => "done"

end JoblibModel.ParallelLockU
