import JoblibModel.Generated.Tables
/-!
Model of the inline array payload of joblib's pickles — `NumpyArrayWrapper.write_array / read_array /
read_mmap`, `NumpyPickler._create_array_wrapper` (joblib/numpy_pickle.py) — and of the arithmetic of the
worker path `_reduce_memmap_backed` / `_strided_from_memmap` (joblib/_memmapping_reducer.py). Property C19.

Python → Lean
* the file handle (`pickler.file_handle` / `unpickler.file_handle`) : `Handle` — the bytes from the current
  position to the end of the file, and `tell()`
* `numpy_array_alignment_bytes` (instance attribute, `None` for pickles of joblib ≤ 1.1 and for
  handles without `tell()`)                                          : `Option Nat`
* `padding_length`, the pad byte `b"\xff"`                            : `paddingLength`, `padValue`
* bytes appended by `write_array` at position `current_pos`           : `writeArray`
* `count`, `max_read_count`, the `for i in range(0, count, max_read_count)` loop, `_read_bytes` :
  `count`, `maxReadCount`, `chunks` (the index arithmetic alone) and `readLoop`, `readBytes`
* `read_array` up to the reshaping                                    : `readArray`
* `read_mmap`: `offset`, the final `seek`                             : `readMmap`
* `order = "F" if f_contiguous and not c_contiguous else "C"`          : `orderOf`
* position of element `idx` in the stream written by `nditer(order=…)`, and in the array rebuilt by
  `array.shape = shape[::-1]; array.transpose()` / `array.shape = shape` : `writeIndex`, `readIndex`
* `byte_bounds`, `offset`, `order`, `strides`, `total_buffer_len` of `_reduce_memmap_backed` : `byteBounds`,
  `reduceMemmapBacked`; `first`, the byte-buffer length and where the view rebuilt by `_strided_from_memmap`
  (`make_memmap` / `as_strided`) finds element `idx` : `firstElem`, `mappedBytes`, `rebuiltElemOffset`; where the
  original has it : `originalElemOffset`. The definitions of these functions as they were before the fix commits
  b514cf6 / 5cddabe are kept with the suffix `PreFix`
* `ArrayMemmapForwardReducer.__call__`'s choice (reuse the backing memmap / dump and memmap / pickle by value) : `forwardReduce`
  (with `mmap_mode is None`, repair F58), and the identity-keyed reuse of the temporary dumps over a history of calls :
  `dispatchStep`, `runHistory`
Constants `NUMPY_ARRAY_ALIGNMENT_BYTES`, `BUFFER_SIZE` come from the regenerated table.

numpy itself (`nditer`, `tobytes`, `frombuffer`, `memmap`, `as_strided`, `.flags`) is a parameter: the model
takes the byte string of the elements in the chosen order, and the flags, as inputs.
Import-free (but for the generated table), total, computable.
-/
namespace JoblibModel.ArrayFormat
open JoblibModel.Generated

abbrev Bytes := List Nat

inductive Err
  | zeroDivision   -- ZeroDivisionError
  | eof            -- ValueError("EOF: reading array data, expected … bytes got …")
  | overflow       -- OverflowError: int too big to convert (`int.to_bytes(padding_length, length=1)`)
deriving DecidableEq, Repr, Inhabited

def Err.name : Err → String
  | .zeroDivision => "ZeroDivisionError"
  | .eof => "ValueError"
  | .overflow => "OverflowError"

/-! ### File handle -/

structure Handle where
  rest : Bytes
  pos : Nat
deriving DecidableEq, Repr, Inhabited

/-- `fp.read(n)`: up to `n` bytes. -/
def Handle.read (h : Handle) (n : Nat) : Bytes × Handle :=
  (h.rest.take n, ⟨h.rest.drop n, h.pos + min n h.rest.length⟩)

/-- `fp.seek(p)` for `p ≥ tell()` (the only seeks `read_mmap` does). -/
def Handle.seekTo (h : Handle) (p : Nat) : Handle := ⟨h.rest.drop (p - h.pos), p⟩

/-- `_read_bytes(fp, size, "array data")`: exactly `size` bytes or `ValueError`. -/
def readBytes (h : Handle) (size : Nat) : Except Err (Bytes × Handle) :=
  let r := h.read size
  if r.1.length = size then .ok r else .error .eof

/-! ### write_array -/

def padValue : Nat := 255

/-- `numpy_array_alignment_bytes - (pos_after_padding_byte % numpy_array_alignment_bytes)`. -/
def paddingLength (align current_pos : Nat) : Nat := align - ((current_pos + 1) % align)

/-- The bytes `write_array` appends when the handle is at `current_pos` and `data` is the array's elements in
the wrapper's order (`chunk.tobytes("C")` of every `nditer` chunk, concatenated). Non-object dtypes only. -/
def writeArray (align : Option Nat) (current_pos itemsize : Nat) (data : Bytes) : Except Err Bytes :=
  if itemsize = 0 then .error .zeroDivision            -- buffersize = max(16 * 1024**2 // array.itemsize, 1)
  else match align with
    | none => .ok data                                  -- joblib ≤ 1.1 layout / handle without tell()
    | some a =>
      if a = 0 then .error .zeroDivision               -- pos_after_padding_byte % 0
      else
        let padding_length := paddingLength a current_pos
        if padding_length ≥ 256 then .error .overflow  -- int.to_bytes(padding_length, length=1, …)
        else .ok (padding_length :: (List.replicate padding_length padValue ++ data))

/-! ### read_array -/

/-- `count = 1 if len(shape) == 0 else multiply.reduce(shape)`. -/
def count (shape : List Nat) : Nat := if shape.length = 0 then 1 else shape.foldl (· * ·) 1

/-- `max_read_count = BUFFER_SIZE // min(BUFFER_SIZE, self.dtype.itemsize)`. -/
def maxReadCount (itemsize : Nat) : Except Err Nat :=
  if min bufferSize itemsize = 0 then .error .zeroDivision
  else .ok (bufferSize / min bufferSize itemsize)

/-- `[(i, min(max_read_count, count - i)) for i in range(0, count, max_read_count)]`. -/
def chunks (max_read_count count i : Nat) : List (Nat × Nat) :=
  if _h : i < count ∧ 0 < max_read_count then
    (i, min max_read_count (count - i)) :: chunks max_read_count count (i + max_read_count)
  else []
termination_by count - i
decreasing_by omega

/-- The loop of `read_array`; `acc` is the part of `array` filled so far (`array[i : i + read_count] = …`
appends because the chunks are consecutive from 0 — `chunks_tile`). -/
def readLoop (itemsize max_read_count count i : Nat) (h : Handle) (acc : Bytes) :
    Except Err (Bytes × Handle) :=
  if _h : i < count ∧ 0 < max_read_count then
    let read_count := min max_read_count (count - i)
    match readBytes h (read_count * itemsize) with
    | .error e => .error e
    | .ok (data, h') => readLoop itemsize max_read_count count (i + max_read_count) h' (acc ++ data)
  else .ok (acc, h)
termination_by count - i
decreasing_by omega

/-- The handle after the padding has been consumed: `read(1)`, then `read(padding_length)` if non-zero. -/
def skipPadding (align : Option Nat) (h : Handle) : Handle :=
  match align with
  | none => h
  | some _ =>
    let r := h.read 1
    let padding_length := r.1.headD 0           -- int.from_bytes(b"", …) = 0 at end of file
    if padding_length ≠ 0 then (r.2.read padding_length).2 else r.2

/-- `read_array` for a non-object dtype, up to the flat buffer (before `array.shape = …`). -/
def readArray (align : Option Nat) (h : Handle) (count itemsize : Nat) : Except Err (Bytes × Handle) :=
  let h1 := skipPadding align h
  match maxReadCount itemsize with
  | .error e => .error e
  | .ok m => readLoop itemsize m count 0 h1 []

/-! ### read_mmap -/

structure Mmap where
  offset : Nat        -- passed to make_memmap
  after : Handle      -- the handle after `seek(offset + marray.nbytes)`
  warns : Bool        -- the "not byte aligned" warning
deriving DecidableEq, Repr

def readMmap (align : Option Nat) (h : Handle) (count itemsize : Nat) : Mmap :=
  let current_pos := h.pos
  let (offset, h1) := match align with
    | none => (current_pos, h)
    | some _ =>
      let r := h.read 1
      (current_pos + r.1.headD 0 + 1, r.2)      -- + 1 is for the padding byte
  ⟨offset, h1.seekTo (offset + count * itemsize),
    align.isNone && decide (current_pos % numpyArrayAlignmentBytes ≠ 0)⟩

/-! ### order -/

inductive Order
  | C
  | F
deriving DecidableEq, Repr, Inhabited

/-- `"F" if (array.flags.f_contiguous and not array.flags.c_contiguous) else "C"`. -/
def orderOf (c_contiguous f_contiguous : Bool) : Order :=
  if f_contiguous && !c_contiguous then .F else .C

/-- Row-major (C) flat index of `idx` in an array of shape `shape`. -/
def cIndex (shape idx : List Nat) : Nat :=
  (shape.zip idx).foldl (fun acc di => acc * di.1 + di.2) 0

/-- Column-major (Fortran) flat index. -/
def fIndex : List Nat → List Nat → Nat
  | d :: ds, i :: is => i + d * fIndex ds is
  | _, _ => 0

/-- Where `nditer(array, order=o)` puts element `idx` in the stream. -/
def writeIndex (o : Order) (shape idx : List Nat) : Nat :=
  match o with
  | .C => cIndex shape idx
  | .F => fIndex shape idx

/-- Which element of the flat buffer ends up at `idx`: `array.shape = shape` for C;
`array.shape = shape[::-1]; array = array.transpose()` for F. -/
def readIndex (o : Order) (shape idx : List Nat) : Nat :=
  match o with
  | .C => cIndex shape idx
  | .F => cIndex shape.reverse idx.reverse

/-! ### `_reduce_memmap_backed` / `_strided_from_memmap` -/

/-- What the reducer reads of an ndarray: address of element `[0,…,0]`, shape, strides (bytes), itemsize. -/
structure Arr where
  ptr : Int
  shape : List Nat
  strides : List Int
  itemsize : Nat
deriving DecidableEq, Repr, Inhabited

/-- `a_low` adjustment of `byte_bounds`: `Σ (shape - 1) * stride` over the negative strides. -/
def lowAdj : List Nat → List Int → Int
  | n :: ns, s :: ss => (if s < 0 then ((n : Int) - 1) * s else 0) + lowAdj ns ss
  | _, _ => 0

/-- `a_high` adjustment: the same sum over the non-negative strides. -/
def highAdj : List Nat → List Int → Int
  | n :: ns, s :: ss => (if s < 0 then 0 else ((n : Int) - 1) * s) + highAdj ns ss
  | _, _ => 0

/-- `numpy.lib.array_utils.byte_bounds(a)` (its general branch; for contiguous arrays numpy's shortcut
`a_high = a_low + a.size * itemsize` gives the same numbers). -/
def byteBounds (a : Arr) : Int × Int :=
  (a.ptr + lowAdj a.shape a.strides, a.ptr + highAdj a.shape a.strides + a.itemsize)

structure Reduced where
  offset : Int
  order : Order
  shape : List Nat
  strides : Option (List Int)
  total_buffer_len : Option Int
deriving DecidableEq, Repr

/-- `_reduce_memmap_backed(a, m)`: `m` is the backing `np.memmap` (file offset `m_offset`); the flags are
`a.flags["C_CONTIGUOUS"]` and `a.flags["F_CONTIGUOUS"]`. The order is the VIEW's own
(`"F" if a F-contiguous and not C-contiguous else "C"`, /repo b514cf6). -/
def reduceMemmapBacked (a m : Arr) (m_offset : Nat) (a_c a_f : Bool) : Reduced :=
  let (a_start, a_end) := byteBounds a
  let m_start := (byteBounds m).1
  let offset := a_start - m_start + m_offset
  let order := if a_f && !a_c then Order.F else Order.C
  if a_f || a_c then ⟨offset, order, a.shape, none, none⟩
  else ⟨offset, order, a.shape, some a.strides, some ((a_end - a_start) / a.itemsize)⟩

/-- Byte offset of element `idx` from a base, for given strides. -/
def dot : List Int → List Nat → Int
  | s :: ss, i :: is => s * i + dot ss is
  | _, _ => 0

/-- C-order strides of a shape. -/
def cStrides : List Nat → Nat → List Int
  | [], _ => []
  | _ :: ds, itemsize => ((ds.foldl (· * ·) 1 * itemsize : Nat) : Int) :: cStrides ds itemsize

/-- Fortran-order strides of a shape (`acc` = itemsize × product of the dimensions before). -/
def fStridesAux : List Nat → Nat → List Int
  | [], _ => []
  | d :: ds, acc => (acc : Int) :: fStridesAux ds (acc * d)

def fStrides (shape : List Nat) (itemsize : Nat) : List Int := fStridesAux shape itemsize

/-- `first = sum((n - 1) * -s for n, s in zip(shape, strides) if s < 0)` of `_strided_from_memmap`: how far above
the lowest address element `[0,…,0]` lies. -/
def firstElem (shape : List Nat) (strides : List Int) : Int := - lowAdj shape strides

/-- `first + last + itemsize` with `last = sum((n - 1) * s for … if s > 0)`: the length of the uint8 memmap
`_strided_from_memmap` maps from `offset` for a non-contiguous view (/repo 5cddabe). -/
def mappedBytes (shape : List Nat) (strides : List Int) (itemsize : Nat) : Int :=
  firstElem shape strides + highAdj shape strides + itemsize

/-- File offset at which the array rebuilt by `_strided_from_memmap` looks for element `idx`:
`make_memmap(…, shape=shape, order=order, offset=offset)` when `strides is None`, else
`as_strided(base[first : first + itemsize].view(dtype), shape, strides)` over the byte buffer `base` mapped at
`offset`. -/
def rebuiltElemOffset (r : Reduced) (itemsize : Nat) (idx : List Nat) : Int :=
  match r.strides with
  | none =>
    r.offset + dot (match r.order with
      | .C => cStrides r.shape itemsize
      | .F => fStrides r.shape itemsize) idx
  | some st => r.offset + firstElem r.shape st + dot st idx

/-- File offset of element `idx` of the original view `a` of the memmap `m`. -/
def originalElemOffset (a m : Arr) (m_offset : Nat) (idx : List Nat) : Int :=
  (a.ptr + dot a.strides idx) - m.ptr + m_offset

/-! ### PRE-FIX definitions — the code as it was BEFORE /repo b514cf6 (F24) and 5cddabe (F25, F26). Not used by
the driver or the correspondence; kept so that the witnesses of the three defects stay machine-checked. -/

/-- pre-fix `_reduce_memmap_backed`: the order was taken from the BACKING memmap (`m.flags["F_CONTIGUOUS"]`). -/
def reduceMemmapBackedPreFix (a m : Arr) (m_offset : Nat) (a_c a_f m_f : Bool) : Reduced :=
  let (a_start, a_end) := byteBounds a
  let m_start := (byteBounds m).1
  let offset := a_start - m_start + m_offset
  let order := if m_f then Order.F else Order.C
  if a_f || a_c then ⟨offset, order, a.shape, none, none⟩
  else ⟨offset, order, a.shape, some a.strides, some ((a_end - a_start) / a.itemsize)⟩

/-- pre-fix `_strided_from_memmap`: `as_strided(make_memmap(…, shape=total_buffer_len, offset=offset), shape,
strides)` — element `[0,…,0]` assumed AT `offset`. -/
def rebuiltElemOffsetPreFix (r : Reduced) (itemsize : Nat) (idx : List Nat) : Int :=
  match r.strides with
  | none =>
    r.offset + dot (match r.order with
      | .C => cStrides r.shape itemsize
      | .F => fStrides r.shape itemsize) idx
  | some st => r.offset + dot st idx

/-- pre-fix: number of bytes the rebuilt base mapped from `offset` (`total_buffer_len` items of the dtype). -/
def mappedBytesPreFix (r : Reduced) (itemsize : Nat) : Option Int :=
  r.total_buffer_len.map (· * itemsize)

/-! ### `ArrayMemmapForwardReducer.__call__`: what happens to an array argument sent to a process worker -/

inductive Forward
  | reuseBacking     -- `_reduce_memmap_backed(a, m)`: the worker maps the user's file
  | dumpAndMemmap    -- dumped to the temp folder, the worker loads it with `mmap_mode`
  | plainPickle      -- `NotImplemented`: pickled by value
deriving DecidableEq, Repr, Inhabited

/-- `get_memmapping_reducers` registers the reducer for the exact types `np.ndarray` and `np.memmap` only
(`registeredType`; an `np.matrix` argument is pickled by value). Then `ArrayMemmapForwardReducer.__call__`:
`if m is not None and isinstance(m, np.memmap): … ; if not a.dtype.hasobject and mmap_mode is not None and
max_nbytes is not None and a.nbytes > max_nbytes: … else: NotImplemented`.
`mmapModeNone` is `self._mmap_mode is None` (`Parallel(mmap_mode=None)`: "None will disable memmapping"): the model
is the code WITH repair F58 (fixes/F58-mmap-mode-none-disables-memmapping.diff); before it the condition was
absent, the array was dumped and `load_temporary_memmap(filename, None, …)` failed in the worker on
`obj.filename` (`forwardReducePreF58`). -/
def forwardReduce (registeredType backedByMemmap hasobject : Bool) (max_nbytes : Option Nat) (nbytes : Nat)
    (mmapModeNone : Bool) : Forward :=
  if !registeredType then .plainPickle
  else if backedByMemmap then .reuseBacking
  else if !hasobject && !mmapModeNone && (match max_nbytes with
      | none => false
      | some m => decide (nbytes > m)) then .dumpAndMemmap
  else .plainPickle

/-- The decision as it was before repair F58: `mmap_mode` is not looked at. -/
def forwardReducePreF58 (registeredType backedByMemmap hasobject : Bool) (max_nbytes : Option Nat) (nbytes : Nat)
    (_mmapModeNone : Bool) : Forward :=
  forwardReduce registeredType backedByMemmap hasobject max_nbytes nbytes false

/-- What `load_temporary_memmap(filename, mmap_mode, …)` hands to the task for a dumped, object-free array:
`_unpickle(…, mmap_mode=None)` returns a plain `ndarray`, and `JOBLIB_MMAPS.add(obj.filename)` raises
`AttributeError` (the task cannot be un-serialised); any other mode returns an `np.memmap`. -/
def loadTemporaryMemmapOk (mmapModeNone : Bool) : Bool := !mmapModeNone

/-! ### The temporary dumps over a HISTORY of calls: `_memmaped_arrays` (a `_WeakArrayKeyMap`: object identity →
basename) and `if not os.path.exists(filename): dump(a, filename)`

One `Dispatch` = one array argument for which `forwardReduce` said `dumpAndMemmap`, reduced in the caller:
* `ctx`  the temp folder in force (`TemporaryResourcesManager.resolve_temp_folder_name()`): ONE for all the calls
         made inside `with Parallel(...) as p:`, a fresh one for every call of an unmanaged `Parallel`;
* `obj`  the identity of the array OBJECT — a key of `_WeakArrayKeyMap`, which forgets an object when it dies, so
         two objects that get the same `id()` one after the other are different `obj`;
* `vals` the values the object holds at dispatch time.
`TempFiles` are the dumps on disk: `(ctx, obj) ↦` the values that were dumped. The worker sees what is in the
file. The model follows the code: the file is written once per (folder, object) and never again. -/

structure Dispatch where
  ctx : Nat
  obj : Nat
  vals : Nat
deriving DecidableEq, Repr

abbrev TempFiles := List ((Nat × Nat) × Nat)

/-- `basename = _memmaped_arrays.get(a)` / new name; `filename = join(temp_folder, basename)`;
`if not os.path.exists(filename): dump(a, filename)`; the worker loads `filename`. Returns the files afterwards and
the values the task sees. -/
def dispatchStep (fs : TempFiles) (d : Dispatch) : TempFiles × Nat :=
  match fs.lookup (d.ctx, d.obj) with
  | some v => (fs, v)
  | none => (((d.ctx, d.obj), d.vals) :: fs, d.vals)

/-- The values seen by the tasks over a history of dispatches, in order. -/
def runHistory (fs : TempFiles) : List Dispatch → List Nat
  | [] => []
  | d :: rest => (dispatchStep fs d).2 :: runHistory (dispatchStep fs d).1 rest

end JoblibModel.ArrayFormat
