/-! Shared helpers for the line-protocol drivers (`Driver/Cxx.lean`): one request per input
line, one reply per output line. Import-free. -/
namespace JoblibModel.IOUtil

/-- Tokens of a line, split on single spaces, empty tokens dropped. -/
def tokens (line : String) : List String :=
  (line.trimAscii.toString.splitOn " ").filter (· ≠ "")

/-- `-` is Python's `None`; otherwise a decimal integer. `none` = malformed. -/
def optInt? (s : String) : Option (Option Int) :=
  if s = "-" then some none else (s.toInt?).map some

/-- Stateless loop: `f` maps each input line to one output line. -/
partial def lineLoop (f : String → String) : IO Unit := do
  let stdin ← IO.getStdin
  let stdout ← IO.getStdout
  let rec go : IO Unit := do
    let line ← stdin.getLine
    if line.isEmpty then return ()
    stdout.putStrLn (f line)
    go
  go
  stdout.flush

/-- Stateful loop: `step` threads a state through the lines. -/
partial def stateLoop {σ : Type} (init : σ) (step : σ → String → σ × String) : IO Unit := do
  let stdin ← IO.getStdin
  let stdout ← IO.getStdout
  let rec go (s : σ) : IO Unit := do
    let line ← stdin.getLine
    if line.isEmpty then return ()
    let (s', out) := step s line
    stdout.putStrLn out
    go s'
  go init
  stdout.flush

def joinSp (l : List String) : String := " ".intercalate l

end JoblibModel.IOUtil
