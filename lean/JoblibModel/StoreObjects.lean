import JoblibModel.Store
/-!
# Several Memory / MemorizedFunc OBJECTS on one cache directory (property C11, object histories)

`JoblibModel.Store.callProc` is a FRESH user: `Memory(location)`, `memory.cache(f)`, one call.  Here a user is an OBJECT
that lives on: it is created once (`objNew`) and then performs several operations, each run to completion, while OTHER
objects — of the same process or of another one — clear / evict in between.  What joblib keeps in memory between two
operations of an object is per PROCESS (module globals of `joblib/memory.py`):

| Python                                              | here                         |
|-----------------------------------------------------|------------------------------|
| `_FUNCTION_HASHES` (function object → hash)          | `ProcMem.hashes` (function objects; one source version) |
| `_FUNC_CODE_WRITERS[(location, func_id)]`            | `ProcMem.writer`             |
| `_check_previous_func_code`: in-memory shortcut      | `checkPreviousObj` (first line) |
| `_write_func_code`: pop writer, store, remember      | `ProcMem.wrote`              |
| `Memory.clear()`: both tables `.clear()`             | `ProcMem.cleared`            |

The store backend object itself (`FileSystemStoreBackend`) keeps NO memory of the directory between two operations: every
`create_location` is a `mkdirp`, every existence test a `stat` — the file-system procedures are those of `Store`, unchanged.
Validation callbacks, `call_and_shelve` and the VARIANT switches of `Cfg` are not part of these histories (`cb=none`).
-/
namespace JoblibModel.StoreObjects
open JoblibModel.Store JoblibModel.Store.Prog

/-- What one process remembers about the cached function. -/
structure ProcMem where
  hashes : List Nat := []
  writer : Bool := false
deriving DecidableEq, Repr

def ProcMem.knows (m : ProcMem) (g : Nat) : Bool := m.hashes.contains g && m.writer
def ProcMem.wrote (m : ProcMem) (g : Nat) : ProcMem := ⟨g :: m.hashes, true⟩
def ProcMem.cleared (_ : ProcMem) : ProcMem := ⟨[], false⟩

section
variable (c : Cfg)

/-- `_check_previous_func_code` of an object of a process that remembers `m`, function object `g`. -/
def checkPreviousObj (m : ProcMem) (g : Nat) : Prog (Bool × ProcMem) :=
  if m.knows g then ret (true, m) else
  op (.openr pCode) fun r =>
    match r with
    | .fd i =>
      op (.read pCode i) fun r =>
        match r with
        | .data d =>
          match c.codec.checkCode c.ver d with
          | .same => ret (true, m)
          | _ => (clearFunc c).bind fun _ => ret (false, m.wrote g)
        | _ => raise .osError
    | _ => (writeFuncCode c).bind fun _ => ret (false, m.wrote g)

/-- `_is_in_cache_and_valid` (no validation callback) -/
def isInCacheObj (m : ProcMem) (g a : Nat) : Prog (Bool × ProcMem) :=
  (checkPreviousObj c m g).bind fun r =>
  if !r.1 then ret (false, r.2) else
  (exists_ (pOut a)).bind fun e =>
  if !e then ret (false, r.2) else
  (getMetadata c a).bind fun _ => ret (true, r.2)

/-- `cf(a)` of an existing object: the value, whether the function was executed, what the process remembers afterwards. -/
def objCall (m : ProcMem) (g a : Nat) : Prog ((Val × Bool) × ProcMem) :=
  (isInCacheObj c m g a).bind fun r =>
  if r.1 then
    ((loadItem c a).bind fun v => ret (some v)).tryCatch (fun _ => ret none) |>.bind fun l =>
      match l with
      | some v => ret ((v, false), r.2)
      | none => (computeAndStore c a).bind fun v => ret ((v, true), r.2)
  else (computeAndStore c a).bind fun v => ret ((v, true), r.2)

/-- `Memory(location)` + `memory.cache(f)` -/
def objNew : Prog Unit := (configure c).bind fun _ => ensureFuncDir

/-- `Memory.clear()` of an existing object (`clearProc` without the `Memory(location)` in front). -/
def objClear : Prog Unit :=
  op (.opendir pLoc) fun r =>
    match r with
    | .fd i =>
      scandir c.rank pLoc i fun l =>
        l.foldr (fun n acc =>
          op (.stat (pLoc ++ [n.1])) fun r =>
            (if r == .yes && n.2 then deleteFolder c (pLoc ++ [n.1]) 11 else ret ()).bind fun _ => acc) (ret ())
    | _ => raise .fileNotFound

/-- `Memory.reduce_size(items_limit=0)` of an existing object -/
def objReduce (victims : List Nat) : Prog Unit :=
  (walk c.rank 6 pLoc).bind fun found =>
  (victims.filter (found.contains ·)).foldr
    (fun a acc => ((rmtree c.rank false (pEntry a)).tryCatch fun e => if e.isOSError then ret () else raise e).bind fun _ => acc)
    (ret ())

end

/-- One step of a history: process `p`, function object `g` (unique over the whole history), object configuration. -/
inductive Step
  | new (p : Nat) (c : Cfg)
  | call (p g : Nat) (c : Cfg) (a : Nat)
  | clear (p : Nat) (c : Cfg)
  | fclear (p g : Nat) (c : Cfg)
  | reduce (p : Nat) (c : Cfg) (victims : List Nat)
  | iclear (p : Nat) (c : Cfg) (a : Nat)

/-- What a step reports: a call its value and whether the function ran; anything else nothing. -/
inductive Report
  | value (v : Val) (executed : Bool)
  | done
  | raised (e : Err)
deriving DecidableEq, Repr

abbrev Mems := List (Nat × ProcMem)
def Mems.get (ms : Mems) (p : Nat) : ProcMem := ((ms.find? (·.1 == p)).map (·.2)).getD {}
def Mems.set (ms : Mems) (p : Nat) (m : ProcMem) : Mems := (p, m) :: ms.filter (·.1 != p)

/-- Run one step alone on the directory. A step that raises leaves the process's memory as it was (the histories end
at the first exception of a call anyway). -/
def step (ms : Mems) (fs : FS) : Step → Report × Mems × FS
  | .new _ c => match run (objNew c) fs with
    | (.ok _, fs') => (.done, ms, fs')
    | (.raised e, fs') => (.raised e, ms, fs')
  | .call p g c a => match run (objCall c (ms.get p) g a) fs with
    | (.ok r, fs') => (.value r.1.1 r.1.2, ms.set p r.2, fs')
    | (.raised e, fs') => (.raised e, ms, fs')
  | .clear p c => match run (objClear c) fs with
    | (.ok _, fs') => (.done, ms.set p (ms.get p).cleared, fs')
    | (.raised e, fs') => (.raised e, ms, fs')
  | .fclear p g c => match run (clearFunc c) fs with
    | (.ok _, fs') => (.done, ms.set p ((ms.get p).wrote g), fs')
    | (.raised e, fs') => (.raised e, ms, fs')
  | .reduce _ c victims => match run (objReduce c victims) fs with
    | (.ok _, fs') => (.done, ms, fs')
    | (.raised e, fs') => (.raised e, ms, fs')
  | .iclear _ c a => match run ((getMetadata c a).bind fun _ => clearItem c a) fs with
    | (.ok _, fs') => (.done, ms, fs')
    | (.raised e, fs') => (.raised e, ms, fs')

/-- A history: the steps one after the other. -/
def history (ms : Mems) (fs : FS) : List Step → List Report
  | [] => []
  | s :: rest => let r := step ms fs s; r.1 :: history r.2.1 r.2.2 rest

/-- The oracle's demand on a report of a history of one source version `ver`: a call of `a` returns `f a`. -/
def Report.okFor (ver : Nat) : Step → Report → Bool
  | .call _ _ _ a, .value v _ => v.ver == ver && v.arg == a
  | .call _ _ _ _, _ => false
  | _, _ => true

end JoblibModel.StoreObjects
