import JoblibModel.ParallelProto
/-
The sequential path of `joblib.Parallel` (`n_jobs == 1` after backend configuration):
`Parallel._get_sequential_output` — no backend submission, no callbacks; the tasks run in the caller as the
output generator is consumed.  Same scenario encoding and event names as `ParallelProto` (harness/ctl.py with
`nj = 1`); hook points are `backend.configure`, `backend.compute_batch_size` (for `batch_size='auto'`), consumer
pauses and the between-calls point — with nothing ever parked they only consume schedule entries.
Import-free apart from the shared state of `ParallelProto`.
-/
namespace JoblibModel.ParallelSeq
open JoblibModel.ParallelProto

/-- The suspended `_get_sequential_output` generator. -/
structure SGen where
  pending : List Nat := []   -- items of the current re-batched tuple not yet executed
  bs : Nat := 1
  live : Bool := true        -- not yet finished / closed
deriving Repr, Inhabited

/-- The `except BaseException:` + `finally:` blocks. -/
def failed (s : St) : St :=
  { s with exception := true, aborting := true, aborted := true, running := false, iterating := false, origAlive := false }

/-- The `finally:` block alone. -/
def finished (s : St) : St :=
  { s with running := false, iterating := false, origAlive := false }

/-- `next(output)` after the set-up: run tasks until one result can be yielded. -/
def seqNext : Nat → St → SGen → St × SGen × Out
  | 0, s, g => (ev s "fuel!", { g with live := false }, .stop)
  | fuel + 1, s, g =>
    if !g.live then (s, g, .stop) else
    match g.pending with
    | id :: rest =>
      let s := { s with nDispBatches := s.nDispBatches + 1, nDispTasks := s.nDispTasks + 1 }
      let s := ev s ("exec " ++ toString id)
      if s.failIds.contains id then (failed s, { g with live := false, pending := [] }, .raise (.task id))
      else ({ s with nCompleted := s.nCompleted + 1 }, { g with pending := rest }, .value id)
    | [] =>
      -- `for … in iterable` (re-batched with `tuple(islice(it, batch_size))` when `batch_size != 1`)
      let (s, items, raised) := pullUpTo true (max g.bs 1) s
      if raised then (failed s, { g with live := false }, .raise (.iter (s.base + s.srcPos)))
      else if items.length = 0 then (finished s, { g with live := false }, .stop)
      else seqNext fuel s { g with pending := items }

/-- `Parallel.__call__` up to and including the first `next(output)` of the sequential generator. -/
def seqStart (c : Cfg) (base : Nat) (spec : CallSpec) (s : St) : St × SGen × Option Exc :=
  if s.running then (s, { live := false }, some .runtime)
  else
    let s := { s with running := true, callCtr := s.callCtr + 1, callId := s.callCtr + 1 }
    let s := { s with nDispBatches := 0, nDispTasks := 0, nCompleted := 0, nbConsumed := 0,
                      exception := false, aborting := false, aborted := false }
    let s := if !s.managed then hook c false (ev s "configure") else s
    let s := { s with iterating := true, origAlive := true, base := base, spec := spec, srcPos := 0, srcDead := false }
    let bs := scriptedBs c s
    let s := if c.bsAuto then hook c false { s with bsI := s.bsI + 1 } else s
    (s, { bs := bs }, none)

/-- `g.close()` / dropping the generator: GeneratorExit is a BaseException. -/
def seqClose (s : St) (g : SGen) : St × SGen :=
  if g.live then (failed s, { g with live := false }) else (s, g)

def seqDrain : Nat → Nat → St → SGen → List Nat → St × SGen × List Nat × Out
  | 0, _, s, g, acc => (ev s "fuel!", g, acc, .stop)
  | n + 1, fuel, s, g, acc =>
    match seqNext fuel s g with
    | (s, g, .value v) => seqDrain n fuel s g (acc ++ [v])
    | (s, g, o) => (s, g, acc, o)

/-- One sequential call with `return_as='list'`. -/
def seqCallList (c : Cfg) (fuel : Nat) (base : Nat) (spec : CallSpec) (s : St) : St × CallOutcome :=
  match seqStart c base spec s with
  | (s, _, some e) => (s, .raised e)
  | (s, g, none) =>
    match seqDrain fuel fuel s g [] with
    | (s, _, acc, .stop) => (s, .ret acc)
    | (s, _, _, .raise e) => (s, .raised e)
    | (s, _, _, _) => (s, .hung)

def seqRunCallList (c : Cfg) (fuel : Nat) (base : Nat) (spec : CallSpec) (s : St) : St :=
  match seqCallList c fuel base spec s with
  | (s, .ret acc) => ev s ("ret " ++ idsStr acc)
  | (s, .raised e) => ev s ("raise " ++ excStr e)
  | (s, .hung) => s

def seqRecall (c : Cfg) (fuel : Nat) (s : St) : St :=
  match seqStart c s.base ⟨0, [], -1, []⟩ s with
  | (s, _, some .runtime) => ev s "recall-RuntimeError"
  | (s, _, some e) => ev s ("recall-raise " ++ excStr e)
  | (s, g, none) =>
    match seqDrain fuel fuel s g [] with
    | (s, _, _, .stop) => ev s "recall-ok"
    | (s, _, _, .raise e) => ev s ("recall-raise " ++ excStr e)
    | (s, _, _, _) => s

/-- `Parallel.__exit__` on the sequential path: `_calling` is never set, so nothing is aborted. -/
def seqExitBlock (s : St) : St :=
  ev (terminateAndReset { s with managed := false }) "exit"

def seqConsume (c : Cfg) : Nat → Nat → St → SGen → List Nat → St
  | 0, _, s, _, _ => ev s "fuel!"
  | n + 1, fuel, s, g, ops =>
    let (op, ops) := match ops with
      | [] => (1, [])
      | o :: r => (o, r)
    if op == 1 then
      match seqNext fuel (ev s "next") g with
      | (s, g, .value v) => seqConsume c n fuel (ev { s with nbConsumed := s.nbConsumed + 1 } ("yield " ++ toString v)) g ops
      | (s, _, .stop) => ev s "stop"
      | (s, _, .raise e) => ev s ("raise " ++ excStr e)
      | (s, _, .hang) => s
    else if op == 2 then ev (seqClose s g).1 "closed"
    else if op == 3 then ev (seqClose s g).1 "dropped"
    else if op == 4 then seqConsume c n fuel (seqRecall c fuel s) g ops
    else if op == 6 then seqConsume c n fuel (if s.managed then seqExitBlock s else s) g ops
    else seqConsume c n fuel (hook c false s) g ops

def seqRunCallGen (c : Cfg) (fuel : Nat) (base : Nat) (spec : CallSpec) (s : St) : St :=
  match seqStart c base spec s with
  | (s, _, some e) => ev s ("raise " ++ excStr e)
  | (s, g, none) => seqConsume c fuel fuel s g spec.cons

def seqRunCalls (c : Cfg) (fuel : Nat) : Nat → Nat → List CallSpec → St → St
  | _, _, [], s => s
  | k, base, spec :: rest, s =>
    let s := if k ≥ 1 then hook c false s else s
    let s := ev s ("call " ++ toString k)
    let s := if isGen c then seqRunCallGen c fuel base spec s else seqRunCallList c fuel base spec s
    seqRunCalls c fuel (k + 1) (base + spec.n) rest s

/-- The whole scenario with `nj = 1`. -/
def runScenarioSeq (c : Cfg) (calls : List CallSpec) (sched : List (List Nat)) : List String :=
  let fuel := 4 * totalTasks calls + 2 * sched.length + 100
  let s : St := { sched := sched, failIds := failIdsOf 0 calls }
  let s := if c.managed0 then ev (hook c false (ev { s with managed := true, calling := false } "configure")) "enter" else s
  let s := seqRunCalls c fuel 0 0 calls s
  let s := hook c false s
  let s := if s.managed then seqExitBlock s else s
  s.log.reverse

end JoblibModel.ParallelSeq
