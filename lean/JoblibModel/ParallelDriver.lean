import JoblibModel.ParallelProto
import JoblibModel.ParallelSeq
import JoblibModel.IOUtil
import JoblibModel.AutoBatch
/-! Line protocol for M1 (shared by the C01/C04/C09/C16 drivers): a scenario of harness/ctl.py as a flat list of
integers (see `Scenario.tokens`) → the model's event log joined by ` | `. -/
namespace JoblibModel.ParallelDriver
open JoblibModel.ParallelProto JoblibModel.IOUtil

/-- Take `n` naturals from the token list. -/
def takeNats : Nat → List Int → Option (List Nat × List Int)
  | 0, l => some ([], l)
  | n + 1, x :: l => if x < 0 then none else (takeNats n l).map (fun (a, r) => (x.toNat :: a, r))
  | _ + 1, [] => none

def parseCalls : Nat → List Int → Option (List CallSpec × List Int)
  | 0, l => some ([], l)
  | k + 1, n :: nf :: l => do
    if n < 0 || nf < 0 then none
    let (fails, l) ← takeNats nf.toNat l
    match l with
    | itf :: nc :: l =>
      if nc < 0 then none
      let (cons, l) ← takeNats nc.toNat l
      let (rest, l) ← parseCalls k l
      pure (⟨n.toNat, fails, itf, cons⟩ :: rest, l)
    | _ => none
  | _ + 1, _ => none

def parseSched : Nat → List Int → Option (List (List Nat) × List Int)
  | 0, l => some ([], l)
  | k + 1, d :: l => do
    if d < 0 then none
    let (e, l) ← takeNats d.toNat l
    let (rest, l) ← parseSched k l
    pure (e :: rest, l)
  | _ + 1, [] => none

def parseScenario (toks : List Int) : Option (Cfg × List CallSpec × List (List Nat)) :=
  match toks with
  | nj :: auto :: nbs :: l => do
    if nj < 1 || nbs < 1 then none
    let (bs, l) ← takeNats nbs.toNat l
    match l with
    | pdMode :: pd :: ra :: to :: mg :: ad :: nc :: l =>
      if pdMode < 0 || pdMode > 2 || pd < 0 || ra < 0 || ra > 2 || to < -1 || nc < 0 then none
      let (calls, l) ← parseCalls nc.toNat l
      match l with
      | ns :: l =>
        if ns < 0 then none
        let (sched, l) ← parseSched ns.toNat l
        if l ≠ [] then none
        pure (⟨nj.toNat, auto != 0, bs, pdMode.toNat, pd.toNat, ra.toNat, to, mg != 0, ad != 0⟩, calls, sched)
      | [] => none
    | _ => none
  | _ => none

/-- `AB c | d <batch_size> <num> <den> …` : a run of the auto-batching state machine → the batch sizes returned. -/
def parseAB : List String → Option (List AutoBatch.Op)
  | [] => some []
  | "c" :: r => (parseAB r).map (AutoBatch.Op.compute :: ·)
  | "d" :: b :: n :: d :: r => do
    let b ← b.toNat?
    let n ← n.toNat?
    let d ← d.toNat?
    if d = 0 then none
    let rest ← parseAB r
    pure (AutoBatch.Op.completed b ⟨n, d⟩ :: rest)
  | _ => none

def handle (line : String) : String :=
  match tokens line with
  | "AB" :: r =>
    match parseAB r with
    | some ops => joinSp ((AutoBatch.run {} ops).map toString)
    | none => "bad-op"
  | _ =>
  match (tokens line).mapM (·.toInt?) with
  | none => "bad-op"
  | some toks =>
    match parseScenario toks with
    | none => "bad-op"
    | some (c, calls, sched) =>
      -- `n_jobs == 1` after configuration: the sequential path
      if c.nj == 1 then " | ".intercalate (ParallelSeq.runScenarioSeq c calls sched)
      else " | ".intercalate (runScenario c calls sched)

end JoblibModel.ParallelDriver
