import JoblibModel.ParallelProto
import JoblibModel.ParallelSeq
import JoblibModel.ParallelStartup
import JoblibModel.ParallelReconf
import JoblibModel.IOUtil
import JoblibModel.AutoBatch
/-! Line protocol for M1 (shared by the C01/C04/C09/C16 drivers): a scenario of harness/ctl.py as a flat list of
integers (see `Scenario.tokens`) → the model's event log joined by ` | `. -/
namespace JoblibModel.ParallelDriver
open JoblibModel.ParallelProto JoblibModel.IOUtil
open JoblibModel.ParallelStartup (Fault)

/-- Take `n` naturals from the token list. -/
def takeNats : Nat → List Int → Option (List Nat × List Int)
  | 0, l => some ([], l)
  | n + 1, x :: l => if x < 0 then none else (takeNats n l).map (fun (a, r) => (x.toNat :: a, r))
  | _ + 1, [] => none

def parseCalls : Nat → List Int → Option (List CallSpec × List Int)
  | 0, l => some ([], l)
  | k + 1, n :: nf :: l => do
    if n < 0 || nf < 0 then none
    let (fails, l) ← takeNats nf.toNat l
    match l with
    | itf :: nc :: l =>
      if nc < 0 then none
      let (cons, l) ← takeNats nc.toNat l
      let (rest, l) ← parseCalls k l
      pure (⟨n.toNat, fails, itf, cons⟩ :: rest, l)
    | _ => none
  | _ + 1, _ => none

def parseSched : Nat → List Int → Option (List (List Nat) × List Int)
  | 0, l => some ([], l)
  | k + 1, d :: l => do
    if d < 0 then none
    let (e, l) ← takeNats d.toNat l
    let (rest, l) ← parseSched k l
    pure (e :: rest, l)
  | _ + 1, [] => none

/-- The optional start-up-fault tail of a scenario line (after the schedule): `startGuard enterKind enterCls`, then
`kind cls` for every call.  An absent tail = no fault, `startGuard = 1` (the lines of scenarios without faults are
unchanged). -/
structure Tail where
  guard : Bool := true
  enter : Fault := {}
  faults : List Fault := []
  /-- per-call configurations (`JoblibModel/ParallelReconf.lean`): a second optional section after the faults, one
  `nj auto nbs bs… pdMode pd timeout` per call -/
  cfgs : Option (List Cfg) := none
deriving Repr, Inhabited

def parseCfgs (c0 : Cfg) : Nat → List Int → Option (List Cfg × List Int)
  | 0, l => some ([], l)
  | k + 1, nj :: auto :: nbs :: l => do
    if nj < 2 || nbs < 1 || auto < 0 || auto > 1 then none
    let (bs, l) ← takeNats nbs.toNat l
    match l with
    | pdMode :: pd :: to :: l =>
      if pdMode < 0 || pdMode > 2 || pd < 0 || to < -1 then none
      let (rest, l) ← parseCfgs c0 k l
      pure ({ c0 with nj := nj.toNat, bsAuto := auto != 0, bs := bs, pdMode := pdMode.toNat, pd := pd.toNat, timeout := to } :: rest, l)
    | _ => none
  | _ + 1, _ => none

def parseFaults : Nat → List Int → Option (List Fault × List Int)
  | 0, l => some ([], l)
  | k + 1, kind :: cls :: l => do
    if kind < 0 || cls < 0 then none
    let f : Fault := ⟨kind.toNat, cls.toNat⟩
    if !f.wf then none
    let (rest, l) ← parseFaults k l
    pure (f :: rest, l)
  | _ + 1, _ => none

def parseTail (ncalls : Nat) (managed0 : Bool) (calls : List CallSpec) (c0 : Cfg) : List Int → Option Tail
  | [] => some {}
  | sg :: ek :: ecls :: l => do
    if sg < 0 || sg > 1 || ecls < 0 || ecls > 1 then none
    -- the enter fault is `configure` raising in `__enter__`: only inside a with block, and then there is no block to leave (op 6)
    if !(ek = 0 || (ek = 2 && managed0 && calls.all (fun cs => !cs.cons.contains 6))) then none
    let (fs, l) ← parseFaults ncalls l
    if l = [] then pure ⟨sg != 0, ⟨ek.toNat, if ek = 0 then 0 else ecls.toNat⟩, fs, none⟩
    else
      -- per-call configurations: parallel path only, at least one call
      if c0.nj < 2 || ncalls = 0 then none
      let (cfgs, l) ← parseCfgs c0 ncalls l
      if l ≠ [] then none
      pure ⟨sg != 0, ⟨ek.toNat, if ek = 0 then 0 else ecls.toNat⟩, fs, some cfgs⟩
  | _ => none

def parseScenario (toks : List Int) : Option (Cfg × List CallSpec × List (List Nat) × Option Tail) :=
  match toks with
  | nj :: auto :: nbs :: l => do
    if nj < 1 || nbs < 1 then none
    let (bs, l) ← takeNats nbs.toNat l
    match l with
    | pdMode :: pd :: ra :: to :: mg :: ad :: nc :: l =>
      if pdMode < 0 || pdMode > 2 || pd < 0 || ra < 0 || ra > 2 || to < -1 || nc < 0 then none
      let (calls, l) ← parseCalls nc.toNat l
      match l with
      | ns :: l =>
        if ns < 0 then none
        let (sched, l) ← parseSched ns.toNat l
        let c0 : Cfg := ⟨nj.toNat, auto != 0, bs, pdMode.toNat, pd.toNat, ra.toNat, to, mg != 0, ad != 0⟩
        let tail ← if l = [] then pure none else (parseTail nc.toNat (mg != 0) calls c0 l).map some
        pure (c0, calls, sched, tail)
      | [] => none
    | _ => none
  | _ => none

/-- `AB c | d <batch_size> <num> <den> | r | n <n_tasks|-1> <n_dispatched> <n_workers> …` : a run of the auto-batching state machine → the batch sizes returned. -/
def parseAB : List String → Option (List AutoBatch.Op)
  | [] => some []
  | "c" :: r => (parseAB r).map (AutoBatch.Op.compute :: ·)
  | "d" :: b :: n :: d :: r => do
    let b ← b.toNat?
    let n ← n.toNat?
    let d ← d.toNat?
    if d = 0 then none
    let rest ← parseAB r
    pure (AutoBatch.Op.completed b ⟨n, d⟩ :: rest)
  -- `r`: `reset_batch_stats()` (terminate);  `n <n_tasks|-1> <n_dispatched> <n_workers>`: another call on the managed object
  | "r" :: r => (parseAB r).map (AutoBatch.Op.reset :: ·)
  | "n" :: nt :: nd :: nw :: r => do
    let nt ← nt.toInt?
    let nd ← nd.toNat?
    let nw ← nw.toNat?
    if nt < -1 then none
    let rest ← parseAB r
    pure (AutoBatch.Op.newCall (if nt < 0 then none else some nt.toNat) nd nw :: rest)
  | _ => none

def handle (line : String) : String :=
  match tokens line with
  | "AB" :: r =>
    match parseAB r with
    | some ops => joinSp ((AutoBatch.run {} ops).map toString)
    | none => "bad-op"
  | _ =>
  match (tokens line).mapM (·.toInt?) with
  | none => "bad-op"
  | some toks =>
    match parseScenario toks with
    | none => "bad-op"
    | some (c, calls, sched, none) =>
      -- `n_jobs == 1` after configuration: the sequential path
      if c.nj == 1 then " | ".intercalate (ParallelSeq.runScenarioSeq c calls sched)
      else " | ".intercalate (runScenario c calls sched)
    | some (c, calls, sched, some { guard, enter, faults, cfgs := some cfgs }) =>
      -- a configuration per call (JoblibModel/ParallelReconf.lean)
      " | ".intercalate (ParallelReconf.runScenarioV c guard enter (cfgs.zip (calls.zip faults)) sched)
    | some (c, calls, sched, some t) =>
      -- with start-up faults / the `startGuard` switch (JoblibModel/ParallelStartup.lean)
      if c.nj == 1 then " | ".intercalate (ParallelStartup.runScenarioSeqF c t.guard t.enter (calls.zip t.faults) sched)
      else " | ".intercalate (ParallelStartup.runScenarioF c t.guard t.enter (calls.zip t.faults) sched)

end JoblibModel.ParallelDriver
