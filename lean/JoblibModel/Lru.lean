/-
Model of `StoreBackendMixin._get_items_to_delete` (joblib/_store_backends.py) — the
selection of the cache entries `Memory.reduce_size` evicts (property C18).

Python → Lean:
* `items`            : the inventory as `get_items()` returned it (any order)
* `item.size`        : `Nat` (sum of `os.path.getsize`)
* `item.last_access` : `Int` (any totally ordered time unit; the harness uses whole seconds)
* `bytes_limit`      : `Option Int` (after `memstr_to_bytes` for strings)
* `items_limit`      : `Option Int`
* `deadline`         : `Option Int` (= `now - age_limit`; the harness computes it, the
                       model takes it as an input — see DESIGN C18 "partial")
Import-free, total, computable.
-/
namespace JoblibModel.Lru

structure Item where
  id : Nat
  size : Nat
  access : Int
deriving Repr, DecidableEq, Inhabited

structure Limits where
  bytes : Option Int
  items : Option Int
  deadline : Option Int
deriving Repr, DecidableEq

def total : List Item → Int
  | [] => 0
  | it :: r => (it.size : Int) + total r

/-- `size - bytes_limit`, or 0 without a byte limit. -/
def toDeleteSize (items : List Item) (l : Limits) : Int :=
  match l.bytes with
  | some b => total items - b
  | none => 0

/-- `len(items) - items_limit`, or 0 without an item limit. -/
def toDeleteItems (items : List Item) (l : Limits) : Int :=
  match l.items with
  | some n => (items.length : Int) - n
  | none => 0

/-- `deadline is None or deadline < last_access`. -/
def fresh (dl : Option Int) (a : Int) : Bool :=
  match dl with
  | none => true
  | some d => decide (d < a)

/-- Insert `x` (which preceded every element of the list in the original order) before the
first element that is not strictly older: keeps equal keys in their original order. -/
def insertByAccess (x : Item) : List Item → List Item
  | [] => [x]
  | y :: ys => if x.access ≤ y.access then x :: y :: ys else y :: insertByAccess x ys

/-- `items.sort(key=attrgetter("last_access"))` — Python's sort is stable; this is a stable
insertion sort (structural recursion, so it also reduces in the kernel). -/
def sortByAccess : List Item → List Item
  | [] => []
  | x :: xs => insertByAccess x (sortByAccess xs)

/-- The `for item in items:` loop with its `break`. `s` = `size_so_far`, `n` = `items_so_far`. -/
def takeLoop (tds tdi : Int) (dl : Option Int) : List Item → Int → Int → List Item
  | [], _, _ => []
  | it :: rest, s, n =>
    if s ≥ tds ∧ n ≥ tdi ∧ fresh dl it.access = true then []
    else it :: takeLoop tds tdi dl rest (s + it.size) (n + 1)

/-- `min(item.last_access for item in items)` for a non-empty list. -/
def minAccess : List Item → Option Int
  | [] => none
  | it :: r => match minAccess r with
    | none => some it.access
    | some m => some (if it.access ≤ m then it.access else m)

/-- The early `return []` test. -/
def nothingToDo (items : List Item) (l : Limits) : Bool :=
  decide (toDeleteSize items l ≤ 0) && decide (toDeleteItems items l ≤ 0) &&
    (match l.deadline, minAccess items with
     | none, _ => true
     | some d, some m => decide (m > d)
     | some _, none => true)

def itemsToDelete (items : List Item) (l : Limits) : List Item :=
  if items.isEmpty then []
  else if nothingToDo items l then []
  else takeLoop (toDeleteSize items l) (toDeleteItems items l) l.deadline (sortByAccess items) 0 0

/-- What stays in the store afterwards. -/
def survivors (items : List Item) (l : Limits) : List Item :=
  (sortByAccess items).drop (itemsToDelete items l).length

/-- "The cache satisfies every limit given" for a remaining inventory. -/
def Sat (kept : List Item) (l : Limits) : Prop :=
  (∀ b, l.bytes = some b → total kept ≤ b) ∧
  (∀ n, l.items = some n → (kept.length : Int) ≤ n) ∧
  (∀ d, l.deadline = some d → ∀ it ∈ kept, d < it.access)

end JoblibModel.Lru
