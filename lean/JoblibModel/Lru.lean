/-
Model of `StoreBackendMixin._get_items_to_delete` (joblib/_store_backends.py) — the
selection of the cache entries `Memory.reduce_size` evicts (property C18).

Python → Lean:
* `items`            : the inventory as `get_items()` returned it (any order); `get_items` itself, the size-string
                       parser and the deletion loop are `JoblibModel.StoreLimits`, which reuses this file
* `item.size`        : `Nat` (sum of `os.path.getsize`)
* `item.last_access` : `Int` (any totally ordered time unit; the harness uses whole seconds)
* `bytes_limit`      : `Option Int` (after `memstr_to_bytes` for strings: `StoreLimits.resolveBytes`)
* `items_limit`      : `Option Int`
* `deadline`         : `Option Int` (= `now - age_limit`; the harness computes it, the
                       model takes it as an input — see DESIGN C18 "partial")
Import-free, total, computable.
-/
namespace JoblibModel.Lru

/-- One `CacheItemInfo(path, size, last_access)`. `id` identifies the entry (the driver of the selection-only
requests uses a number; `JoblibModel.StoreLimits` uses the path of the entry directory); the selection never
looks at it. -/
structure Item (α : Type) where
  id : α
  size : Nat
  access : Int
deriving Repr, DecidableEq

structure Limits where
  bytes : Option Int
  items : Option Int
  deadline : Option Int
deriving Repr, DecidableEq

variable {α : Type}

def total : List (Item α) → Int
  | [] => 0
  | it :: r => (it.size : Int) + total r

/-- `size - bytes_limit`, or 0 without a byte limit. -/
def toDeleteSize (items : List (Item α)) (l : Limits) : Int :=
  match l.bytes with
  | some b => total items - b
  | none => 0

/-- `len(items) - items_limit`, or 0 without an item limit. -/
def toDeleteItems (items : List (Item α)) (l : Limits) : Int :=
  match l.items with
  | some n => (items.length : Int) - n
  | none => 0

/-- `deadline is None or deadline < last_access`. -/
def fresh (dl : Option Int) (a : Int) : Bool :=
  match dl with
  | none => true
  | some d => decide (d < a)

/-- Insert `x` (which preceded every element of the list in the original order) before the
first element that is not strictly older: keeps equal keys in their original order. -/
def insertByAccess (x : Item α) : List (Item α) → List (Item α)
  | [] => [x]
  | y :: ys => if x.access ≤ y.access then x :: y :: ys else y :: insertByAccess x ys

/-- `items.sort(key=attrgetter("last_access"))` — Python's sort is stable; this is a stable
insertion sort (structural recursion, so it also reduces in the kernel). -/
def sortByAccess : List (Item α) → List (Item α)
  | [] => []
  | x :: xs => insertByAccess x (sortByAccess xs)

/-- The `for item in items:` loop with its `break`. `s` = `size_so_far`, `n` = `items_so_far`. -/
def takeLoop (tds tdi : Int) (dl : Option Int) : List (Item α) → Int → Int → List (Item α)
  | [], _, _ => []
  | it :: rest, s, n =>
    if s ≥ tds ∧ n ≥ tdi ∧ fresh dl it.access = true then []
    else it :: takeLoop tds tdi dl rest (s + it.size) (n + 1)

/-- `min(item.last_access for item in items)` for a non-empty list. -/
def minAccess : List (Item α) → Option Int
  | [] => none
  | it :: r => match minAccess r with
    | none => some it.access
    | some m => some (if it.access ≤ m then it.access else m)

/-- The early `return []` test. -/
def nothingToDo (items : List (Item α)) (l : Limits) : Bool :=
  decide (toDeleteSize items l ≤ 0) && decide (toDeleteItems items l ≤ 0) &&
    (match l.deadline, minAccess items with
     | none, _ => true
     | some d, some m => decide (m > d)
     | some _, none => true)

def itemsToDelete (items : List (Item α)) (l : Limits) : List (Item α) :=
  if items.isEmpty then []
  else if nothingToDo items l then []
  else takeLoop (toDeleteSize items l) (toDeleteItems items l) l.deadline (sortByAccess items) 0 0

/-- What stays in the store afterwards. -/
def survivors (items : List (Item α)) (l : Limits) : List (Item α) :=
  (sortByAccess items).drop (itemsToDelete items l).length

/-- "The cache satisfies every limit given" for a remaining inventory. -/
def Sat (kept : List (Item α)) (l : Limits) : Prop :=
  (∀ b, l.bytes = some b → total kept ≤ b) ∧
  (∀ n, l.items = some n → (kept.length : Int) ≤ n) ∧
  (∀ d, l.deadline = some d → ∀ it ∈ kept, d < it.access)

end JoblibModel.Lru
