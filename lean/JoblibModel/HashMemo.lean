/-
Model of the MEMO NUMBERING of `pickle._Pickler` as `joblib.hashing.Hasher` uses it (property C08, values with
shared sub-objects).  The second occurrence of a memoised object is written as `BINGET idx`, where `idx` is the
index `memoize` issued at the first occurrence; a stream discriminates between references only if no index is ever
owned by two objects.

Python → Lean
* `self.memo` (`id(obj) ↦ (idx, obj)`, a dict: insertion order)   → `Memo`, the list of `(id(obj), idx)`
* `Pickler.memoize`: `idx = len(self.memo); self.memo[id(obj)] = idx, obj` → `memoize`
  (`Hasher.memoize` skips str/bytes: those calls do not reach the model)
* `Pickler.save`: `x = self.memo.get(id(obj)); if x is not None: self.write(self.get(x[0]))` → `lookup`
* the object a `BINGET k` of the stream stands for                 → `owners m k` (every live entry with index `k`)
* `Hasher` never removes an entry (`clear_memo` is not called during `dump`): the memo of one `dump` is `run objs`,
  the objects in the order of their first occurrence.  `pop` (`self.memo.pop(id(obj), None)`) is NOT in the code; it is
  modelled to state what the numbering rests on (`C08.pop_reissues_index_counterexample`).

Import-free, total, computable.
-/
namespace JoblibModel.HashMemo

abbrev Memo := List (Nat × Nat)

/-- `Pickler.memoize(obj)`. -/
def memoize (m : Memo) (obj : Nat) : Memo := m ++ [(obj, m.length)]

/-- `self.memo.pop(id(obj), None)` (not in the code). -/
def pop (m : Memo) (obj : Nat) : Memo := m.filter (fun e => e.1 != obj)

/-- The memo after one `dump` that memoised `objs` in this order. -/
def run (objs : List Nat) : Memo := objs.foldl memoize []

/-- The indices issued, in the order of the `memoize` calls still alive. -/
def indices (m : Memo) : List Nat := m.map (·.2)

/-- `self.memo.get(id(obj))`: the index written after BINGET. -/
def lookup (m : Memo) (obj : Nat) : Option Nat := (m.find? (fun e => e.1 == obj)).map (·.2)

/-- The objects a `BINGET k` can stand for. -/
def owners (m : Memo) (k : Nat) : List Nat := (m.filter (fun e => e.2 == k)).map (·.1)

end JoblibModel.HashMemo
