import JoblibProofs.Lemmas.ParallelLock
/-!
# M1L — `joblib.Parallel` at lock-boundary / backend-call / unlocked-access granularity, ALL interleavings

Model: `JoblibModel.ParallelLock` (see its header for the exact list of scheduling points). A *state* carries the
shared attributes of the Parallel object, the lock owner, the program counter of the caller thread and one program
counter per completion-callback thread. An *action* (`Act`) is one atomic step of one thread or the environment
action `complete k` (the backend finishes the k-th parked batch and starts its callback thread); an action that is
not enabled (thread blocked on the lock, finished, …) leaves the state unchanged, so `run c init sched` is defined for
EVERY list of actions and `Reachable c s` below is "some interleaving of any number of threads, of any length, leads
to `s`".

Quantifier reached by every theorem of this file: ALL configurations of the model's domain (`n_jobs`, fixed or
scripted-auto batch sizes, `pre_dispatch` int / 'all' / expression value, `return_as` list / generator, any number of
tasks, any set of failing tasks, any failing position of the input iterable, backend dropping or keeping in-flight
batches at abort) and ALL schedules, by an inductive invariant (`Inv`, `step_inv`, `run_inv`) — never by enumeration.
Scope: one call on a fresh object, ordered modes, no timeout (see the model header for what is not covered).
The tie to the real code is `harness/m1_lock.py` (real threads forced through the same scheduling points; complete
step-log equality).
-/
namespace M1L
open JoblibModel.ParallelLock

/-- `s` is reachable: some finite interleaving of thread steps and backend completions leads from the fresh object to
`s`. -/
def Reachable (c : Cfg) (s : St) : Prop := ∃ sched : List Act, s = run c init sched

/-- The core invariant holds in every reachable state (every interleaving, any number of threads, any length). -/
theorem reachable_inv {c : Cfg} {s : St} (h : Reachable c s) : Inv c s := by
  obtain ⟨sched, rfl⟩ := h
  exact run_inv sched (inv_init c)

/-- The invariant is inductive: preserved by every enabled step of every thread and by every environment action
(and trivially by actions that are not enabled). -/
theorem invariant_inductive {c : Cfg} {s : St} (h : Inv c s) (a : Act) : Inv c (step c s a) := step_inv h a

/-- Thread `t` is inside a lock-protected segment at a step boundary: it is parked at a backend call
(`submit`, `compute_batch_size`, `retrieve_result_callback`) made while it owns `Parallel._lock`. -/
def inLocked (s : St) : Tid → Bool
  | 0 => s.pc.holding
  | i + 1 => decide (i < s.trk.length) && (getTrk s i).pc.holding

/-- LOCK OWNER. The lock is owned by thread `t` exactly when `t` is inside a lock-protected segment. -/
theorem lock_owner_iff {c : Cfg} {s : St} (h : Reachable c s) (t : Tid) :
    s.lockOwner = some t ↔ inLocked s t = true := by
  have hi := reachable_inv h
  cases t with
  | zero => exact ⟨hi.L.own0, hi.L.caller⟩
  | succ i =>
    simp only [inLocked, Bool.and_eq_true, decide_eq_true_eq]
    exact ⟨hi.L.ownCb i, fun hh => hi.L.cb i hh.1 hh.2⟩

/-- MUTEX. In every reachable state at most one thread is inside a lock-protected segment. (Segments that acquire
and release the lock within one atomic step exclude each other by construction: a step from a lock acquisition is
enabled only while `lockOwner = none`, see `acquire_needs_free_lock`.) -/
theorem mutex {c : Cfg} {s : St} (h : Reachable c s) {t t' : Tid} (h1 : inLocked s t = true)
    (h2 : inLocked s t' = true) : t = t' := by
  have e1 := (lock_owner_iff h t).mpr h1
  have e2 := (lock_owner_iff h t').mpr h2
  rw [e1] at e2
  exact Option.some.inj e2

/-- A thread parked before a lock acquisition is not enabled while another thread owns the lock. -/
theorem acquire_needs_free_lock (s : St) :
    (s.pc.isAcq = true → callerEnabled s = true → s.lockOwner = none) ∧
    (∀ i, ((getTrk s i).pc = .acqA ∨ (getTrk s i).pc = .acqC) → cbEnabled s i = true → s.lockOwner = none) := by
  refine ⟨?_, ?_⟩
  · intro h1 h2
    simp only [callerEnabled, h1, Bool.not_true, Bool.false_or, Bool.and_eq_true, beq_iff_eq] at h2
    exact h2.2
  · intro i h1 h2
    unfold cbEnabled at h2
    rcases h1 with h1 | h1 <;> rw [h1] at h2 <;> simpa using h2

/-- PULLS ONLY BY THE LOCK OWNER (C09, "never from two threads at once"). Every `pull` event of every reachable
log was emitted by a thread that owned the lock at that very moment (`Ev.pull t id locked` records
`lockOwner == some t` when item `id` is taken from the input iterable). Together with `mutex`: two threads are
never inside the input iterable at the same time. -/
theorem pulls_only_by_lock_owner {c : Cfg} {s : St} (h : Reachable c s) {t : Tid} {id : Nat} {locked : Bool}
    (hp : Ev.pull t id locked ∈ s.log) : locked = true :=
  (reachable_inv h).logLocked t id locked hp

/-- DISPATCH CONSERVATION (C01). In every reachable state in which no error has been flagged: the ids in the trackers
(in creation order; each tracker is in exactly one state: waiting for `submit`, parked in the backend, being
completed, completed), then the look-ahead queue, are exactly the ids pulled so far, in order — nothing lost,
nothing duplicated. -/
theorem dispatch_conservation {c : Cfg} {s : St} (h : Reachable c s) (ha : s.aborting = false) :
    allItems s ++ s.ready.flatten = List.range' 0 s.srcPos :=
  (reachable_inv h).C.full ha

/-- EXACTLY ONCE (C01; also while aborting). In every reachable state every task id occurs at most once in all
trackers and look-ahead batches together, in increasing order, and only ids already pulled occur: no task is ever
handed to the backend twice. -/
theorem exactly_once {c : Cfg} {s : St} (h : Reachable c s) :
    (allItems s ++ s.ready.flatten).Nodup ∧ List.Pairwise (· < ·) (allItems s ++ s.ready.flatten) ∧
      ∀ x ∈ allItems s ++ s.ready.flatten, x < s.srcPos ∧ x < c.n := by
  have hi := reachable_inv h
  refine ⟨?_, hi.C.sorted, fun x hx => ⟨hi.C.bound x hx, ?_⟩⟩
  · exact hi.C.sorted.imp (fun hlt => Nat.ne_of_lt hlt)
  · have h1 := hi.C.bound x hx
    have h2 := hi.S.le
    have : stopAt c ≤ c.n := by
      unfold stopAt; split <;> omega
    omega

/-- The two counters the retrieval loop reads: `n_dispatched_tasks` is the number of ids in trackers and
`n_completed_tasks` the number of ids of the trackers whose callback went through `n_completed_tasks +=`; hence
`n_completed_tasks ≤ n_dispatched_tasks` in every reachable state. -/
theorem counters {c : Cfg} {s : St} (h : Reachable c s) :
    s.nDispTasks = (allItems s).length ∧ s.nCompleted = countedSum s.trk ∧ s.nCompleted ≤ s.nDispTasks := by
  have hi := reachable_inv h
  refine ⟨hi.N.disp, hi.N.comp, ?_⟩
  rw [hi.N.disp, hi.N.comp]
  exact countedSum_le s.trk

/-- NO PULL AFTER ABORT OBSERVED (C09; the F14 repair). If `_aborting` is set when an action begins — whichever thread
takes it, holding the lock or about to take it — that action leaves the input iterable untouched: no item is taken
and `__next__` is not called. (A pull therefore only happens in a step at whose beginning `_aborting` was false;
within that step the flag is re-read under the lock before the first `next`, see `dispatchLocked`.) -/
theorem no_pull_after_abort_observed {c : Cfg} {s : St} (ha : s.aborting = true) (a : Act) :
    (step c s a).srcPos = s.srcPos ∧ (step c s a).srcDead = s.srcDead := by
  have := step_src_aborting (c := c) ha a
  simp only [srcOf, Prod.mk.injEq] at this
  exact ⟨this.1, this.2.1⟩

/-! ### Functional correctness of the retrieval protocol (second invariant `Inv2`) -/

/-- The second invariant holds in every reachable state, for configurations with `n_jobs ≥ 1`, batch sizes `≥ 1`
(`CfgOK`) and `pre_dispatch = 'all'` or evaluating to `≥ 1` (`PdOK`; 0 is finding F11). -/
theorem reachable_inv2 {c : Cfg} {s : St} (hc : CfgOK c) (hpd : PdOK c) (h : Reachable c s) : Inv2 c s := by
  obtain ⟨sched, rfl⟩ := h
  exact (run_inv2 hc hpd sched (inv_init c) (inv2_init c)).2

/-- `Inv2` is inductive (given `Inv`): preserved by every step of every thread and by every environment action. -/
theorem invariant2_inductive {c : Cfg} {s : St} (hc : CfgOK c) (hpd : PdOK c) (h : Inv c s) (h2 : Inv2 c s) (a : Act) :
    Inv2 c (step c s a) := step_inv2 hc hpd h h2 a

/-- RETURN CORRECT (C01), every interleaving. If the caller's `__call__` returns a list (`return_as='list'`), or the
ordered generator is exhausted (`'generator'`), the values are exactly `[0, …, n-1]` in order — for every schedule of
any number of callback threads at lock-boundary / backend-call / unlocked-access granularity. `Safe c`: the input
iterable never raises, or `_wait_retrieval` re-reads `_aborting` before returning False (`Cfg.recheck`, the candidate
repair); for the pinned code with a raising iterable the statement is FALSE, see `error_surfaces_counterexample`. -/
theorem return_correct {c : Cfg} {s : St} {l : List Nat} (hc : CfgOK c) (hpd : PdOK c) (hs : Safe c)
    (h : Reachable c s) (hl : s.outcome = some (.ret l)) : l = List.range c.n := by
  have := ((reachable_inv2 hc hpd h).O.ret l hl).2 hs
  rw [this.1, List.range_eq_range']

/-- NO PREMATURE EXIT (the place where F13 lived). Whenever the caller has taken the NORMAL exit of the retrieval loop
(`_wait_retrieval()` returned False: program points of the `finally` block and of the tail loop) every dispatched batch
has been completed and counted and its callback is past `dispatch_next` — whatever the interleaving of the caller's
unlocked reads of `_aborting`, `_iterating`, `n_completed_tasks`, `n_dispatched_tasks` with the callbacks. In a `Safe`
configuration moreover all `n` tasks have been dispatched and every tracker is done. -/
theorem no_premature_exit {c : Cfg} {s : St} (hc : CfgOK c) (hpd : PdOK c) (h : Reachable c s)
    (hx : s.pc.exiting = true) :
    (∀ t ∈ s.trk, t.items ≠ [] → t.status = .done ∧ (t.pc = .relC ∨ t.pc = .done true)) ∧
    (Safe c → allItems s = List.range' 0 c.n ∧ ∀ t ∈ s.trk, t.status = .done) := by
  have hi := reachable_inv h
  have h2 := reachable_inv2 hc hpd h
  have hL := h2.L
  have key : Exited s ∧ (Safe c → NoErr s) ∧ s.pc.pastWOrig = true ∧ s.pc.postLoop = true ∧ s.pc.inAbort = false ∧
      s.pc.inExc = false := by
    unfold LocOK at hL
    cases hp : s.pc with
    | finExc e =>
      cases e with
      | none => rw [hp] at hL; exact ⟨hL.1, hL.2, rfl, rfl, rfl, rfl⟩
      | some e => rw [hp] at hx; cases hx
    | finJobsR e =>
      cases e with
      | none => rw [hp] at hL; exact ⟨hL.1, hL.2, rfl, rfl, rfl, rfl⟩
      | some e => rw [hp] at hx; cases hx
    | finJobsW e rem =>
      cases e with
      | none => rw [hp] at hL; exact ⟨hL.1, hL.2.1, rfl, rfl, rfl, rfl⟩
      | some e => rw [hp] at hx; cases hx
    | tailStatus i rem => rw [hp] at hL; exact ⟨hL.1, hL.2.1, rfl, rfl, rfl, rfl⟩
    | _ => rw [hp] at hx; cases hx
  obtain ⟨hE, hNE, k1, k2, k3, k4⟩ := key
  refine ⟨fun t ht hne => ?_, fun hs => ?_⟩
  · have hq := hE.1 t ht hne
    have h0 := (hi.T t ht).pcst
    rcases hq with hp | hp <;> rw [hp] at h0 <;> exact ⟨h0, by simp [hp]⟩
  · exact ⟨(exit_allItems hi h2 hE.1 (hNE hs) hE.2 k1 k2 k3 k4).1, quiet_done hi hE.1 (hNE hs)⟩

/-- Once an outcome is recorded the caller has finished. -/
theorem outcome_done {c : Cfg} {s : St} (hc : CfgOK c) (hpd : PdOK c) (h : Reachable c s) (ho : s.outcome ≠ none) :
    s.pc = .done := by
  cases hp : s.pc with
  | done => rfl
  | _ => exact absurd ((reachable_inv2 hc hpd h).O.noOutcome (by rw [hp]; intro hh; cases hh)) ho

/-- WHAT IS RAISED (C04). Whenever the call ends by raising, the exception is the one of a failing task of the call or
the input iterable's own exception — never an internal error (`AttributeError` for a missing `_result`, `IndexError` on
`_jobs`, …). Holds for ALL configurations, including the pinned code with a raising iterable. -/
theorem raise_is_legit {c : Cfg} {s : St} {e : Exc} (hc : CfgOK c) (hpd : PdOK c) (h : Reachable c s)
    (he : s.outcome = some (.raised e)) :
    (∃ id, e = .task id ∧ id ∈ c.fails) ∨ (∃ p, e = .iter p ∧ c.iterfail = some p) :=
  (reachable_inv2 hc hpd h).O.raised e he

/-- ERRORS SURFACE (C04), every interleaving, `Safe` configurations. If some task of the call fails, or the input
iterable fails at a position `≤ n`, the call never finishes by returning a list / exhausting the generator: if it
finishes, it raises (and by `raise_is_legit` it raises a task's / the iterable's exception). -/
theorem error_surfaces {c : Cfg} {s : St} (hc : CfgOK c) (hpd : PdOK c) (hs : Safe c) (h : Reachable c s)
    (hfail : (∃ id ∈ c.fails, id < c.n) ∨ (∃ p, c.iterfail = some p ∧ p ≤ c.n)) :
    ∀ l, s.outcome ≠ some (.ret l) := by
  intro l hl
  have hi := reachable_inv h
  have h2 := reachable_inv2 hc hpd h
  obtain ⟨hE, hF⟩ := h2.O.ret l hl
  obtain ⟨_, hne, hall, hdead, hraised⟩ := hF hs
  rcases hfail with ⟨id, hid, hlt⟩ | ⟨p, hp, hle⟩
  · have hm : id ∈ allItems s := by rw [hall, List.mem_range'_1]; omega
    simp only [allItems, List.mem_flatten, List.mem_map] at hm
    obtain ⟨_, ⟨t, ht, rfl⟩, hm⟩ := hm
    have hdone := quiet_done hi hE.1 hne t ht
    have h0 := hi.T t ht
    have hst : t.pc.started = true := by
      rcases hE.1 t ht (hne t ht) with hp | hp <;> rw [hp] <;> rfl
    have hf := h0.failed hst
    rw [h0.doneOk hdone] at hf
    have := List.find?_eq_none.mp hf.symm id hm
    simp [hid] at this
  · have := (hi.S.exhausted hdead hraised).2 p hp
    omega

/-- ERRORS SURFACE, the part that holds for ALL configurations (also the pinned `_wait_retrieval` with a raising
iterable): if the call returns normally then every batch that was dispatched completed successfully — no task that
ran in a worker raised. (What can be lost when `Safe c` fails is only the exception of the INPUT ITERABLE, see
`error_surfaces_counterexample`.) -/
theorem error_surfaces_partial {c : Cfg} {s : St} {l : List Nat} (hc : CfgOK c) (hpd : PdOK c) (h : Reachable c s)
    (hl : s.outcome = some (.ret l)) : ∀ t ∈ s.trk, t.items ≠ [] → t.status = .done ∧ t.failed = none := by
  intro t ht hne
  have hi := reachable_inv h
  have hE := ((reachable_inv2 hc hpd h).O.ret l hl).1
  have h0 := hi.T t ht
  have hst : t.status = .done := by
    have := h0.pcst
    rcases hE.1 t ht hne with hp | hp <;> rw [hp] at this <;> exact this
  exact ⟨hst, h0.doneOk hst⟩

/-! ### Liveness

FULL STATEMENT (PROVED further down, after `runChoices`, with an explicit bound — `quiescent_termination`,
`quiescent_termination_bounded`, `quiescent_termination_init`):

    theorem quiescent_termination (hc : CfgOK c) (hpd : PdOK c) (h : Reachable c s) :
        ∃ fuel, (runChoices c fuel s []).pc = .done

i.e. from every reachable state, if the environment completes every parked batch and every thread is scheduled by the
drain rule (`pickLast`: completions, then callbacks, then the caller), the caller's call returns or raises: no
deadlock, no lost wake-up, no spinning retrieval loop.  Ingredients, proved first: `no_deadlock` (some action is always
enabled until the caller is done; a blocked caller is blocked by a RUNNABLE lock owner), `lock_holder_runnable`,
`callback_progress` (every step of a callback thread strictly decreases a rank ≤ 8: a callback terminates within 8 of
its own steps and holds the lock for at most 3), `no_lost_wakeup` / `quiet_exit` (third invariant),
`quiescent_termination_partial` (the conjunction that was all that was proved before).  The full theorem adds a fourth
invariant (`reachable_inv4`: a batch waiting for its `submit` is pointed to by the thread parked at that `submit`) and
the step-count measure `drainBound` (`drain_step_decreases`: EVERY drain step from a reachable state strictly decreases
it).  Termination is additionally CHECKED on the real code: every forced-schedule run of the harness ends with the drain
rule and must terminate (oracle signatures `hang`, `deadlock`); the model agrees step by step. -/

/-- NO DEADLOCK. In every reachable state in which the caller has not finished, some thread can take a step: the
caller, or — when the caller is parked at a lock acquisition and the lock is taken — the callback thread that owns the
lock (which is parked at a backend call, never at an acquisition). -/
theorem no_deadlock {c : Cfg} {s : St} (h : Reachable c s) (hnd : s.pc ≠ .done) :
    callerEnabled s = true ∨ ∃ i, s.lockOwner = some (i + 1) ∧ cbEnabled s i = true :=
  not_done_enabled (reachable_inv h) hnd

/-- The thread that owns the lock is always runnable (no thread ever waits for anything while owning the lock). -/
theorem lock_holder_runnable {c : Cfg} {s : St} (h : Reachable c s) :
    (s.lockOwner = some 0 → callerEnabled s = true) ∧ (∀ i, s.lockOwner = some (i + 1) → cbEnabled s i = true) :=
  holder_enabled (reachable_inv h)

/-- CALLBACK PROGRESS. Every enabled step of a callback thread strictly decreases its rank (`CbPc.rank ≤ 8`): a
completion callback terminates within 8 of its own steps, whatever the other threads do. -/
theorem callback_progress {c : Cfg} {s : St} {i : Nat} (h : Reachable c s) (he : cbEnabled s i = true) :
    (getTrk (step c s (.thread (i + 1))) i).pc.rank < (getTrk s i).pc.rank := by
  have := stepCb_rank (reachable_inv h) he
  simp only [step, he, if_true]
  exact this

/-- The third invariant (`Inv3`: a callback that gave up implies `_aborting`; `_iterating` implies the original iterator
is alive; while it is alive and the caller counts on callbacks, some batch carries the torch) holds in every reachable
state. -/
theorem reachable_inv3 {c : Cfg} {s : St} (hc : CfgOK c) (hpd : PdOK c) (h : Reachable c s) : Inv3 s := by
  obtain ⟨sched, rfl⟩ := h
  exact run_inv3 hc hpd sched (inv_init c) (inv2_init c) inv3_init

/-- NO LOST WAKE-UP (the place of the F13 hang), every interleaving. In every reachable state without a flagged error:
if the caller's loop condition `_wait_retrieval()` would still make it wait — `_iterating` is set, or
`n_completed_tasks < n_dispatched_tasks` — then some dispatched batch is still LIVE: waiting for its `submit` (by the
thread that owns the lock), parked in the backend, or its callback thread has not finished. So the caller never waits
for an event that can no longer happen (each live stage makes progress: `lock_holder_runnable`, `callback_progress`, and
the backend contract "every parked batch is eventually completed"). -/
theorem no_lost_wakeup {c : Cfg} {s : St} (hc : CfgOK c) (hpd : PdOK c) (h : Reachable c s) (hna : s.aborting = false)
    (hw : s.iterating = true ∨ s.nCompleted < s.nDispTasks) : ∃ t ∈ s.trk, t.items ≠ [] ∧ t.pc.live = true :=
  waiting_live (reachable_inv h) (reachable_inv3 hc hpd h) hna hw

/-- QUIET ⇒ EXIT. In every reachable state in which no batch is live any more (every callback has finished or the batch
was cancelled) either an error is flagged (the caller then takes the abort path) or the loop condition is false:
`_iterating` is cleared and `n_completed_tasks = n_dispatched_tasks`, so the caller's next evaluation of
`_wait_retrieval()` leaves the loop. -/
theorem quiet_exit {c : Cfg} {s : St} (hc : CfgOK c) (hpd : PdOK c) (h : Reachable c s)
    (hq : ∀ t ∈ s.trk, t.items ≠ [] → t.pc.live = false) :
    s.aborting = true ∨ (s.iterating = false ∧ s.nCompleted = s.nDispTasks) := by
  cases ha : s.aborting with
  | true => exact Or.inl rfl
  | false =>
    right
    have hle := (counters h).2.2
    have key : ¬ (s.iterating = true ∨ s.nCompleted < s.nDispTasks) := by
      intro hw
      obtain ⟨t, ht, h1, h2⟩ := no_lost_wakeup hc hpd h ha hw
      rw [hq t ht h1] at h2; cases h2
    refine ⟨?_, ?_⟩
    · cases hi : s.iterating with
      | false => rfl
      | true => exact absurd (Or.inl hi) key
    · have : ¬ s.nCompleted < s.nDispTasks := fun hh => key (Or.inr hh)
      omega

/-- LIVENESS, the schedule-independent part: until the caller finishes there is always an enabled action, the lock owner
is runnable, and callbacks are rank-decreasing. (The full `quiescent_termination` is proved below.) -/
theorem quiescent_termination_partial {c : Cfg} {s : St} (h : Reachable c s) :
    (s.pc ≠ .done → enabledActs s ≠ []) ∧
    (∀ i, cbEnabled s i = true → (getTrk (step c s (.thread (i + 1))) i).pc.rank < (getTrk s i).pc.rank) := by
  refine ⟨fun hnd => ?_, fun i he => callback_progress h he⟩
  rcases no_deadlock h hnd with he | ⟨i, _, he⟩
  · simp [enabledActs, he]
  · intro hnil
    have hi := cbEnabled_lt he
    have : Act.thread (i + 1) ∈ enabledActs s := by
      simp only [enabledActs, List.mem_append, List.mem_map, List.mem_filter, List.mem_range]
      exact Or.inl (Or.inr ⟨i, ⟨hi, he⟩, rfl⟩)
    rw [hnil] at this; cases this

/-- The driver's total scheduling rule as a pure function: choice `ch` picks `enabledActs[ch % len]`; when the choices
are used up the last enabled action is taken (`fuel` bounds the number of steps). -/
def runChoices (c : Cfg) : Nat → St → List Nat → St
  | 0, s, _ => s
  | fuel + 1, s, ch :: rest =>
    match pick s ch with
    | some a => runChoices c fuel (step c s a) rest
    | none => s
  | fuel + 1, s, [] =>
    match pickLast s with
    | some a => runChoices c fuel (step c s a) []
    | none => s

theorem runChoices_reachable (c : Cfg) : ∀ (fuel : Nat) (s : St) (chs : List Nat), Reachable c s →
    Reachable c (runChoices c fuel s chs) := by
  intro fuel
  induction fuel with
  | zero => intro s chs h; exact h
  | succ f ih =>
    intro s chs h
    have hstep : ∀ a, Reachable c (step c s a) := by
      intro a
      obtain ⟨sched, rfl⟩ := h
      refine ⟨sched ++ [a], ?_⟩
      have : ∀ (l : List Act) (s0 : St), run c s0 (l ++ [a]) = step c (run c s0 l) a := by
        intro l
        induction l with
        | nil => intro s0; rfl
        | cons b r ihr => intro s0; exact ihr (step c s0 b)
      exact (this sched init).symm
    cases chs with
    | nil =>
      simp only [runChoices]
      split
      · exact ih _ _ (hstep _)
      · exact h
    | cons ch rest =>
      simp only [runChoices]
      split
      · exact ih _ _ (hstep _)
      · exact h

theorem reachable_step {c : Cfg} {s : St} (h : Reachable c s) (a : Act) : Reachable c (step c s a) := by
  obtain ⟨sched, rfl⟩ := h
  refine ⟨sched ++ [a], ?_⟩
  have : ∀ (l : List Act) (s0 : St), run c s0 (l ++ [a]) = step c (run c s0 l) a := by
    intro l
    induction l with
    | nil => intro s0; rfl
    | cons b r ihr => intro s0; exact ihr (step c s0 b)
  exact (this sched init).symm

/-! ### Termination under the drain schedule (`quiescent_termination`, with an explicit bound) -/

/-- The fourth invariant (`Inv4`: the caller is never parked at the marker `dIn`; every batch that waits for its
`backend.submit` is pointed to by the thread parked at that `submit`) holds in every reachable state. -/
theorem reachable_inv4 {c : Cfg} {s : St} (h : Reachable c s) : Inv4 s := by
  obtain ⟨sched, rfl⟩ := h
  exact run_inv4 sched (inv_init c) inv4_init

/-- The termination measure of the drain schedule, a computable function of the configuration and the state:
`1300 * W + 100 * P + 100 * L + R` with `W` = items the input iterable can still produce + items in the look-ahead queue
(+ 1 while the iterable has not signalled its end), `P` = Σ over the trackers of the stages the batch still has to go
through (`idle` 10, `parked` 9, `acqA` 8, …, `relC` 1, finished 0), `L` = trackers the caller still has to pop / read,
`R` = rank (≤ 70) of the caller's program point (`JoblibProofs/Lemmas/ParallelLock/TermMeasure.lean`). -/
def drainBound (c : Cfg) (s : St) : Nat := M c s

/-- The bound for a whole call on a fresh object: `1300 * (number of items the input produces + 1) + 370`. -/
def drainBound0 (c : Cfg) : Nat := 1300 * (stopAt c + 1) + 370

theorem drainBound_init (c : Cfg) : drainBound c init = drainBound0 c := M_init c

/-- DRAIN PROGRESS. From every reachable state in which the caller has not finished the drain rule (`pickLast`:
environment completions first, then the highest-numbered enabled callback thread, then the caller) picks an action, and
that action strictly decreases the measure: a completion and every callback step decrease `P` (or register a tracker,
which decreases `W`); the caller runs only when nothing else is enabled, and then — outside a lock-protected segment —
no batch is live any more (`Inv4`, `no_lost_wakeup`), so the loop condition of the retrieval loop is false or an error is
flagged, and each of its steps decreases `W`, `P`, `L` or the rank of its program point. -/
theorem drain_step_decreases {c : Cfg} {s : St} (hc : CfgOK c) (hpd : PdOK c) (h : Reachable c s)
    (hnd : s.pc ≠ .done) : ∃ a, pickLast s = some a ∧ drainBound c (step c s a) < drainBound c s := by
  obtain ⟨a, ha, hd⟩ := drain_dec (reachable_inv h) (reachable_inv3 hc hpd h) (reachable_inv4 h) hnd
  exact ⟨a, ha, hd.lt⟩

/-- Once the caller has finished it stays finished (the remaining callbacks may still run). -/
theorem done_stable (c : Cfg) : ∀ (fuel : Nat) (s : St) (chs : List Nat), s.pc = .done →
    (runChoices c fuel s chs).pc = .done := by
  intro fuel
  induction fuel with
  | zero => intro s chs h; exact h
  | succ f ih =>
    intro s chs h
    cases chs with
    | nil =>
      simp only [runChoices]
      split
      · exact ih _ _ (step_pc_done _ h)
      · exact h
    | cons ch rest =>
      simp only [runChoices]
      split
      · exact ih _ _ (step_pc_done _ h)
      · exact h

/-- QUIESCENT TERMINATION, with the explicit bound. From EVERY reachable state, under the drain rule, the caller's call
has finished (returned or raised) after at most `drainBound c s` steps — and stays finished with any larger fuel. No
deadlock, no lost wake-up, no spinning retrieval loop; every configuration of the model's domain, any number of tasks
and callback threads. -/
theorem quiescent_termination_bounded {c : Cfg} (hc : CfgOK c) (hpd : PdOK c) :
    ∀ (fuel : Nat) (s : St), Reachable c s → drainBound c s ≤ fuel → (runChoices c fuel s []).pc = .done := by
  intro fuel
  induction fuel with
  | zero =>
    intro s _ hb
    have : L s = 0 := by unfold drainBound M at hb; omega
    exact L_eq_zero this
  | succ f ih =>
    intro s h hb
    by_cases hnd : s.pc = .done
    · exact done_stable c _ s [] hnd
    · obtain ⟨a, ha, hlt⟩ := drain_step_decreases hc hpd h hnd
      simp only [runChoices, ha]
      exact ih _ (reachable_step h a) (by omega)

/-- QUIESCENT TERMINATION (the full statement): from every reachable state, if the environment completes every parked
batch and every thread is scheduled by the drain rule, the caller's call returns or raises. -/
theorem quiescent_termination {c : Cfg} {s : St} (hc : CfgOK c) (hpd : PdOK c) (h : Reachable c s) :
    ∃ fuel, (runChoices c fuel s []).pc = .done :=
  ⟨drainBound c s, quiescent_termination_bounded hc hpd _ s h (Nat.le_refl _)⟩

/-- … within a number of steps bounded by a computable function of the configuration and the state. -/
theorem quiescent_termination_bound {c : Cfg} {s : St} (hc : CfgOK c) (hpd : PdOK c) (h : Reachable c s) :
    ∃ fuel, fuel ≤ drainBound c s ∧ (runChoices c fuel s []).pc = .done :=
  ⟨drainBound c s, Nat.le_refl _, quiescent_termination_bounded hc hpd _ s h (Nat.le_refl _)⟩

/-- A whole call on a fresh object scheduled by the drain rule finishes within `1300 * (items + 1) + 370` steps. -/
theorem quiescent_termination_init {c : Cfg} (hc : CfgOK c) (hpd : PdOK c) :
    (runChoices c (drainBound0 c) init []).pc = .done :=
  quiescent_termination_bounded hc hpd _ init ⟨[], rfl⟩ (Nat.le_of_eq (drainBound_init c))

/-- … and after ANY forced prefix of choices: the drain that follows a schedule `chs` (the harness rule) terminates. -/
theorem quiescent_termination_after {c : Cfg} (hc : CfgOK c) (hpd : PdOK c) (k : Nat) (chs : List Nat) :
    ∃ fuel, (runChoices c fuel (runChoices c k init chs) []).pc = .done :=
  quiescent_termination hc hpd (runChoices_reachable c k init chs ⟨[], rfl⟩)

/-- The pinned code (`recheck := false`), 7 tasks, the input iterable raises at position 2. -/
def cfgX : Cfg :=
  { nj := 2, bsAuto := false, bs := [1], pdMode := 0, pd := 2, ra := 0, abortDrops := true, n := 7, fails := [],
    iterfail := some 2, recheck := false }

/-- The schedule of the replay in `builders_notes/M1L.md` (forced on the real code by `harness/m1_lock.py`). -/
def schedX : List Nat :=
  [3, 3, 3, 5, 3, 1, 0, 3, 0, 3, 3, 4, 0, 5, 3, 2, 5, 1, 4, 0, 2, 0, 0, 0, 5, 4, 0, 3, 5, 1, 3, 5, 0, 4, 1, 3, 3, 4, 1, 2]

set_option maxRecDepth 20000 in
/-- ERRORS SURFACE IS FALSE OF THE PINNED CODE when the input iterable raises (candidate finding, racy variant of
F23): under this schedule the iterable raises inside a completion callback after the caller has read
`_aborting == False` in `_wait_retrieval`; another callback then clears `_iterating`; the caller leaves the retrieval
loop normally and the call RETURNS `[]` although the input raised. Reproduced on the real code (same schedule). -/
theorem error_surfaces_counterexample :
    Reachable cfgX (runChoices cfgX 200 init schedX) ∧
    (runChoices cfgX 200 init schedX).outcome = some (.ret []) ∧
    (runChoices cfgX 200 init schedX).srcRaised = true ∧ cfgX.iterfail = some 2 ∧ ¬ Safe cfgX :=
  ⟨runChoices_reachable cfgX 200 init schedX ⟨[], rfl⟩, by decide, by decide, rfl, by
    intro h; rcases h with h | h <;> cases h⟩

/-- With the candidate repair (`recheck := true`) the same schedule ends by raising the iterable's exception. -/
def cfgXfix : Cfg := { cfgX with recheck := true }

set_option maxRecDepth 20000 in
example : (runChoices cfgXfix 300 init schedX).outcome = some (.raised (.iter 2)) := by decide

/-! ### The hypotheses are satisfiable by non-trivial reachable states -/

/-- 3 tasks, `n_jobs=2`, `batch_size=1`, `pre_dispatch=2`. -/
def cfgA : Cfg :=
  { nj := 2, bsAuto := false, bs := [1], pdMode := 0, pd := 2, ra := 0, abortDrops := true, n := 3, fails := [],
    iterfail := none }

/-- The caller runs up to `backend.submit` of the first batch (owning the lock); the backend completes nothing yet. -/
def schedA1 : List Act := List.replicate 12 (Act.thread 0)

/-- … then submits, batch 0 completes, its callback thread (thread 1) runs into its second critical section and
parks at `submit` of batch 1 owning the lock, while the caller is blocked at its next acquisition. -/
def schedA2 : List Act :=
  schedA1 ++ [.thread 0, .thread 0, .complete 0, .thread 1, .thread 1, .thread 1, .thread 1, .thread 1, .thread 0]

set_option maxRecDepth 8000

example : Reachable cfgA (run cfgA init schedA2) := ⟨schedA2, rfl⟩
example : inLocked (run cfgA init schedA1) 0 = true := by decide
example : inLocked (run cfgA init schedA2) 1 = true ∧ (run cfgA init schedA2).lockOwner = some 1 := by decide
example : (run cfgA init schedA2).pc.isAcq = true ∧ callerEnabled (run cfgA init schedA2) = false := by decide
example : (run cfgA init schedA2).aborting = false ∧ allItems (run cfgA init schedA2) = [0, 1] ∧
    (run cfgA init schedA2).log.contains (Ev.pull 0 1 true) = true := by decide

theorem cfgA_ok : CfgOK cfgA ∧ PdOK cfgA ∧ Safe cfgA :=
  ⟨⟨by decide, by decide⟩, Or.inr (by decide), Or.inr rfl⟩

/-- 5 tasks, task 3 fails, auto batch sizes, `pre_dispatch='all'`, ordered generator. -/
def cfgB : Cfg :=
  { nj := 2, bsAuto := true, bs := [1, 2], pdMode := 1, pd := 0, ra := 1, abortDrops := false, n := 5, fails := [3],
    iterfail := none }

/-- An interleaving in which callbacks and the caller alternate (choices) before the drain. -/
def schedB : List Nat := [0, 0, 0, 0, 0, 0, 0, 0, 0, 0, 0, 0, 0, 0, 2, 1, 0, 1, 1, 3, 0, 2, 1, 1, 0, 0, 2, 2, 1, 0, 3, 1]

example : Reachable cfgA (runChoices cfgA 400 init []) := runChoices_reachable cfgA 400 init [] ⟨[], rfl⟩
-- `return_correct`, `outcome_done`: a reachable state in which the call has returned
example : (runChoices cfgA 400 init []).outcome = some (.ret [0, 1, 2]) ∧ (runChoices cfgA 400 init []).pc = .done := by
  decide
-- `no_premature_exit`: a reachable state at a program point of the normal exit
example : (runChoices cfgA 51 init []).pc.exiting = true := by decide
-- `error_surfaces`, `raise_is_legit`: a failing task, the call raises its exception
example : CfgOK cfgB ∧ PdOK cfgB ∧ Safe cfgB ∧ (∃ id ∈ cfgB.fails, id < cfgB.n) :=
  ⟨⟨by decide, by decide⟩, Or.inl rfl, Or.inr rfl, 3, by decide, by decide⟩
example : (runChoices cfgB 600 init schedB).outcome = some (.raised (.task 3)) := by decide
-- `no_pull_after_abort_observed`: a reachable state with `_aborting` set while callbacks are still running
example : ∃ k, (runChoices cfgB k init schedB).aborting = true ∧ (runChoices cfgB k init schedB).pc ≠ .done :=
  ⟨60, by decide⟩

-- `no_lost_wakeup`: the caller (scheduled alone for 40 choices) spins in the retrieval loop while batches are parked
example : (runChoices cfgA 40 init (List.replicate 40 0)).aborting = false ∧
    (runChoices cfgA 40 init (List.replicate 40 0)).iterating = true ∧
    (runChoices cfgA 40 init (List.replicate 40 0)).nCompleted < (runChoices cfgA 40 init (List.replicate 40 0)).nDispTasks ∧
    (runChoices cfgA 40 init (List.replicate 40 0)).pc.postLoop = true := by decide
-- `quiet_exit`: after the drain nothing is live
example : ∀ t ∈ (runChoices cfgA 400 init []).trk, t.pc.live = false := by decide
-- the drain rule terminates on these instances (in general: `quiescent_termination`)
example : (runChoices cfgB 600 init schedB).pc = .done ∧ enabledActs (runChoices cfgB 600 init schedB) = [] := by decide
example : (runChoices cfgX 200 init schedX).pc = .done := by decide

-- `quiescent_termination_init`: a whole call under the drain rule, within the computed bound
example : (runChoices cfgA (drainBound0 cfgA) init []).pc = .done :=
  quiescent_termination_init cfgA_ok.1 cfgA_ok.2.1
example : drainBound0 cfgA = 5570 ∧ drainBound cfgA (run cfgA init schedA2) = 4355 := by decide
-- the bound is not vacuous: the call really takes 52 drain steps (not done after 51)
example : (runChoices cfgA 51 init []).pc ≠ .done ∧ (runChoices cfgA 52 init []).pc = .done := by decide
-- `drain_step_decreases` where the drain rule picks the caller inside the retrieval loop (`r:_iterating`): nothing else
-- is enabled, no batch is live, the loop condition is false
example : (runChoices cfgA 43 init []).pc = .wtIter ∧ pickLast (runChoices cfgA 43 init []) = some (.thread 0) ∧
    drainBound cfgA (runChoices cfgA 44 init []) < drainBound cfgA (runChoices cfgA 43 init []) := by decide
-- … and where it picks a callback thread (parked at `submit`, owning the lock) while the caller is blocked
example : callerEnabled (run cfgA init schedA2) = false ∧ pickLast (run cfgA init schedA2) = some (.thread 1) ∧
    drainBound cfgA (step cfgA (run cfgA init schedA2) (.thread 1)) < drainBound cfgA (run cfgA init schedA2) := by
  decide
-- `quiescent_termination` from the middle of a racy interleaving with a failing task (state after 60 steps of `schedB`,
-- `_aborting` set, callbacks still running): the drain finishes, here after 9 more steps, bound 2032
example : drainBound cfgB (runChoices cfgB 60 init schedB) = 2032 ∧
    (runChoices cfgB 9 (runChoices cfgB 60 init schedB) []).pc = .done := by decide
-- `reachable_inv4`: a reachable state with a batch waiting for its `submit`, pointed to by the caller
example : (getTrk (run cfgA init schedA1) 0).pc = .idle ∧ (getTrk (run cfgA init schedA1) 0).items = [0] ∧
    (run cfgA init schedA1).pc = .dSubmit .first 0 := by decide


end M1L
