import JoblibProofs.M1L
import JoblibProofs.Lemmas.ParallelLockSeq
/-!
# M1L-Seq — SEQUENCES of calls on one `joblib.Parallel` object, stale callback threads, ALL interleavings

Model: `JoblibModel.ParallelLockSeq` (see its header).  The granularity is exactly M1L's (`JoblibModel.ParallelLock`: one
atomic step = the code of one thread between two scheduling points — outermost acquire / release of `Parallel._lock`, a
backend call, `time.sleep`, an unlocked access to a listed shared attribute).  A state `SSt` is the M1L state of the
RUNNING call (`cur`) plus the trackers — with the program counters of their callback threads — of all EARLIER calls
(`old`), which stay alive: the backend contract does not make `abort_everything` / `terminate` join them.  An action is a
step of the caller, of a callback thread of the running call, of a callback thread of an earlier call, or the completion
of a parked batch of the running or of an earlier call; `Reachable sc ss` is "some interleaving, of any length, of any
number of calls and threads leads to `ss`".

Code variants: `SCfg.dispatchNewGuard = true` is /repo as it is now (`_dispatch_new` returns when the call id of its
tracker is not the object's — F50 repaired), `false` the older code; `SCfg.recheck` as in M1L.

Quantifier reached: ALL configurations of the domain (`SCfgOK`: `n_jobs ≥ 1`, batch sizes `≥ 1`, `pre_dispatch` 'all' or
`≥ 1`; any number of calls, each with any number of tasks / failing tasks / failing iterator position; fixed or scripted
auto batch sizes; list / ordered generator; backend dropping or keeping in-flight batches) and ALL schedules, by the
inductive invariant `SeqInv` (`Lemmas/ParallelLockSeq/*`), never by enumeration — for the GUARDED variant.  For the
unguarded variant the property is false: `stale_dispatch_new_counterexample`.

The central result is the REFINEMENT `current_call_refines_M1L` / `finished_call_refines_M1L`: the running call of any
multi-call run, seen through `view` (the M1L state `cur`, with the fields that the set-up of `__call__` has not yet
rewritten shown as in a fresh object), is a reachable state of the single-call model M1L under the configuration of that
call — steps of threads of earlier calls erased.  Hence EVERY theorem of `JoblibProofs/M1L.lean` holds for every call of a
sequence; the corollaries below spell this out for `return_correct`, `error_surfaces`, `raise_is_legit`, `exactly_once`,
`dispatch_conservation`, `pulls_only_by_lock_owner`, `no_premature_exit`, `mutex`.
The tie to the real code is `harness/m1_lock.py` (multi-call scenarios, step-log equality with `drv_m1lseq`).
-/
namespace M1LSeq
open JoblibModel.ParallelLock JoblibModel.ParallelLockSeq

/-- `ss` is reachable: some finite interleaving of steps of the caller, of callback threads of the running and of earlier
calls, and of backend completions leads from the fresh object to `ss` (a non-enabled action is a no-op, so every list
of actions is a schedule). -/
def Reachable (sc : SCfg) (ss : SSt) : Prop := ∃ sched : List Act, ss = runS sc sinit sched

/-- The invariant of the multi-call model holds in every reachable state (guarded variant). -/
theorem reachable_inv {sc : SCfg} {ss : SSt} (hok : SCfgOK sc) (hg : sc.dispatchNewGuard = true)
    (h : Reachable sc ss) : SeqInv sc ss := by
  obtain ⟨sched, rfl⟩ := h
  exact runS_inv hok hg sched (seqInv_init sc)

/-- … and is inductive: preserved by every action of every thread and of the environment. -/
theorem invariant_inductive {sc : SCfg} {ss : SSt} (hok : SCfgOK sc) (hg : sc.dispatchNewGuard = true)
    (h : SeqInv sc ss) (a : Act) : SeqInv sc (stepS sc ss a) := stepS_inv hok hg h a

/-- The callback thread `i + 1` belongs to an earlier call and the call id of its tracker is not the object's
`_call_id` any more. -/
def Stale (ss : SSt) (i : Nat) : Prop :=
  i < ss.old.length ∧ ss.callBase + ss.cur.callId ≠ (getOld ss i).t.callId

/-- STALE STEPS ARE NO-OPS (guarded variant; all interleavings, any number of calls and stale threads).  Every step of a
callback thread of an earlier call whose call id is not the object's leaves the whole state unchanged except that
thread's own program counter: the Parallel object and the running call (`cur`: input position, look-ahead queue, `_jobs`,
trackers, both counters, every flag, the log of `pull` / `submit` events), the lock (its outermost acquire and release
happen inside the one step: it is free before and after), the outcomes, the scripted batch sizes consumed, the call id,
the events of old threads.  In particular such a step never pulls from the input, never submits, never changes a counter
or a flag. -/
theorem stale_steps_are_noops {sc : SCfg} {ss : SSt} {i : Nat} (hok : SCfgOK sc) (hg : sc.dispatchNewGuard = true)
    (h : Reachable sc ss) (hs : Stale ss i) :
    stepS sc ss (.thread (i + 1)) = ss ∨
    stepS sc ss (.thread (i + 1)) = setOldPc ss i (staleNext (getOld ss i).t.pc) := by
  have hI := reachable_inv hok hg h
  obtain ⟨hi, hst⟩ := hs
  simp only [stepS, hi, if_true]
  split
  · rename_i he
    right
    exact stepOld_stale hg hst (hI.stale_not_holding hok hi hst) he
  · exact Or.inl rfl

/-- The same, field by field. -/
theorem stale_steps_are_noops' {sc : SCfg} {ss : SSt} {i : Nat} (hok : SCfgOK sc) (hg : sc.dispatchNewGuard = true)
    (h : Reachable sc ss) (hs : Stale ss i) :
    (stepS sc ss (.thread (i + 1))).cur = ss.cur ∧ (stepS sc ss (.thread (i + 1))).oldOwner = ss.oldOwner ∧
    (stepS sc ss (.thread (i + 1))).outs = ss.outs ∧ (stepS sc ss (.thread (i + 1))).k = ss.k ∧
    (stepS sc ss (.thread (i + 1))).bsBase = ss.bsBase ∧ (stepS sc ss (.thread (i + 1))).callBase = ss.callBase ∧
    (stepS sc ss (.thread (i + 1))).hist = ss.hist ∧
    (∀ j, j ≠ i → getOld (stepS sc ss (.thread (i + 1))) j = getOld ss j) := by
  rcases stale_steps_are_noops hok hg h hs with e | e <;> rw [e]
  · exact ⟨rfl, rfl, rfl, rfl, rfl, rfl, rfl, fun _ _ => rfl⟩
  · refine ⟨rfl, rfl, rfl, rfl, rfl, rfl, rfl, fun j hj => ?_⟩
    simp only [setOldPc, getOld_setOld]
    simp [hj]

/-- A stale thread never owns the lock at a step boundary (so it never blocks the running call). -/
theorem stale_never_holds_lock {sc : SCfg} {ss : SSt} {i : Nat} (hok : SCfgOK sc) (hg : sc.dispatchNewGuard = true)
    (h : Reachable sc ss) (hs : Stale ss i) : (getOld ss i).t.pc.holding = false ∧ ss.oldOwner ≠ some i := by
  have hI := reachable_inv hok hg h
  refine ⟨hI.stale_not_holding hok hs.1 hs.2, fun ho => ?_⟩
  obtain ⟨hp, hc⟩ := hI.owner i ho
  have := hI.callId hok
  rw [if_pos hp] at this
  exact hs.2 (by rw [this, hc]; rfl)

/-- Once the running call has drawn its `_call_id` (the caller is past the critical section of `_reset_run_tracking`)
EVERY thread of EVERY earlier call is stale. -/
theorem all_old_threads_stale {sc : SCfg} {ss : SSt} {i : Nat} (hok : SCfgOK sc) (hg : sc.dispatchNewGuard = true)
    (h : Reachable sc ss) (hp : ss.cur.pc ≠ .resetAcq) (hi : i < ss.old.length) : Stale ss i := by
  have hI := reachable_inv hok hg h
  refine ⟨hi, fun e => ?_⟩
  exact hp (hI.fresh_between hok hi e).1

/-- The completion, by the backend, of a parked batch of an earlier call touches nothing but that tracker. -/
theorem old_completion_is_noop (sc : SCfg) (ss : SSt) (i : Nat) :
    (completeOld sc i ss).cur = ss.cur ∧ (completeOld sc i ss).oldOwner = ss.oldOwner ∧
    (completeOld sc i ss).outs = ss.outs ∧ (completeOld sc i ss).hist = ss.hist :=
  ⟨rfl, rfl, rfl, rfl⟩

/-! ### Refinement: every call of a sequence is a run of the single-call model M1L -/

/-- REFINEMENT (running call).  In every reachable state of the multi-call model the view of the running call is a
reachable state of the SINGLE-call model M1L under the configuration of that call: the projection erases the steps of the
threads of earlier calls, maps every step of the caller / of a callback of the running call / every completion of one of
its batches to the same M1L step (`view_caller_step`, `SeqInv.curStep`), and starts every call from M1L's `init`
(`next_call_is_fresh`). -/
theorem current_call_refines_M1L {sc : SCfg} {ss : SSt} (hok : SCfgOK sc) (hg : sc.dispatchNewGuard = true)
    (h : Reachable sc ss) : M1L.Reachable (curCfg sc ss) (view ss) :=
  (reachable_inv hok hg h).reach

/-- REFINEMENT, step by step ("stale steps erased").  Every action taken in a reachable state of the multi-call model is,
on the view of the running call, one of (`ViewStep`): a STUTTER (every step of a thread of an earlier call, every
completion of a batch of an earlier call, every action that is not enabled); the SAME step of the single-call model M1L
under the configuration of the running call (steps of the caller and of the running call's callback threads, completions
of its batches); or the END OF THE CALL — the caller's M1L step reaches `done`, its outcome is recorded, and the view of
the next call is M1L's initial state `init`.  So the sequence of views of a multi-call run is a concatenation of runs of
M1L, one per call. -/
theorem step_refines {sc : SCfg} {ss : SSt} (hok : SCfgOK sc) (hg : sc.dispatchNewGuard = true) (h : Reachable sc ss)
    (a : Act) : ViewStep sc ss (stepS sc ss a) :=
  stepS_viewStep hok hg (reachable_inv hok hg h) a

/-- After the set-up of `__call__` the view IS the state of the running call. -/
theorem view_eq_cur {ss : SSt} (hp : ss.cur.pc.preDispatch = false) : view ss = ss.cur := clean_of_not_pre hp

/-- During the set-up the view differs from it only in the nine fields that the set-up rewrites. -/
theorem view_frame (ss : SSt) :
    (view ss).pc = ss.cur.pc ∧ (view ss).lockOwner = ss.cur.lockOwner ∧ (view ss).trk = ss.cur.trk ∧
    (view ss).callId = ss.cur.callId ∧ (view ss).outcome = ss.cur.outcome ∧ (view ss).jobs = ss.cur.jobs ∧
    (view ss).running = ss.cur.running ∧ (view ss).log = ss.cur.log ∧ (view ss).out = ss.cur.out ∧
    (view ss).bsI = ss.cur.bsI ∧ (view ss).srcPos = ss.cur.srcPos ∧ (view ss).srcDead = ss.cur.srcDead ∧
    (view ss).srcRaised = ss.cur.srcRaised ∧ (view ss).nPop = ss.cur.nPop := clean_frame ss.cur

/-- REFINEMENT (finished calls).  The outcome recorded for the `k`-th call of a sequence is the outcome of a reachable
FINAL state of the single-call model M1L under the configuration of that call (`b` = the number of scripted batch sizes
consumed before it). -/
theorem finished_call_refines_M1L {sc : SCfg} {ss : SSt} {k : Nat} {o : Outcome} (hok : SCfgOK sc)
    (hg : sc.dispatchNewGuard = true) (h : Reachable sc ss) (ho : outcomeOf ss k = some o) :
    ∃ b s, M1L.Reachable (sc.callCfg k b) s ∧ s.pc = .done ∧ s.outcome = some o := by
  apply (reachable_inv hok hg h).outs k o
  unfold outcomeOf at ho
  simp only [List.getD_eq_getElem?_getD] at ho
  cases hk : ss.outs[k]? with
  | none => rw [hk] at ho; cases ho
  | some x => rw [hk] at ho; simp only [Option.getD_some] at ho; rw [ho]

/-- NEXT CALL IS FRESH (at this granularity).  Whenever the caller is parked before the critical section of
`_reset_run_tracking` — at the start of the first and of EVERY later call, whatever the earlier calls did and whatever
their surviving threads have done since — the state of the object and of the caller differs from the fresh object `init`
at most in the nine fields `n_dispatched_tasks, n_completed_tasks, _exception, _aborting, _aborted, _ready_batches,
_original_iterator` (alive or not; with the pre-dispatch islice) and `_iterating`: `_jobs` is empty, `_running` is False,
no tracker of the running call exists, the input is untouched, the caller does not own the lock.  Those nine fields are
exactly the ones the set-up rewrites before they are read: `reset_overwrites_before_read`. -/
theorem next_call_is_fresh {sc : SCfg} {ss : SSt} (hok : SCfgOK sc) (hg : sc.dispatchNewGuard = true)
    (h : Reachable sc ss) (hp : ss.cur.pc = .resetAcq) :
    { ss.cur with nDispTasks := 0, nCompleted := 0, exception := false, aborting := false, aborted := false,
                  ready := [], origAlive := false, preLeft := none, iterating := false } = init := by
  have := ((reachable_inv hok hg h).between hp).eq
  unfold clean at this
  split at this <;> first | exact this | simp_all

/-- Each field that may differ at the start of a call is rewritten by the set-up before any step reads it: masking the
not-yet-rewritten fields (`clean`) commutes with every step of the caller (at the first step: given `_running` is False,
which `next_call_is_fresh` provides). -/
theorem reset_overwrites_before_read (c : Cfg) (s : St) (h : s.pc ≠ .resetAcq ∨ s.running = false) :
    clean (stepCaller c s) = stepCaller c (clean s) := by
  by_cases hp : s.pc = .resetAcq
  · rcases h with h | h
    · exact absurd hp h
    · exact clean_stepCaller_reset c s hp h
  · exact clean_stepCaller c s hp

/-- What a thread of the call that has just finished can still change before the next call draws its `_call_id`: nothing
of what `next_call_is_fresh` lists — the state keeps differing from `init` only in the nine fields. (Every thread of an
older call is stale already: `stale_steps_are_noops`.) -/
theorem between_calls_steps_keep_fresh {sc : SCfg} {ss : SSt} {i : Nat} (hok : SCfgOK sc)
    (hg : sc.dispatchNewGuard = true) (h : Reachable sc ss) (hp : ss.cur.pc = .resetAcq) :
    clean (stepS sc ss (.thread (i + 1))).cur = init := by
  have hI := invariant_inductive hok hg (reachable_inv hok hg h) (.thread (i + 1))
  have hpc : (stepS sc ss (.thread (i + 1))).cur.pc = .resetAcq := by
    simp only [stepS]
    split
    · split
      · exact (stepOld_pc sc i ss).trans hp
      · exact hp
    · split
      · exact ((stepCb_frame _ _ _).1).trans hp
      · exact hp
  exact (hI.between hpc).eq

/-! ### Corollaries: the theorems of M1L for every call of a sequence -/

/-- The `k`-th call is in the domain of M1L's full statements: the repaired `_wait_retrieval`, or an input iterable that
never raises. -/
def SafeCall (sc : SCfg) (k : Nat) : Prop := sc.recheck = true ∨ (sc.calls.getD k default).iterfail = none

theorem safeCall_iff (sc : SCfg) (k b : Nat) : Safe (sc.callCfg k b) ↔ SafeCall sc k := Iff.rfl

/-- RETURN CORRECT for every call of a sequence (C01 / C04 "called again … returns exactly the results of the new tasks,
with nothing left over from the failed call"), all interleavings with any number of surviving threads of earlier calls:
if the `k`-th call returned (list) / its ordered generator was exhausted, the values are exactly ITS task list
`[0, …, n_k - 1]` (ids relative to the call), in order. -/
theorem return_correct_seq {sc : SCfg} {ss : SSt} {k : Nat} {l : List Nat} (hok : SCfgOK sc)
    (hg : sc.dispatchNewGuard = true) (hs : SafeCall sc k) (h : Reachable sc ss)
    (ho : outcomeOf ss k = some (.ret l)) : l = List.range (sc.calls.getD k default).n := by
  obtain ⟨b, s, hr, _, hout⟩ := finished_call_refines_M1L hok hg h ho
  obtain ⟨hc, hpd⟩ := callCfg_ok hok k b
  exact M1L.return_correct hc hpd hs hr hout

/-- WHAT IS RAISED by a call of a sequence: a failing task's exception of THAT call or its input iterable's — never an
internal `AttributeError` / `IndexError`, never a leftover of an earlier call (ALL configurations). -/
theorem raise_is_legit_seq {sc : SCfg} {ss : SSt} {k : Nat} {e : Exc} (hok : SCfgOK sc)
    (hg : sc.dispatchNewGuard = true) (h : Reachable sc ss) (ho : outcomeOf ss k = some (.raised e)) :
    (∃ id, e = .task id ∧ id ∈ (sc.calls.getD k default).fails) ∨
    (∃ p, e = .iter p ∧ (sc.calls.getD k default).iterfail = some p) := by
  obtain ⟨b, s, hr, _, hout⟩ := finished_call_refines_M1L hok hg h ho
  obtain ⟨hc, hpd⟩ := callCfg_ok hok k b
  exact M1L.raise_is_legit hc hpd hr hout

/-- ERRORS SURFACE for every call of a sequence (C04): if a task of the `k`-th call fails, or its input iterable fails
at a position `≤ n_k`, that call never ends by returning — if it ends, it raises (by `raise_is_legit_seq`: that failure). -/
theorem error_surfaces_seq {sc : SCfg} {ss : SSt} {k : Nat} (hok : SCfgOK sc) (hg : sc.dispatchNewGuard = true)
    (hs : SafeCall sc k) (h : Reachable sc ss)
    (hfail : (∃ id ∈ (sc.calls.getD k default).fails, id < (sc.calls.getD k default).n) ∨
      (∃ p, (sc.calls.getD k default).iterfail = some p ∧ p ≤ (sc.calls.getD k default).n)) :
    ∀ l, outcomeOf ss k ≠ some (.ret l) := by
  intro l ho
  obtain ⟨b, s, hr, _, hout⟩ := finished_call_refines_M1L hok hg h ho
  obtain ⟨hc, hpd⟩ := callCfg_ok hok k b
  exact M1L.error_surfaces hc hpd hs hr hfail l hout

/-- A CLEAN call after any number of failed ones: a call of the sequence without failing task and without failing
iterator step, once finished, has RETURNED exactly its own task list — whatever the earlier calls did (aborted, left
callbacks parked between their critical sections, left batches in the backend). -/
theorem clean_call_returns_seq {sc : SCfg} {ss : SSt} {k : Nat} {o : Outcome} (hok : SCfgOK sc)
    (hg : sc.dispatchNewGuard = true) (h : Reachable sc ss) (hf : (sc.calls.getD k default).fails = [])
    (hi : (sc.calls.getD k default).iterfail = none) (ho : outcomeOf ss k = some o) :
    o = .ret (List.range (sc.calls.getD k default).n) := by
  cases o with
  | ret l => rw [return_correct_seq hok hg (Or.inr hi) h ho]
  | raised e =>
    exfalso
    rcases raise_is_legit_seq hok hg h ho with ⟨id, _, hm⟩ | ⟨p, _, hp⟩
    · rw [hf] at hm; cases hm
    · rw [hi] at hp; cases hp

/-- EXACTLY ONCE / DISPATCH CONSERVATION / PULLS ONLY BY THE LOCK OWNER / MUTEX / NO PREMATURE EXIT for the running
call of a sequence, in every reachable state (stated on the view; after the set-up the view is `cur` itself,
`view_eq_cur`; trackers, log, input position are never masked, `view_frame`). -/
theorem exactly_once_seq {sc : SCfg} {ss : SSt} (hok : SCfgOK sc) (hg : sc.dispatchNewGuard = true)
    (h : Reachable sc ss) :
    (allItems (view ss) ++ (view ss).ready.flatten).Nodup ∧
    List.Pairwise (· < ·) (allItems (view ss) ++ (view ss).ready.flatten) ∧
    ∀ x ∈ allItems (view ss) ++ (view ss).ready.flatten, x < (view ss).srcPos ∧ x < (curCfg sc ss).n :=
  M1L.exactly_once (current_call_refines_M1L hok hg h)

theorem dispatch_conservation_seq {sc : SCfg} {ss : SSt} (hok : SCfgOK sc) (hg : sc.dispatchNewGuard = true)
    (h : Reachable sc ss) (ha : (view ss).aborting = false) :
    allItems (view ss) ++ (view ss).ready.flatten = List.range' 0 (view ss).srcPos :=
  M1L.dispatch_conservation (current_call_refines_M1L hok hg h) ha

/-- Every `pull` of the running call's log was made by the thread owning the lock (C09) — and no thread of an earlier
call ever appears in it (`stale_steps_are_noops`: `cur.log` is untouched by them). -/
theorem pulls_only_by_lock_owner_seq {sc : SCfg} {ss : SSt} (hok : SCfgOK sc) (hg : sc.dispatchNewGuard = true)
    (h : Reachable sc ss) {t : Tid} {id : Nat} {locked : Bool} (hp : Ev.pull t id locked ∈ ss.cur.log) :
    locked = true := by
  have hv := (view_frame ss).2.2.2.2.2.2.2.1
  exact M1L.pulls_only_by_lock_owner (current_call_refines_M1L hok hg h) (by rw [hv]; exact hp)

theorem mutex_seq {sc : SCfg} {ss : SSt} (hok : SCfgOK sc) (hg : sc.dispatchNewGuard = true) (h : Reachable sc ss)
    {t t' : Tid} (h1 : M1L.inLocked (view ss) t = true) (h2 : M1L.inLocked (view ss) t' = true) : t = t' :=
  M1L.mutex (current_call_refines_M1L hok hg h) h1 h2

theorem no_premature_exit_seq {sc : SCfg} {ss : SSt} (hok : SCfgOK sc) (hg : sc.dispatchNewGuard = true)
    (h : Reachable sc ss) (hx : ss.cur.pc.exiting = true) :
    (∀ t ∈ ss.cur.trk, t.items ≠ [] → t.status = .done ∧ (t.pc = .relC ∨ t.pc = .done true)) ∧
    (SafeCall sc ss.k → allItems ss.cur = List.range' 0 (curCfg sc ss).n ∧ ∀ t ∈ ss.cur.trk, t.status = .done) := by
  have hnp : ss.cur.pc.preDispatch = false := by
    cases hpc : ss.cur.pc <;> simp_all [Pc.exiting, Pc.preDispatch]
  obtain ⟨hc, hpd⟩ := callCfg_ok hok ss.k ss.bsBase
  have hr := current_call_refines_M1L hok hg h
  rw [view_eq_cur hnp] at hr
  exact M1L.no_premature_exit hc hpd hr hx

/-! ### The unguarded variant: the property is false -/

/-- Two calls on one object, `n_jobs=2`, `batch_size=1`, `pre_dispatch=2`, a backend that keeps in-flight batches; the
first call has 2 tasks of which the second fails, the second call has 2 tasks and NOTHING fails.  `dispatchNewGuard :=
false`: the code before the F50 repair. -/
def scU : SCfg :=
  { nj := 2, bsAuto := false, bs := [1], pdMode := 0, pd := 2, ra := 0, abortDrops := false, recheck := true,
    dispatchNewGuard := false, calls := [{ n := 2, fails := [1] }, { n := 2 }] }

/-- A schedule (choices among the enabled actions, then the drain rule), forced on the real code by
`harness/m1_lock.py` (corpus `F50c`). -/
def schedU : List Nat :=
  [1, 1, 3, 3, 2, 3, 2, 3, 0, 3, 3, 3, 3, 0, 2, 0, 3, 1, 0, 3, 0, 0, 1, 2, 0, 1, 2, 0, 0, 0, 0, 0, 0, 0, 0, 0, 0, 0, 0,
   0, 0, 0, 0, 0, 0, 0, 0, 0, 0, 0, 1, 3, 2, 1, 1, 3, 0, 2, 1, 0, 3, 2, 3, 2, 3, 3, 0, 2, 2, 0, 2, 0, 3, 0, 3, 0, 3, 0,
   3, 2, 0, 1, 0]

theorem runChoicesS_reachable (sc : SCfg) : ∀ (fuel : Nat) (ss : SSt) (chs : List Nat), Reachable sc ss →
    Reachable sc (runChoicesS sc fuel ss chs) := by
  intro fuel
  induction fuel with
  | zero => intro ss chs h; exact h
  | succ f ih =>
    intro ss chs h
    have hstep : ∀ a, Reachable sc (stepS sc ss a) := by
      intro a
      obtain ⟨sched, rfl⟩ := h
      refine ⟨sched ++ [a], ?_⟩
      have : ∀ (l : List Act) (s0 : SSt), runS sc s0 (l ++ [a]) = stepS sc (runS sc s0 l) a := by
        intro l
        induction l with
        | nil => intro s0; rfl
        | cons b r ihr => intro s0; exact ihr (stepS sc s0 b)
      exact (this sched sinit).symm
    cases chs with
    | nil =>
      simp only [runChoicesS]
      split
      · exact ih _ _ (hstep _)
      · exact h
    | cons ch rest =>
      simp only [runChoicesS]
      split
      · exact ih _ _ (hstep _)
      · exact h

set_option maxRecDepth 40000 in
/-- THE UNGUARDED CODE IS WRONG (F50, the Lean twin of corpus `F50c`; same mechanism as `F50a`).  The callback of batch 0
of the first call registers its result and is parked before the lock of `_dispatch_new`; task 1 fails, the first call
raises `TaskBoom(1)`; the second call starts, and right after it has set `_original_iterator` the surviving callback
runs `n_completed_tasks += 1; dispatch_next()` ON THE SECOND CALL: it pulls both tasks of the second call and submits the
first; its stale increment later makes `n_completed_tasks == n_dispatched_tasks` (with `_iterating` cleared) while the
first batch of the second call is still pending — the caller leaves the retrieval loop, the tail loop asks the pending
tracker for its result, and the clean second call ends with `AttributeError`.  Reachable state, by evaluation; the real
code before the repair produces the same step log under this schedule. -/
theorem stale_dispatch_new_counterexample :
    Reachable scU (runChoicesS scU 120 sinit schedU) ∧ scU.dispatchNewGuard = false ∧
    (scU.calls.getD 1 default).fails = [] ∧ (scU.calls.getD 1 default).iterfail = none ∧
    outcomeOf (runChoicesS scU 120 sinit schedU) 0 = some (.raised (.task 1)) ∧
    outcomeOf (runChoicesS scU 120 sinit schedU) 1 = some (.raised .attr) :=
  ⟨runChoicesS_reachable scU 120 sinit schedU ⟨[], rfl⟩, rfl, rfl, rfl, by decide, by decide⟩

/-- The same configuration and schedule with the guard: the second call returns its two results. -/
def scG : SCfg := { scU with dispatchNewGuard := true }

set_option maxRecDepth 40000 in
example : outcomeOf (runChoicesS scG 200 sinit schedU) 0 = some (.raised (.task 1)) ∧
    outcomeOf (runChoicesS scG 200 sinit schedU) 1 = some (.ret [0, 1]) := by decide

/-! ### The hypotheses are satisfiable by non-trivial reachable states -/

theorem scG_ok : SCfgOK scG ∧ scG.dispatchNewGuard = true ∧ SafeCall scG 0 ∧ SafeCall scG 1 :=
  ⟨⟨by decide, by decide, Or.inr (by decide)⟩, rfl, Or.inl rfl, Or.inl rfl⟩

/-- The guarded run of `schedU` after 50 steps: the second call has set `_original_iterator`, the callback of batch 0 of
the first call is still parked before the lock of `_dispatch_new`. -/
def ssMid : SSt := runChoicesS scG 50 sinit (schedU.take 50)

set_option maxRecDepth 40000

example : Reachable scG ssMid := runChoicesS_reachable scG 50 sinit _ ⟨[], rfl⟩
-- the second call is running (set-up done up to `_original_iterator`), two trackers of the first call are alive
example : ssMid.k = 1 ∧ ssMid.old.length = 2 ∧ ssMid.cur.pc = .wIter0 ∧ ssMid.outs = [some (.raised (.task 1))] := by
  decide
-- `stale_steps_are_noops`: thread 1 is stale, enabled, parked before the lock of `_dispatch_new`
example : Stale ssMid 0 ∧ oldEnabled ssMid 0 = true ∧ (getOld ssMid 0).t.pc = .acqC := by
  refine ⟨⟨by decide, by decide⟩, by decide, by decide⟩
-- … and its step changes its pc only
example : (stepS scG ssMid (.thread 1)).cur = ssMid.cur ∧ (getOld (stepS scG ssMid (.thread 1)) 0).t.pc = .relA false := by
  decide
-- `next_call_is_fresh`: a reachable state at the start of the second call that is NOT `init` (junk in five fields)
def ssStart : SSt := runChoicesS scG 41 sinit (schedU.take 41)
example : ssStart.k = 1 ∧ ssStart.cur.pc = .resetAcq ∧ ssStart.cur.aborting = true ∧ ssStart.cur.exception = true ∧
    ssStart.cur.nDispTasks = 2 ∧ ssStart.cur.origAlive = true ∧ ssStart.cur.iterating = true ∧ ssStart.cur ≠ init := by
  decide
-- … and two threads of the first call that are NOT stale yet (the new call id is not drawn): `between_calls_steps_keep_fresh`
example : ssStart.old.length = 2 ∧ ¬ Stale ssStart 0 ∧ oldEnabled ssStart 0 = true := by
  refine ⟨by decide, fun h => h.2 (by decide), by decide⟩
-- `return_correct_seq` / `clean_call_returns_seq`: the clean second call after the aborted first one
example : outcomeOf (runChoicesS scG 200 sinit schedU) 1 = some (.ret (List.range 2)) := by decide
-- `error_surfaces_seq` / `raise_is_legit_seq`: the first call has a failing task
example : (∃ id ∈ (scG.calls.getD 0 default).fails, id < (scG.calls.getD 0 default).n) := ⟨1, by decide, by decide⟩
-- `no_premature_exit_seq`: the second call at a program point of the normal exit
example : ∃ n, (runChoicesS scG n sinit schedU).k = 1 ∧ (runChoicesS scG n sinit schedU).cur.pc.exiting = true :=
  ⟨95, by decide⟩

end M1LSeq
