import JoblibProofs.Lemmas.MemoryCache
/-!
# C06 — Memory serves repeated calls from cache whatever the equivalent call form

Statement (properties.jsonl): in any sequential history of calls, within one process or across
processes sharing a cache directory, once a call has completed, repeating it in any equivalent form
(positional, keyword, defaults spelled out, dict/set arguments built in another order) or with
different values for ignored parameters is served from the cache without executing the function
body again, as long as the entry has not been evicted, cleared or invalidated.
`check_call_in_cache` answers True exactly when the next identical call would not execute the
function, and every call that the plain function accepts is accepted by the cached wrapper.

Model: `JoblibModel.MemoryCache` (see C02).  A fresh process is the identity on this model: the
key is a function of the call alone and the store is on disk (the in-memory function table is
C12's model).  `step .fixed` is the code WITH fixes/F30-forced-call-checks-func-code.diff
(`MemorizedFunc.call` runs `_check_previous_func_code` before it stores), `step .old` the pinned tree,
for which `check_iff_hit` and "a completed call is served afterwards" FAIL after a forced call on a
directory without `func_code.py` (`old_forced_call_reexecuted_counterexample`,
`old_check_false_but_hit_counterexample`); the repair is small and was made, so the statements are
proved for the repaired code (`check_iff_hit` under the invariant `EntriesCoded`, which every
reachable state of the repaired code has: `reachable_entriesCoded`).

Quantifier reached: signatures of any length / kind mix, plain or `async def` functions and bound
methods, any ignore list (without repetition, naming parameters), any valuation of the values into
C08's universe, any store state, any intermediate history (any length) that does not touch the
entry; functions that do ANYTHING to their arguments in place (`Fn.effect`, arbitrary): "the same call"
means the arguments as they were PASSED (`key_from_arguments_as_passed`,
`hit_after_forced_call_mutating`; the variant keying a forced call after the body is refuted by
`key_after_call_counterexample`).

Hypotheses: `NamesOK E`; `Sortable H (embed E d)` for the two argument dicts (`sorted` is well
defined at every dict / set node — C08's `KeysStrict`; true of every real Python value unless two
keys of one container have colliding digests).  No hypothesis on `H` is needed here.

FULL STATEMENT of `key_complete`: for EVERY cached callable.  It is FALSE for `functools.partial`
objects (and every callable `filter_args` does not inspect): F20, `key_complete_nonfunction_counterexample`
— a known finding (policy).  `key_complete_partial` is the full statement for functions and bound
methods.  (Argument objects that are ALIASED inside one call are outside the model, as in C08: the
model's values have no identity.)
-/
namespace C06
open JoblibModel.FilterArgs JoblibModel.HashStream JoblibModel.MemoryCache

variable {R : Type}

/-- **Completeness of the key.**  Two calls of one function (or bound method) that Python accepts
and that bind the same Python values outside the ignore list — whatever the call form (positional,
keyword, defaults left out or spelled out), whatever the insertion order of dict / set arguments,
whatever the values of ignored parameters — are accepted by `filter_args` and get the SAME key.
Uses `C08.encode_perm_invariant` (through `stream_eq_of_canon_eq`). -/
theorem key_complete_partial (H : Bs → Bs) (E : Env) (cal : Callable) (ig : List Key) (c₁ c₂ : Call)
    (b₁ b₂ : List (Nat × Val)) (hn : NamesOK E) (hf : FuncLike cal)
    (hc₁ : CallWF c₁) (hc₂ : CallWF c₂)
    (hb₁ : bindOf cal c₁ = .ok b₁) (hb₂ : bindOf cal c₂ = .ok b₂)
    (hig : ig.Nodup) (hkeys : ∀ k ∈ ig, k ∈ (rename cal.sig b₁).map Prod.fst)
    (hs : ∀ c d, argDict cal ig c = .ok d → (c = c₁ ∨ c = c₂) → Sortable H (embed E d))
    (ha : AgreeOutside E cal.sig ig b₁ b₂) :
    ∃ k, argsId H E cal ig c₁ = .ok k ∧ argsId H E cal ig c₂ = .ok k := by
  have hkeys₂ : ∀ k ∈ ig, k ∈ (rename cal.sig b₂).map Prod.fst := by
    intro k hk
    have := hkeys k hk
    simp only [rename, List.map_map] at this ⊢
    have e : ∀ b : List (Nat × Val), List.map (Prod.fst ∘ fun e => (keyOf cal.sig e.1, e.2)) b =
        (b.map Prod.fst).map (keyOf cal.sig) := fun b => by simp [List.map_map, Function.comp_def]
    rw [e] at this ⊢
    rw [← ha.1]; exact this
  obtain ⟨d₁, hd₁⟩ := argDict_ok hf hc₁ hb₁ hig hkeys
  obtain ⟨d₂, hd₂⟩ := argDict_ok hf hc₂ hb₂ hig hkeys₂
  have := stream_eq_of_agree hn hf hc₁ hc₂ hd₁ hd₂ hb₁ hb₂ (hs c₁ d₁ hd₁ (.inl rfl))
    (hs c₂ d₂ hd₂ (.inr rfl)) ha
  exact ⟨H (stream H E d₁), by simp [argsId, hd₁], by simp [argsId, hd₂, this]⟩

/-- **F20 — the full statement is false for `functools.partial` objects.**  `def g(a, b=5)`,
`pg = memory.cache(functools.partial(g, 1))`: `pg(2)` and `pg(b=2)` bind the same arguments
(`a=1, b=2`) but are hashed to different streams (`{'*': [2], '**': {}}` against
`{'*': [], '**': {'b': 2}}`), whatever the digest: two entries, the body runs twice. -/
theorem key_complete_nonfunction_counterexample (H : Bs → Bs) :
    let cal : Callable := .part [⟨0, .posKw, none⟩, ⟨1, .posKw, some 5⟩] [1] []
    bindOf cal ⟨[2], []⟩ = .ok [(0, .one 1), (1, .one 2)] ∧
    bindOf cal ⟨[], [(1, 2)]⟩ = .ok [(0, .one 1), (1, .one 2)] ∧
    ∃ d₁ d₂, argDict cal [] ⟨[2], []⟩ = .ok d₁ ∧ argDict cal [] ⟨[], [(1, 2)]⟩ = .ok d₂ ∧
      stream H envEx d₁ ≠ stream H envEx d₂ := by
  refine ⟨by decide, by decide, _, _, rfl, rfl, ?_⟩
  have h1 : stream H envEx [(.star, .seq [2]), (.dstar, .map [])] =
      [128, 3, 125, 113, 0, 40, 88, 1, 0, 0, 0, 42, 93, 113, 1, 75, 2, 97, 88, 2, 0, 0, 0, 42, 42, 125,
        113, 2, 117, 46] := rfl
  have h2 : stream H envEx [(.star, .seq []), (.dstar, .map [(1, 2)])] =
      [128, 3, 125, 113, 0, 40, 88, 1, 0, 0, 0, 42, 93, 113, 1, 88, 2, 0, 0, 0, 42, 42, 125, 113, 2,
        88, 1, 0, 0, 0, 98, 75, 2, 115, 117, 46] := rfl
  rw [h1, h2]; decide

/-- **A completed call is served from the cache afterwards.**  From any state of the cache
directory: if the call `fn(c₁)` completes (returns a value, whether executed or not), then after ANY
history `mid` of operations that do not evict, clear or invalidate its entry (`Untouched`: other
calls, shelved gets, forced calls, checks, fresh processes, evictions / clears of other entries), a
call `fn(c₂)` with the same key is NOT executed — it returns a stored value and leaves the
directory as it is.  (Either version of the code.) -/
theorem hit_after_call (ver : JoblibModel.MemoryCache.Version) (H : Bs → Bs) (E : Env) (st : St R)
    (fn : Fn R) (c₁ c₂ : Call) (cb : Bool) (k : Bs) (v : R) (x : Bool) (mid : List (Op R))
    (hk₁ : argsId H E fn.cal fn.ig c₁ = .ok k) (hk₂ : argsId H E fn.cal fn.ig c₂ = .ok k)
    (hdone : (step ver H E st (.call fn c₁ cb)).1 = .value v x)
    (hmid : ∀ op ∈ mid, Untouched H E (fn.fid, k) op) :
    ∃ v', step ver H E (exec ver H E (step ver H E st (.call fn c₁ cb)).2 mid) (.call fn c₂ true) =
      (.value v' false, exec ver H E (step ver H E st (.call fn c₁ cb)).2 mid) := by
  have h := present_exec (ver := ver) mid (present_after_call hk₁ hdone) hmid
  cases hv : dget (fn.fid, k) (exec ver H E (step ver H E st (.call fn c₁ cb)).2 mid).entries with
  | none => have := h.2; rw [hv] at this; cases this
  | some v' => exact ⟨v', call_hit hk₂ h.1 hv⟩

/-- The two together: after a completed call, any EQUIVALENT call — another call form, dict / set
arguments built in another order, other values for ignored parameters — is served from the cache
until the entry is evicted, cleared or invalidated. -/
theorem hit_after_equivalent_call_partial (ver : JoblibModel.MemoryCache.Version) (H : Bs → Bs) (E : Env)
    (st : St R) (fn : Fn R)
    (c₁ c₂ : Call) (b₁ b₂ : List (Nat × Val)) (cb : Bool) (v : R) (x : Bool) (mid : List (Op R))
    (hn : NamesOK E) (hf : FuncLike fn.cal) (hc₁ : CallWF c₁) (hc₂ : CallWF c₂)
    (hb₁ : bindOf fn.cal c₁ = .ok b₁) (hb₂ : bindOf fn.cal c₂ = .ok b₂)
    (hig : fn.ig.Nodup) (hkeys : ∀ k ∈ fn.ig, k ∈ (rename fn.cal.sig b₁).map Prod.fst)
    (hs : ∀ c d, argDict fn.cal fn.ig c = .ok d → (c = c₁ ∨ c = c₂) → Sortable H (embed E d))
    (ha : AgreeOutside E fn.cal.sig fn.ig b₁ b₂)
    (hdone : (step ver H E st (.call fn c₁ cb)).1 = .value v x) :
    ∃ k, argsId H E fn.cal fn.ig c₁ = .ok k ∧
      ((∀ op ∈ mid, Untouched H E (fn.fid, k) op) →
        ∃ v', step ver H E (exec ver H E (step ver H E st (.call fn c₁ cb)).2 mid) (.call fn c₂ true) =
          (.value v' false, exec ver H E (step ver H E st (.call fn c₁ cb)).2 mid)) := by
  obtain ⟨k, hk₁, hk₂⟩ := key_complete_partial H E fn.cal fn.ig c₁ c₂ b₁ b₂ hn hf hc₁ hc₂ hb₁ hb₂
    hig hkeys hs ha
  exact ⟨k, hk₁, fun hmid => hit_after_call ver H E st fn c₁ c₂ cb k v x mid hk₁ hk₂ hdone hmid⟩

/-- Every state the REPAIRED code reaches from an empty cache directory keeps every entry beside
its function's `func_code.py` (`EntriesCoded`) — the invariant `check_iff_hit` needs. -/
theorem reachable_entriesCoded (H : Bs → Bs) (E : Env) (ops : List (Op R)) :
    EntriesCoded (exec .fixed H E (St.empty : St R) ops) :=
  entriesCoded_exec ops _ entriesCoded_empty

/-- **`check_call_in_cache` answers True exactly when the next identical call would not execute.**
For a call `filter_args` accepts (key `k`), in a state of the cache directory where every entry lies
beside its `func_code.py` (`EntriesCoded`: every state the repaired code reaches), with the
validation callback answering `cb` both times:
* the check returns the hit test `_is_in_cache_and_valid` of the call, and its ONLY side effects are
  that test's: a missing `func_code.py` is written, an entry the validation callback rejects is
  deleted (`clear_item`);
* answer `True`  ⇒ the directory is unchanged and the identical call — before or after the check —
  returns the stored value without executing the function;
* answer `False` ⇒ the identical call — before or after the check — is not a cache hit (it executes
  the function, or raises what the function raises). -/
theorem check_iff_hit (ver : JoblibModel.MemoryCache.Version) (H : Bs → Bs) (E : Env) (st : St R)
    (hec : EntriesCoded st) (fn : Fn R) (c : Call) (cb : Bool) (k : Bs)
    (hk : argsId H E fn.cal fn.ig c = .ok k) :
    ∃ b st', step ver H E st (.check fn c cb) = (.flag b, st') ∧
      (st' = st ∨ (cb = false ∧ st' = { st with entries := dpop (fn.fid, k) st.entries }) ∨
        (fn.fid ∉ st.coded ∧ st' = { st with coded := fn.fid :: st.coded })) ∧
      (b = true → st' = st ∧ ∃ v, step ver H E st (.call fn c cb) = (.value v false, st)) ∧
      (b = false → ∀ v, (step ver H E st (.call fn c cb)).1 ≠ .value v false ∧
        (step ver H E st' (.call fn c cb)).1 ≠ .value v false) := by
  refine ⟨_, _, check_spec st fn c cb hk, ?_, ?_, ?_⟩
  · by_cases hc : fn.fid ∈ st.coded
    · rw [iic_of_coded (id := (fn.fid, k)) cb hc]
      cases dget (fn.fid, k) st.entries with
      | none => exact .inl rfl
      | some r => cases cb <;> simp
    · rw [iic_of_not_coded (id := (fn.fid, k)) cb hc]
      exact .inr (.inr ⟨hc, rfl⟩)
  · intro hb
    cases hi : (isInCacheAndValid st (fn.fid, k) cb).1 with
    | none => rw [hi] at hb; cases hb
    | some v =>
      obtain ⟨h1, h2, h3, h4⟩ := iic_some hi
      subst h3
      exact ⟨h1, v, call_hit hk h4 h2⟩
  · intro hb v
    have hi : (isInCacheAndValid st (fn.fid, k) cb).1 = none := by
      cases h : (isInCacheAndValid st (fn.fid, k) cb).1 with
      | none => rfl
      | some r => rw [h] at hb; cases hb
    exact ⟨call_not_hit hk hi v, call_not_hit hk (iic_none_again hec hi) v⟩

/-- **A forced call is served afterwards too** (repaired code, F30): after `MemorizedFunc.call`
returned, the identical cached call does not execute the function. -/
theorem hit_after_forced_call (H : Bs → Bs) (E : Env) (st : St R) (fn : Fn R) (c : Call) (k : Bs)
    (v : R) (x : Bool) (hk : argsId H E fn.cal fn.ig c = .ok k)
    (hdone : (step .fixed H E st (.force fn c)).1 = .value v x) :
    step .fixed H E (step .fixed H E st (.force fn c)).2 (.call fn c true) =
      (.value v false, (step .fixed H E st (.force fn c)).2) := by
  simp only [JoblibModel.MemoryCache.step, hk, beforeForce] at hdone ⊢
  cases hb : bindOf fn.cal c with
  | error e => simp [compute, hb] at hdone
  | ok b =>
    simp only [compute, afterCall, hb] at hdone ⊢
    cases hdone
    have hk' : argsId H E fn.cal fn.ig c = .ok k := hk
    refine call_hit (ver := .fixed) hk' (checkCode_coded_self st fn.fid) ?_
    show dget (fn.fid, k) (dset (fn.fid, k) (fn.body b) _) = some (fn.body b)
    rw [dget_dset_self]

/-! ### F30 — the pinned tree: `MemorizedFunc.call` stores without checking the function code -/

/-- one parameter, returns its bound arguments -/
def fnF30 : Fn (List (Nat × Val)) := ⟨0, .func [⟨0, .posKw, none⟩], [], fun b => b, fun c => c⟩

/-- F30 (pinned tree): on a fresh cache directory `cf.call(1)` stores its result without writing
`func_code.py`; the next `cf(1)` finds no `func_code.py`, so it does not look at the entry and
EXECUTES the function again. -/
theorem old_forced_call_reexecuted_counterexample (H : Bs → Bs) :
    run .old H envEx St.empty [.force fnF30 ⟨[1], []⟩, .call fnF30 ⟨[1], []⟩ true] =
      [.value [(0, .one 1)] true, .value [(0, .one 1)] true] := by
  have h1 : argDict fnF30.cal fnF30.ig ⟨[1], []⟩ = .ok [(.name 0, .one 1)] := by decide
  have b1 : bindOf fnF30.cal ⟨[1], []⟩ = .ok [(0, .one 1)] := by decide
  simp only [run, JoblibModel.MemoryCache.step, argsId, h1, beforeForce, compute, afterCall, b1, cachedCall,
    isInCacheAndValid, checkCode, St.empty]
  simp [fnF30]

/-- F30, second shape (pinned tree): after `cf.call(1)`, `check_call_in_cache(1)` answers `False`
(no `func_code.py`) — and writes it, so that the next identical call IS served from the cache: the
check said "would execute", the call does not. -/
theorem old_check_false_but_hit_counterexample (H : Bs → Bs) :
    run .old H envEx St.empty
        [.force fnF30 ⟨[1], []⟩, .check fnF30 ⟨[1], []⟩ true, .call fnF30 ⟨[1], []⟩ true] =
      [.value [(0, .one 1)] true, .flag false, .value [(0, .one 1)] false] := by
  have h1 : argDict fnF30.cal fnF30.ig ⟨[1], []⟩ = .ok [(.name 0, .one 1)] := by decide
  have b1 : bindOf fnF30.cal ⟨[1], []⟩ = .ok [(0, .one 1)] := by decide
  simp only [run, JoblibModel.MemoryCache.step, argsId, h1, beforeForce, compute, afterCall, b1, cachedCall,
    isInCacheAndValid, checkCode, St.empty]
  simp [fnF30, dget, dset]

/-- The repaired code on the same two histories. -/
theorem fixed_on_the_F30_witnesses (H : Bs → Bs) :
    run .fixed H envEx St.empty [.force fnF30 ⟨[1], []⟩, .call fnF30 ⟨[1], []⟩ true] =
      [.value [(0, .one 1)] true, .value [(0, .one 1)] false] ∧
    run .fixed H envEx St.empty
        [.force fnF30 ⟨[1], []⟩, .check fnF30 ⟨[1], []⟩ true, .call fnF30 ⟨[1], []⟩ true] =
      [.value [(0, .one 1)] true, .flag true, .value [(0, .one 1)] false] := by
  have h1 : argDict fnF30.cal fnF30.ig ⟨[1], []⟩ = .ok [(.name 0, .one 1)] := by decide
  have b1 : bindOf fnF30.cal ⟨[1], []⟩ = .ok [(0, .one 1)] := by decide
  constructor <;>
  · simp only [run, JoblibModel.MemoryCache.step, argsId, h1, beforeForce, compute, afterCall, b1, cachedCall,
      isInCacheAndValid, checkCode, St.empty]
    simp [fnF30, dget, dset]

/-- **The wrapper accepts what the function accepts** (lift of `C07.wrapper_accepts`, bound methods
included): a call Python accepts, made through the cached wrapper of a function or method whose
ignore list names parameters of the function without repetition, returns a value — it raises
neither from `filter_args` nor from the binding — from any store and whatever the callback says. -/
theorem wrapper_accepts (ver : JoblibModel.MemoryCache.Version) (H : Bs → Bs) (E : Env) (st : St R)
    (fn : Fn R) (c : Call) (cb : Bool)
    (b : List (Nat × Val)) (hf : FuncLike fn.cal) (hc : CallWF c) (hb : bindOf fn.cal c = .ok b)
    (hig : fn.ig.Nodup) (hkeys : ∀ k ∈ fn.ig, k ∈ (rename fn.cal.sig b).map Prod.fst) :
    ∃ v x, (step ver H E st (.call fn c cb)).1 = .value v x := by
  obtain ⟨d, hd⟩ := argDict_ok hf hc hb hig hkeys
  simp only [JoblibModel.MemoryCache.step, cachedCall, argsId, hd]
  cases (isInCacheAndValid st (fn.fid, H (stream H E d)) cb).1 with
  | some v => exact ⟨v, false, rfl⟩
  | none => simp only [compute, afterCall, hb]; exact ⟨_, true, rfl⟩

/-- The same for `functools.partial` objects: `filter_args` never rejects their calls. -/
theorem wrapper_accepts_nonfunction (ver : JoblibModel.MemoryCache.Version) (H : Bs → Bs) (E : Env)
    (st : St R) (fid : Nat) (s : Sig)
    (pa : List Nat) (pk : List (Nat × Nat)) (ig : List Key) (body : List (Nat × Val) → R)
    (eff : Call → Call) (c : Call)
    (cb : Bool) (b : List (Nat × Val)) (hb : bindOf (.part s pa pk) c = .ok b) :
    ∃ v x, (step ver H E st (.call ⟨fid, .part s pa pk, ig, body, eff⟩ c cb)).1 = .value v x := by
  simp only [JoblibModel.MemoryCache.step, cachedCall, argsId, argDict]
  cases (isInCacheAndValid st (fid, H (stream H E [(.star, .seq c.args), (.dstar, .map c.kwargs)])) cb).1 with
  | some v => exact ⟨v, false, rfl⟩
  | none => simp only [compute, afterCall, hb]; exact ⟨_, true, rfl⟩

/-! ## Functions that MUTATE their arguments

A cached function may work in place on the objects it is given (sort a list, pop from a dict):
`Fn.effect` says what the `args` / `kwargs` objects hold once the body has run.  The code computes
every key BEFORE the body runs and hands it down (`_call(call_id, …)` → `_after_call(call_id, …)`), so
`fn.effect` is arbitrary in every theorem of this file; the three below say it explicitly.  The
variant that computes the key of a forced call AFTER the body (`Cfg.keyAfterCall`, seeded change
C06-r4-m3) breaks all of them: `key_after_call_counterexample`. -/

/-- **Every entry is filed under the key of the arguments AS PASSED.**  For every history (either
version of the code, any functions — whatever they do to their arguments — any store to start
from): every key of the cache directory afterwards was there at the start, or is (function id, args id
of the arguments AS PASSED) of one of the history's calls: `__call__`, `call_and_shelve`, the forced
`call` — no path files a result under anything else. -/
theorem key_from_arguments_as_passed (ver : JoblibModel.MemoryCache.Version) (H : Bs → Bs) (E : Env)
    (st : St R) (ops : List (Op R)) (id : Nat × Bs)
    (h : id ∈ (exec ver H E st ops).entries.map Prod.fst) :
    id ∈ st.entries.map Prod.fst ∨
      ∃ fn c, (fn, c) ∈ callsOf ops ∧ id.1 = fn.fid ∧ argsId H E fn.cal fn.ig c = .ok id.2 := by
  rcases mem_keys_exec ops h with h | ⟨op, hop, fn, c, hc, h1, h2⟩
  · exact .inl h
  · exact .inr ⟨fn, c, List.mem_filterMap.mpr ⟨op, hop, hc⟩, h1, h2⟩

/-- **After a forced call of a function that mutates its arguments, the call with the arguments AS
PASSED is served** (repaired code).  `cf.call(x)` returned; then ANY history `mid` that does not evict,
clear or invalidate the entry; then a call `c₂` with the key of `c₁` — the arguments equal to `x` as
they were PASSED, in any equivalent form (`hit_after_forced_call_mutating_equivalent_partial`):
the call is NOT executed and leaves the directory as it is, and `check_call_in_cache` answers `True`.
`fn.effect` (what the body did to `x`) is arbitrary.  (For `cf(x)` first instead of `cf.call(x)`:
`hit_after_call`, `check_true_after_call`.) -/
theorem hit_after_forced_call_mutating (H : Bs → Bs) (E : Env) (st : St R) (fn : Fn R) (c₁ c₂ : Call)
    (k : Bs) (v : R) (x : Bool) (mid : List (Op R))
    (hk₁ : argsId H E fn.cal fn.ig c₁ = .ok k) (hk₂ : argsId H E fn.cal fn.ig c₂ = .ok k)
    (hdone : (step .fixed H E st (.force fn c₁)).1 = .value v x)
    (hmid : ∀ op ∈ mid, Untouched H E (fn.fid, k) op) :
    ∃ v', step .fixed H E (exec .fixed H E (step .fixed H E st (.force fn c₁)).2 mid) (.call fn c₂ true) =
        (.value v' false, exec .fixed H E (step .fixed H E st (.force fn c₁)).2 mid) ∧
      step .fixed H E (exec .fixed H E (step .fixed H E st (.force fn c₁)).2 mid) (.check fn c₂ true) =
        (.flag true, exec .fixed H E (step .fixed H E st (.force fn c₁)).2 mid) :=
  served_of_present hk₂ (present_exec (ver := .fixed) mid (present_after_force hk₁ hdone) hmid)

/-- The same after a completed `cf(x)` (either version of the code): `check_call_in_cache` on the
arguments as passed answers `True` (the hit itself is `hit_after_call`). -/
theorem check_true_after_call (ver : JoblibModel.MemoryCache.Version) (H : Bs → Bs) (E : Env) (st : St R)
    (fn : Fn R) (c₁ c₂ : Call) (cb : Bool) (k : Bs) (v : R) (x : Bool) (mid : List (Op R))
    (hk₁ : argsId H E fn.cal fn.ig c₁ = .ok k) (hk₂ : argsId H E fn.cal fn.ig c₂ = .ok k)
    (hdone : (step ver H E st (.call fn c₁ cb)).1 = .value v x)
    (hmid : ∀ op ∈ mid, Untouched H E (fn.fid, k) op) :
    step ver H E (exec ver H E (step ver H E st (.call fn c₁ cb)).2 mid) (.check fn c₂ true) =
      (.flag true, exec ver H E (step ver H E st (.call fn c₁ cb)).2 mid) := by
  obtain ⟨_, _, h⟩ := served_of_present (ver := ver) hk₂
    (present_exec (ver := ver) mid (present_after_call hk₁ hdone) hmid)
  exact h

/-- … with "the arguments equal to `x` AS PASSED" spelled out: `c₂` is any call Python accepts that
binds, outside the ignore list, the same Python values as `c₁` did when it was made (`AgreeOutside` of
the bound arguments as passed — another call form, dict / set arguments built in another order, other
values for ignored parameters; what the body did to them afterwards plays no role). -/
theorem hit_after_forced_call_mutating_equivalent_partial (H : Bs → Bs) (E : Env) (st : St R) (fn : Fn R)
    (c₁ c₂ : Call) (b₁ b₂ : List (Nat × Val)) (v : R) (x : Bool) (mid : List (Op R))
    (hn : NamesOK E) (hf : FuncLike fn.cal) (hc₁ : CallWF c₁) (hc₂ : CallWF c₂)
    (hb₁ : bindOf fn.cal c₁ = .ok b₁) (hb₂ : bindOf fn.cal c₂ = .ok b₂)
    (hig : fn.ig.Nodup) (hkeys : ∀ k ∈ fn.ig, k ∈ (rename fn.cal.sig b₁).map Prod.fst)
    (hs : ∀ c d, argDict fn.cal fn.ig c = .ok d → (c = c₁ ∨ c = c₂) → Sortable H (embed E d))
    (ha : AgreeOutside E fn.cal.sig fn.ig b₁ b₂)
    (hdone : (step .fixed H E st (.force fn c₁)).1 = .value v x) :
    ∃ k, argsId H E fn.cal fn.ig c₁ = .ok k ∧
      ((∀ op ∈ mid, Untouched H E (fn.fid, k) op) →
        ∃ v', step .fixed H E (exec .fixed H E (step .fixed H E st (.force fn c₁)).2 mid) (.call fn c₂ true) =
            (.value v' false, exec .fixed H E (step .fixed H E st (.force fn c₁)).2 mid) ∧
          step .fixed H E (exec .fixed H E (step .fixed H E st (.force fn c₁)).2 mid) (.check fn c₂ true) =
            (.flag true, exec .fixed H E (step .fixed H E st (.force fn c₁)).2 mid)) := by
  obtain ⟨k, hk₁, hk₂⟩ := key_complete_partial H E fn.cal fn.ig c₁ c₂ b₁ b₂ hn hf hc₁ hc₂ hb₁ hb₂
    hig hkeys hs ha
  exact ⟨k, hk₁, fun hmid => hit_after_forced_call_mutating H E st fn c₁ c₂ k v x mid hk₁ hk₂ hdone hmid⟩

/-- **The variant that computes the key of a forced call AFTER the body is wrong** (`Cfg.keyAfterCall`,
seeded change C06-r4-m3; `fnSort` returns its list argument as passed and sorts it in place, `envMut`:
value 0 = `[3, 1, 2]`, value 1 = `[1, 2, 3]`; an injective digest).  `cf.call([3, 1, 2])`; then
`check_call_in_cache([3, 1, 2])` is `False`; `check_call_in_cache([1, 2, 3])` — a call never made — is
`True`; `cf([1, 2, 3])` is served the result of ANOTHER call (`[3, 1, 2]`: C02); `cf([3, 1, 2])` EXECUTES
AGAIN.  The code as it is, on the same history: `True`, `False`, executed with its own result, served. -/
theorem key_after_call_counterexample :
    runC ⟨.fixed, true⟩ hId envMut St.empty
        [.force fnSort ⟨[0], []⟩, .check fnSort ⟨[0], []⟩ true, .check fnSort ⟨[1], []⟩ true,
          .call fnSort ⟨[1], []⟩ true, .call fnSort ⟨[0], []⟩ true] =
      [.value [(0, .one 0)] true, .flag false, .flag true, .value [(0, .one 0)] false,
        .value [(0, .one 0)] true] ∧
    run .fixed hId envMut St.empty
        [.force fnSort ⟨[0], []⟩, .check fnSort ⟨[0], []⟩ true, .check fnSort ⟨[1], []⟩ true,
          .call fnSort ⟨[1], []⟩ true, .call fnSort ⟨[0], []⟩ true] =
      [.value [(0, .one 0)] true, .flag true, .flag false, .value [(0, .one 1)] true,
        .value [(0, .one 0)] false] ∧
    fnSort.effect ⟨[0], []⟩ = ⟨[1], []⟩ ∧ envMut.val 0 ≠ envMut.val 1 := by
  refine ⟨by decide +kernel, by decide +kernel, by decide +kernel, ?_⟩
  simp [envMut]

/-! ### Partially ordered dict keys / set elements (seeded change seed5-C06-m1)

`<` on frozensets is set inclusion — a PARTIAL order: `sorted()` of frozensets, or of tuples holding them,
does not raise and does not order them either; its result follows the order of its input, so a digest
computed from it would follow the INSERTION ORDER of the dict / set.  The code keeps such keys away from
`sorted()` (`hashing._holds_frozenset`, through tuples at any depth) and sorts their digests instead. -/

/-- **`sorted()` is applied to totally ordered key lists only.**  When the encoder sorts the keys of a
dict / the elements of a set themselves (`orderable .fixed keys`), no key is a frozenset or a tuple
holding one at any depth, and EVERY pair of keys is decided by Python's `<` / `==` (`pyCmp` answers;
NaN, which compares False both ways, is not).  Every other key list goes through the digests of its keys:
`keysOf` / `itemsOf` hand `sorted()` the `str` digests (`topOf`), which are totally ordered.
FULL: every key list. -/
theorem sorted_only_on_totally_ordered_keys (H : Bs → Bs) (e : PyVal → Memo → Bs × Memo) (keys : List PyVal) :
    (orderable .fixed keys = true →
      (∀ k ∈ keys, holdsFrozenset k = false) ∧ keys.Pairwise (fun a b => (pyCmp a b).isSome = true)) ∧
    ((∃ k ∈ keys, holdsFrozenset k = true) →
      keysOf H .fixed e keys = keys.map (topOf H e) ∧
        ∀ items : List (PyVal × PyVal), items.map Prod.fst = keys →
          itemsOf H .fixed e items = items.map fun kv => (topOf H e kv.1, kv.2)) := by
  constructor
  · intro h
    simp only [orderable, Bool.and_eq_true, Bool.or_eq_true, decide_eq_true_eq, Bool.not_eq_true',
      List.any_eq_false, reduceCtorEq, false_or] at h
    exact ⟨fun k hk => by simpa using h.1 k hk, allPairs_pairwise _ keys h.2⟩
  · rintro ⟨k, hk, hz⟩
    have hno : orderable .fixed keys = false := by
      simp only [orderable, Bool.and_eq_false_iff, Bool.or_eq_false_iff, decide_eq_false_iff_not,
        Bool.not_eq_false', List.any_eq_true]
      exact .inl ⟨by decide, k, hk, hz⟩
    refine ⟨by simp [keysOf, hno], fun items hi => ?_⟩
    simp [itemsOf, hi, hno]

/-- **An equal dict with partially ordered keys, built in another insertion order, is served.**  `envPO`:
value 0 = `{(1, frozenset({1,2})): 'a', (1, frozenset({2,3})): 'b', (1, frozenset({3})): 'c'}`, value 1 = the
same dict built in the reverse order, value 2 = another dict (two values swapped); injective digest.
`cf(d0)`; `check_call_in_cache(d1)` is True; `cf(d1)` and `cf(a=d1)` are served; `cf(d2)` executes.  And the
keys of these dicts are NOT handed to `sorted()` (`orderable` is false of them). -/
theorem reordered_partially_ordered_keys_witness :
    run .fixed hId envPO St.empty
        [.call fnOne ⟨[0], []⟩ true, .check fnOne ⟨[1], []⟩ true, .call fnOne ⟨[1], []⟩ true,
          .call fnOne ⟨[], [(0, 1)]⟩ true, .call fnOne ⟨[2], []⟩ true] =
      [.value [(0, .one 0)] true, .flag true, .value [(0, .one 0)] false, .value [(0, .one 0)] false,
        .value [(0, .one 2)] true] ∧
    envPO.val 0 ≠ envPO.val 1 ∧
    orderable .fixed [.tuple [.int 1, .frozenset [.int 1, .int 2]], .tuple [.int 1, .frozenset [.int 2, .int 3]],
      .tuple [.int 1, .frozenset [.int 3]]] = false := by
  refine ⟨by decide +kernel, ?_, by decide +kernel⟩
  simp [envPO]

/-! ## Non-vacuity

`envEx`, `fnEx` (`def f(a, b=5, *args, **kw)`, `ignore=['b']`): `f(7)` and `f(8, 2)` — value 8 is the
dict of value 7 built in the other insertion order, `b` is ignored — satisfy the hypotheses of
`key_complete_partial` and indeed get one key. -/

example : CallWF ⟨[7], []⟩ ∧ CallWF ⟨[8, 2], []⟩ ∧ FuncLike fnEx.cal ∧ fnEx.ig.Nodup := by
  refine ⟨by decide, by decide, .func (by decide), by decide⟩

example : bindOf fnEx.cal ⟨[7], []⟩ = .ok [(0, .one 7), (1, .one 5), (2, .seq []), (3, .map [])] ∧
    bindOf fnEx.cal ⟨[8, 2], []⟩ = .ok [(0, .one 8), (1, .one 2), (2, .seq []), (3, .map [])] := by
  decide

example : AgreeOutside envEx fnEx.cal.sig fnEx.ig
    [(0, .one 7), (1, .one 5), (2, .seq []), (3, .map [])]
    [(0, .one 8), (1, .one 2), (2, .seq []), (3, .map [])] := by
  refine ⟨rfl, fun n w₁ w₂ hk m₁ m₂ => ?_⟩
  simp at m₁ m₂
  rcases m₁ with ⟨rfl, rfl⟩ | ⟨rfl, rfl⟩ | ⟨rfl, rfl⟩ | ⟨rfl, rfl⟩
  · rcases m₂ with ⟨_, rfl⟩ | ⟨h, _⟩ | ⟨h, _⟩ | ⟨h, _⟩ <;> first | rfl | (exfalso; omega)
  · exact absurd (by decide) hk
  · rcases m₂ with ⟨h, _⟩ | ⟨h, _⟩ | ⟨_, rfl⟩ | ⟨h, _⟩ <;> first | rfl | (exfalso; omega)
  · rcases m₂ with ⟨h, _⟩ | ⟨h, _⟩ | ⟨h, _⟩ | ⟨_, rfl⟩ <;> first | rfl | (exfalso; omega)

set_option maxRecDepth 8000 in
example : Sortable hEx (embed envEx [(.name 0, .one 7), (.dstar, .map []), (.star, .seq [])]) ∧
    Sortable hEx (embed envEx [(.name 0, .one 8), (.dstar, .map []), (.star, .seq [])]) := by
  constructor <;>
  · simp [Sortable, KeysStrict, embed, keyVal, embedVal, envEx, depth, depthItems, depthList, itemsOf,
      keysOf, orderable, allPairs, holdsFrozenset, StrictOn, StrictPair, or_imp, forall_and, and_imp]
    decide +kernel

example : argsId hEx envEx fnEx.cal fnEx.ig ⟨[7], []⟩ = argsId hEx envEx fnEx.cal fnEx.ig ⟨[8, 2], []⟩ := by
  decide +kernel

end C06
