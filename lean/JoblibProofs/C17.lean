import JoblibProofs.Lemmas.Config
/-!
# C17 — parallel_config settings are scoped, thread-local and correctly prioritised

Statement (properties.jsonl): settings made with `parallel_config` / `parallel_backend` apply exactly
within their `with` block in the thread that entered it: on exit — normal or by exception, at any
nesting depth — the previous settings are back, and other threads never observe them. For every
setting a value passed explicitly to `Parallel` wins over the innermost enclosing context, which
wins over outer contexts, which win over the defaults; `require='sharedmem'` always yields a
thread-based backend and `prefer` is only a hint that an explicitly chosen backend overrides.

Quantifier reached here: program trees of ANY depth and width (the statement asks depth ≤ 4), and
GENERAL programs (`XProg`: `with` blocks plus context objects made by plain calls, `unregister()` on
any object at any time in any order any number of times, raising bodies); any number of threads
under ANY interleaving of their steps, threads started at any point in any of three ways
(`threading.Thread`, a thread in a copied `contextvars` context, `asyncio.to_thread`); all eight keys, arbitrary values
(`None`, integers, strings, backend instances of the four classes with or without a nesting level),
every combination of explicit `Parallel` arguments, any defaults table and any `DEFAULT_BACKEND`.

Model: `JoblibModel.Config`. It is the code of the pinned tree with two one-line repairs:
* F21 — `Parallel.__init__` tested the RAW `require` argument, so a `require='sharedmem'` coming
  from a context did not stop an explicitly named process backend (`sharedmem_unrepaired_counterexample`);
* F22 — `_get_active_backend` replaced the context's `n_jobs` by 1 in every thread fallback, also
  when the context had not chosen any backend (`n_jobs_unrepaired_counterexample`).
Three variants of the code that the property excludes are switches of the model (`Variant`), each
with a witness: `guarded_unregister_counterexample`, `context_var_counterexample`,
`gab_literal_defaults_counterexample`. All other theorems are about `Variant.code`.
What remains partial after the repairs (policy pinned by joblib's own test-suite, listed as a known
finding): when the backend chosen *in a context* is replaced by the thread fallback because of
`require='sharedmem'`, the context's `n_jobs` is replaced by 1 (`precedence_n_jobs_partial`,
`n_jobs_when_context_backend_replaced`, `n_jobs_fallback_counterexample`).
-/
namespace C17
open JoblibModel.Config

/-! ## Scoping -/

/-- `exit_restores`. After running ANY program tree — blocks nested to any depth, any number of
blocks in sequence, bodies that return or raise, exceptions caught at any level or not at all, blocks
whose constructor itself raises — the thread's configuration is the one it had before. By structural
induction on the tree. -/
theorem exit_restores (p : Prog) (c : Config) : (run p c).cfg = c := by
  induction p generalizing c with
  | done => rfl
  | par e k ih => simpa [run] using ih c
  | gab p q v k ih => simpa [run] using ih c
  | block args body k ihb ihk =>
    simp only [run]
    cases h : parallelConfigInit c args with
    | error e => rfl
    | ok r =>
      obtain ⟨cm, c'⟩ := r
      have hold : unregister cm = c := (parallelConfigInit_ok h).1
      simp only []
      split
      · exact hold
      · rw [hold]; exact ihk c
  | raise => rfl
  | try_ body k ihb ihk =>
    simp only [run]
    rw [ihb c]; exact ihk c

/-- The same fact for a single block inside a larger program: whatever the body does, the code after
the block (`k`) starts in the configuration the block was entered from, and an exception leaving
the block leaves that configuration behind. -/
theorem exit_restores_block (args : Config) (body k : Prog) (c : Config) (cm : Ctx) (c' : Config)
    (h : parallelConfigInit c args = .ok (cm, c')) :
    (run (.block args body k) c).cfg = c ∧
    (run (.block args body k) c).raised =
      (if (run body c').raised then true else (run k c).raised) := by
  refine ⟨exit_restores _ _, ?_⟩
  have hold : unregister cm = c := (parallelConfigInit_ok h).1
  simp only [run, h]
  split
  · rfl
  · rw [hold]

/-- The tree semantics and the step machine agree: replaying the steps a program executed, from ANY
thread state (any configuration, any stack of outer blocks, any objects made earlier), ends in
the configuration `run` computes with the same stack of outer blocks — hence (with `exit_restores`)
in the configuration it started from. -/
theorem run_ops (env : Env) (p : Prog) (s : TState) :
    (runThread env s (run p s.cfg).ops).1.cfg = (run p s.cfg).cfg ∧
    (runThread env s (run p s.cfg).ops).1.stack = s.stack := by
  induction p generalizing s with
  | done => exact ⟨rfl, rfl⟩
  | par e k ih => simp only [run, runThread_cons]; exact ih s
  | gab p q v k ih => simp only [run, runThread_cons]; exact ih s
  | block args body k ihb ihk =>
    simp only [run]
    cases h : parallelConfigInit s.cfg args with
    | error e =>
      have hs : (step env s (.enter args)).1 = s := by simp only [step, stepV, createObj_error h]
      rw [runThread_cons, runThread_nil, hs]
      exact ⟨rfl, rfl⟩
    | ok r =>
      obtain ⟨cm, c'⟩ := r
      have hold : unregister cm = s.cfg := (parallelConfigInit_ok h).1
      have hst := step_enter_ok env h
      obtain ⟨hb1, hb2⟩ := ihb (step env s (.enter args)).1
      rw [hst] at hb1 hb2
      dsimp only at hb1 hb2
      simp only []
      split
      · dsimp only
        rw [List.cons_append, runThread_cons, runThread_append, runThread_cons, runThread_nil, hst]
        rw [step_exit_cons env hb2]
        exact ⟨rfl, rfl⟩
      · dsimp only
        rw [List.cons_append, runThread_cons, runThread_append, runThread_cons, hst]
        rw [step_exit_cons env hb2]
        have := ihk { (runThread env ⟨c', ⟨s.objs.length, cm, s.cur⟩ :: s.stack,
            s.objs ++ [⟨s.objs.length, cm, s.cur⟩], some s.objs.length⟩ (run body c').ops).1 with
              stack := s.stack, cfg := cm.old_parallel_config, cur := s.cur }
        simp only [] at this
        rw [show cm.old_parallel_config = unregister cm from rfl] at this ⊢
        exact this
  | raise => exact ⟨rfl, rfl⟩
  | try_ body k ihb ihk =>
    simp only [run]
    rw [runThread_append]
    obtain ⟨hb1, hb2⟩ := ihb s
    have := ihk (runThread env s (run body s.cfg).ops).1
    rw [hb1, hb2] at this
    exact this

theorem exit_restores_steps (env : Env) (p : Prog) (s : TState) :
    (runThread env s (run p s.cfg).ops).1.cfg = s.cfg ∧
    (runThread env s (run p s.cfg).ops).1.stack = s.stack := by
  have := run_ops env p s
  rw [exit_restores] at this
  exact this

/-- LIFO is what `with` guarantees and what the theorem needs: `unregister()` called by hand out of
order leaves a stale configuration behind (witness; not a `with` program). -/
theorem unregister_out_of_order_counterexample :
    ∃ a b : Config,
      ∃ cm1 c1 cm2 c2, parallelConfigInit Config.unset a = .ok (cm1, c1) ∧
        parallelConfigInit c1 b = .ok (cm2, c2) ∧
        -- cm1.unregister() then cm2.unregister()
        unregister cm2 ≠ Config.unset :=
  ⟨{ Config.unset with verbose := some (.int 7) }, { Config.unset with n_jobs := some (.int 3) },
    _, _, _, _, rfl, rfl, by decide⟩

/-! ## Thread-locality -/

/-- `thread_frame`. Steps of other threads never change thread `t`'s configuration, block stack or
objects, for any interleaving — as long as `t` is not a thread they START (`spawn t`: a thread is
started once, before its first step). -/
theorem thread_frame (env : Env) (sched : List (Nat × Op)) (g : Global) (t : Nat)
    (h : ∀ x ∈ sched, x.1 ≠ t ∧ ∀ k, x.2 ≠ .spawn t k) : (grun env g sched).1 t = g t := by
  induction sched generalizing g with
  | nil => rfl
  | cons x rest ih =>
    obtain ⟨u, op⟩ := x
    simp only [grun, grunV]
    have hu := h (u, op) (by simp)
    have := ih (gstepV Variant.code env g u op).1 (fun y hy => h y (by simp [hy]))
    simp only [grun] at this
    rw [this]
    exact gstepV_other Variant.code env g hu.1 hu.2

/-- Non-interference, the strong form: under ANY interleaving with any other threads, thread `t`
(not started again in the meantime) ends in the state, and sees exactly the results (every
`Parallel(...)` and `get_active_backend()` observation), it would have had running its own steps
alone — whatever the steps are: `with` blocks, objects made by plain calls, `unregister()` in any
order, threads it starts. -/
theorem thread_noninterference (env : Env) (sched : List (Nat × Op)) (g : Global) (t : Nat)
    (h : ∀ x ∈ sched, ∀ k, x.2 ≠ .spawn t k) :
    ((grun env g sched).1 t,
      (grun env g sched).2.filterMap (fun x => if x.1 = t then some x.2 else none)) =
    runThread env (g t) (sched.filterMap (fun x => if x.1 = t then some x.2 else none)) := by
  induction sched generalizing g with
  | nil => rfl
  | cons x rest ih =>
    obtain ⟨u, op⟩ := x
    simp only [grun, grunV]
    have hsp := h (u, op) (by simp)
    have := ih (gstepV Variant.code env g u op).1 (fun y hy => h y (by simp [hy]))
    simp only [grun] at this
    by_cases hu : u = t
    · subst hu
      have gs := gstepV_self Variant.code env g hsp
      have gs1 : (gstepV Variant.code env g u op).1 u = (stepV Variant.code env (g u) op).1 :=
        congrArg Prod.fst gs
      have gs2 : (gstepV Variant.code env g u op).2 = (stepV Variant.code env (g u) op).2 :=
        congrArg Prod.snd gs
      rw [gs1] at this
      have e1 := congrArg Prod.fst this
      have e2 := congrArg Prod.snd this
      simp only [runThread] at e1 e2
      simp only [List.filterMap_cons, if_true, runThread, runThreadV]
      rw [gs2, ← e1, ← e2]
    · simp only [List.filterMap_cons, if_neg hu]
      rw [this, gstepV_other Variant.code env g hu hsp]

/-! ## Precedence -/

/-- At every point a thread can reach, its configuration is determined by the blocks it is inside
(`enclosing`: their effective arguments, innermost first) and by nothing else — not by blocks
already left, not by other threads. (`hops`: the thread uses `with` blocks only; what objects made
by plain calls and `unregister()` by hand do is `unregister_is_restore` / `unreg_exact`.) -/
theorem reachable_cfg (env : Env) (ops : List Op) (hops : ∀ op ∈ ops, op.scoped = true) :
    (runThread env TState.init ops).1.cfg = stackCfg (enclosing [] ops) :=
  runThread_inv env ops hops [] TState.init rfl trivial

/-- `precedence`. The value resolved for key `k` at a program point is the explicit argument if one
is given, else the value of the innermost enclosing block that sets `k`, else the default. -/
theorem precedence (env : Env) (ops : List Op) (hops : ∀ op ∈ ops, op.scoped = true)
    (explicit : Slot) (k : Key) :
    getConfigParam env.d explicit (runThread env TState.init ops).1.cfg k =
      match explicit with
      | some v => v
      | none =>
        match (enclosing [] ops).findSome? (·.get k) with
        | some v => v
        | none => env.d.get k := by
  rw [reachable_cfg env ops hops]
  unfold getConfigParam
  cases explicit with
  | some v => rfl
  | none =>
    show (match (stackCfg (enclosing [] ops)).get k with
      | some v => v
      | none => env.d.get k) = _
    rw [stackCfg_get]
    rfl

/-- What a block contributes: for every key but `backend` exactly the argument it was given
(for `backend`: what `_check_backend` made of it — an instance carrying a nesting level). -/
theorem block_contributes {old args nc : Config} (h : newConfig old args = .ok nc) (k : Key)
    (hk : k ≠ .backend) : nc.get k = args.get k :=
  newConfig_get h k hk

/-- A constructed `Parallel` carries, for verbose / temp_folder / mmap_mode / prefer / require /
max_nbytes, exactly the value `precedence` describes (max_nbytes after `memstr_to_bytes`, the
backend's own `verbose` reduced by 50). -/
theorem precedence_parallel {env : Env} {cfg e : Config} {r : ParObs}
    (h : parallelInit env cfg e = .ok r) :
    r.verbose = getConfigParam env.d e.verbose cfg .verbose ∧
    r.temp_folder = getConfigParam env.d e.temp_folder cfg .temp_folder ∧
    r.mmap_mode = getConfigParam env.d e.mmap_mode cfg .mmap_mode ∧
    r.prefer = getConfigParam env.d e.prefer cfg .prefer ∧
    r.require = getConfigParam env.d e.require cfg .require ∧
    postMaxNbytes (getConfigParam env.d e.max_nbytes cfg .max_nbytes) = .ok r.max_nbytes ∧
    kwVerbose r.verbose = .ok r.kw_verbose := by
  obtain ⟨a, ha, h1, h2, h3, h4, h5, h6, h7, _⟩ := parallelInit_ok h
  have hg := fun k hk => active_config_get ha k hk
  refine ⟨?_, ?_, ?_, ?_, ?_, ?_, h7⟩
  · rw [h1]; exact getConfigParam_congr _ _ _ _ _ (hg _ (by decide))
  · rw [h3]; exact getConfigParam_congr _ _ _ _ _ (hg _ (by decide))
  · rw [h4]; exact getConfigParam_congr _ _ _ _ _ (hg _ (by decide))
  · rw [h5]; exact getConfigParam_congr _ _ _ _ _ (hg _ (by decide))
  · rw [h6]; exact getConfigParam_congr _ _ _ _ _ (hg _ (by decide))
  · rw [← h2]; exact congrArg _ (getConfigParam_congr _ _ _ _ _ (hg _ (by decide))).symm

/-- The one situation in which the context's `n_jobs` is not used: the context chose a backend, it
does not support shared memory, and the resolved constraint is `require='sharedmem'`. -/
def ContextBackendReplaced (env : Env) (cfg e : Config) : Prop :=
  ∃ b, contextBackend env cfg = .ok (true, b) ∧ b.cls.supportsSharedmem = false ∧
    getConfigParam env.d e.require cfg .require = .str "sharedmem"

/-
FULL STATEMENT (false of the code, by design of joblib — see `n_jobs_fallback_counterexample`):
  parallelInit env cfg e = .ok r → resolveNJobs env.d e.n_jobs cfg r.backend.cls = .ok r.n_jobs
i.e. `n_jobs` = explicit argument (not None) > innermost context > default (None → the backend's
`default_n_jobs`), converted with `int`.  Missing: the `ContextBackendReplaced` case.
-/
/-- `precedence` for `n_jobs` on a constructed `Parallel`, outside the documented fallback. -/
theorem precedence_n_jobs_partial {env : Env} {cfg e : Config} {r : ParObs}
    (h : parallelInit env cfg e = .ok r) (hn : ¬ ContextBackendReplaced env cfg e) :
    resolveNJobs env.d e.n_jobs cfg r.backend.cls = .ok r.n_jobs := by
  obtain ⟨a, ha, _, _, _, _, _, _, _, _, hnj, _⟩ := parallelInit_ok h
  obtain ⟨_, _, _, explicit, b, hcb, h4⟩ := getActive_ok ha
  have hcfg : a.config = cfg := by
    split at h4
    · rename_i hft
      obtain ⟨_, hc, _⟩ := h4
      rw [hc]
      cases explicit with
      | false => rfl
      | true =>
        exfalso
        apply hn
        refine ⟨b, hcb, ?_⟩
        simp [forceThreads] at hft
        exact ⟨hft.2, hft.1⟩
    · split at h4 <;> (subst h4; rfl)
  rw [← hcfg]; exact hnj

/-- …and inside it: the context's `n_jobs` counts as 1 (an explicit argument still wins). -/
theorem n_jobs_when_context_backend_replaced {env : Env} {cfg e : Config} {r : ParObs}
    (h : parallelInit env cfg e = .ok r) (hr : ContextBackendReplaced env cfg e) :
    resolveNJobs env.d e.n_jobs (cfg.set .n_jobs (some (.int 1))) r.backend.cls = .ok r.n_jobs ∧
    r.backend.cls.supportsSharedmem = true := by
  obtain ⟨a, ha, _, _, _, _, _, hreq, _, hch, hnj, _, hsm⟩ := parallelInit_ok h
  obtain ⟨b, hcb, hss, hrq⟩ := hr
  obtain ⟨_, _, _, explicit, b', hcb', h4⟩ := getActive_ok ha
  rw [hcb] at hcb'
  cases hcb'
  have hft : forceThreads true b.cls (getConfigParam env.d e.prefer cfg .prefer)
      (getConfigParam env.d e.require cfg .require) = true := by
    simp [forceThreads, hrq, hss]
  rw [if_pos hft] at h4
  obtain ⟨_, hc, _⟩ := h4
  simp at hc
  refine ⟨by rw [← hc]; exact hnj, ?_⟩
  have hreq' : r.require = .str "sharedmem" := by
    rw [hreq, getConfigParam_congr _ _ _ cfg _ (active_config_get ha _ (by decide))]; exact hrq
  cases hs : r.backend.cls.supportsSharedmem with
  | true => rfl
  | false => exact absurd ⟨by simp [testedConstraint, hreq'], hs⟩ hsm

/-- An explicit `n_jobs` (anything but `None`) always wins. -/
theorem explicit_n_jobs_wins {env : Env} {cfg e : Config} {r : ParObs} {v : Val}
    (h : parallelInit env cfg e = .ok r) (he : e.n_jobs = some v) (hv : v ≠ .none) :
    toInt v = .ok r.n_jobs := by
  obtain ⟨a, _, _, _, _, _, _, _, _, _, hnj, _⟩ := parallelInit_ok h
  unfold resolveNJobs at hnj
  simp only [he] at hnj
  have h1 : (some v = some Val.none) = False := by simp [hv]
  simp only [h1, if_false, getConfigParam, hv] at hnj
  exact hnj

/-- Witness of the pinned policy (joblib's test_backend_hinting_and_constraints asserts it):
`with parallel_config("loky", n_jobs=2): Parallel(require="sharedmem")` has `n_jobs == 1`. -/
theorem n_jobs_fallback_counterexample :
    (parallelInit Env.pinned
        (update Config.unset ⟨some (.backend .loky (some 0)), some (.int 2), none, none, none, none, none, none⟩)
        { Config.unset with require := some (.str "sharedmem") }).toOption.map
      (fun r => (r.backend.cls, r.n_jobs)) = some (.threading, 1) := by decide

/-- F22 (defect of the pinned tree, repaired): `with parallel_config(n_jobs=4): Parallel(prefer="threads")`
got `n_jobs == 1` although no backend had been chosen in the context; the repaired code gives 4. -/
theorem n_jobs_unrepaired_counterexample :
    let cfg := { Config.unset with n_jobs := some (.int 4) }
    let e := { Config.unset with prefer := some (.str "threads") }
    (parallelInitUnrepaired Env.pinned cfg e).toOption.map (fun r => (r.backend.cls, r.n_jobs))
        = some (.threading, 1) ∧
    (parallelInit Env.pinned cfg e).toOption.map (fun r => (r.backend.cls, r.n_jobs))
        = some (.threading, 4) := by decide

/-- The backend of a constructed `Parallel`: an explicitly named class / instance wins over
everything; otherwise it is the active backend (the context's, or the default one adjusted by the
hint and the constraint). -/
theorem precedence_backend {env : Env} {cfg e : Config} {r : ParObs}
    (h : parallelInit env cfg e = .ok r) :
    ∃ a, getActiveBackend' env cfg e.prefer e.require e.verbose = .ok a ∧
      (match e.backend with
       | none => r.backend = a.backend
       | some .none => r.backend = a.backend
       | some (.backend c none) => r.backend = ⟨c, a.backend.level⟩
       | some (.backend c (some l)) => r.backend = ⟨c, some l⟩
       | some (.str name) => registry name = some r.backend.cls ∧ r.backend.level = a.backend.level
       | some (.int _) => False) := by
  obtain ⟨a, ha, _, _, _, _, _, _, _, hch, _⟩ := parallelInit_ok h
  refine ⟨a, ha, ?_⟩
  revert hch
  unfold chooseBackend
  cases e.backend with
  | none => intro hch; exact (Except.ok.inj hch).symm
  | some v =>
    cases v with
    | none => intro hch; exact (Except.ok.inj hch).symm
    | int i => intro hch; cases hch
    | str s =>
      simp only []
      cases hreg : registry s with
      | none => intro hch; cases hch
      | some c =>
        intro hch
        have := Except.ok.inj hch
        rw [← this]; exact ⟨rfl, rfl⟩
    | backend c l => cases l <;> (intro hch; exact (Except.ok.inj hch).symm)

/-! ## Constraint and hint -/

/-- `sharedmem_is_threads`. Whenever construction succeeds and the resolved constraint — given
explicitly OR by any enclosing context — is `require='sharedmem'`, the backend supports shared
memory, i.e. it is the threading or the sequential backend. -/
theorem sharedmem_is_threads {env : Env} {cfg e : Config} {r : ParObs}
    (h : parallelInit env cfg e = .ok r) (hr : r.require = .str "sharedmem") :
    r.backend.cls.supportsSharedmem = true ∧
      (r.backend.cls = .threading ∨ r.backend.cls = .sequential) := by
  obtain ⟨a, _, _, _, _, _, _, _, _, _, _, _, hsm⟩ := parallelInit_ok h
  have : r.backend.cls.supportsSharedmem = true := by
    cases hs : r.backend.cls.supportsSharedmem with
    | true => rfl
    | false => exact absurd ⟨by simp [testedConstraint, hr], hs⟩ hsm
  refine ⟨this, ?_⟩
  revert this
  cases r.backend.cls <;> simp [BackendClass.supportsSharedmem]

/-- The same for `get_active_backend(require=…)`. -/
theorem sharedmem_is_threads_active {env : Env} {cfg : Config} {p r v : Slot} {a : Active}
    (h : getActiveBackend' env cfg p r v = .ok a)
    (hr : getConfigParam env.d r cfg .require = .str "sharedmem") :
    a.backend.cls.supportsSharedmem = true := by
  obtain ⟨_, _, h3, explicit, b, _, h4⟩ := getActive_ok h
  split at h4
  · rw [h4.1]; rfl
  · rename_i hft
    have hss : b.cls.supportsSharedmem = true := by
      cases hs : b.cls.supportsSharedmem with
      | true => rfl
      | false => exact absurd (by simp [forceThreads, hr, hs]) hft
    split at h4
    · rename_i hfp
      simp [forceProcesses] at hfp
      exact absurd ⟨hfp.1.2, hr⟩ h3
    · subst h4; exact hss

/-- F21 (defect of the pinned tree, repaired):
`with parallel_config(require="sharedmem"): Parallel(backend="loky", n_jobs=2)` built a LokyBackend
with two processes; the repaired code raises `ValueError` like `Parallel(backend="loky",
require="sharedmem")` always did. -/
theorem sharedmem_unrepaired_counterexample :
    let cfg := { Config.unset with require := some (.str "sharedmem") }
    let e := { Config.unset with backend := some (.str "loky"), n_jobs := some (.int 2) }
    (parallelInitUnrepaired Env.pinned cfg e).toOption.map
        (fun r => (r.backend.cls, r.n_jobs, r.require)) = some (.loky, 2, .str "sharedmem") ∧
    parallelInit Env.pinned cfg e = .error .valueError := by decide

/-- A backend was chosen explicitly: as an argument of `Parallel`, or by an enclosing context. -/
def BackendChosen (cfg e : Config) : Prop :=
  (∃ c l, e.backend = some (.backend c l)) ∨ (∃ s, e.backend = some (.str s)) ∨
    (∃ c l, cfg.backend = some (.backend c l))

/-- `prefer_is_hint`. When a backend was chosen explicitly, `prefer` — wherever it comes from, an
argument or a context, and whatever its value — changes neither the backend nor `n_jobs`: two
constructions that differ only in `prefer` and both succeed agree on both. -/
theorem prefer_is_hint {env : Env} {cfg1 cfg2 e1 e2 : Config} {r1 r2 : ParObs}
    (hcfg : ∀ k, k ≠ .prefer → cfg1.get k = cfg2.get k)
    (he : ∀ k, k ≠ .prefer → e1.get k = e2.get k)
    (hb : BackendChosen cfg1 e1)
    (h1 : parallelInit env cfg1 e1 = .ok r1) (h2 : parallelInit env cfg2 e2 = .ok r2) :
    r1.backend = r2.backend ∧ r1.n_jobs = r2.n_jobs := by
  obtain ⟨a1, ha1, _, _, _, _, _, _, _, hch1, hnj1, _⟩ := parallelInit_ok h1
  obtain ⟨a2, ha2, _, _, _, _, _, _, _, hch2, hnj2, _⟩ := parallelInit_ok h2
  obtain ⟨_, _, _, x1, b1, hcb1, hA1⟩ := getActive_ok ha1
  obtain ⟨_, _, _, x2, b2, hcb2, hA2⟩ := getActive_ok ha2
  have ebk : e1.backend = e2.backend := he .backend (by decide)
  have enj : e1.n_jobs = e2.n_jobs := he .n_jobs (by decide)
  have ereq : e1.require = e2.require := he .require (by decide)
  have cbk : cfg1.backend = cfg2.backend := hcfg .backend (by decide)
  have cnj : cfg1.n_jobs = cfg2.n_jobs := hcfg .n_jobs (by decide)
  have creq : getConfigParam env.d e1.require cfg1 .require
      = getConfigParam env.d e2.require cfg2 .require := by
    rw [ereq]; exact getConfigParam_congr _ _ _ _ _ (hcfg .require (by decide))
  -- the context's backend is the same on both sides
  have hcb : x1 = x2 ∧ b1 = b2 := by
    unfold contextBackend getConfigParam at hcb1 hcb2
    simp only [Config.get] at hcb1 hcb2
    rw [cbk] at hcb1
    rw [hcb1] at hcb2
    cases hcb2; exact ⟨rfl, rfl⟩
  obtain ⟨rfl, rfl⟩ := hcb
  -- levels of the active backend agree; its class and n_jobs agree when the context chose it
  have hlevel : a1.backend.level = b1.level ∧ a2.backend.level = b1.level := by
    constructor
    · split at hA1
      · rw [hA1.1]
      · split at hA1 <;> (subst hA1; rfl)
    · split at hA2
      · rw [hA2.1]
      · split at hA2 <;> (subst hA2; rfl)
  have hnjcfg : a1.config.get .n_jobs = a2.config.get .n_jobs := by
    cases x1 with
    | false =>
      have e1' : a1.config = cfg1 := by
        split at hA1
        · simpa using hA1.2.1
        · split at hA1 <;> (subst hA1; rfl)
      have e2' : a2.config = cfg2 := by
        split at hA2
        · simpa using hA2.2.1
        · split at hA2 <;> (subst hA2; rfl)
      rw [e1', e2']; exact cnj
    | true =>
      have ft : ∀ p, forceThreads true b1.cls p (getConfigParam env.d e1.require cfg1 .require)
          = (decide (getConfigParam env.d e1.require cfg1 .require = .str "sharedmem")
              && !b1.cls.supportsSharedmem) := by
        intro p; simp [forceThreads]
      rw [ft] at hA1
      rw [← creq, ft] at hA2
      split at hA1
      · rename_i hc
        rw [if_pos hc] at hA2
        rw [hA1.2.1, hA2.2.1]
        simp [set_get_same]
      · rename_i hc
        rw [if_neg hc] at hA2
        have fp : ∀ p, forceProcesses true b1.cls p = false := by intro p; simp [forceProcesses]
        rw [fp] at hA1 hA2
        simp at hA1 hA2
        subst hA1; subst hA2; exact cnj
  have hcls : (∃ c l, cfg1.backend = some (.backend c l)) → a1.backend = a2.backend := by
    rintro ⟨c, l, hc⟩
    have hx : x1 = true := by
      unfold contextBackend getConfigParam at hcb1
      simp only [Config.get, hc] at hcb1
      cases hcb1; rfl
    subst hx
    have ft : ∀ p, forceThreads true b1.cls p (getConfigParam env.d e1.require cfg1 .require)
        = (decide (getConfigParam env.d e1.require cfg1 .require = .str "sharedmem")
            && !b1.cls.supportsSharedmem) := by
      intro p; simp [forceThreads]
    rw [ft] at hA1
    rw [← creq, ft] at hA2
    split at hA1
    · rename_i hc'
      rw [if_pos hc'] at hA2
      rw [hA1.1, hA2.1]
    · rename_i hc'
      rw [if_neg hc'] at hA2
      have fp : ∀ p, forceProcesses true b1.cls p = false := by intro p; simp [forceProcesses]
      rw [fp] at hA1 hA2
      simp at hA1 hA2
      subst hA1; subst hA2; rfl
  have hbackend : r1.backend = r2.backend := by
    rw [← ebk] at hch2
    unfold chooseBackend at hch1 hch2
    rcases hb with ⟨c, l, hc⟩ | ⟨s, hs⟩ | hctx
    · rw [hc] at hch1 hch2
      cases l with
      | none =>
        simp only [] at hch1 hch2
        rw [← Except.ok.inj hch1, ← Except.ok.inj hch2, hlevel.1, hlevel.2]
      | some l =>
        simp only [] at hch1 hch2
        rw [← Except.ok.inj hch1, ← Except.ok.inj hch2]
    · rw [hs] at hch1 hch2
      simp only [] at hch1 hch2
      cases hreg : registry s with
      | none => rw [hreg] at hch1; cases hch1
      | some c =>
        rw [hreg] at hch1 hch2
        rw [← Except.ok.inj hch1, ← Except.ok.inj hch2, hlevel.1, hlevel.2]
    · have hab := hcls hctx
      rw [hab] at hch1
      rw [hch1] at hch2
      exact Except.ok.inj hch2
  refine ⟨hbackend, ?_⟩
  have : resolveNJobs env.d e1.n_jobs a1.config r1.backend.cls
      = resolveNJobs env.d e2.n_jobs a2.config r2.backend.cls := by
    unfold resolveNJobs
    rw [enj, hbackend]
    simp only []
    rw [getConfigParam_congr _ _ a1.config a2.config _ hnjcfg]
  rw [this, hnj2] at hnj1
  exact (Except.ok.inj hnj1).symm

/-- …and when no backend was chosen, the hint decides between the default thread backend and the
default process backend (here with the pinned defaults, `DEFAULT_BACKEND = "loky"`). -/
theorem prefer_decides_default :
    (parallelInit Env.pinned Config.unset { Config.unset with prefer := some (.str "threads") }).toOption.map
        (·.backend.cls) = some .threading ∧
    (parallelInit Env.pinned Config.unset { Config.unset with prefer := some (.str "processes") }).toOption.map
        (·.backend.cls) = some .loky ∧
    (parallelInit ⟨.threading, Defaults.pinned⟩ Config.unset
        { Config.unset with prefer := some (.str "processes") }).toOption.map
        (·.backend.cls) = some .loky := by decide

/-! ## General programs: objects made by plain calls, `unregister()` in any order, started threads -/

/-- The big-step semantics of general programs and the step machine agree: replaying the steps a
program executed ends in the state `xrun` computes (all of it: configuration, stack of enclosing
blocks, objects made, identity of the active dictionary). -/
theorem xrun_ops (env : Env) (p : XProg) (s : TState) :
    (runThread env s (xrun p s).ops).1 = (xrun p s).state := by
  induction p generalizing s with
  | done => rfl
  | par e k ih => simp only [xrun, runThread_cons]; exact ih s
  | gab p q v k ih => simp only [xrun, runThread_cons]; exact ih s
  | block args body k ihb ihk =>
    simp only [xrun]
    cases h : createObj s args with
    | error e =>
      have hs : (step env s (.enter args)).1 = s := by simp only [step, stepV, h]
      simp only []
      rw [runThread_cons, runThread_nil, hs]
    | ok r =>
      obtain ⟨o, s'⟩ := r
      have hst : (step env s (.enter args)).1 = { s' with stack := o :: s'.stack } := by
        simp only [step, stepV, h]
      simp only []
      split
      · dsimp only
        rw [List.cons_append, runThread_cons, runThread_append, runThread_cons, runThread_nil, hst, ihb]
        rfl
      · dsimp only
        rw [List.cons_append, runThread_cons, runThread_append, runThread_cons, hst, ihb]
        exact ihk _
  | create args k ih =>
    simp only [xrun]
    cases h : createObj s args with
    | error e =>
      have hs : (step env s (.create args)).1 = s := by simp only [step, stepV, h]
      simp only []
      rw [runThread_cons, runThread_nil, hs]
    | ok r =>
      obtain ⟨o, s'⟩ := r
      have hst : (step env s (.create args)).1 = s' := by simp only [step, stepV, h]
      simp only []
      rw [runThread_cons, hst]
      exact ih _
  | unreg i k ih => simp only [xrun, runThread_cons]; exact ih _
  | raise => rfl
  | try_ body k ihb ihk =>
    simp only [xrun]
    rw [runThread_append, ihb]
    exact ihk _

/-- `exit_restores_whatever_the_body_left`. For EVERY general program: when the `with` block of an
object exits — `rb.raised = false`: normally, `rb.raised = true`: by an exception — the thread's
configuration (and the identity of the active dictionary, and the stack of enclosing blocks) is
exactly what it was when the object was made, WHATEVER the body did: made objects by plain calls
and left them registered, unregistered any object in any order (this block's own object included),
nested further blocks, raised. `after` is the state right after `__exit__`; the last two clauses
say that this is where the program goes on (or from where the exception propagates). -/
theorem exit_restores_whatever_the_body_left (args : Config) (body k : XProg) (s : TState)
    (o : Obj) (s' : TState) (h : createObj s args = .ok (o, s')) :
    let rb := xrun body { s' with stack := o :: s'.stack }
    let after := (exitStep Variant.code rb.state).1
    after.cfg = s.cfg ∧ after.cur = s.cur ∧ after.stack = s.stack ∧ after.objs = rb.state.objs ∧
    (xrun (.block args body k) s).state = (if rb.raised then after else (xrun k after).state) ∧
    (xrun (.block args body k) s).raised = (if rb.raised then true else (xrun k after).raised) := by
  intro rb after
  obtain ⟨hp, _, hown, hstk, _, _⟩ := createObj_ok h
  have hold : o.cm.old_parallel_config = s.cfg := (parallelConfigInit_ok hp).1
  have hb : rb.state.stack = o :: s'.stack := xrun_stack body _
  have he : after =
      { rb.state with stack := s'.stack, cfg := o.cm.old_parallel_config, cur := o.oldOwner } :=
    exitStep_cons hb
  refine ⟨by rw [he]; exact hold, by rw [he]; exact hown, by rw [he]; exact hstk, by rw [he], ?_, ?_⟩
  · simp only [xrun, h]
    split <;> rfl
  · simp only [xrun, h]
    split <;> rfl

/-- `unreg_exact`: what `cm_k.unregister()` does, exactly — it puts back the configuration that
was active when `cm_k` was made (and nothing else changes), whichever objects were made or
unregistered since, whether `cm_k` is "the current one" or not, whether it was unregistered
before or not. -/
theorem unreg_exact (env : Env) (s : TState) (k : Nat) (o : Obj) (h : s.objs[k]? = some o) :
    (step env s (.unreg k)).1 = { s with cfg := o.cm.old_parallel_config, cur := o.oldOwner } := by
  simp only [step, stepV, unregStep, h, unregisterV_code]

/-- `unregister_is_restore`. An object is made (by a plain call: `mk = create`, or by a `with`
statement: `mk = enter`) in state `s`; then the thread does ANYTHING (`ops`: any steps, in any
order, any number of them); then it calls `unregister()` on that object. The configuration is
the one of `s` again, nothing else changes, and a second `unregister()` changes nothing
(idempotent). -/
theorem unregister_is_restore (env : Env) (s : TState) (args : Config) (mk : Op) (ops : List Op)
    (hmk : mk = .create args ∨ mk = .enter args) {cm : Ctx} {cfg : Config}
    (hok : parallelConfigInit s.cfg args = .ok (cm, cfg)) :
    let k := s.objs.length
    let s2 := (runThread env s (mk :: ops)).1
    let s3 := (step env s2 (.unreg k)).1
    s3.cfg = s.cfg ∧ s3.cur = s.cur ∧ s3.stack = s2.stack ∧ s3.objs = s2.objs ∧
      (step env s3 (.unreg k)).1 = s3 := by
  intro k s2 s3
  have hc := createObj_of_ok hok
  have hget1 : (step env s mk).1.objs[k]? = some ⟨s.objs.length, cm, s.cur⟩ := by
    rcases hmk with rfl | rfl <;> simp [step, stepV, hc, k]
  have hget2 : s2.objs[k]? = some ⟨s.objs.length, cm, s.cur⟩ := by
    show (runThread env s (mk :: ops)).1.objs[k]? = _
    rw [runThread_cons]
    exact runThreadV_objs_get Variant.code env ops _ k _ hget1
  have h3 : s3 = { s2 with cfg := cm.old_parallel_config, cur := s.cur } :=
    unreg_exact env s2 k _ hget2
  have hold : cm.old_parallel_config = s.cfg := (parallelConfigInit_ok hok).1
  refine ⟨by rw [h3]; exact hold, by rw [h3], by rw [h3], by rw [h3], ?_⟩
  have hget3 : s3.objs[k]? = some ⟨s.objs.length, cm, s.cur⟩ := by rw [h3]; exact hget2
  rw [unreg_exact env s3 k _ hget3, h3]

/-- `unregister()` out of order, stated exactly. Two objects `a` then `b` made by plain calls:
unregistering in LIFO order (`b`, `a`) or `a` alone gives the starting configuration back;
unregistering `a` FIRST and then `b` leaves the configuration `b` saved, i.e. the one with `a`'s
settings — `b.unregister()` puts back what was active when `b` was made, not what is "underneath"
now. (That is the code's behaviour and what the harness observes; it is why the property speaks of
`with` blocks.) -/
theorem unregister_out_of_order (env : Env) (s : TState) (a b : Config) {cm1 cm2 : Ctx}
    {c1 c2 : Config} (h1 : parallelConfigInit s.cfg a = .ok (cm1, c1))
    (h2 : parallelConfigInit c1 b = .ok (cm2, c2)) :
    let k := s.objs.length
    (runThread env s [.create a, .create b, .unreg (k + 1), .unreg k]).1.cfg = s.cfg ∧
    (runThread env s [.create a, .create b, .unreg k]).1.cfg = s.cfg ∧
    (runThread env s [.create a, .create b, .unreg k, .unreg (k + 1)]).1.cfg = c1 := by
  intro k
  refine ⟨?_, ?_, ?_⟩
  · have := (unregister_is_restore env s a (.create a) [.create b, .unreg (k + 1)] (.inl rfl) h1).1
    simp only [runThread_cons, runThread_nil] at this ⊢
    exact this
  · have := (unregister_is_restore env s a (.create a) [.create b] (.inl rfl) h1).1
    simp only [runThread_cons, runThread_nil] at this ⊢
    exact this
  · have hsa : (step env s (.create a)).1 =
        { s with cfg := c1, objs := s.objs ++ [⟨s.objs.length, cm1, s.cur⟩],
                 cur := some s.objs.length } := by
      simp only [step, stepV, createObj_of_ok h1]
    have := (unregister_is_restore env
      { s with cfg := c1, objs := s.objs ++ [⟨s.objs.length, cm1, s.cur⟩], cur := some s.objs.length }
      b (.create b) [.unreg k] (.inl rfl) h2).1
    simp only [runThread_cons, runThread_nil, List.length_append, List.length_cons,
      List.length_nil] at this
    simp only [runThread_cons, runThread_nil, hsa]
    exact this

/-- `balanced_program_restores`: the tree-shaped theorem (`exit_restores`) as a corollary of the
general one — a program made of `with` blocks only, run from any thread state (inside any blocks,
after any objects made by plain calls), gives back the configuration, the active dictionary and
the stack it started with. -/
theorem balanced_program_restores (p : Prog) (s : TState) :
    (xrun p.embed s).state.cfg = s.cfg ∧ (xrun p.embed s).state.cur = s.cur ∧
      (xrun p.embed s).state.stack = s.stack := by
  refine ⟨?_, ?_, xrun_stack _ _⟩
  · induction p generalizing s with
    | done => rfl
    | par e k ih => exact ih s
    | gab p q v k ih => exact ih s
    | block args body k _ ihk =>
      cases h : createObj s args with
      | error e => simp only [Prog.embed, xrun, h]
      | ok r =>
        obtain ⟨o, s'⟩ := r
        obtain ⟨h1, _, _, _, h5, _⟩ :=
          exit_restores_whatever_the_body_left args body.embed k.embed s o s' h
        simp only [Prog.embed]
        rw [h5]
        split
        · exact h1
        · rw [ihk, h1]
    | raise => rfl
    | try_ body k ihb ihk => simp only [Prog.embed, xrun]; rw [ihk, ihb]
  · induction p generalizing s with
    | done => rfl
    | par e k ih => exact ih s
    | gab p q v k ih => exact ih s
    | block args body k _ ihk =>
      cases h : createObj s args with
      | error e => simp only [Prog.embed, xrun, h]
      | ok r =>
        obtain ⟨o, s'⟩ := r
        obtain ⟨_, h2, _, _, h5, _⟩ :=
          exit_restores_whatever_the_body_left args body.embed k.embed s o s' h
        simp only [Prog.embed]
        rw [h5]
        split
        · exact h2
        · rw [ihk, h2]
    | raise => rfl
    | try_ body k ihb ihk => simp only [Prog.embed, xrun]; rw [ihk, ihb]

/-- `new_thread_starts_from_defaults`. A thread `u` started by thread `t` — in any of the three ways,
whatever `t`'s configuration is at that moment, whatever all other threads do afterwards (`sched`:
any steps of threads other than `u`) — is in the initial state: default configuration, inside no
block, no objects; a `Parallel(...)` it constructs is the one constructed under the defaults. -/
theorem new_thread_starts_from_defaults (env : Env) (g : Global) (t u : Nat) (kind : SpawnKind)
    (sched : List (Nat × Op)) (h : ∀ x ∈ sched, x.1 ≠ u ∧ ∀ k, x.2 ≠ .spawn u k) (e : Config) :
    let g' := (grun env (gstep env g t (.spawn u kind)).1 sched).1
    g' u = TState.init ∧ parallelInit env (g' u).cfg e = parallelInit env Config.unset e := by
  intro g'
  have h1 : g' u = TState.init := by
    show (grun env (gstep env g t (.spawn u kind)).1 sched).1 u = _
    rw [thread_frame env sched _ u h]
    simp [gstep, gstepV, childInit, Variant.code]
  exact ⟨h1, by rw [h1]; rfl⟩

/-- `other_threads_unaffected`, for the general programs: whatever the other threads do — blocks,
objects made by plain calls and left registered, `unregister()` in any order, starting further
threads (other than `t`) — thread `t`'s state does not change, and neither does anything it can
observe (`Parallel(...)`, `get_active_backend(...)`). -/
theorem other_threads_unaffected (env : Env) (sched : List (Nat × Op)) (g : Global) (t : Nat)
    (h : ∀ x ∈ sched, x.1 ≠ t ∧ ∀ k, x.2 ≠ .spawn t k) (e : Config) (p r v : Slot) :
    (grun env g sched).1 t = g t ∧
    parallelInit env ((grun env g sched).1 t).cfg e = parallelInit env (g t).cfg e ∧
    getActiveBackend env ((grun env g sched).1 t).cfg p r v = getActiveBackend env (g t).cfg p r v := by
  have := thread_frame env sched g t h
  exact ⟨this, by rw [this], by rw [this]⟩

/-- `gab_agrees_with_parallel`. At the same place (same thread configuration `cfg`, any defaults,
any `DEFAULT_BACKEND`), `get_active_backend()` and `Parallel()` — both without arguments — agree:
same backend (class and nesting level); the same `n_jobs` whenever `get_active_backend` reports
one (it reports `None` when no context sets it, `Parallel` then uses the backend's default); and
under `require='sharedmem'` (from any enclosing context) the reported backend supports shared
memory. -/
theorem gab_agrees_with_parallel {env : Env} {cfg : Config} {g : GabObs} {r : ParObs}
    (hg : getActiveBackend env cfg none none none = .ok g)
    (hp : parallelInit env cfg Config.unset = .ok r) :
    g.backend = r.backend ∧ (g.n_jobs ≠ .none → toInt g.n_jobs = .ok r.n_jobs) ∧
    (getConfigParam env.d none cfg .require = .str "sharedmem" →
      g.backend.cls.supportsSharedmem = true) := by
  obtain ⟨a, ha, _, _, _, _, _, _, _, hch, hnj, _⟩ := parallelInit_ok hp
  have ha' : getActiveBackend' env cfg none none none = .ok a := ha
  simp only [getActiveBackend, ha', bind, Except.bind, pure, Except.pure] at hg
  have hg' := Except.ok.inj hg
  subst hg'
  refine ⟨Except.ok.inj hch, ?_, fun hr => sharedmem_is_threads_active ha' hr⟩
  intro hne
  simp only [] at hne
  have : resolveNJobs env.d none a.config r.backend.cls = .ok r.n_jobs := hnj
  unfold resolveNJobs at this
  simpa [hne] using this

/-! ### The three seeded variants are excluded (witnesses) -/

/-- Variant `guardedUnregister` (seeded C17-r4-m2): `with parallel_config(n_jobs=2):` whose body
calls `parallel_backend("threading", n_jobs=4)` and leaves it registered — after the block the
variant still has the settings, joblib is back at the defaults. -/
theorem guarded_unregister_counterexample :
    let ops := [Op.enter { Config.unset with n_jobs := some (.int 2) },
      .create (parallelBackendArgs (.str "threading") (some (.int 4))), .exit]
    (runThreadV ⟨true, false, false⟩ Env.pinned TState.init ops).1.cfg ≠ Config.unset ∧
    (runThread Env.pinned TState.init ops).1.cfg = Config.unset := by decide

/-- Variant `contextVar` (seeded C17-r4-m1): thread 0 is inside `with parallel_config(n_jobs=3)` and
starts thread 1 in a copy of its context — the variant's thread 1 sees `n_jobs=3`, joblib's starts
from the defaults; a plain thread starts from the defaults in both. -/
theorem context_var_counterexample :
    let g0 : Global := fun _ => TState.init
    let sched (k : SpawnKind) :=
      [(0, Op.enter { Config.unset with n_jobs := some (.int 3) }), (0, Op.spawn 1 k)]
    ((grunV ⟨false, true, false⟩ Env.pinned g0 (sched .copiedContext)).1 1).cfg ≠ Config.unset ∧
    ((grunV ⟨false, true, false⟩ Env.pinned g0 (sched .toThread)).1 1).cfg ≠ Config.unset ∧
    ((grunV ⟨false, true, false⟩ Env.pinned g0 (sched .plain)).1 1) = TState.init ∧
    ((grun Env.pinned g0 (sched .copiedContext)).1 1) = TState.init := by decide

/-- Variant `gabLiteralDefaults` (seeded C17-r4-m3): inside `with parallel_config(prefer="threads")`
the variant's `get_active_backend()` reports the loky backend while `Parallel()` gets the threading
backend; inside `parallel_config("loky", require="sharedmem")` it reports a backend without shared
memory. joblib's reports the threading backend in both. -/
theorem gab_literal_defaults_counterexample :
    let c1 := { Config.unset with prefer := some (.str "threads") }
    let c2 := { Config.unset with backend := some (.backend .loky (some 0)),
                                  require := some (.str "sharedmem") }
    let cls (r : Except Err GabObs) := r.toOption.map (·.backend.cls)
    cls (getActiveBackendV ⟨false, false, true⟩ Env.pinned c1 none none none) = some .loky ∧
    cls (getActiveBackendV Variant.code Env.pinned c1 none none none) = some .threading ∧
    (parallelInit Env.pinned c1 Config.unset).toOption.map (·.backend.cls) = some .threading ∧
    cls (getActiveBackendV ⟨false, false, true⟩ Env.pinned c2 none none none) = some .loky ∧
    cls (getActiveBackendV Variant.code Env.pinned c2 none none none) = some .threading := by decide

/-! ## Non-vacuity: the hypotheses are met by non-trivial instances -/

/-- depth 3, width 2, an exception raised in the innermost block and caught one level up -/
def exProg : Prog :=
  .block { Config.unset with backend := some (.str "threading"), n_jobs := some (.int 3) }
    (.try_
      (.block { Config.unset with verbose := some (.int 7), require := some (.str "sharedmem") }
        (.block { Config.unset with n_jobs := some (.int 5) } (.par Config.unset .raise) .done)
        (.par Config.unset .done))
      (.par { Config.unset with n_jobs := some (.int 2) } .done))
    (.gab none none none .done)

example : (run exProg Config.unset).ops.length = 9 := by decide
example : (run exProg Config.unset).raised = false := by decide
example : (run exProg Config.unset).cfg = Config.unset := by decide
example : BackendChosen Config.unset { Config.unset with backend := some (.str "loky") } :=
  .inr (.inl ⟨"loky", rfl⟩)
example : ContextBackendReplaced Env.pinned
    { Config.unset with backend := some (.backend .loky (some 0)) }
    { Config.unset with require := some (.str "sharedmem") } :=
  ⟨⟨.loky, some 0⟩, rfl, rfl, rfl⟩
example : ¬ ContextBackendReplaced Env.pinned { Config.unset with n_jobs := some (.int 4) }
    { Config.unset with prefer := some (.str "threads") } := by
  rintro ⟨b, hb, _⟩; cases hb
example : (parallelInit Env.pinned { Config.unset with require := some (.str "sharedmem"), n_jobs := some (.int 4) }
    Config.unset).toOption.map (fun r => (r.backend.cls, r.n_jobs, r.require))
      = some (.threading, 4, .str "sharedmem") := by decide

/-- a general program: a block whose body makes an object by a plain call, leaves it registered and
raises; the exception is caught; then an object made by a plain call and `unregister()` out of order,
twice, on an object of an exited block -/
def exXProg : XProg :=
  .try_
    (.block { Config.unset with n_jobs := some (.int 2) }
      (.create (parallelBackendArgs (.str "threading") (some (.int 4))) (.par Config.unset .raise)) .done)
    (.par Config.unset
      (.create { Config.unset with verbose := some (.int 7) } (.unreg 1 (.unreg 2 (.unreg 1 .done)))))

example : (xrun exXProg TState.init).ops.length = 9 := by decide
example : (xrun exXProg TState.init).raised = false := by decide
/-- right after the block (4 steps: enter, create, par, exit) the defaults are back -/
example : (runThread Env.pinned TState.init ((xrun exXProg TState.init).ops.take 4)).1.cfg = Config.unset := by
  decide
/-- …and the out-of-order `unregister()` calls end in the configuration object 1 saved -/
example : (xrun exXProg TState.init).state.cfg = { Config.unset with n_jobs := some (.int 2) } := by decide
example : (xrun exXProg TState.init).state.objs.length = 3 := by decide
example : (xrun exProg.embed TState.init).state.cfg = Config.unset := by decide
/-- the hypotheses of `gab_agrees_with_parallel` are met where the backend is replaced -/
example : ∃ g r, getActiveBackend Env.pinned
      { Config.unset with backend := some (.backend .loky (some 0)), n_jobs := some (.int 4),
                          require := some (.str "sharedmem") } none none none = .ok g ∧
    parallelInit Env.pinned
      { Config.unset with backend := some (.backend .loky (some 0)), n_jobs := some (.int 4),
                          require := some (.str "sharedmem") } Config.unset = .ok r ∧
    g.backend.cls = .threading ∧ g.n_jobs = .int 1 ∧ r.n_jobs = 1 :=
  ⟨_, _, rfl, rfl, by decide, by decide, by decide⟩

end C17
