import JoblibProofs.Lemmas.HashStream
import JoblibProofs.Lemmas.HashDecode
import JoblibProofs.Lemmas.HashMemo
/-!
# C08 — joblib.hash is a deterministic, order-insensitive, type-discriminating digest

Statement (properties.jsonl): joblib.hash is a pure function of the value: hashing the same value
again — in another interpreter process with a different string-hash seed, after rebuilding its
dicts, sets and frozensets in a different insertion order, or from equal but distinct string
objects — gives the same digest.  Values that differ in content or in type (1, 1.0 and True; 'a'
and b'a'; list and tuple; set and frozenset; any differing leaf of a nested container) get
different digests.

Model: `JoblibModel.HashStream` — `encode H v` is the byte stream `Hasher` hands to md5/sha1 for
the value `v` (tree with /verif/fixes/F06-frozenset-hash.diff applied), `encodeOld H v` the stream
of the pinned tree.  `H` is `joblib.hashing.hash` as a function bytes ↦ hex digits (a parameter:
no theorem is about md5).  The theorems are about the STREAM; "different stream ⇒ different
digest" is the collision-resistance assumption on md5/sha1, stated as such in the evidence.

Quantifier reached: every value of the recursive universe None/bool/int (any size)/float (bit
pattern)/str/bytes/list/tuple/set/frozenset/dict, any nesting depth and width (no bound), every
`H`.  String-hash seeds and insertion orders enter as the order in which the parts of a
set/frozenset/dict are listed in the model's input (`Reorder`); string identity does not enter
at all (the model's `str` has no identity: `Hasher.memoize` skips str/bytes, checked by the
correspondence with shared and distinct string objects).  Aliased tuples/containers are outside
the universe (property statement).

Hypotheses used
* determinism theorems: `KeysStrict H (depth v) v` — at every dict/set/frozenset node the things
  `sorted` is applied to are pairwise comparable and pairwise different (see its doc comment: true
  of every real Python value unless two keys of one container have colliding digests);
* injectivity theorems: `Plain (depth v) v` — no node of the value takes the digest fallback, and
  nothing exceeds a 4-byte length field — and `memoCount H v ≤ 2^32` (beyond either bound the real
  pickler raises instead of producing a stream).

FULL STATEMENT of the discrimination half: for ALL values of the universe, `encode H v = encode H w`
only if `v` and `w` are the same value.  It is FALSE on the digest-fallback path (F12, proved
below as `fallback_collision_counterexample`, a known finding); what is proved is
`encode_injective_partial`: the full statement for all values that never take the fallback.
Injectivity is proved through a decoder: a stack machine for the emitted pickle opcodes
(`Lemmas/HashDecode.lean`) that runs `encode H v` to the canonical listing of `v`, and is deterministic.
-/
namespace C08
open JoblibModel.HashStream

/-! ## determinism: insertion order and string-hash seed -/

/-- Rebuilding any dict / set / frozenset part of a value (at any depth) in another insertion
order does not change the stream: `Reorder v w` relates two listings of the same Python value.
Full strength, frozensets included (repaired code). -/
theorem encode_perm_invariant (H : Bs → Bs) (v w : PyVal) (h : Reorder v w)
    (hk : KeysStrict H (depth v) v) : encode H v = encode H w := by
  unfold encode encodeV
  rw [← h.depth_eq, encF_reorder H _ v w _ h hk]

/-- The stream does not depend on the string-hash seed: a seed only changes the order in which
sets and frozensets iterate (`iter`, an arbitrary permutation at every node), and every such
order is sorted away before use.  (The model has no other access to hash values.) -/
theorem encode_seed_free (H : Bs → Bs) (iter : List PyVal → List PyVal) (hit : ∀ l, (iter l).Perm l)
    (v : PyVal) (hk : KeysStrict H (depth v) v) : encode H (reiter iter v) = encode H v :=
  (encode_perm_invariant H v _ (reorder_reiter iter hit v) hk).symm

/-- The statement's three container kinds, one level, spelled out. -/
theorem encode_set_order (H : Bs → Bs) (l l' : List PyVal) (p : l.Perm l')
    (hk : KeysStrict H (depth (.set l)) (.set l)) : encode H (.set l) = encode H (.set l') :=
  encode_perm_invariant H _ _ (.set (ReorderL.refl l) p) hk

theorem encode_frozenset_order (H : Bs → Bs) (l l' : List PyVal) (p : l.Perm l')
    (hk : KeysStrict H (depth (.frozenset l)) (.frozenset l)) :
    encode H (.frozenset l) = encode H (.frozenset l') :=
  encode_perm_invariant H _ _ (.frozenset (ReorderL.refl l) p) hk

theorem encode_dict_order (H : Bs → Bs) (l l' : List (PyVal × PyVal)) (p : l.Perm l')
    (hk : KeysStrict H (depth (.dict l)) (.dict l)) : encode H (.dict l) = encode H (.dict l') :=
  encode_perm_invariant H _ _ (.dict (ReorderD.refl l) p) hk

/-! The hypotheses are satisfiable by non-trivial instances: a dict with a frozenset value and
orderable keys; a set with unorderable elements (fallback) under a digest function that keeps
the two keys apart. -/
example : KeysStrict (fun s => s) 3
    (.dict [(.int 2, .frozenset [.str [98], .str [97]]), (.float 0x3ff0000000000000, .none)]) := by
  simp [KeysStrict, itemsOf, keysOf, orderable, allPairs, holdsFrozenset, StrictOn, StrictPair]
  decide +kernel

example : KeysStrict (fun s => s) 2 (.set [.int 1, .str [97]]) := by
  simp [KeysStrict, keysOf, orderable, allPairs, holdsFrozenset, StrictOn, StrictPair]
  decide +kernel

example : Reorder (.set [.int 1, .tuple [.frozenset [.int 1, .int 2]]])
    (.set [.tuple [.frozenset [.int 2, .int 1]], .int 1]) :=
  .set (l' := [.int 1, .tuple [.frozenset [.int 2, .int 1]]])
    (.cons (.int 1) (.cons (.tuple (.cons (.frozenset (ReorderL.refl _) (List.Perm.swap _ _ _)) .nil)) .nil))
    (List.Perm.swap _ _ _)

/-! ## discrimination: different values, different streams -/

/-- `encode_injective_partial`: two values that never take the digest fallback and have the same
stream are two listings of the SAME value — they differ at most in the order in which the parts
of their dicts / sets / frozensets are listed (`Reorder` to a common `u`): same types everywhere,
same leaves, same structure.  Partial only in excluding the fallback path (where the full
statement is false: F12). -/
theorem encode_injective_partial (H : Bs → Bs) (v w : PyVal)
    (hv : Plain (depth v) v) (hw : Plain (depth w) w)
    (bv : memoCount H v ≤ 2 ^ 32) (bw : memoCount H w ≤ 2 ^ 32)
    (h : encode H v = encode H w) : ∃ u, Reorder v u ∧ Reorder w u := by
  have e := encode_inj H v w hv hw bv bw h
  exact ⟨canonF (depth v) v, reorder_canonF _ v, e ▸ reorder_canonF _ w⟩

/-- For values without dicts / sets / frozensets (nested lists and tuples of scalars) there is
nothing to reorder: equal streams ⇒ equal values.  "Any differing leaf of a nested container". -/
theorem encode_injective_ordered_partial (H : Bs → Bs) (v w : PyVal)
    (hv : Plain (depth v) v) (hw : Plain (depth w) w) (ov : Ordered (depth v) v) (ow : Ordered (depth w) w)
    (bv : memoCount H v ≤ 2 ^ 32) (bw : memoCount H w ≤ 2 ^ 32)
    (h : encode H v = encode H w) : v = w := by
  have e := encode_inj H v w hv hw bv bw h
  rwa [canonF_ordered _ v ov, canonF_ordered _ w ow] at e

/-- Type discrimination: values of different Python types never have the same stream (in
particular list vs tuple, set vs frozenset, int vs float vs bool, str vs bytes, whatever they
hold). -/
theorem type_discriminating_partial (H : Bs → Bs) (v w : PyVal)
    (hv : Plain (depth v) v) (hw : Plain (depth w) w)
    (bv : memoCount H v ≤ 2 ^ 32) (bw : memoCount H w ≤ 2 ^ 32)
    (ht : tyOf v ≠ tyOf w) : encode H v ≠ encode H w := by
  intro h
  have e := congrArg tyOf (encode_inj H v w hv hw bv bw h)
  rw [tyOf_canonF, tyOf_canonF] at e
  exact ht e

/-- list vs tuple, whatever the (plain) contents. -/
theorem discriminates_list_tuple (H : Bs → Bs) (l l' : List PyVal)
    (hv : Plain (depth (.list l)) (.list l)) (hw : Plain (depth (.tuple l')) (.tuple l'))
    (bv : memoCount H (.list l) ≤ 2 ^ 32) (bw : memoCount H (.tuple l') ≤ 2 ^ 32) :
    encode H (.list l) ≠ encode H (.tuple l') :=
  type_discriminating_partial H _ _ hv hw bv bw (by simp [tyOf])

/-- set vs frozenset, whatever the (plain) contents — the repaired code keeps them apart. -/
theorem discriminates_set_frozenset (H : Bs → Bs) (l l' : List PyVal)
    (hv : Plain (depth (.set l)) (.set l)) (hw : Plain (depth (.frozenset l')) (.frozenset l'))
    (bv : memoCount H (.set l) ≤ 2 ^ 32) (bw : memoCount H (.frozenset l') ≤ 2 ^ 32) :
    encode H (.set l) ≠ encode H (.frozenset l') :=
  type_discriminating_partial H _ _ hv hw bv bw (by simp [tyOf])

/-- `1`, `1.0` and `True` have three different streams (BININT1 / BINFLOAT / NEWTRUE). -/
theorem discriminates_1_1f_True (H : Bs → Bs) :
    encode H (.int 1) ≠ encode H (.float 0x3ff0000000000000) ∧
    encode H (.int 1) ≠ encode H (.bool true) ∧
    encode H (.float 0x3ff0000000000000) ≠ encode H (.bool true) := by
  have h1 : encode H (.int 1) = [128, 3, 75, 1, 46] := rfl
  have h2 : encode H (.float 0x3ff0000000000000) = [128, 3, 71, 63, 240, 0, 0, 0, 0, 0, 0, 46] := rfl
  have h3 : encode H (.bool true) = [128, 3, 136, 46] := rfl
  rw [h1, h2, h3]; decide

/-- `'a'` and `b'a'`. -/
theorem discriminates_str_bytes (H : Bs → Bs) : encode H (.str [97]) ≠ encode H (.bytes [97]) := by
  have h1 : encode H (.str [97]) = [128, 3, 88, 1, 0, 0, 0, 97, 46] := rfl
  have h2 : encode H (.bytes [97]) = [128, 3, 67, 1, 97, 46] := rfl
  rw [h1, h2]; decide

/-- … and generally, whatever the contents. -/
theorem discriminates_str_bytes_any (H : Bs → Bs) (s b : Bs) (hs : s.length < 2 ^ 32) (hb : b.length < 2 ^ 32) :
    encode H (.str s) ≠ encode H (.bytes b) :=
  type_discriminating_partial H _ _ hs hb (by simp [memoCount, depth, encF, Memo.init])
    (by simp [memoCount, depth, encF, Memo.init]) (by simp [tyOf])

/-- The hypotheses of the injectivity theorems are satisfiable by a non-trivial instance. -/
example : Plain 3 (.dict [(.int 2, .frozenset [.str [98], .str [97]]), (.float 0x3ff0000000000000, .list [.int (-5)])]) ∧
    memoCount (fun s => s)
      (.dict [(.int 2, .frozenset [.str [98], .str [97]]), (.float 0x3ff0000000000000, .list [.int (-5)])]) ≤ 2 ^ 32 := by
  refine ⟨?_, by decide +kernel⟩
  simp [Plain, orderable, allPairs, holdsFrozenset]
  decide +kernel

/-! ## F6 — the pinned code (old-code witness; the repaired code is what the theorems above are about) -/
section OldCode

/-- F6: on the pinned tree a frozenset is pickled in ITERATION order: the two iteration orders of
`frozenset([0, 8])` / `frozenset([8, 0])` (both occur in CPython, depending on insertion order)
give two streams, whatever the digest function. -/
theorem old_frozenset_order_dependent_counterexample (H : Bs → Bs) :
    encodeOld H (.frozenset [.int 0, .int 8]) ≠ encodeOld H (.frozenset [.int 8, .int 0]) := by
  have h1 : encodeOld H (.frozenset [.int 0, .int 8]) =
      [128, 3, 99, 98, 117, 105, 108, 116, 105, 110, 115, 10, 102, 114, 111, 122, 101, 110, 115, 101, 116, 10, 113,
        0, 93, 113, 1, 40, 75, 0, 75, 8, 101, 133, 113, 2, 82, 113, 3, 46] := rfl
  have h2 : encodeOld H (.frozenset [.int 8, .int 0]) =
      [128, 3, 99, 98, 117, 105, 108, 116, 105, 110, 115, 10, 102, 114, 111, 122, 101, 110, 115, 101, 116, 10, 113,
        0, 93, 113, 1, 40, 75, 8, 75, 0, 101, 133, 113, 2, 82, 113, 3, 46] := rfl
  rw [h1, h2]; decide

set_option exponentiation.threshold 1100 in
set_option maxRecDepth 4000 in
/-- … while the repaired code gives one stream for both. -/
theorem fixed_frozenset_witness (H : Bs → Bs) :
    encode H (.frozenset [.int 0, .int 8]) = encode H (.frozenset [.int 8, .int 0]) := by
  have h1 : encode H (.frozenset [.int 0, .int 8]) =
      [128, 3, 99, 106, 111, 98, 108, 105, 98, 46, 104, 97, 115, 104, 105, 110, 103, 10, 95, 67, 111, 110,
        115, 105, 115, 116, 101, 110, 116, 70, 114, 111, 122, 101, 110, 83, 101, 116, 10, 113, 0, 41, 129, 113, 1, 125,
        113, 2, 88, 9, 0, 0, 0, 95, 115, 101, 113, 117, 101, 110, 99, 101, 93, 113, 3, 40, 75, 0, 75, 8, 101, 115, 98, 46] := rfl
  have h2 : encode H (.frozenset [.int 8, .int 0]) =
      [128, 3, 99, 106, 111, 98, 108, 105, 98, 46, 104, 97, 115, 104, 105, 110, 103, 10, 95, 67, 111, 110,
        115, 105, 115, 116, 101, 110, 116, 70, 114, 111, 122, 101, 110, 83, 101, 116, 10, 113, 0, 41, 129, 113, 1, 125,
        113, 2, 88, 9, 0, 0, 0, 95, 115, 101, 113, 117, 101, 110, 99, 101, 93, 113, 3, 40, 75, 0, 75, 8, 101, 115, 98, 46] := rfl
  rw [h1, h2]

set_option exponentiation.threshold 1100 in
set_option maxRecDepth 4000 in
/-- The repair does not touch a value that holds no frozenset: same stream as the pinned code
(shown on an instance with every other constructor; the general statement is checked by the
correspondence, which runs both encoders against the pinned tree). -/
theorem fixed_eq_old_witness (H : Bs → Bs) :
    encode H (.list [.set [.int 2, .int 1], .dict [(.str [97], .tuple [.none, .bool true, .float 0])], .bytes [0]])
      = encodeOld H (.list [.set [.int 2, .int 1], .dict [(.str [97], .tuple [.none, .bool true, .float 0])], .bytes [0]]) := by
  have h1 : encode H (.list [.set [.int 2, .int 1], .dict [(.str [97], .tuple [.none, .bool true, .float 0])], .bytes [0]]) =
      [128, 3, 93, 113, 0, 40, 99, 106, 111, 98, 108, 105, 98, 46, 104, 97, 115, 104, 105, 110, 103, 10, 95, 67,
        111, 110, 115, 105, 115, 116, 101, 110, 116, 83, 101, 116, 10, 113, 1, 41, 129, 113, 2, 125, 113, 3, 88, 9, 0, 0,
        0, 95, 115, 101, 113, 117, 101, 110, 99, 101, 93, 113, 4, 40, 75, 1, 75, 2, 101, 115, 98, 125, 113, 5, 88, 1, 0,
        0, 0, 97, 78, 136, 71, 0, 0, 0, 0, 0, 0, 0, 0, 135, 113, 6, 115, 67, 1, 0, 101, 46] := rfl
  have h2 : encodeOld H (.list [.set [.int 2, .int 1], .dict [(.str [97], .tuple [.none, .bool true, .float 0])], .bytes [0]]) =
      [128, 3, 93, 113, 0, 40, 99, 106, 111, 98, 108, 105, 98, 46, 104, 97, 115, 104, 105, 110, 103, 10, 95, 67,
        111, 110, 115, 105, 115, 116, 101, 110, 116, 83, 101, 116, 10, 113, 1, 41, 129, 113, 2, 125, 113, 3, 88, 9, 0, 0,
        0, 95, 115, 101, 113, 117, 101, 110, 99, 101, 93, 113, 4, 40, 75, 1, 75, 2, 101, 115, 98, 125, 113, 5, 88, 1, 0,
        0, 0, 97, 78, 136, 71, 0, 0, 0, 0, 0, 0, 0, 0, 135, 113, 6, 115, 67, 1, 0, 101, 46] := rfl
  rw [h1, h2]

end OldCode

/-! ## F12 — the md5 fallback replaces keys by their digests -/

/-- F12 (known finding): when the elements of a set are not mutually orderable they are replaced
by their digests, so `{1, 'a'}` and the set of the two digest STRINGS have the same stream — for
every digest function `H`. -/
theorem fallback_collision_counterexample (H : Bs → Bs) :
    let v : PyVal := .set [.int 1, .str [97]]
    let w : PyVal := .set [.str (H (encode H (.int 1))), .str (H (encode H (.str [97])))]
    v ≠ w ∧ encode H v = encode H w := by
  refine ⟨by simp, ?_⟩
  rfl

/-- The same for a dict: `{1: 'x', 'a': 'y'}` against `{hash(1): 'x', hash('a'): 'y'}`. -/
theorem fallback_collision_dict_counterexample (H : Bs → Bs) :
    let v : PyVal := .dict [(.int 1, .str [120]), (.str [97], .str [121])]
    let w : PyVal := .dict [(.str (H (encode H (.int 1))), .str [120]), (.str (H (encode H (.str [97]))), .str [121])]
    v ≠ w ∧ encode H v = encode H w := by
  refine ⟨by simp, ?_⟩
  rfl

/-! ## F40 — `Hasher._batch_setitems` on the one-shot item iterator of OrderedDict / dict subclasses

`encodeOD H iv items` is the stream of a top-level `collections.OrderedDict(items)` under the three
versions of `Hasher._batch_setitems` (`ItemsVer`); validated byte for byte by the correspondence
against the matching tree. -/
section OrderedDictIterator

/-- F40 (regression of the first F6 repair, commit aa0f898): the frozenset pre-scan exhausts the
iterator, so `OrderedDict(a=1)`, `OrderedDict(a=2)` and `OrderedDict()` have ONE stream, for every `H`. -/
theorem regressed_ordereddict_collision_counterexample (H : Bs → Bs) :
    encodeOD H .regressed [(.str [97], .int 1)] = encodeOD H .regressed [] ∧
    encodeOD H .regressed [(.str [97], .int 2)] = encodeOD H .regressed [] := by
  have h0 : encodeOD H .regressed [] =
      [128, 3, 99, 99, 111, 108, 108, 101, 99, 116, 105, 111, 110, 115, 10, 79, 114, 100, 101, 114, 101, 100, 68, 105, 99,
        116, 10, 113, 0, 41, 82, 113, 1, 46] := rfl
  have h1 : encodeOD H .regressed [(.str [97], .int 1)] =
      [128, 3, 99, 99, 111, 108, 108, 101, 99, 116, 105, 111, 110, 115, 10, 79, 114, 100, 101, 114, 101, 100, 68, 105, 99,
        116, 10, 113, 0, 41, 82, 113, 1, 46] := rfl
  have h2 : encodeOD H .regressed [(.str [97], .int 2)] =
      [128, 3, 99, 99, 111, 108, 108, 101, 99, 116, 105, 111, 110, 115, 10, 79, 114, 100, 101, 114, 101, 100, 68, 105, 99,
        116, 10, 113, 0, 41, 82, 113, 1, 46] := rfl
  rw [h0, h1, h2]; exact ⟨rfl, rfl⟩

/-- The repaired code (`items = list(items)` first) keeps the three apart: the items are in the stream. -/
theorem repaired_ordereddict_witness (H : Bs → Bs) :
    encodeOD H .repaired [(.str [97], .int 1)] ≠ encodeOD H .repaired [] ∧
    encodeOD H .repaired [(.str [97], .int 1)] ≠ encodeOD H .repaired [(.str [97], .int 2)] := by
  have h0 : encodeOD H .repaired [] =
      [128, 3, 99, 99, 111, 108, 108, 101, 99, 116, 105, 111, 110, 115, 10, 79, 114, 100, 101, 114, 101, 100, 68, 105, 99,
        116, 10, 113, 0, 41, 82, 113, 1, 46] := rfl
  have h1 : encodeOD H .repaired [(.str [97], .int 1)] =
      [128, 3, 99, 99, 111, 108, 108, 101, 99, 116, 105, 111, 110, 115, 10, 79, 114, 100, 101, 114, 101, 100, 68, 105, 99,
        116, 10, 113, 0, 41, 82, 113, 1, 88, 1, 0, 0, 0, 97, 75, 1, 115, 46] := rfl
  have h2 : encodeOD H .repaired [(.str [97], .int 2)] =
      [128, 3, 99, 99, 111, 108, 108, 101, 99, 116, 105, 111, 110, 115, 10, 79, 114, 100, 101, 114, 101, 100, 68, 105, 99,
        116, 10, 113, 0, 41, 82, 113, 1, 88, 1, 0, 0, 0, 97, 75, 2, 115, 46] := rfl
  rw [h0, h1, h2]; decide

/-- The pinned tree had the same hole on the fallback path: `sorted(iterator)` consumes the items
before raising `TypeError`, and the digest fallback then iterates nothing —
`OrderedDict({1: 'x', 'a': 'y'})` hashed like `OrderedDict()`. -/
theorem pinned_ordereddict_fallback_counterexample (H : Bs → Bs) :
    encodeOD H .pinned [(.int 1, .str [120]), (.str [97], .str [121])] = encodeOD H .pinned [] := by
  have h0 : encodeOD H .pinned [] =
      [128, 3, 99, 99, 111, 108, 108, 101, 99, 116, 105, 111, 110, 115, 10, 79, 114, 100, 101, 114, 101, 100, 68, 105, 99,
        116, 10, 113, 0, 41, 82, 113, 1, 46] := rfl
  have h1 : encodeOD H .pinned [(.int 1, .str [120]), (.str [97], .str [121])] =
      [128, 3, 99, 99, 111, 108, 108, 101, 99, 116, 105, 111, 110, 115, 10, 79, 114, 100, 101, 114, 101, 100, 68, 105, 99,
        116, 10, 113, 0, 41, 82, 113, 1, 46] := rfl
  rw [h0, h1]

end OrderedDictIterator

/-! ## Values with shared sub-objects: the memo numbering

Aliased values are outside `PyVal` (the byte-stream model and `encode_injective_partial` speak of trees); for them the
check is an oracle on the implementation (harness/props/c08.py, `aliased_family`).  What IS modelled is the one thing
their discrimination rests on: the second occurrence of an object is written as `BINGET idx`, and `idx` comes from
`Pickler.memoize` (`idx = len(self.memo)`), `JoblibModel.HashMemo`.

FULL STATEMENT (not proved: it needs a `ref k` node in the value universe and the decoder's memo):
`encode` is injective on values with shared references.  PROVED, the numbering half:
the i-th `memoize` call of a dump gets index i (`memo_indices_are_positions`; the check compares exactly this with the
real `Hasher.memo`), so no two live objects share an index and a `BINGET k` stands for at most one object
(`binget_unambiguous_partial`); and the numbering rests on the memo never shrinking: as soon as a live entry owns the
index `len(memo)`, the next `memoize` hands that index to a second object (`reissued_index_is_ambiguous`), which is what
popping three entries behind a surviving one does (`pop_reissues_index_counterexample`). -/
section SharedReferences

/-- The memo of a dump that memoised `objs` (in this order) numbers them 0, 1, 2, … -/
theorem memo_indices_are_positions (objs : List Nat) : JoblibModel.HashMemo.indices (JoblibModel.HashMemo.run objs) = List.range objs.length :=
  JoblibModel.HashMemo.indices_run objs

/-- No index is issued twice during a dump. -/
theorem memo_indices_distinct (objs : List Nat) : (JoblibModel.HashMemo.indices (JoblibModel.HashMemo.run objs)).Nodup := by
  rw [JoblibModel.HashMemo.indices_run]; exact List.nodup_range

/-- A `BINGET k` stands for at most one object of the memo. -/
theorem binget_unambiguous_partial (objs : List Nat) (k : Nat) : (JoblibModel.HashMemo.owners (JoblibModel.HashMemo.run objs) k).length ≤ 1 := by
  have hn := memo_indices_distinct objs
  have hc := JoblibModel.HashMemo.owners_length (JoblibModel.HashMemo.run objs) k
  rw [hc]
  exact List.nodup_iff_count.mp hn k

/-- If a live entry owns the index `len(memo)` (possible only after entries were removed), the next `memoize` makes
that index ambiguous: it then belongs to the old owner AND to the new object. -/
theorem reissued_index_is_ambiguous (m : JoblibModel.HashMemo.Memo) (o b : Nat) (h : (o, m.length) ∈ m) :
    o ∈ JoblibModel.HashMemo.owners (JoblibModel.HashMemo.memoize m b) m.length ∧ b ∈ JoblibModel.HashMemo.owners (JoblibModel.HashMemo.memoize m b) m.length := by
  constructor
  · simp only [JoblibModel.HashMemo.owners, JoblibModel.HashMemo.memoize, List.mem_map, List.mem_filter, List.mem_append]
    exact ⟨(o, m.length), ⟨Or.inl h, by simp⟩, rfl⟩
  · simp only [JoblibModel.HashMemo.owners, JoblibModel.HashMemo.memoize, List.mem_map, List.mem_filter, List.mem_append]
    exact ⟨(b, m.length), ⟨Or.inr (by simp), by simp⟩, rfl⟩

/-- Six objects memoised (0 … 5), the entries of 2, 3 and 4 popped (the proxy of a set, its `__dict__`, its sorted
list; 5 = an element of the set), three more objects memoised: the third one (8) is given index 5, which object 5
still owns — `BINGET 5` is ambiguous. -/
theorem pop_reissues_index_counterexample :
    JoblibModel.HashMemo.owners ([6, 7, 8].foldl JoblibModel.HashMemo.memoize ([2, 3, 4].foldl JoblibModel.HashMemo.pop (JoblibModel.HashMemo.run [0, 1, 2, 3, 4, 5]))) 5 = [5, 8] := by decide

end SharedReferences

end C08
