import JoblibProofs.Lemmas.ParallelProto
import JoblibProofs.Lemmas.ParallelSeq
/-!
# C16 — Generator outputs: prompt, in the promised order, safe to abandon

Statement (properties.jsonl): with `return_as='generator'` each result becomes available as soon as it and all
earlier-submitted tasks have completed, without waiting for later tasks; with `'generator_unordered'` results are
delivered in completion order, each exactly once. Closing or dropping the generator before exhaustion stops further
dispatch, terminates cleanly and leaves the `Parallel` object reusable, while calling the object again during an
unfinished run raises `RuntimeError` instead of mixing the two runs.

Model: `JoblibModel.ParallelProto` (M1): `genNext` is `next(g)`, `hook c false` a pause of the consumer (completions
may arrive), `genClose` is `g.close()` / dropping the last reference, `exitBlock` is `Parallel.__exit__` (leaving the `with` block
while the generator is alive, consumer op 6).

Quantifier reached: ALL schedules, ALL points at which the consumer pulls / pauses / closes (any interleaving of
`genNext`, `hook c false`, `genClose` from any state satisfying the generator invariant `GenGood`, which `callStart`
establishes and every one of these operations preserves), all configurations as in C01. Ordered mode
(`return_as='generator'`) in full; for `'generator_unordered'`: every value exactly once
(`unordered_each_exactly_once`, multiset tracking through the whole run) plus the two local FIFO facts about the
completed-jobs queue (`unordered_completion_order_partial`).
-/
namespace C16
open JoblibModel.ParallelProto

/-- PROMPTNESS. Ordered generator mode: if the generator's buffer is empty, the call is not aborting and the head
of the job queue has completed, then `next()` returns the first result of that batch WITHOUT consuming any
schedule entry: no hook point is passed, no clock tick, no further completion is waited for — whatever the state
of the later batches. (Also when it is the last batch: the value then comes from the tail loop.) -/
theorem promptness {c : Cfg} {t0 : Nat} (hra : c.ra ≠ 2) (fuel : Nat) {s : St} {g : Gen} {i : Nat} {rest : List Nat}
    (h : Inv c t0 s) (hph : g.phase = .start ∨ g.phase = .retrieve) (hb : g.buf = []) (hna : s.aborting = false)
    (hj : s.jobs = i :: rest) (hd : (getTrk s i).status = .done) :
    ∃ s' g' v r, genNext c (fuel + 2) s g = (s', g', .value v) ∧ (getTrk s i).items = v :: r ∧
      s'.sched = s.sched ∧ s'.now = s.now ∧ s'.parked = s.parked ∧ s'.hung = s.hung := by
  obtain ⟨s', g', v, r, h1, h2, _, h4, h5, h6, h7⟩ :=
    promptness_step (by simp [ordered, hra]) fuel h hph hb hna hj hd
  exact ⟨s', g', v, r, h1, h2, h4, h5, h6, h7⟩

/-- ORDERED YIELDS IN ORDER (1/3). When `callStart` hands over (call accepted, not aborting), what the generator
is going to yield is exactly the sequential result list, and the generator invariant holds. -/
theorem ordered_yields_in_order_init {c : Cfg} (hnj : 2 ≤ c.nj) (hbs : ∀ b ∈ c.bs, 1 ≤ b) (hra : c.ra ≠ 2)
    (hpd : c.pdMode = 1 ∨ 1 ≤ c.pd) {fuel base : Nat} {spec : CallSpec} {s₀ : St} (hi : Idle s₀)
    (hh : s₀.hung = false) (hfuel : 2 * spec.n + s₀.sched.length + s₀.parked.length + 2 ≤ fuel) :
    ∃ s1, callStart c fuel base spec s₀ = (s1, none) ∧ GenGood c s₀.trk.length fuel s1 {} ∧
      (s1.aborting = false → restG s1 {} = List.range' base spec.n) := by
  have hc : CfgOK c := ⟨by omega, hbs⟩
  have ho : ordered c = true := by simp [ordered, hra]
  obtain ⟨s1, he, hS⟩ := callStart_started hc fuel base spec hi hh
  obtain ⟨_, _, _, f4, f5, _, _, _⟩ := hS.frame
  refine ⟨s1, he, Or.inl ⟨Or.inl rfl, ⟨hS.inv, hS.post (by omega) hh hpd, by rw [hS.hung]; exact hh, by rw [f4, f5]⟩,
    by omega, fun hna => ?_⟩, fun hna => ?_⟩
  · have := hS.meas_le hna
    have := hS.sched_le
    simp only [boundR]; omega
  · simp only [restG]
    rw [if_neg (by simp)]
    simp only [List.nil_append]
    exact hS.restS ho hna

/-- ORDERED YIELDS IN ORDER (2/3). Every `next()` on a well-formed generator either yields the HEAD of what remains
to be yielded (and the rest remains), or stops when nothing remains, or raises a legitimate exception; it never
hangs; the generator stays well formed. Hence the values come out in submission order, each once. -/
theorem ordered_yields_in_order {c : Cfg} (hnj : 2 ≤ c.nj) (hbs : ∀ b ∈ c.bs, 1 ≤ b) (hra : c.ra ≠ 2)
    {t0 fuel : Nat} {s : St} {g : Gen} (hg : GenGood c t0 fuel s g) :
    match genNext c fuel s g with
    | (s', g', .value v) => GenGood c t0 fuel s' g' ∧
        ((g'.phase = .tail ∨ s'.aborting = false) → restG s g = v :: restG s' g')
    | (s', _, .stop) => restG s g = [] ∧ Idle s' ∧ Clean s'
    | (s', _, .raise e) => Legit c s e ∧ Idle s' ∧ Clean s'
    | (_, _, .hang) => False := by
  have h := genNext_spec ⟨by omega, hbs⟩ (by simp [ordered, hra]) hg
  generalize genNext c fuel s g = r at h
  obtain ⟨s', g', o⟩ := r
  cases o with
  | value v => exact ⟨h.1, h.2.1⟩
  | stop => exact ⟨h.2.2.2.2.1, h.2.1, h.2.2.1⟩
  | raise e => exact ⟨h.2.2.2.2.1, h.2.1, h.2.2.1⟩
  | hang => exact h

/-- ORDERED YIELDS IN ORDER (3/3). A pause of the consumer — a hook point at which any completions may be
delivered — keeps the generator well formed and does not change what it is going to yield. -/
theorem pause_keeps_order {c : Cfg} (hnj : 2 ≤ c.nj) (hbs : ∀ b ∈ c.bs, 1 ≤ b) (hra : c.ra ≠ 2)
    {t0 fuel : Nat} {s : St} {g : Gen} (hg : GenGood c t0 fuel s g) :
    GenGood c t0 fuel (hook c false s) g ∧
    ((g.phase = .tail ∨ (hook c false s).aborting = false) → restG (hook c false s) g = restG s g) :=
  pause_spec ⟨by omega, hbs⟩ (by simp [ordered, hra]) hg

/-- UNORDERED: EACH EXACTLY ONCE. `return_as='generator_unordered'`: every `next()` on a well-formed generator
either yields a value that is one of the values still to come — and what remains is what remained before minus that
value, as a multiset — or stops when nothing remains, or raises a legitimate exception; it never hangs. So over a
whole run every result is delivered exactly once (and at the start what is to come is `List.range' base n`:
`return_correct_unordered` in C01). Pauses of the consumer do not change what is to come. -/
theorem unordered_each_exactly_once {c : Cfg} (hnj : 2 ≤ c.nj) (hbs : ∀ b ∈ c.bs, 1 ≤ b) (hra : c.ra = 2)
    {t0 fuel : Nat} {s : St} {g : Gen} (hg : GenGoodU c t0 fuel s g) :
    (match genNext c fuel s g with
    | (s', g', .value v) => GenGoodU c t0 fuel s' g' ∧
        ((g'.phase = .tail ∨ s'.aborting = false) → (restGU s g).Perm (v :: restGU s' g'))
    | (s', _, .stop) => restGU s g = [] ∧ Idle s' ∧ Clean s'
    | (s', _, .raise e) => Legit c s e ∧ Idle s' ∧ Clean s'
    | (_, _, .hang) => False) ∧
    (GenGoodU c t0 fuel (hook c false s) g ∧
      ((g.phase = .tail ∨ (hook c false s).aborting = false) → restGU (hook c false s) g = restGU s g)) := by
  have hc : CfgOK c := ⟨by omega, hbs⟩
  have ho : ordered c = false := by simp [ordered, hra]
  refine ⟨?_, pause_spec_u hc ho hg⟩
  have h := genNextU_spec hc ho hg
  generalize genNext c fuel s g = r at h
  obtain ⟨s', g', o⟩ := r
  cases o with
  | value v => exact ⟨h.1, h.2.1⟩
  | stop => exact ⟨h.2.2.2.2.1, h.2.1, h.2.2.1⟩
  | raise e => exact ⟨h.2.2.2.2.1, h.2.1, h.2.2.1⟩
  | hang => exact h

/-
Full statement for the ORDER in `return_as='generator_unordered'` (not proved as a statement about whole runs):
  unordered_completion_order: the sequence of batches yielded by successive `next()` is the sequence in which
  `registerOutcome` appended them to `_jobs`.
What is proved: `unordered_each_exactly_once` (whole runs, as multisets) and the two local FIFO facts below
(append at the end on registration, pop at the head on retrieval; `_jobs` is duplicate-free by `InvU`). What is
missing is only the bookkeeping of the two sequences along a run (a ghost history the model does not carry).
-/

/-- UNORDERED COMPLETION ORDER (partial). (1) In unordered mode a completion callback appends its tracker at the
END of `_jobs`, and only the first time (a tracker whose outcome is already registered is not appended again).
(2) The retrieval loop takes the HEAD of `_jobs`: with an empty buffer, not aborting, still waiting, the head batch
being in `_jobs_set` and carrying its values, `next()` yields that batch's first value and removes the batch from
both `_jobs` and `_jobs_set`. -/
theorem unordered_completion_order_partial {c : Cfg} (hra : c.ra = 2) :
    (∀ (s : St) (i : Nat) (st : Status) (r : Res), (getTrk s i).status = .pending →
      (registerOutcome c s i st r).jobs = s.jobs ++ [i]) ∧
    (∀ (s : St) (i : Nat) (st : Status) (r : Res), (getTrk s i).status ≠ .pending →
      (registerOutcome c s i st r).jobs = s.jobs) ∧
    (∀ (fuel : Nat) (s : St) (g : Gen) (i : Nat) (rest : List Nat) (v : Nat) (l : List Nat),
      g.phase = .retrieve → g.buf = [] → s.aborting = false →
      (s.iterating = true ∨ s.nCompleted < s.nDispTasks) → s.jobs = i :: rest → i ∈ s.jobsSet →
      (getTrk s i).status = .done → (getTrk s i).result = .vals (v :: l) →
      ∃ s' g', genNext c (fuel + 2) s g = (s', g', .value v) ∧ g'.buf = l ∧ s'.jobs = rest ∧
        s'.jobsSet = removeFirst i s.jobsSet ∧ s'.sched = s.sched) := by
  have ho : ordered c = false := by simp [ordered, hra]
  refine ⟨?_, ?_, ?_⟩
  · intro s i st r hp
    unfold registerOutcome
    simp only [hp, ho]
    cases st <;> simp [setTrk]
  · intro s i st r hp
    rw [registerOutcome_nonpending hp]
  · intro fuel s g i rest v l hph hb hna hw hj hmem hd hres
    obtain ⟨gph, gbuf, grem, gtcj⟩ := g
    simp only at hph hb
    subst hph; subst hb
    unfold genNext
    simp only
    unfold retrieveLoop
    simp only
    have hw' : ¬ (!(s.aborting || s.iterating || decide (s.nCompleted < s.nDispTasks))) = true := by
      rcases hw with hw | hw <;> simp [hna, hw]
    rw [if_neg hw', if_neg (by simp [hna]), if_neg (by simp [ho]), hj]
    simp only
    cases gtcj with
    | none =>
      simp only
      rw [if_neg (by simp [hmem])]
      have hgi : getTrk { s with jobs := rest, jobsSet := removeFirst i s.jobsSet } i = getTrk s i := rfl
      rw [getResult_vals (s := { s with jobs := rest, jobsSet := removeFirst i s.jobsSet }) (l := v :: l)
        (by rw [hgi]; exact hres) (by rw [hgi, hd]; simp)]
      simp only
      unfold retrieveLoop
      simp only
      exact ⟨_, _, rfl, rfl, rfl, rfl, rfl⟩
    | some j =>
      simp only
      generalize hs1 : setTrk s j { getTrk s j with toCounter := none } = s1
      have hg1 : (getTrk s1 i).status = (getTrk s i).status ∧ (getTrk s1 i).result = (getTrk s i).result := by
        rw [← hs1, getTrk_setTrk]
        split
        · rename_i hc; obtain ⟨hc1, _⟩ := hc; subst hc1; exact ⟨rfl, rfl⟩
        · exact ⟨rfl, rfl⟩
      have hjs : s1.jobsSet = s.jobsSet := by rw [← hs1]; rfl
      have hsch : s1.sched = s.sched := by rw [← hs1]; rfl
      rw [if_neg (by rw [hjs]; simp [hmem])]
      have hgi : getTrk { s1 with jobs := rest, jobsSet := removeFirst i s1.jobsSet } i = getTrk s1 i := rfl
      rw [getResult_vals (s := { s1 with jobs := rest, jobsSet := removeFirst i s1.jobsSet }) (l := v :: l)
        (by rw [hgi, hg1.2]; exact hres) (by rw [hgi, hg1.1, hd]; simp)]
      simp only
      unfold retrieveLoop
      simp only
      refine ⟨_, _, rfl, rfl, rfl, ?_, hsch⟩
      show removeFirst i s1.jobsSet = _
      rw [hjs]

/-- OVERLAP RAISES. Calling the object while a run is unfinished (`_running`) raises `RuntimeError` and changes
nothing at all. -/
theorem overlap_raises (c : Cfg) (fuel base : Nat) (spec : CallSpec) (s : St) (h : s.running = true) :
    callStart c fuel base spec s = (s, some .runtime) :=
  callStart_running c fuel base spec s h

/-- CLOSE STOPS DISPATCH. After `close()` (or dropping the generator) during the run the call is aborting;
from then on — until the next call resets the flag — every `dispatch_one_batch` from any thread returns without
slicing the input or submitting a batch, and every completion delivered by the backend leaves the input position,
the tracker table and the queues unchanged. -/
theorem close_stops_dispatch (c : Cfg) (s : St) (g : Gen) (hph : g.phase = .start ∨ g.phase = .retrieve) :
    (genClose c s g).1.aborting = true ∧
    (∀ s' : St, s'.aborting = true →
      (∀ fo bs, dispatchLocked c fo bs s' = (s', false)) ∧ dispatchOneCb c s' = (s', false) ∧
      dispatchOneMain c s' = (s', false) ∧ (∀ b, dispatch c s' b = s') ∧
      (∀ k, ∃ lg pk ib, deliver c k s' = { s' with log := lg, parked := pk, inCb := ib })) := by
  constructor
  · rw [genClose_active c s hph]
    obtain ⟨lg, pk, sc, ib, he, _, _⟩ := handleException_eq c s
    show (handleException c s).aborting = true
    rw [he]
  · intro s' hab
    exact ⟨fun fo bs => dispatchLocked_aborting c fo bs hab, dispatchOneCb_aborting c hab,
      dispatchOneMain_aborting c hab, fun b => dispatch_aborting c b hab, fun k => deliver_aborting c k hab⟩

/-- CLOSE LEAVES CLEAN. Closing the generator of a run in progress leaves the object clean (`_running = False`,
no job queue, `_calling = False`) and idle — so the next call is accepted and, by C04 `next_call_is_fresh` /
C01 `return_correct`, returns exactly the results of its own tasks. -/
theorem close_leaves_clean {c : Cfg} {t0 : Nat} {s : St} {g : Gen} (h : GoodR c t0 s)
    (hph : g.phase = .start ∨ g.phase = .retrieve) :
    Clean (genClose c s g).1 ∧ Idle (genClose c s g).1 ∧ (genClose c s g).1.hung = false ∧
      (genClose c s g).2.phase = .done := by
  rw [genClose_active c s hph]
  obtain ⟨x, y, _, w, _⟩ := raise_end (c := c) (s3 := s) h (fun _ => rfl) rfl rfl rfl rfl rfl
  exact ⟨y, x, w, rfl⟩

/-- LEAVING THE `with` BLOCK while the generator is alive (`Parallel.__exit__`, consumer op 6). `__exit__` changes
`managed`, `_calling`, the abort flags and the backend's bookkeeping only — in particular `_running` stays set (it
is cleared by the generator's own `finally`), the job queues, the tracker table and the input position are
untouched — and, in a generator mode with the call still in progress, the object is aborting afterwards. -/
theorem exit_block_effect (c : Cfg) (s : St) :
    ∃ lg pk sc ib ab abd,
      exitBlock c s = { s with log := lg, parked := pk, sched := sc, inCb := ib, managed := false, calling := false, aborting := ab, aborted := abd } ∧
      pk.Sublist s.parked ∧ sc.length ≤ s.sched.length ∧ (s.aborting = true → ab = true) ∧
      (c.ra ≠ 0 → s.calling = true → ab = true) := by
  obtain ⟨lg, pk, sc, ib, ab, abd, h1, h2, h3, h4, h5⟩ := exitBlock_eq c s
  exact ⟨lg, pk, sc, ib, ab, abd, h1, h2, h3, h4, fun hra hc => h5 (by simp [isGen, hra]) hc⟩

/-- CALL AGAIN AFTER LEAVING THE BLOCK. As long as the abandoned generator has not run its clean-up, calling the
object again after `__exit__` raises `RuntimeError` and changes nothing: the two runs are never mixed. -/
theorem call_again_after_exit_raises (c : Cfg) (fuel base : Nat) (spec : CallSpec) (s : St)
    (h : s.running = true) :
    callStart c fuel base spec (exitBlock c s) = (exitBlock c s, some .runtime) := by
  apply callStart_running
  obtain ⟨lg, pk, sc, ib, ab, abd, h1, _⟩ := exitBlock_eq c s
  rw [h1]; exact h

/-- LEAVING THE BLOCK STOPS DISPATCH. After `__exit__` in a generator mode with the call in progress the object is
aborting; from then on every `dispatch_one_batch` from any thread returns without slicing the input or submitting a
batch, and every completion delivered by the backend leaves the `Parallel` object unchanged. -/
theorem exit_stops_dispatch (c : Cfg) (s : St) (hra : c.ra ≠ 0) (hcalling : s.calling = true) :
    (exitBlock c s).aborting = true ∧
    (∀ fo bs, dispatchLocked c fo bs (exitBlock c s) = (exitBlock c s, false)) ∧
    dispatchOneCb c (exitBlock c s) = (exitBlock c s, false) ∧
    dispatchOneMain c (exitBlock c s) = (exitBlock c s, false) ∧
    (∀ k, ∃ lg pk ib, deliver c k (exitBlock c s) = { exitBlock c s with log := lg, parked := pk, inCb := ib }) := by
  have hab : (exitBlock c s).aborting = true := by
    obtain ⟨lg, pk, sc, ib, ab, abd, h1, _, _, _, h5⟩ := exitBlock_eq c s
    rw [h1]; exact h5 (by simp [isGen, hra]) hcalling
  exact ⟨hab, fun fo bs => dispatchLocked_aborting c fo bs hab, dispatchOneCb_aborting c hab,
    dispatchOneMain_aborting c hab, fun k => deliver_aborting c k hab⟩

/-! ### the hypotheses are satisfiable -/

/-- A generator-mode run (`n_jobs=2`, `batch_size=1`, `pre_dispatch=2`): the first `next()` waits for batch 0 and
yields 0 although batch 1 completed first in the schedule. -/
example : (genNext (⟨2, false, [1], 0, 2, 1, -1, false, true⟩ : Cfg) 50
      (callStart (⟨2, false, [1], 0, 2, 1, -1, false, true⟩ : Cfg) 50 0 ⟨4, [], -1, []⟩
        ({ sched := [[1], [0]], failIds := [] } : St)).1 {}).2.2 = .value 0 := by decide


/-! ### the sequential path (`n_jobs == 1`) -/

section Sequential
open JoblibModel.ParallelSeq

/-- SEQUENTIAL PROMPTNESS. Every `next()` on a live sequential generator returns without consuming any schedule
entry (no hook point, no waiting: the task runs in the caller): it yields the next value, or raises, or — only when
all `n` tasks have been executed — stops; it never hangs. -/
theorem sequential_promptness (fuel : Nat) {s : St} {g : SGen} (h : SInv s g) :
    (seqNext (fuel + 2) s g).1.sched = s.sched ∧ (seqNext (fuel + 2) s g).1.now = s.now ∧
    (seqNext (fuel + 2) s g).2.2 ≠ .hang ∧
    ((seqNext (fuel + 2) s g).2.2 = .stop → s.nCompleted = s.spec.n) := by
  have := seqNext_spec fuel h
  generalize seqNext (fuel + 2) s g = r at this
  obtain ⟨s', g', o⟩ := r
  cases o with
  | value v => exact ⟨this.2.2.2.2.2.sched, this.2.2.2.2.2.now, by simp, by intro hh; cases hh⟩
  | stop => exact ⟨this.2.2.2.2.2.2.2.2.2.sched, this.2.2.2.2.2.2.2.2.2.now, by simp, fun _ => this.2.2.2.2.2.1⟩
  | raise e => exact ⟨this.2.2.2.2.2.1.sched, this.2.2.2.2.2.1.now, by simp, by intro hh; cases hh⟩
  | hang => exact this.elim

/-- SEQUENTIAL OVERLAP RAISES. Calling the object while a (sequential) run is unfinished raises `RuntimeError` and
changes nothing. -/
theorem sequential_overlap_raises (c : Cfg) (base : Nat) (spec : CallSpec) (s : St) (h : s.running = true) :
    seqStart c base spec s = (s, { live := false }, some .runtime) :=
  seqStart_running c base spec s h

/-- SEQUENTIAL CLOSE LEAVES CLEAN. Closing (or dropping) the live sequential generator clears `_running`, marks the
generator finished (further `next()` stop), and — in the context of the call it belongs to — leaves the object idle,
so the next call is accepted. -/
theorem sequential_close_leaves_clean {base : Nat} {spec : CallSpec} {s₀ s1 s : St} {g : SGen} (hi : Idle s₀)
    (hS : SStarted base spec s₀ s1) (hk : SKeep s1 s) (hl : g.live = true) :
    (seqClose s g).1.running = false ∧ (seqClose s g).2.live = false ∧ Idle (seqClose s g).1 ∧
    (seqClose s g).1.sched = s.sched := by
  rw [seqClose_live s hl]
  refine ⟨rfl, rfl, idle_after hi hS (hk.trans ?_) rfl, rfl⟩
  exact ⟨rfl, rfl, rfl, rfl, rfl, rfl, rfl, rfl, rfl, rfl, rfl, rfl, rfl, rfl⟩

end Sequential

end C16
