import JoblibProofs.Lemmas.LokyMgr
import JoblibProofs.Lemmas.LokyMgr.Wakeup
/-!
# C10 — a dying loky worker yields a prompt error, never a hang, and workers heal      (PARTIAL BY DESIGN)

Statement (properties.jsonl): with the default process backend (loky), if a worker process dies abruptly —
killed, segfault, `os._exit` — at any moment, before, during or after running a task, while sending its result,
or while idle between calls, the affected `Parallel` call raises a worker-termination error within bounded time
rather than hanging or returning partial or wrong results. At most one call fails per fault: the following call
transparently gets healthy workers and returns correct results.

What is proved, and about what. The theorems are about `JoblibModel.LokyMgr`: the manager thread's event loop
(`managerStep` = one iteration of `_ExecutorManagerThread.run`), the environment events of workers / OS / client
(`step`), and `get_reusable_executor` + joblib's `LokyBackend` (`getReusableExecutor`, `configure`,
`backendSubmit`, `abortEverything`). Quantifier reached: EVERY reachable state (any number of workers, tasks,
calls; any interleaving of the events of `Event`; a `kill` of any worker at any point of any history), every
history of the executor pool. Process death, pipes, sentinels and signals are MODELLED, not verified: the theorems
say what the event loop does given that a dead process's sentinel is ready, that `recv` needs a complete message,
that the pipe never reports EOF. This is the property where the theorem carries the least of the truth; the tie
to the real code is the fault-injection correspondence of `harness/props/c10.py`.

FULL STATEMENT of the liveness part (kept visible, NOT proved — it is false of model and code):
  "for every reachable state with a dead worker, within a bounded number of manager iterations every pending and
   running future is resolved."
It fails exactly in the hazard state of F15 (`f15_hazard_reachable`, `f15_hazard_blocks_forever`): a worker
killed after writing part of its result message. The proved fragment (`…_partial`) assumes
`NoTornMessage`: "no worker dies between the first and the last byte of its result message".
Sections 8–10 are about the FINE-GRAINED layer of the model (`WState`, `wstep`): the manager's wait set (rebuilt only
when the thread re-enters `wait`), the wake-up pipe with its `_closed` flag, `_shutdown_lock`, `submit`/`shutdown` run
statement by statement; quantifier reached there: every history of `WEvent`s from a fresh executor (any interleaving
of caller statements, manager statements, worker/OS events). §8 is proved IN FULL for the code as it is (`Cfg.code`, which
has the repair F53: `submit` wakes the manager thread AFTER `_ensure_executor_running()`): `wait_set_covers_live_workers`,
`death_wakes_manager_wait_set` — any history, clean worker exits included. For the order BEFORE the repair (`Cfg.preF53`)
the statement is false (`respawn_after_clean_exit_counterexample`; finding F53, reproduced on the code) and only the
`…_partial` versions hold (histories without a clean worker exit).
Also not a theorem: wall-clock latency ("prompt"), and that a healthy executor completes every task (that needs
fairness of the OS scheduler); both are covered by the fault-injection runs only.
-/
namespace C10
open JoblibModel.LokyMgr

/-- The states the theorems quantify over: whatever a fresh executor reaches through any history of events
(client submits and shut-downs, manager iterations, worker steps, kills). -/
def Reachable (fn : Nat → Nat) (s : State) : Prop :=
  ∃ (max_workers queue_size first_pid : Nat) (evs : List Event),
    s = run fn (State.init max_workers queue_size first_pid) evs

theorem reachable_inv {fn : Nat → Nat} {s : State} (h : Reachable fn s) : Inv fn s := by
  obtain ⟨mw, qs, fp, evs, rfl⟩ := h
  exact inv_run (inv_init fn mw qs fp) evs

theorem reachable_run {fn : Nat → Nat} {s : State} (h : Reachable fn s) (evs : List Event) :
    Reachable fn (run fn s evs) := by
  obtain ⟨mw, qs, fp, evs0, rfl⟩ := h
  exact ⟨mw, qs, fp, evs0 ++ evs, by simp [run, List.foldl_append]⟩

/-! ## 1. A death wakes the manager -/

/-- A dead worker's sentinel is in the ready set of `wait`, so `wait` does not block, and the iteration of the
manager's loop does not end "asleep in `wait`" — in ANY state (no invariant needed). -/
theorem death_wakes_manager (s : State) (p : Nat) (hd : DeadIn s p) :
    p ∈ (ready s).sentinels ∧ (ready s).nothing = false ∧ (managerStep s).2 ≠ .blockedInWait := by
  have hm : p ∈ deadPids s.processes := mem_deadPids.mpr hd
  refine ⟨hm, ?_, managerStep_not_blockedInWait s p hd⟩
  simp only [Ready.nothing, ready]
  cases hx : deadPids s.processes with
  | nil => rw [hx] at hm; cases hm
  | cons a l => simp

/-- …and of every SUBSEQUENT wait: no event of the workers, the OS or the client takes a dead process out of the
wait set; only the manager's own iteration can (by reaping or killing it — see `dead_worker_unblocks_manager_partial`). -/
theorem death_stays_visible (fn : Nat → Nat) (s : State) (p : Nat) (hd : DeadIn s p) (evs : List Event)
    (hne : ∀ e ∈ evs, e ≠ .mgr) :
    DeadIn (run fn s evs) p ∧ (managerStep (run fn s evs)).2 ≠ .blockedInWait := by
  have : DeadIn (run fn s evs) p := by
    induction evs generalizing s with
    | nil => exact hd
    | cons e es ih =>
      exact ih (step fn s e) (deadIn_step fn s p e hd (hne e (by simp))) (fun e' he' => hne e' (by simp [he']))
  exact ⟨this, managerStep_not_blockedInWait _ p this⟩

/-- PARTIAL (hypothesis `NoTornMessage`). With a dead worker in its wait set, every iteration of the manager
makes progress: it ends the thread with every future resolved, or it consumes one complete result message, or
(pipe empty) it consumes the pending wake-ups — keeping the dead worker in sight —, or it waits in `recv` for a
LIVE writer to finish its message. It never sleeps in `wait` and never blocks on a dead writer.
(`hnp`: no clean-exit announcement `pid q` is in flight; such a message is how a worker LEAVES without being an
error, `process_result_item`'s `int` branch.)
Missing for the full statement: the torn-message state, where the iteration blocks for ever (`f15_…`). -/
theorem dead_worker_unblocks_manager_partial (fn : Nat → Nat) (s : State) (p : Nat)
    (hreach : Reachable fn s) (hr : s.mgr = .running) (hd : DeadIn s p)
    (hnt : NoTornMessage s) (hnp : ∀ q, Msg.pid q ∉ s.result_pipe) :
    ((managerStep s).1.mgr = .exited ∧ Resolved (managerStep s).1) ∨
    ((managerStep s).2 = .progressed ∧ (managerStep s).1.mgr = .running ∧ DeadIn (managerStep s).1 p ∧
      ((∃ m, s.result_pipe = m :: (managerStep s).1.result_pipe) ∨
       (s.result_pipe = [] ∧ (managerStep s).1.result_pipe = [] ∧ s.wakeups > 0 ∧
        (managerStep s).1.wakeups = 0))) ∨
    (∃ w, (managerStep s).2 = .blockedInRecv w ∧ writerAlive s w = true) := by
  rcases managerStep_cases (reachable_inv hreach) hr hd hnt hnp with
    h | ⟨h1, _, h3, h4, _, h6⟩ | ⟨w, h1, h2, _, _⟩
  · exact Or.inl h
  · exact Or.inr (Or.inl ⟨h1, h3, h4, h6⟩)
  · exact Or.inr (Or.inr ⟨w, h1, h2⟩)

/-! ## 2. Once a death is observed every future is resolved -/

/-- `terminate_broken` leaves no future pending or running, whatever the reachable state it is called in: the
futures of `pending_work_items` (which include the running ones) get the error, and the invariant says every
unresolved future is in `pending_work_items`. -/
theorem terminate_broken_resolves_all (fn : Nat → Nat) (s : State) (hreach : Reachable fn s) (bpe : Exc) :
    Resolved (terminateBroken s bpe) ∧ (terminateBroken s bpe).mgr = .exited ∧
    (terminateBroken s bpe).flags.broken = some bpe ∧
    ∀ wid ∈ s.pending_work_items, ∃ r : FutRec, (terminateBroken s bpe).futures[wid]? = some r ∧
      r.st = .exception bpe := by
  have hI := reachable_inv hreach
  refine ⟨(terminateBroken_resolved hI bpe).2, rfl, rfl, ?_⟩
  intro wid hw
  have hlt := hI.pend_lt wid hw
  refine ⟨{ s.futures[wid] with st := .exception bpe }, ?_, rfl⟩
  show (failAll s.futures s.pending_work_items bpe)[wid]? = _
  rw [getElem?_failAll]
  simp [hw, hlt]

/-- PARTIAL (hypothesis: no partial message in the pipe — `NoTornMessage` for a manager running alone, since a
live writer cannot finish while only the manager moves). From any reachable state with a dead worker, the manager
running, `|buffered complete results| + 2` iterations of the manager suffice: the thread has returned and NO
future is left pending or running (each is resolved with its result, with the task's own exception, or with
`TerminatedWorkerError`/`BrokenProcessPool`). The bound: one iteration per buffered message (results have priority
over sentinels in `wait_result_broken_or_wakeup`), one for a pending wake-up (it, too, has priority), one to see
the sentinel.
Missing for the full statement: the torn-message state (F15). Under interleaving with live workers the same
argument gives "one more iteration per message they add" (`dead_worker_unblocks_manager_partial` is the step). -/
theorem broken_resolves_all_partial (fn : Nat → Nat) (s : State) (p : Nat)
    (hreach : Reachable fn s) (hr : s.mgr = .running) (hd : DeadIn s p)
    (hnt : s.partialMsg = none) (hnp : ∀ q, Msg.pid q ∉ s.result_pipe) :
    (managerSteps (s.result_pipe.length + 2) s).mgr = .exited ∧
    Resolved (managerSteps (s.result_pipe.length + 2) s) :=
  broken_resolves_all_aux _ s rfl (reachable_inv hreach) hr hd hnt hnp

/-! ## 3. No wrong results -/

/-- A future resolved with a value got the value computed from the argument of ITS OWN work item: results are
matched by work id, in every reachable state (any kills, any interleaving). -/
theorem no_wrong_results (fn : Nat → Nat) (s : State) (hreach : Reachable fn s)
    (wid : Nat) (r : FutRec) (v : Nat) (hf : s.futures[wid]? = some r) (hv : r.st = .result v) :
    v = fn r.arg :=
  (reachable_inv hreach).res_ok wid r v hf hv

/-- The manager thread never dies of the `KeyError` / `ValueError` its loop could raise
(`pending_work_items[work_id]`, `running_work_items.remove(work_id)`). -/
theorem manager_never_crashes (fn : Nat → Nat) (s : State) (hreach : Reachable fn s) : s.mgr ≠ .crashed :=
  (reachable_inv hreach).not_crashed

/-! ## 4. Healing -/

/-- `get_reusable_executor` never returns an executor flagged broken or shut down (it builds a new one). -/
theorem heal (p : Pool) (max_workers queue_size : Nat) (reuse kill_workers : Bool) :
    ∃ e, (getReusableExecutor p max_workers queue_size reuse kill_workers).1.execs[
            (getReusableExecutor p max_workers queue_size reuse kill_workers).2.1]? = some e ∧
      e.flags.broken = none ∧ e.flags.shutdown = false :=
  getReusableExecutor_healthy p max_workers queue_size reuse kill_workers

/-- For EVERY history of the module (events of any executor, calls of `get_reusable_executor` with any
arguments): once executor `j` is flagged broken it is never handed out again. -/
theorem heal_for_every_history (fn : Nat → Nat) (p : Pool) (j : Nat) (e : State) (b : Exc)
    (hj : p.execs[j]? = some e) (hb : e.flags.broken = some b) (ops : List PoolOp) :
    j ∉ (poolRun fn (p, []) ops).2 :=
  broken_never_returned fn ops (p, []) j e hj (by rw [hb]; rfl) (by simp)

/-- What a fault is charged to. `terminate_broken` fails exactly the futures of `pending_work_items` and leaves
every other future as it was; afterwards `submit` on that executor creates no future, it raises the stored error.
So a fault is charged to the calls that had futures pending at that time and, if the backend still holds the
broken instance (inside a `with Parallel(...)` block, `LokyBackend._workers`), to the first call that submits to
it (`idle_death_in_with_block_costs_one_call`) — whose `abort_everything` then replaces it (`heal`). -/
theorem fault_charged_to_pending_only (s : State) (bpe : Exc) :
    (∀ wid, wid ∉ s.pending_work_items → (terminateBroken s bpe).futures[wid]? = s.futures[wid]?) ∧
    (∀ arg, submit (terminateBroken s bpe) arg = (terminateBroken s bpe, .error bpe)) :=
  ⟨fun wid h => terminateBroken_untouched s bpe wid h,
   fun arg => submit_on_broken _ arg bpe rfl⟩

/-! ## 5. A worker dying while idle -/

/-- PARTIAL (hypothesis: the manager thread gets to run between the death and the next call — it is asleep in
`wait` on the sentinel, so this is "the OS schedules it", not a theorem). A worker dies while the executor is idle
(`Quiescent`). What the code does — there is no respawn of the dead worker (`_adjust_process_count` is only
reached through `submit`, and the dead process still counts in `len(_processes)`): the manager's next iteration
is `terminate_broken`, which flags the executor and, nothing being pending, fails NO future; the next
`configure` (= the next call outside a `with` block) then gets a brand-new healthy executor. No call fails. -/
theorem idle_death_costs_nothing_partial (fn : Nat → Nat) (p : Pool) (i : Nat) (e : State) (victim : Nat)
    (n_jobs queue_size : Nat)
    (hcur : p.current = some i) (he : p.execs[i]? = some e) (hq : Quiescent e) (hd : DeadIn e victim) :
    let p1 := (poolStep fn (p, []) (.exec i .mgr)).1          -- the manager observes the death
    let r := configure p1 n_jobs queue_size                     -- the next call starts
    r.2.workers = some p.execs.length ∧
    (∃ e2, r.1.execs[p.execs.length]? = some e2 ∧ e2.flags.broken = none ∧ e2.flags.shutdown = false) ∧
    (∃ e1, r.1.execs[i]? = some e1 ∧ e1.futures = e.futures ∧ e1.flags.broken = some .terminatedWorker) := by
  have hlt : i < p.execs.length := (List.getElem?_eq_some_iff.mp he).1
  obtain ⟨hstep, hfut⟩ := idle_death_step e victim hq hd
  have hms : (step fn e .mgr) = terminateBroken e .terminatedWorker := by simp [step, hstep]
  simp only [poolStep, he, hms, configure, getReusableExecutor, hcur]
  simp only [List.getElem?_set, hlt, if_true]
  have hb : ((terminateBroken e .terminatedWorker).flags.broken.isSome ||
      (terminateBroken e .terminatedWorker).flags.shutdown || !true) = true := by rfl
  simp only [hb, if_true, createExecutor, List.length_set]
  refine ⟨trivial, ⟨State.init n_jobs queue_size (firstPid p.execs.length), by simp, rfl, rfl⟩, ?_⟩
  refine ⟨shutdown (terminateBroken e .terminatedWorker) false, ?_, hfut, rfl⟩
  simp [List.getElem?_append_left, hlt]

/-- Inside a `with Parallel(...)` block the backend keeps its executor (`LokyBackend._workers`) and does not
call `get_reusable_executor` between calls: after an idle death (observed by the manager) the NEXT call's first
`submit` raises `TerminatedWorkerError` — one call fails, with no future created —, and its
`abort_everything(ensure_ready=True)` installs a brand-new healthy executor for the following call. -/
theorem idle_death_in_with_block_costs_one_call (fn : Nat → Nat) (p : Pool) (b : Backend) (i : Nat) (e : State)
    (victim : Nat) (n_jobs queue_size arg : Nat)
    (hcur : p.current = some i) (hb : b.workers = some i) (he : p.execs[i]? = some e)
    (hq : Quiescent e) (hd : DeadIn e victim) :
    let p1 := (poolStep fn (p, []) (.exec i .mgr)).1
    backendSubmit p1 b arg = some (p1, .error .terminatedWorker) ∧
    ∃ p2 b2, abortEverything p1 b n_jobs queue_size true = some (p2, b2) ∧
      b2.workers = some p.execs.length ∧
      ∃ e2, p2.execs[p.execs.length]? = some e2 ∧ e2.flags.broken = none ∧ e2.flags.shutdown = false := by
  have hlt : i < p.execs.length := (List.getElem?_eq_some_iff.mp he).1
  obtain ⟨hstep, _⟩ := idle_death_step e victim hq hd
  have hms : (step fn e .mgr) = terminateBroken e .terminatedWorker := by simp [step, hstep]
  simp only [poolStep, he, hms]
  constructor
  · simp only [backendSubmit, hb, List.getElem?_set, hlt, if_true]
    rw [submit_on_broken _ arg .terminatedWorker rfl]
    simp
  · simp only [abortEverything, hb, List.getElem?_set, hlt, if_true, configure, getReusableExecutor, hcur,
      List.set_set]
    have hbk : ((shutdown (terminateBroken e .terminatedWorker) true).flags.broken.isSome ||
        (shutdown (terminateBroken e .terminatedWorker) true).flags.shutdown || !true) = true := by rfl
    simp only [List.length_set, hbk, if_true, createExecutor]
    exact ⟨_, _, rfl, rfl, State.init n_jobs queue_size (firstPid p.execs.length), by simp, rfl, rfl⟩

/-- A pool whose only executor has just served one task with two workers and is idle again. -/
def idlePool : Pool :=
  (poolRun id (Pool.empty, []) [.get 2 5 true false, .exec 0 (.submit 3), .exec 0 .mgr, .exec 0 (.take 100),
    .exec 0 (.sendResult 100), .exec 0 .mgr]).1

/-- COUNTEREXAMPLE to the un-hypothesised "an idle death costs nothing": if the next call starts BEFORE the
manager thread has looked (worker 101 killed; no manager iteration), `get_reusable_executor` reuses the
executor (nothing is flagged yet, and the dead process still counts in `len(_processes)`, so it is not
replaced either); the call's future then fails with `TerminatedWorkerError` at the manager's next look.
One call is lost — which is what the property allows ("at most one call fails per fault"). -/
theorem idle_death_unobserved_is_reused_counterexample :
    let p := (poolRun id (idlePool, []) [.exec 0 (.kill 101)]).1
    let r := getReusableExecutor p 2 5 true false
    r.2 = (0, true) ∧
    ((poolRun id (r.1, []) [.exec 0 (.submit 4), .exec 0 .mgr, .exec 0 .mgr]).1.execs.map
        (fun e => e.futures.map (·.st))) = [[.result 3, .exception .terminatedWorker]] := by
  decide

/-! ## 6. F15: the hazard, as a witness -/

/-- Two tasks submitted to two workers; worker 100 begins to write its result and is killed; worker 101 is
alive, holding its task (and, like the parent, the write end of the pipe). -/
def hazardEvents : List Event :=
  [.submit 5, .submit 6, .mgr, .take 100, .take 101, .beginSend 100, .kill 100]

def hazardState : State := run id (State.init 2 5 100) hazardEvents

/-- The hazard state is reachable (by construction: it IS a history from a fresh executor) and in it: the manager
is running, the pipe holds only a partial message, its writer (100) is dead, another worker (101) is alive, both
futures are unresolved — and one iteration of the manager ends BLOCKED IN `recv` ON THE DEAD WRITER, not in
`terminate_broken`, although the dead worker's sentinel is ready (the result reader has priority). -/
theorem f15_hazard_reachable :
    Reachable id hazardState ∧
    hazardState.mgr = .running ∧ hazardState.result_pipe = [] ∧ hazardState.partialMsg = some 100 ∧
    writerAlive hazardState 100 = false ∧ writerAlive hazardState 101 = true ∧
    100 ∈ (ready hazardState).sentinels ∧ (ready hazardState).result = true ∧
    (managerStep hazardState).2 = .stuckInRecv 100 ∧
    hazardState.futures.map (·.st) = [.running, .running] :=
  ⟨⟨2, 5, 100, hazardEvents, rfl⟩, by decide⟩

theorem hazardState_torn : Torn hazardState 100 :=
  ⟨by decide, by decide, by decide, ⟨100, false, some ⟨0, 5⟩, true, false⟩, by decide, rfl⟩

/-- In ANY reachable torn state (pipe = the first bytes of a message whose writer is dead) the manager is stuck
for ever: whatever the workers, the OS and the client do afterwards (any `evs`, including further manager
iterations, kills of the other workers, shut-downs), the state is still torn, the manager's iteration still ends
blocked in `recv`, and every future that was unresolved is still unresolved: the `Parallel` call hangs.
This is the NEGATION of the full liveness statement on a concrete witness (`hazardState_torn`). -/
theorem f15_hazard_blocks_forever (fn : Nat → Nat) (s : State) (w : Nat) (hreach : Reachable fn s)
    (ht : Torn s w) (evs : List Event) :
    Torn (run fn s evs) w ∧ (managerStep (run fn s evs)).2 = .stuckInRecv w ∧
    ∀ (i : Nat) (r : FutRec), s.futures[i]? = some r → r.st.unresolved = true →
      ∃ r' : FutRec, (run fn s evs).futures[i]? = some r' ∧ r'.st.unresolved = true :=
  torn_forever evs (reachable_inv hreach) ht

/-- The hypothesis of the `…_partial` theorems excludes exactly this: a torn state is not `NoTornMessage`. -/
theorem torn_is_not_noTorn (s : State) (w : Nat) (ht : Torn s w) : ¬ NoTornMessage s := by
  intro h
  have := h w ht.2.2.1
  rw [torn_writer_dead ht] at this
  cases this

/-! ## 7. The tear-down is not atomic: the client between its steps; the error message -/

/-- After the broken flag is set `submit` raises the stored error and accepts nothing. -/
theorem submit_after_flag_raises (s : State) (arg : Nat) (b : Exc) (h : s.flags.broken = some b) :
    submit s arg = (s, .error b) :=
  submit_on_broken s arg b h

/-- NO ORPHAN FUTURE. `terminate_broken` is not atomic: the client thread may call `submit` between any two of
its steps (`a1`: after `flag_as_broken`, `a2`: after the pending items were failed and cleared, `a3`: after
`kill_workers`). BECAUSE THE FLAG IS SET FIRST every one of those submits is rejected (it raises the error, no future
is created), so the outcome is that of the uninterrupted tear-down and, in a reachable state, every future that
`submit` ever accepted is resolved: it was in `pending_work_items` when they were failed. The theorem relies on
exactly this order — flag, then fail-and-clear; see `flag_after_clear_orphans_counterexample`. -/
theorem no_orphan_future (fn : Nat → Nat) (s : State) (hreach : Reachable fn s) (bpe : Exc) (a1 a2 a3 : List Nat) :
    terminateBrokenInterleaved s bpe a1 a2 a3 = terminateBroken s bpe ∧
    Resolved (terminateBrokenInterleaved s bpe a1 a2 a3) ∧
    (∀ a, submit (flagAsBroken s bpe) a = (flagAsBroken s bpe, .error bpe)) := by
  rw [terminateBrokenInterleaved_eq]
  exact ⟨rfl, (terminateBroken_resolved (reachable_inv hreach) bpe).2, fun a => submit_on_broken _ a bpe rfl⟩

/-- The executor of `idlePool` with worker 101 dead: idle, manager asleep on the sentinel. -/
def idleDeadState : State := ((poolRun id (idlePool, []) [.exec 0 (.kill 101)]).1.execs[0]!)

/-- COUNTEREXAMPLE for the other order (pending items failed and cleared FIRST, flag set afterwards): a `submit`
landing in between is accepted — the executor is neither broken nor shut down yet — and its future stays `pending`
for ever: the manager thread has returned (`mgr = exited`), the work id sits in `pending_work_items` of a dead
executor. This is the hang the order of `terminate_broken` exists to prevent. -/
theorem flag_after_clear_orphans_counterexample :
    let s' := terminateBrokenFlagLast idleDeadState .terminatedWorker [9]
    s'.mgr = .exited ∧ s'.flags.broken = some .terminatedWorker ∧ s'.pending_work_items = [1] ∧
    s'.futures.map (·.st) = [.result 3, .pending] := by
  decide

/-- Building the `TerminatedWorkerError` message never raises, whatever the exit codes of the workers and whatever
signals have a name: `_get_exitcode_name` answers `"UNKNOWN"` for a signal number outside `signal.Signals`
(real-time signals), the `ValueError` does not escape into the manager thread. -/
theorem exitcode_message_never_raises (names : List (Nat × String)) :
    (∀ e : Int, getExitcodeName names e =
      .ok (if e < 0 then (names.lookup (-e).toNat).getD "UNKNOWN" else if e ≠ 255 then "EXIT" else "UNKNOWN")) ∧
    (∀ es : List Int, ∃ msg, formatExitcodes names es = .ok msg) :=
  ⟨getExitcodeName_ok names, formatExitcodes_ok names⟩

/-! ## Non-vacuity: the hypotheses are met by non-trivial reachable states -/

/-- Worker 100 killed holding its task while worker 101's result is buffered: reachable, manager running, a dead
worker in the wait set, no torn message, no exit announcement — the hypotheses of `broken_resolves_all_partial`. -/
def exState : State :=
  run id (State.init 2 5 100) [.submit 5, .submit 6, .submit 7, .mgr, .take 100, .take 101, .sendResult 101, .kill 100]

example : Reachable id exState := ⟨2, 5, 100, _, rfl⟩
example : exState.mgr = .running ∧ exState.partialMsg = none ∧ exState.result_pipe = [.result 1 6] := by decide
example : DeadIn exState 100 := ⟨⟨100, false, some ⟨0, 5⟩, false, false⟩, by decide, rfl, rfl⟩
example : ∀ q, Msg.pid q ∉ exState.result_pipe := by
  have : exState.result_pipe = [.result 1 6] := by decide
  intro q; rw [this]; simp
/-- …and the conclusion on it: after `1 + 2` iterations the thread has returned; the buffered result was
delivered, the other two futures carry `TerminatedWorkerError`. -/
example : (managerSteps 3 exState).mgr = .exited ∧
    (managerSteps 3 exState).futures.map (·.st) =
      [.exception .terminatedWorker, .result 6, .exception .terminatedWorker] := by decide
/-- An idle executor (`Quiescent`) with a dead worker, for the idle-death theorems. -/
example : Quiescent ((poolRun id (idlePool, []) [.exec 0 (.kill 101)]).1.execs[0]!) := by
  unfold Quiescent; decide
example : (getReusableExecutor idlePool 2 5 true false).2 = (0, true) := by decide

example : (getExitcodeName [(9, "SIGKILL"), (34, "SIGRTMIN")] (-35)).toOption = some "UNKNOWN" := by decide
example : (formatExitcodes [(9, "SIGKILL")] [-9, -35, 3, 255]).toOption =
    some "{SIGKILL(-9), UNKNOWN(-35), EXIT(3), UNKNOWN(255)}" := by decide

/-! ## 8. The wait set of the manager thread and the start order (fine-grained layer) -/

/-- THE WAIT SET COVERS THE PROCESSES, OR A WAKE-UP IS ON ITS WAY (the code as it is: `wakeup()` is the LAST statement of
`submit`, `cfg.wakeupBeforeRespawn = false`; either start order of `_ensure_executor_running`, with or without the lock
around `close`). After ANY history from a fresh executor — any interleaving of the caller's statements inside any number
of `submit`s / `shutdown`s, the manager's statements, worker and OS events, kills, CLEAN EXITS (idle time-outs) and the
respawns that follow them —: whenever the manager thread is inside `wait`, the sentinel of every process of the executor is
in the list it waits on, or a wake-up byte is in the pipe, or the caller is still inside the `submit` that spawned the
missing processes, before the write of its wake-up. (The list is rebuilt only when the thread re-enters `wait`, so "always
covered" is not true of any order; this is what makes the thread look again.) -/
theorem wait_set_covers_live_workers (cfg : Cfg) (hcfg : cfg.wakeupBeforeRespawn = false) (fn : Nat → Nat)
    (mw qs fp : Nat) (evs : List WEvent) (ws : List Nat) :
    let s := wrun cfg fn (WState.init mw qs fp) evs
    s.base.mgr = .running → s.mph = .waiting ws →
    (∀ w ∈ s.base.processes, w.pid ∈ ws) ∨ s.base.wakeups > 0 ∨ preWrite s.cpc = true :=
  (wakeInv_run cfg hcfg fn _ (wakeInv_init mw qs fp) evs).cover ws

/-- `death_wakes_manager` for the wait set the thread REALLY waits on, for the code as it is, after ANY history: with the
caller outside `submit` (it is waiting for its futures) and a dead process among the executor's processes, `wait` returns
— the dead process's sentinel is in the list, or a wake-up is pending —: the iteration does not end asleep. In particular
for a one-batch call on a fresh executor, and for a one-batch call on an executor whose workers had all left by idle
time-out (F53). -/
theorem death_wakes_manager_wait_set (cfg : Cfg) (hcfg : cfg.wakeupBeforeRespawn = false) (fn : Nat → Nat)
    (mw qs fp : Nat) (evs : List WEvent) (ws : List Nat) (p : Nat) :
    let s := wrun cfg fn (WState.init mw qs fp) evs
    s.base.mgr = .running → s.mph = .waiting ws → preWrite s.cpc = false → DeadIn s.base p →
    waitReady s.base ws = true ∧ (waitStep s.base ws).2 ≠ .blockedInWait ∧ s.asleep = false := by
  intro s hr hw hpc hd
  have hready : waitReady s.base ws = true := by
    rcases wait_set_covers_live_workers cfg hcfg fn mw qs fp evs ws hr hw with c | c | c
    · obtain ⟨w, hmem, hp, ha⟩ := hd
      exact (waitStep_dead_waited s.base ws p ⟨w, hmem, hp, ha⟩ (hp ▸ c w hmem)).1
    · have c' : s.base.wakeups > 0 := c
      simp only [waitReady, Bool.or_eq_true, decide_eq_true_eq]
      exact Or.inl (Or.inr c')
    · rw [hpc] at c; cases c
  refine ⟨hready, waitStep_ready_not_blocked s.base ws hready, ?_⟩
  simp [WState.asleep, hr, hw, hready]

/-- PARTIAL — the order BEFORE the repair F53 (and any other; hypothesis `NoCleanExit`: no worker leaves cleanly — idle time-out, memory-leak restart — in the history).
In the code's order (`_adjust_process_count()` BEFORE `_start_executor_manager_thread()`; `cfg.managerFirst = false`,
with or without the lock around `close`), after ANY history from a fresh executor — any interleaving of the caller's
statements inside any number of `submit`s / `shutdown`s, the manager's statements, worker and OS events, kills —:
whenever the manager thread is inside `wait`, the sentinel of EVERY process of the executor (live or dead) is in the
list it waits on.
Missing for the full statement: after a clean exit `len(_processes) < max_workers`, the next `submit` respawns the
missing workers AFTER its wake-up, and the manager may have consumed the wake-up and re-entered `wait` before:
`respawn_after_clean_exit_counterexample` (confirmed on the code: builders_notes/C10-wakeup.md). -/
theorem wait_set_covers_live_workers_partial (cfg : Cfg) (hcfg : cfg.managerFirst = false) (fn : Nat → Nat)
    (mw qs fp : Nat) (evs : List WEvent) (hev : NoCleanExit evs) (ws : List Nat) :
    let s := wrun cfg fn (WState.init mw qs fp) evs
    s.base.mgr = .running → s.mph = .waiting ws → ∀ w ∈ s.base.processes, w.pid ∈ ws :=
  (coverInv_run cfg hcfg fn _ (coverInv_init mw qs fp) evs hev).cover ws

/-- PARTIAL (same hypothesis). `death_wakes_manager` for the wait set the thread REALLY waits on — in particular for a
call made of ONE batch on a FRESH executor (history = one `callSubmit`, then anything), where the single wake-up of
`submit` is consumed before the workers run: a dead process's sentinel is in the list built at the entry of the wait, so
`wait` returns, the iteration does not end asleep, and the manager is not `asleep`. -/
theorem death_wakes_manager_wait_set_partial (cfg : Cfg) (hcfg : cfg.managerFirst = false) (fn : Nat → Nat)
    (mw qs fp : Nat) (evs : List WEvent) (hev : NoCleanExit evs) (ws : List Nat) (p : Nat) :
    let s := wrun cfg fn (WState.init mw qs fp) evs
    s.base.mgr = .running → s.mph = .waiting ws → DeadIn s.base p →
    p ∈ ws ∧ waitReady s.base ws = true ∧ (waitStep s.base ws).2 ≠ .blockedInWait ∧ s.asleep = false := by
  intro s hr hw hd
  obtain ⟨w, hmem, hp, _⟩ := hd
  have hin : p ∈ ws := hp ▸ wait_set_covers_live_workers_partial cfg hcfg fn mw qs fp evs hev ws hr hw w hmem
  obtain ⟨h1, h2⟩ := waitStep_dead_waited s.base ws p ⟨w, hmem, hp, ‹_›⟩ hin
  refine ⟨hin, h1, h2, ?_⟩
  simp [WState.asleep, hr, hw, h1]

/-- The instance the round-4 seeded change was about, for the order before F53: ONE `submit` on a fresh executor
(`callSubmit arg`, then anything), any worker killed at any point. -/
theorem death_wakes_manager_single_batch_partial (fn : Nat → Nat) (mw qs fp arg : Nat) (evs : List WEvent)
    (hev : NoCleanExit evs) (ws : List Nat) (p : Nat) :
    let s := wrun Cfg.preF53 fn (WState.init mw qs fp) (.callSubmit arg :: evs)
    s.base.mgr = .running → s.mph = .waiting ws → DeadIn s.base p → p ∈ ws ∧ s.asleep = false := by
  intro s hr hw hd
  have hev' : NoCleanExit (.callSubmit arg :: evs) := by
    intro q hq
    rcases List.mem_cons.mp hq with h | h
    · cases h
    · exact hev q h
  obtain ⟨h1, _, _, h4⟩ :=
    death_wakes_manager_wait_set_partial Cfg.preF53 rfl fn mw qs fp (.callSubmit arg :: evs) hev' ws p hr hw hd
  exact ⟨h1, h4⟩

/-- With the sentinels of all current processes in the wait set, the fine manager (`add_call_item_to_queue`, then the
wait step) IS one `managerStep` of the coarse model the sections 1–7 are about. -/
theorem full_wait_set_is_manager_step (s : State) (hr : s.mgr = .running) (hc : (addCallItems s).mgr ≠ .crashed) :
    waitStep (addCallItems s) (pidsOf (addCallItems s).processes) = managerStep s :=
  waitStep_all s hr hc

/-- (Order of `submit` before F53.) One task submitted to a fresh two-worker executor in the OTHER start order (manager
thread started before the workers are spawned — `managerFirst`): the manager consumes the wake-up and re-enters `wait` with an EMPTY sentinel list, then
the workers are spawned, worker 100 takes the task and is killed. -/
def managerFirstEvents : List WEvent :=
  [.callSubmit 5, .caller, .caller,        -- registered; `wakeup()`: test, write
   .caller,                                 -- `_start_executor_manager_thread()` first
   .manager, .manager,                      -- `add_call_item_to_queue`, wait on []; wake-up consumed
   .manager,                                -- next iteration: wait on [] again
   .caller, .caller, .caller,               -- `_adjust_process_count`: two workers; `submit` returns
   .env (.take 100), .env (.kill 100)]

/-- COUNTEREXAMPLE for the other start order: the state reached has a DEAD worker holding the task, its sentinel is NOT
in the wait set, no wake-up is pending, the pipe is empty, the other worker is idle, the call queue is empty — the
manager is asleep, the future stays `running`: a permanent hang (nothing but a further `submit`/`shutdown` of the caller —
who is waiting for this very future — or the idle worker's time-out can wake the thread:
`manager_first_hang_is_permanent`). The same history in the code's start order leaves the manager awake; and with the
repair F53 (wake-up last) the other start order is harmless too (`wait_set_covers_live_workers` does not ask for
`managerFirst = false`): last conjunct. -/
theorem manager_first_counterexample :
    let s := wrun ⟨true, false, true⟩ id (WState.init 2 5 100) managerFirstEvents
    s.base.mgr = .running ∧ s.mph = .waiting [] ∧ s.cpc = .idle ∧ DeadIn s.base 100 ∧
    100 ∉ ([] : List Nat) ∧ s.base.wakeups = 0 ∧ s.base.result_pipe = [] ∧ s.base.partialMsg = none ∧
    s.base.call_queue = [] ∧ s.asleep = true ∧ s.base.futures.map (·.st) = [.running] ∧
    (wrun Cfg.preF53 id (WState.init 2 5 100) managerFirstEvents).asleep = false ∧
    (wrun ⟨true, false, false⟩ id (WState.init 2 5 100)
      [.callSubmit 5, .caller, .manager, .manager, .caller, .caller, .caller, .caller, .caller,
       .env (.take 100), .env (.kill 100)]).asleep = false := by
  refine ⟨by decide, by decide, by decide, ⟨⟨100, false, some ⟨0, 5⟩, false, false⟩, by decide, rfl, rfl⟩,
    by decide, by decide, by decide, by decide, by decide, by decide, by decide, by decide, by decide⟩

/-- …and that hang is permanent: from the state of `manager_first_counterexample`, whatever the workers, the OS and the
manager thread do afterwards (`Quiet`: every event but a further `submit`/`shutdown` of the caller — who is blocked on
this very future — and a clean exit of the idle worker, i.e. its idle time-out), the manager stays asleep and the futures
stay as they are. -/
theorem manager_first_hang_is_permanent (evs : List WEvent) (hq : ∀ e ∈ evs, Quiet e) :
    let s := wrun ⟨true, false, true⟩ id (WState.init 2 5 100) managerFirstEvents
    (wrun ⟨true, false, true⟩ id s evs).asleep = true ∧
    (wrun ⟨true, false, true⟩ id s evs).base.futures.map (·.st) = [.running] := by
  intro s
  have hs : Stranded s := by
    refine ⟨by decide, by decide, by decide, by decide, by decide, by decide, by decide, ?_⟩
    have hp : s.base.processes = [⟨100, false, some ⟨0, 5⟩, false, false⟩, ⟨101, true, none, false, false⟩] := by decide
    intro w hw
    rw [hp] at hw
    simp only [List.mem_cons, List.not_mem_nil, or_false] at hw
    rcases hw with rfl | rfl
    · exact Or.inl rfl
    · exact Or.inr ⟨rfl, rfl⟩
  obtain ⟨h1, h2⟩ := stranded_run ⟨true, false, true⟩ id s hs evs hq
  refine ⟨stranded_asleep h1, ?_⟩
  rw [h2]; decide

/-- The order of `submit` BEFORE the repair F53 (`Cfg.preF53`), two workers, one task served; worker 101 then leaves cleanly (idle time-out) and is reaped; the
NEXT `submit` writes its wake-up, the manager consumes it and re-enters `wait` on `[100]`, THEN `submit` respawns the
missing worker (pid 102), which takes the task and is killed. -/
def respawnEvents : List WEvent :=
  [.callSubmit 5, .caller, .caller, .caller, .caller, .caller, .caller,
   .manager, .manager, .manager, .env (.take 100), .env (.sendResult 100), .manager, .manager,
   .env (.announceExit 101), .manager, .manager,
   .callSubmit 6, .caller, .caller,          -- second call: registered; wake-up written
   .manager, .manager,                       -- wake-up consumed; wait on [100]
   .caller, .caller, .caller,                -- `_ensure_executor_running`: worker 102 spawned; `submit` returns
   .env (.take 102), .env (.kill 102)]

/-- The same schedule with the repair F53 (`Cfg.code`): the second `submit` respawns worker 102 (killed at once) and THEN
writes its wake-up. -/
def respawnEventsF53 : List WEvent :=
  [.callSubmit 5, .caller, .caller, .caller, .caller, .caller, .caller,
   .manager, .manager, .manager, .env (.take 100), .env (.sendResult 100), .manager, .manager,
   .env (.announceExit 101), .manager, .manager,
   .callSubmit 6,
   .manager,                                 -- (asleep: no wake-up yet)
   .caller, .caller, .caller, .caller, .caller,   -- worker 102 spawned; manager already started; `wakeup()`: test, write
   .env (.take 102), .env (.kill 102)]

/-- COUNTEREXAMPLE (finding F53) to `wait_set_covers_live_workers` / `death_wakes_manager_wait_set` FOR THE ORDER BEFORE
THE REPAIR (`Cfg.preF53`, the code's own start order): after a clean exit the respawned worker 102 is dead, holds the
task, and is not in the wait set `[100]`; no wake-up is pending, the caller is outside `submit`: the manager is asleep and
the second call's future stays `running` — until something else wakes the thread (in the code: the idle time-out of
another worker, `idle_worker_timeout` = 300 s by default in joblib; reproduced, builders_notes/C10-wakeup.md).
With the repair (`Cfg.code`) the analogous schedule leaves a wake-up pending, the manager is not asleep and three
iterations later the call's future carries `TerminatedWorkerError`. -/
theorem respawn_after_clean_exit_counterexample :
    let s := wrun Cfg.preF53 id (WState.init 2 5 100) respawnEvents
    s.base.mgr = .running ∧ s.mph = .waiting [100] ∧ s.cpc = .idle ∧ DeadIn s.base 102 ∧ 102 ∉ [100] ∧
    s.base.wakeups = 0 ∧ s.asleep = true ∧ s.base.futures.map (·.st) = [.result 5, .running] ∧
    (let s' := wrun Cfg.code id (WState.init 2 5 100) respawnEventsF53
     s'.mph = .waiting [100] ∧ DeadIn s'.base 102 ∧ s'.base.wakeups = 1 ∧ s'.asleep = false ∧
     (wrun Cfg.code id s' [.manager, .manager, .manager]).base.futures.map (·.st) =
       [.result 5, .exception .terminatedWorker]) := by
  refine ⟨by decide, by decide, by decide, ⟨⟨102, false, some ⟨1, 6⟩, false, false⟩, by decide, rfl, rfl⟩, by decide,
    by decide, by decide, by decide, by decide, ⟨⟨102, false, none, false, false⟩, by decide, rfl, rfl⟩, by decide,
    by decide, by decide⟩

/-! ## 9. The wake-up pipe and the shutdown lock -/

/-- With `close` under the lock (`cfg.closeUnlocked = false`; either start order), after ANY history: no `wakeup()` has
ever written to a closed pipe (`oserror = false`: neither `submit` nor `shutdown` raised `OSError`), and whenever the
caller stands between the `_closed` test and the write, it holds the lock and the pipe is still open — so the write
that follows succeeds. -/
theorem wakeup_never_writes_to_closed_pipe (cfg : Cfg) (hcfg : cfg.closeUnlocked = false) (fn : Nat → Nat)
    (mw qs fp : Nat) (evs : List WEvent) :
    let s := wrun cfg fn (WState.init mw qs fp) evs
    s.oserror = false ∧ (s.cpc = .subWrite ∨ s.cpc = .shutWrite → s.lock = true ∧ s.closed = false) := by
  intro s
  have h := lockInv_run cfg hcfg fn _ (lockInv_init mw qs fp) evs
  refine ⟨h.noerr, fun hw => ⟨?_, h.writing hw⟩⟩
  rw [h.held]
  rcases hw with hw | hw <;> rw [hw] <;> rfl

/-- …and the manager cannot close the pipe meanwhile: with the caller between test and write, the manager's statement
leaves `closed` as it is (it waits for the lock). -/
theorem close_waits_for_the_writer (cfg : Cfg) (hcfg : cfg.closeUnlocked = false) (fn : Nat → Nat)
    (mw qs fp : Nat) (evs : List WEvent) :
    let s := wrun cfg fn (WState.init mw qs fp) evs
    s.cpc = .subWrite ∨ s.cpc = .shutWrite → (wstep cfg fn s .manager).closed = false := by
  intro s hw
  obtain ⟨_, h2⟩ := wakeup_never_writes_to_closed_pipe cfg hcfg fn mw qs fp evs
  obtain ⟨hl, hc⟩ := h2 hw
  obtain ⟨_, _, _, f4⟩ := managerMicro_frame cfg s
  rcases f4 with f4 | f4 | f4
  · show (managerMicro cfg s).closed = false
    rw [f4]; exact hc
  · rw [hl] at f4; cases f4
  · rw [hcfg] at f4; cases f4

/-- One task, its worker killed; the manager tears the executor down (`terminate_broken` … `join_executor_internals`)
while the caller aborts the call (`shutdown(kill_workers=True)`): flag, lock, `_closed` tested (open) — the manager
closes the pipe — the caller writes. -/
def closeRaceEvents : List WEvent :=
  [.callSubmit 5, .caller, .caller, .caller, .caller, .caller, .caller,
   .manager, .manager, .manager,
   .env (.take 100), .env (.kill 100),
   .manager,                                 -- the death is seen: `terminate_broken`, up to the close of the pipe
   .callShutdown true, .caller, .caller,     -- the abort: flags; lock taken; `if not self._closed` (open)
   .manager,                                 -- `thread_wakeup.close()`
   .caller]                                  -- `send_bytes`

/-- COUNTEREXAMPLE without the lock around `close` (`closeUnlocked`): the caller's write hits the closed pipe, the abort
raises `OSError` and THAT is what the `Parallel` call raises instead of the `TerminatedWorkerError` its future carries.
With the lock (the code) the same history ends with the pipe open at the write, no `OSError`, the future's error raised. -/
theorem close_unlocked_counterexample :
    let s := wrun ⟨false, true, false⟩ id (WState.init 2 5 100) closeRaceEvents
    s.oserror = true ∧ s.base.futures.map (·.st) = [.exception .terminatedWorker] ∧
    s.raised .terminatedWorker = .osError ∧
    (let s' := wrun Cfg.code id (WState.init 2 5 100) closeRaceEvents
     s'.oserror = false ∧ s'.closed = false ∧ s'.mph = .closing ∧
     s'.raised .terminatedWorker = .exc .terminatedWorker) := by
  decide

/-! ## 10. The caller's abort -/

/-- What the tear-down after a death stores in the flags — hence what `submit` re-raises and what every failed future
carries — is a worker-termination error (`TerminatedWorkerError` or `BrokenProcessPool`), whatever the wait set. -/
theorem death_error_is_worker_termination (s : State) (ws : List Nat) :
    (waitStep s ws).1.flags.broken = s.flags.broken ∨
    (waitStep s ws).1.flags.broken = some .terminatedWorker ∨ (waitStep s ws).1.flags.broken = some .brokenPool :=
  waitStep_broken_kind s ws

/-- With the lock (the code), after ANY history the caller's abort (`shutdown` → `wakeup()`) has not raised: a failed
call re-raises exactly the error `e` its future carries — a worker-termination error by
`death_error_is_worker_termination` and `terminate_broken_resolves_all` —, never an `OSError` of the abort itself. -/
theorem abort_raises_only_worker_termination (cfg : Cfg) (hcfg : cfg.closeUnlocked = false) (fn : Nat → Nat)
    (mw qs fp : Nat) (evs : List WEvent) (e : Exc) :
    (wrun cfg fn (WState.init mw qs fp) evs).raised e = .exc e := by
  have h := (wakeup_never_writes_to_closed_pipe cfg hcfg fn mw qs fp evs).1
  simp only [WState.raised] at *
  simp [h]

/-! ### Non-vacuity of sections 8–10 -/

/-- The code's order, one task, worker 100 killed holding it: no clean exit in the history, the manager is inside `wait`
on `[100, 101]`, a dead worker is among the processes — the hypotheses of `death_wakes_manager_wait_set_partial`. -/
def coveredEvents : List WEvent :=
  [.callSubmit 5, .caller, .caller, .caller, .caller, .caller, .caller, .manager, .manager, .manager,
   .env (.take 100), .env (.kill 100)]

example : NoCleanExit coveredEvents := by intro p h; simp [coveredEvents] at h
example : let s := wrun Cfg.code id (WState.init 2 5 100) coveredEvents
    s.base.mgr = .running ∧ s.mph = .waiting [100, 101] ∧ s.base.wakeups = 0 ∧ s.asleep = false ∧
    (wstep Cfg.code id s .manager).base.futures.map (·.st) = [.exception .terminatedWorker] := by decide
/-- `submit` run statement by statement without interruption is the coarse `submit`. -/
example : (wrun Cfg.code id (WState.init 2 5 100) [.callSubmit 5, .caller, .caller, .caller, .caller, .caller, .caller]).base
    = (submit (State.init 2 5 100) 5).1 := by decide
/-- The caller between test and write, the manager at the close: reachable (hypothesis of `close_waits_for_the_writer`). -/
example : let s := wrun Cfg.code id (WState.init 2 5 100) (closeRaceEvents.take 16)
    s.cpc = .shutWrite ∧ s.mph = .closing ∧ s.lock = true ∧ (wstep Cfg.code id s .manager) = s := by decide
/-- The hypotheses of `death_wakes_manager_wait_set` after a history WITH a clean exit and a respawn (the code as it is):
manager inside `wait` on `[100]`, the caller outside `submit`, the respawned worker 102 dead and NOT in the wait set — and
a wake-up pending, as `wait_set_covers_live_workers` says. -/
example : let s := wrun Cfg.code id (WState.init 2 5 100) respawnEventsF53
    s.base.mgr = .running ∧ s.mph = .waiting [100] ∧ preWrite s.cpc = false ∧ s.base.wakeups = 1 ∧
    s.base.processes.map (·.pid) = [100, 102] := by decide
example : DeadIn (wrun Cfg.code id (WState.init 2 5 100) respawnEventsF53).base 102 :=
  ⟨⟨102, false, none, false, false⟩, by decide, rfl, rfl⟩
/-- `Quiet` continuations exist: kills, worker events, manager iterations. -/
example : ∀ e ∈ [WEvent.manager, .env (.kill 101), .env (.sendResult 100), .caller, .manager], Quiet e := by
  intro e he; simp at he; rcases he with rfl | rfl | rfl | rfl | rfl <;> trivial

end C10
