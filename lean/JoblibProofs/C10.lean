import JoblibProofs.Lemmas.LokyMgr
/-!
# C10 — a dying loky worker yields a prompt error, never a hang, and workers heal      (PARTIAL BY DESIGN)

Statement (properties.jsonl): with the default process backend (loky), if a worker process dies abruptly —
killed, segfault, `os._exit` — at any moment, before, during or after running a task, while sending its result,
or while idle between calls, the affected `Parallel` call raises a worker-termination error within bounded time
rather than hanging or returning partial or wrong results. At most one call fails per fault: the following call
transparently gets healthy workers and returns correct results.

What is proved, and about what. The theorems are about `JoblibModel.LokyMgr`: the manager thread's event loop
(`managerStep` = one iteration of `_ExecutorManagerThread.run`), the environment events of workers / OS / client
(`step`), and `get_reusable_executor` + joblib's `LokyBackend` (`getReusableExecutor`, `configure`,
`backendSubmit`, `abortEverything`). Quantifier reached: EVERY reachable state (any number of workers, tasks,
calls; any interleaving of the events of `Event`; a `kill` of any worker at any point of any history), every
history of the executor pool. Process death, pipes, sentinels and signals are MODELLED, not verified: the theorems
say what the event loop does given that a dead process's sentinel is ready, that `recv` needs a complete message,
that the pipe never reports EOF. This is the property where the theorem carries the least of the truth; the tie
to the real code is the fault-injection correspondence of `harness/props/c10.py`.

FULL STATEMENT of the liveness part (kept visible, NOT proved — it is false of model and code):
  "for every reachable state with a dead worker, within a bounded number of manager iterations every pending and
   running future is resolved."
It fails exactly in the hazard state of F15 (`f15_hazard_reachable`, `f15_hazard_blocks_forever`): a worker
killed after writing part of its result message. The proved fragment (`…_partial`) assumes
`NoTornMessage`: "no worker dies between the first and the last byte of its result message".
Also not a theorem: wall-clock latency ("prompt"), and that a healthy executor completes every task (that needs
fairness of the OS scheduler); both are covered by the fault-injection runs only.
-/
namespace C10
open JoblibModel.LokyMgr

/-- The states the theorems quantify over: whatever a fresh executor reaches through any history of events
(client submits and shut-downs, manager iterations, worker steps, kills). -/
def Reachable (fn : Nat → Nat) (s : State) : Prop :=
  ∃ (max_workers queue_size first_pid : Nat) (evs : List Event),
    s = run fn (State.init max_workers queue_size first_pid) evs

theorem reachable_inv {fn : Nat → Nat} {s : State} (h : Reachable fn s) : Inv fn s := by
  obtain ⟨mw, qs, fp, evs, rfl⟩ := h
  exact inv_run (inv_init fn mw qs fp) evs

theorem reachable_run {fn : Nat → Nat} {s : State} (h : Reachable fn s) (evs : List Event) :
    Reachable fn (run fn s evs) := by
  obtain ⟨mw, qs, fp, evs0, rfl⟩ := h
  exact ⟨mw, qs, fp, evs0 ++ evs, by simp [run, List.foldl_append]⟩

/-! ## 1. A death wakes the manager -/

/-- A dead worker's sentinel is in the ready set of `wait`, so `wait` does not block, and the iteration of the
manager's loop does not end "asleep in `wait`" — in ANY state (no invariant needed). -/
theorem death_wakes_manager (s : State) (p : Nat) (hd : DeadIn s p) :
    p ∈ (ready s).sentinels ∧ (ready s).nothing = false ∧ (managerStep s).2 ≠ .blockedInWait := by
  have hm : p ∈ deadPids s.processes := mem_deadPids.mpr hd
  refine ⟨hm, ?_, managerStep_not_blockedInWait s p hd⟩
  simp only [Ready.nothing, ready]
  cases hx : deadPids s.processes with
  | nil => rw [hx] at hm; cases hm
  | cons a l => simp

/-- …and of every SUBSEQUENT wait: no event of the workers, the OS or the client takes a dead process out of the
wait set; only the manager's own iteration can (by reaping or killing it — see `dead_worker_unblocks_manager_partial`). -/
theorem death_stays_visible (fn : Nat → Nat) (s : State) (p : Nat) (hd : DeadIn s p) (evs : List Event)
    (hne : ∀ e ∈ evs, e ≠ .mgr) :
    DeadIn (run fn s evs) p ∧ (managerStep (run fn s evs)).2 ≠ .blockedInWait := by
  have : DeadIn (run fn s evs) p := by
    induction evs generalizing s with
    | nil => exact hd
    | cons e es ih =>
      exact ih (step fn s e) (deadIn_step fn s p e hd (hne e (by simp))) (fun e' he' => hne e' (by simp [he']))
  exact ⟨this, managerStep_not_blockedInWait _ p this⟩

/-- PARTIAL (hypothesis `NoTornMessage`). With a dead worker in its wait set, every iteration of the manager
makes progress: it ends the thread with every future resolved, or it consumes one complete result message, or
(pipe empty) it consumes the pending wake-ups — keeping the dead worker in sight —, or it waits in `recv` for a
LIVE writer to finish its message. It never sleeps in `wait` and never blocks on a dead writer.
(`hnp`: no clean-exit announcement `pid q` is in flight; such a message is how a worker LEAVES without being an
error, `process_result_item`'s `int` branch.)
Missing for the full statement: the torn-message state, where the iteration blocks for ever (`f15_…`). -/
theorem dead_worker_unblocks_manager_partial (fn : Nat → Nat) (s : State) (p : Nat)
    (hreach : Reachable fn s) (hr : s.mgr = .running) (hd : DeadIn s p)
    (hnt : NoTornMessage s) (hnp : ∀ q, Msg.pid q ∉ s.result_pipe) :
    ((managerStep s).1.mgr = .exited ∧ Resolved (managerStep s).1) ∨
    ((managerStep s).2 = .progressed ∧ (managerStep s).1.mgr = .running ∧ DeadIn (managerStep s).1 p ∧
      ((∃ m, s.result_pipe = m :: (managerStep s).1.result_pipe) ∨
       (s.result_pipe = [] ∧ (managerStep s).1.result_pipe = [] ∧ s.wakeups > 0 ∧
        (managerStep s).1.wakeups = 0))) ∨
    (∃ w, (managerStep s).2 = .blockedInRecv w ∧ writerAlive s w = true) := by
  rcases managerStep_cases (reachable_inv hreach) hr hd hnt hnp with
    h | ⟨h1, _, h3, h4, _, h6⟩ | ⟨w, h1, h2, _, _⟩
  · exact Or.inl h
  · exact Or.inr (Or.inl ⟨h1, h3, h4, h6⟩)
  · exact Or.inr (Or.inr ⟨w, h1, h2⟩)

/-! ## 2. Once a death is observed every future is resolved -/

/-- `terminate_broken` leaves no future pending or running, whatever the reachable state it is called in: the
futures of `pending_work_items` (which include the running ones) get the error, and the invariant says every
unresolved future is in `pending_work_items`. -/
theorem terminate_broken_resolves_all (fn : Nat → Nat) (s : State) (hreach : Reachable fn s) (bpe : Exc) :
    Resolved (terminateBroken s bpe) ∧ (terminateBroken s bpe).mgr = .exited ∧
    (terminateBroken s bpe).flags.broken = some bpe ∧
    ∀ wid ∈ s.pending_work_items, ∃ r : FutRec, (terminateBroken s bpe).futures[wid]? = some r ∧
      r.st = .exception bpe := by
  have hI := reachable_inv hreach
  refine ⟨(terminateBroken_resolved hI bpe).2, rfl, rfl, ?_⟩
  intro wid hw
  have hlt := hI.pend_lt wid hw
  refine ⟨{ s.futures[wid] with st := .exception bpe }, ?_, rfl⟩
  show (failAll s.futures s.pending_work_items bpe)[wid]? = _
  rw [getElem?_failAll]
  simp [hw, hlt]

/-- PARTIAL (hypothesis: no partial message in the pipe — `NoTornMessage` for a manager running alone, since a
live writer cannot finish while only the manager moves). From any reachable state with a dead worker, the manager
running, `|buffered complete results| + 2` iterations of the manager suffice: the thread has returned and NO
future is left pending or running (each is resolved with its result, with the task's own exception, or with
`TerminatedWorkerError`/`BrokenProcessPool`). The bound: one iteration per buffered message (results have priority
over sentinels in `wait_result_broken_or_wakeup`), one for a pending wake-up (it, too, has priority), one to see
the sentinel.
Missing for the full statement: the torn-message state (F15). Under interleaving with live workers the same
argument gives "one more iteration per message they add" (`dead_worker_unblocks_manager_partial` is the step). -/
theorem broken_resolves_all_partial (fn : Nat → Nat) (s : State) (p : Nat)
    (hreach : Reachable fn s) (hr : s.mgr = .running) (hd : DeadIn s p)
    (hnt : s.partialMsg = none) (hnp : ∀ q, Msg.pid q ∉ s.result_pipe) :
    (managerSteps (s.result_pipe.length + 2) s).mgr = .exited ∧
    Resolved (managerSteps (s.result_pipe.length + 2) s) :=
  broken_resolves_all_aux _ s rfl (reachable_inv hreach) hr hd hnt hnp

/-! ## 3. No wrong results -/

/-- A future resolved with a value got the value computed from the argument of ITS OWN work item: results are
matched by work id, in every reachable state (any kills, any interleaving). -/
theorem no_wrong_results (fn : Nat → Nat) (s : State) (hreach : Reachable fn s)
    (wid : Nat) (r : FutRec) (v : Nat) (hf : s.futures[wid]? = some r) (hv : r.st = .result v) :
    v = fn r.arg :=
  (reachable_inv hreach).res_ok wid r v hf hv

/-- The manager thread never dies of the `KeyError` / `ValueError` its loop could raise
(`pending_work_items[work_id]`, `running_work_items.remove(work_id)`). -/
theorem manager_never_crashes (fn : Nat → Nat) (s : State) (hreach : Reachable fn s) : s.mgr ≠ .crashed :=
  (reachable_inv hreach).not_crashed

/-! ## 4. Healing -/

/-- `get_reusable_executor` never returns an executor flagged broken or shut down (it builds a new one). -/
theorem heal (p : Pool) (max_workers queue_size : Nat) (reuse kill_workers : Bool) :
    ∃ e, (getReusableExecutor p max_workers queue_size reuse kill_workers).1.execs[
            (getReusableExecutor p max_workers queue_size reuse kill_workers).2.1]? = some e ∧
      e.flags.broken = none ∧ e.flags.shutdown = false :=
  getReusableExecutor_healthy p max_workers queue_size reuse kill_workers

/-- For EVERY history of the module (events of any executor, calls of `get_reusable_executor` with any
arguments): once executor `j` is flagged broken it is never handed out again. -/
theorem heal_for_every_history (fn : Nat → Nat) (p : Pool) (j : Nat) (e : State) (b : Exc)
    (hj : p.execs[j]? = some e) (hb : e.flags.broken = some b) (ops : List PoolOp) :
    j ∉ (poolRun fn (p, []) ops).2 :=
  broken_never_returned fn ops (p, []) j e hj (by rw [hb]; rfl) (by simp)

/-- What a fault is charged to. `terminate_broken` fails exactly the futures of `pending_work_items` and leaves
every other future as it was; afterwards `submit` on that executor creates no future, it raises the stored error.
So a fault is charged to the calls that had futures pending at that time and, if the backend still holds the
broken instance (inside a `with Parallel(...)` block, `LokyBackend._workers`), to the first call that submits to
it (`idle_death_in_with_block_costs_one_call`) — whose `abort_everything` then replaces it (`heal`). -/
theorem fault_charged_to_pending_only (s : State) (bpe : Exc) :
    (∀ wid, wid ∉ s.pending_work_items → (terminateBroken s bpe).futures[wid]? = s.futures[wid]?) ∧
    (∀ arg, submit (terminateBroken s bpe) arg = (terminateBroken s bpe, .error bpe)) :=
  ⟨fun wid h => terminateBroken_untouched s bpe wid h,
   fun arg => submit_on_broken _ arg bpe rfl⟩

/-! ## 5. A worker dying while idle -/

/-- PARTIAL (hypothesis: the manager thread gets to run between the death and the next call — it is asleep in
`wait` on the sentinel, so this is "the OS schedules it", not a theorem). A worker dies while the executor is idle
(`Quiescent`). What the code does — there is no respawn of the dead worker (`_adjust_process_count` is only
reached through `submit`, and the dead process still counts in `len(_processes)`): the manager's next iteration
is `terminate_broken`, which flags the executor and, nothing being pending, fails NO future; the next
`configure` (= the next call outside a `with` block) then gets a brand-new healthy executor. No call fails. -/
theorem idle_death_costs_nothing_partial (fn : Nat → Nat) (p : Pool) (i : Nat) (e : State) (victim : Nat)
    (n_jobs queue_size : Nat)
    (hcur : p.current = some i) (he : p.execs[i]? = some e) (hq : Quiescent e) (hd : DeadIn e victim) :
    let p1 := (poolStep fn (p, []) (.exec i .mgr)).1          -- the manager observes the death
    let r := configure p1 n_jobs queue_size                     -- the next call starts
    r.2.workers = some p.execs.length ∧
    (∃ e2, r.1.execs[p.execs.length]? = some e2 ∧ e2.flags.broken = none ∧ e2.flags.shutdown = false) ∧
    (∃ e1, r.1.execs[i]? = some e1 ∧ e1.futures = e.futures ∧ e1.flags.broken = some .terminatedWorker) := by
  have hlt : i < p.execs.length := (List.getElem?_eq_some_iff.mp he).1
  obtain ⟨hstep, hfut⟩ := idle_death_step e victim hq hd
  have hms : (step fn e .mgr) = terminateBroken e .terminatedWorker := by simp [step, hstep]
  simp only [poolStep, he, hms, configure, getReusableExecutor, hcur]
  simp only [List.getElem?_set, hlt, if_true]
  have hb : ((terminateBroken e .terminatedWorker).flags.broken.isSome ||
      (terminateBroken e .terminatedWorker).flags.shutdown || !true) = true := by rfl
  simp only [hb, if_true, createExecutor, List.length_set]
  refine ⟨trivial, ⟨State.init n_jobs queue_size (firstPid p.execs.length), by simp, rfl, rfl⟩, ?_⟩
  refine ⟨shutdown (terminateBroken e .terminatedWorker) false, ?_, hfut, rfl⟩
  simp [List.getElem?_append_left, hlt]

/-- Inside a `with Parallel(...)` block the backend keeps its executor (`LokyBackend._workers`) and does not
call `get_reusable_executor` between calls: after an idle death (observed by the manager) the NEXT call's first
`submit` raises `TerminatedWorkerError` — one call fails, with no future created —, and its
`abort_everything(ensure_ready=True)` installs a brand-new healthy executor for the following call. -/
theorem idle_death_in_with_block_costs_one_call (fn : Nat → Nat) (p : Pool) (b : Backend) (i : Nat) (e : State)
    (victim : Nat) (n_jobs queue_size arg : Nat)
    (hcur : p.current = some i) (hb : b.workers = some i) (he : p.execs[i]? = some e)
    (hq : Quiescent e) (hd : DeadIn e victim) :
    let p1 := (poolStep fn (p, []) (.exec i .mgr)).1
    backendSubmit p1 b arg = some (p1, .error .terminatedWorker) ∧
    ∃ p2 b2, abortEverything p1 b n_jobs queue_size true = some (p2, b2) ∧
      b2.workers = some p.execs.length ∧
      ∃ e2, p2.execs[p.execs.length]? = some e2 ∧ e2.flags.broken = none ∧ e2.flags.shutdown = false := by
  have hlt : i < p.execs.length := (List.getElem?_eq_some_iff.mp he).1
  obtain ⟨hstep, _⟩ := idle_death_step e victim hq hd
  have hms : (step fn e .mgr) = terminateBroken e .terminatedWorker := by simp [step, hstep]
  simp only [poolStep, he, hms]
  constructor
  · simp only [backendSubmit, hb, List.getElem?_set, hlt, if_true]
    rw [submit_on_broken _ arg .terminatedWorker rfl]
    simp
  · simp only [abortEverything, hb, List.getElem?_set, hlt, if_true, configure, getReusableExecutor, hcur,
      List.set_set]
    have hbk : ((shutdown (terminateBroken e .terminatedWorker) true).flags.broken.isSome ||
        (shutdown (terminateBroken e .terminatedWorker) true).flags.shutdown || !true) = true := by rfl
    simp only [List.length_set, hbk, if_true, createExecutor]
    exact ⟨_, _, rfl, rfl, State.init n_jobs queue_size (firstPid p.execs.length), by simp, rfl, rfl⟩

/-- A pool whose only executor has just served one task with two workers and is idle again. -/
def idlePool : Pool :=
  (poolRun id (Pool.empty, []) [.get 2 5 true false, .exec 0 (.submit 3), .exec 0 .mgr, .exec 0 (.take 100),
    .exec 0 (.sendResult 100), .exec 0 .mgr]).1

/-- COUNTEREXAMPLE to the un-hypothesised "an idle death costs nothing": if the next call starts BEFORE the
manager thread has looked (worker 101 killed; no manager iteration), `get_reusable_executor` reuses the
executor (nothing is flagged yet, and the dead process still counts in `len(_processes)`, so it is not
replaced either); the call's future then fails with `TerminatedWorkerError` at the manager's next look.
One call is lost — which is what the property allows ("at most one call fails per fault"). -/
theorem idle_death_unobserved_is_reused_counterexample :
    let p := (poolRun id (idlePool, []) [.exec 0 (.kill 101)]).1
    let r := getReusableExecutor p 2 5 true false
    r.2 = (0, true) ∧
    ((poolRun id (r.1, []) [.exec 0 (.submit 4), .exec 0 .mgr, .exec 0 .mgr]).1.execs.map
        (fun e => e.futures.map (·.st))) = [[.result 3, .exception .terminatedWorker]] := by
  decide

/-! ## 6. F15: the hazard, as a witness -/

/-- Two tasks submitted to two workers; worker 100 begins to write its result and is killed; worker 101 is
alive, holding its task (and, like the parent, the write end of the pipe). -/
def hazardEvents : List Event :=
  [.submit 5, .submit 6, .mgr, .take 100, .take 101, .beginSend 100, .kill 100]

def hazardState : State := run id (State.init 2 5 100) hazardEvents

/-- The hazard state is reachable (by construction: it IS a history from a fresh executor) and in it: the manager
is running, the pipe holds only a partial message, its writer (100) is dead, another worker (101) is alive, both
futures are unresolved — and one iteration of the manager ends BLOCKED IN `recv` ON THE DEAD WRITER, not in
`terminate_broken`, although the dead worker's sentinel is ready (the result reader has priority). -/
theorem f15_hazard_reachable :
    Reachable id hazardState ∧
    hazardState.mgr = .running ∧ hazardState.result_pipe = [] ∧ hazardState.partialMsg = some 100 ∧
    writerAlive hazardState 100 = false ∧ writerAlive hazardState 101 = true ∧
    100 ∈ (ready hazardState).sentinels ∧ (ready hazardState).result = true ∧
    (managerStep hazardState).2 = .stuckInRecv 100 ∧
    hazardState.futures.map (·.st) = [.running, .running] :=
  ⟨⟨2, 5, 100, hazardEvents, rfl⟩, by decide⟩

theorem hazardState_torn : Torn hazardState 100 :=
  ⟨by decide, by decide, by decide, ⟨100, false, some ⟨0, 5⟩, true, false⟩, by decide, rfl⟩

/-- In ANY reachable torn state (pipe = the first bytes of a message whose writer is dead) the manager is stuck
for ever: whatever the workers, the OS and the client do afterwards (any `evs`, including further manager
iterations, kills of the other workers, shut-downs), the state is still torn, the manager's iteration still ends
blocked in `recv`, and every future that was unresolved is still unresolved: the `Parallel` call hangs.
This is the NEGATION of the full liveness statement on a concrete witness (`hazardState_torn`). -/
theorem f15_hazard_blocks_forever (fn : Nat → Nat) (s : State) (w : Nat) (hreach : Reachable fn s)
    (ht : Torn s w) (evs : List Event) :
    Torn (run fn s evs) w ∧ (managerStep (run fn s evs)).2 = .stuckInRecv w ∧
    ∀ (i : Nat) (r : FutRec), s.futures[i]? = some r → r.st.unresolved = true →
      ∃ r' : FutRec, (run fn s evs).futures[i]? = some r' ∧ r'.st.unresolved = true :=
  torn_forever evs (reachable_inv hreach) ht

/-- The hypothesis of the `…_partial` theorems excludes exactly this: a torn state is not `NoTornMessage`. -/
theorem torn_is_not_noTorn (s : State) (w : Nat) (ht : Torn s w) : ¬ NoTornMessage s := by
  intro h
  have := h w ht.2.2.1
  rw [torn_writer_dead ht] at this
  cases this

/-! ## 7. The tear-down is not atomic: the client between its steps; the error message -/

/-- After the broken flag is set `submit` raises the stored error and accepts nothing. -/
theorem submit_after_flag_raises (s : State) (arg : Nat) (b : Exc) (h : s.flags.broken = some b) :
    submit s arg = (s, .error b) :=
  submit_on_broken s arg b h

/-- NO ORPHAN FUTURE. `terminate_broken` is not atomic: the client thread may call `submit` between any two of
its steps (`a1`: after `flag_as_broken`, `a2`: after the pending items were failed and cleared, `a3`: after
`kill_workers`). BECAUSE THE FLAG IS SET FIRST every one of those submits is rejected (it raises the error, no future
is created), so the outcome is that of the uninterrupted tear-down and, in a reachable state, every future that
`submit` ever accepted is resolved: it was in `pending_work_items` when they were failed. The theorem relies on
exactly this order — flag, then fail-and-clear; see `flag_after_clear_orphans_counterexample`. -/
theorem no_orphan_future (fn : Nat → Nat) (s : State) (hreach : Reachable fn s) (bpe : Exc) (a1 a2 a3 : List Nat) :
    terminateBrokenInterleaved s bpe a1 a2 a3 = terminateBroken s bpe ∧
    Resolved (terminateBrokenInterleaved s bpe a1 a2 a3) ∧
    (∀ a, submit (flagAsBroken s bpe) a = (flagAsBroken s bpe, .error bpe)) := by
  rw [terminateBrokenInterleaved_eq]
  exact ⟨rfl, (terminateBroken_resolved (reachable_inv hreach) bpe).2, fun a => submit_on_broken _ a bpe rfl⟩

/-- The executor of `idlePool` with worker 101 dead: idle, manager asleep on the sentinel. -/
def idleDeadState : State := ((poolRun id (idlePool, []) [.exec 0 (.kill 101)]).1.execs[0]!)

/-- COUNTEREXAMPLE for the other order (pending items failed and cleared FIRST, flag set afterwards): a `submit`
landing in between is accepted — the executor is neither broken nor shut down yet — and its future stays `pending`
for ever: the manager thread has returned (`mgr = exited`), the work id sits in `pending_work_items` of a dead
executor. This is the hang the order of `terminate_broken` exists to prevent. -/
theorem flag_after_clear_orphans_counterexample :
    let s' := terminateBrokenFlagLast idleDeadState .terminatedWorker [9]
    s'.mgr = .exited ∧ s'.flags.broken = some .terminatedWorker ∧ s'.pending_work_items = [1] ∧
    s'.futures.map (·.st) = [.result 3, .pending] := by
  decide

/-- Building the `TerminatedWorkerError` message never raises, whatever the exit codes of the workers and whatever
signals have a name: `_get_exitcode_name` answers `"UNKNOWN"` for a signal number outside `signal.Signals`
(real-time signals), the `ValueError` does not escape into the manager thread. -/
theorem exitcode_message_never_raises (names : List (Nat × String)) :
    (∀ e : Int, getExitcodeName names e =
      .ok (if e < 0 then (names.lookup (-e).toNat).getD "UNKNOWN" else if e ≠ 255 then "EXIT" else "UNKNOWN")) ∧
    (∀ es : List Int, ∃ msg, formatExitcodes names es = .ok msg) :=
  ⟨getExitcodeName_ok names, formatExitcodes_ok names⟩

/-! ## Non-vacuity: the hypotheses are met by non-trivial reachable states -/

/-- Worker 100 killed holding its task while worker 101's result is buffered: reachable, manager running, a dead
worker in the wait set, no torn message, no exit announcement — the hypotheses of `broken_resolves_all_partial`. -/
def exState : State :=
  run id (State.init 2 5 100) [.submit 5, .submit 6, .submit 7, .mgr, .take 100, .take 101, .sendResult 101, .kill 100]

example : Reachable id exState := ⟨2, 5, 100, _, rfl⟩
example : exState.mgr = .running ∧ exState.partialMsg = none ∧ exState.result_pipe = [.result 1 6] := by decide
example : DeadIn exState 100 := ⟨⟨100, false, some ⟨0, 5⟩, false, false⟩, by decide, rfl, rfl⟩
example : ∀ q, Msg.pid q ∉ exState.result_pipe := by
  have : exState.result_pipe = [.result 1 6] := by decide
  intro q; rw [this]; simp
/-- …and the conclusion on it: after `1 + 2` iterations the thread has returned; the buffered result was
delivered, the other two futures carry `TerminatedWorkerError`. -/
example : (managerSteps 3 exState).mgr = .exited ∧
    (managerSteps 3 exState).futures.map (·.st) =
      [.exception .terminatedWorker, .result 6, .exception .terminatedWorker] := by decide
/-- An idle executor (`Quiescent`) with a dead worker, for the idle-death theorems. -/
example : Quiescent ((poolRun id (idlePool, []) [.exec 0 (.kill 101)]).1.execs[0]!) := by
  unfold Quiescent; decide
example : (getReusableExecutor idlePool 2 5 true false).2 = (0, true) := by decide

example : (getExitcodeName [(9, "SIGKILL"), (34, "SIGRTMIN")] (-35)).toOption = some "UNKNOWN" := by decide
example : (formatExitcodes [(9, "SIGKILL")] [-9, -35, 3, 255]).toOption =
    some "{SIGKILL(-9), UNKNOWN(-35), EXIT(3), UNKNOWN(255)}" := by decide

end C10
