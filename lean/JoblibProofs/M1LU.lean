import JoblibProofs.Lemmas.ParallelLockU
import JoblibProofs.Lemmas.ParallelLockU.Nodup
import JoblibProofs.Lemmas.ParallelLockU.UChain
/-!
# M1LU — `joblib.Parallel` with `return_as='generator_unordered'` and / or `timeout`, at lock-boundary / backend-call /
# unlocked-access granularity, ALL interleavings

Model: `JoblibModel.ParallelLockU` (the model M1L extended, same granularity; see its header for the new scheduling
points: the control-job pick under the lock, `get_status` with a timeout, `_register_outcome(TimeoutError)` run by the
caller WITHOUT the lock, the unlocked write of `_jobs_set`).  `Reachable c s` = some interleaving of any number of
threads, of any length, leads from the fresh object to `s` (an action that is not enabled is a no-op).

Quantifier reached by every theorem below: ALL configurations (`n_jobs`, batch sizes, `pre_dispatch`, all three
`return_as` modes, any timeout in clock ticks or none, any script of control-job picks, any failing tasks / failing
position of the input iterable) and ALL schedules, by inductive invariants — never by enumeration.
Scope: one call on a fresh object.  The tie to the real code is `harness/m1_lock.py` (scenarios with `ra = 2` or a
timeout go to `drv_m1lu`; complete step-log equality on forced real-thread schedules).

C16 "with `generator_unordered` results are delivered in completion order, each exactly once":
`unordered_completion_order`, `unordered_each_exactly_once_partial`.  C04 "TimeoutError when the caller waited longer
than `timeout`": `timeout_raises`, `timeout_registers`, `timeout_only_when_waited`, `error_surfaces_unordered`.
C01/C04/C09 for every interleaving: `mutex`, `lock_owner_iff`, `pulls_only_by_lock_owner`, `no_deadlock`.
-/
namespace M1LU
open JoblibModel.ParallelLockU
open JoblibModel.ParallelLock (Tid Status CbPc DK DRes Act)

/-- `s` is reachable: some finite interleaving of thread steps and backend completions leads from the fresh object to
`s`. -/
def Reachable (c : Cfg) (s : St) : Prop := ∃ sched : List Act, s = run c init sched

/-- The lock invariant holds in every reachable state. -/
theorem reachable_lockInv {c : Cfg} {s : St} (h : Reachable c s) : LockInv s := by
  obtain ⟨sched, rfl⟩ := h
  exact run_lockInv c sched _ lockInv_init

/-- The lock invariant is inductive: preserved by every action of every thread and of the environment. -/
theorem lockInv_inductive {c : Cfg} {s : St} (h : LockInv s) (a : Act) : LockInv (step c s a) := step_lockInv c s h a

/-- Thread `t` is inside a lock-protected segment at a step boundary: it is parked at a backend call (`submit`,
`compute_batch_size`, `retrieve_result_callback`) made while it owns `Parallel._lock`. -/
def inLocked (s : St) : Tid → Bool
  | 0 => s.pc.holding
  | i + 1 => cbHolding (getTrk s i).pc

/-- LOCK OWNER. The lock is owned by thread `t` exactly when `t` is inside a lock-protected segment. -/
theorem lock_owner_iff {c : Cfg} {s : St} (h : Reachable c s) (t : Tid) :
    s.lockOwner = some t ↔ inLocked s t = true := by
  have hi := reachable_lockInv h
  cases t with
  | zero => exact ⟨hi.own0, hi.caller⟩
  | succ i => exact ⟨hi.ownCb i, hi.cb i⟩

/-- MUTEX. In every reachable state at most one thread is inside a lock-protected segment. (Segments that acquire and
release the lock within one atomic step — among them the caller's control-job pick, its `popleft`, and the two critical
sections of `_register_outcome(TimeoutError)` — exclude the others by construction: a step from a lock acquisition is
enabled only while `lockOwner = none`, see `acquire_needs_free_lock`.) -/
theorem mutex {c : Cfg} {s : St} (h : Reachable c s) {t t' : Tid} (h1 : inLocked s t = true)
    (h2 : inLocked s t' = true) : t = t' := by
  have e1 := (lock_owner_iff h t).mpr h1
  have e2 := (lock_owner_iff h t').mpr h2
  rw [e1] at e2
  exact Option.some.inj e2

/-- A thread parked at a lock acquisition is not runnable while the lock is taken. -/
theorem acquire_needs_free_lock (s : St) :
    (s.pc.isAcq = true → callerEnabled s = true → s.lockOwner = none) ∧
    (∀ i, ((getTrk s i).pc = .acqA ∨ (getTrk s i).pc = .acqC) → cbEnabled s i = true → s.lockOwner = none) := by
  constructor
  · intro ha he
    simp only [callerEnabled, ha, Bool.not_true, Bool.false_or, Bool.and_eq_true, beq_iff_eq] at he
    exact he.2
  · intro i hp he
    unfold cbEnabled at he
    rcases hp with hp | hp <;> rw [hp] at he <;> simpa using he

/-- PULLS ONLY BY THE LOCK OWNER (C09). Every item ever taken from the input iterable was taken by the thread that
owned `Parallel._lock` at that instant — in all three `return_as` modes, with or without a timeout. -/
theorem pulls_only_by_lock_owner {c : Cfg} {s : St} (h : Reachable c s) {t : Tid} {id : Nat} {l : Bool}
    (hm : Ev.pull t id l ∈ s.log) : l = true :=
  (reachable_lockInv h).logLocked t id l hm

/-- The caller never parks at the marker `dIn` (it only exists between two effects of one atomic step). -/
theorem never_at_marker {c : Cfg} {s : St} (h : Reachable c s) (k : DK) : s.pc ≠ .dIn k :=
  (reachable_lockInv h).noIn k

/-- NO DEADLOCK. Until the call has returned / raised, some action is enabled: when the lock is free the caller
itself can move; when it is taken, its owner is parked at a backend call inside its critical section and is runnable.
The new waits (control-job pick, the two critical sections of the caller's `_register_outcome(TimeoutError)`) are
covered: they are lock acquisitions by a thread that owns nothing. -/
theorem no_deadlock {c : Cfg} {s : St} (h : Reachable c s) (hd : s.pc ≠ .done) : ∃ a, enabled s a = true := by
  have hi := reachable_lockInv h
  cases ho : s.lockOwner with
  | none =>
    refine ⟨.thread 0, ?_⟩
    simp only [enabled, callerEnabled, ho, beq_self_eq_true, Bool.or_true, Bool.and_true, bne_iff_ne, ne_eq]
    exact hd
  | some t =>
    cases t with
    | zero =>
      refine ⟨.thread 0, ?_⟩
      have hp := hi.own0 ho
      have : s.pc.isAcq = false := by
        cases hpc : s.pc <;> rw [hpc] at hp <;> first | rfl | cases hp
      simp only [enabled, callerEnabled, this, Bool.not_false, Bool.true_or, Bool.and_true, bne_iff_ne, ne_eq]
      exact hd
    | succ i =>
      refine ⟨.thread (i + 1), ?_⟩
      have hp := hi.ownCb i ho
      simp only [enabled, cbEnabled, getTrk_def]
      cases hpc : (getT s.trk i).pc <;> rw [hpc] at hp <;> first | rfl | cases hp

/-- Nobody waits while owning the lock: the owner of the lock is always runnable. -/
theorem lock_holder_runnable {c : Cfg} {s : St} (h : Reachable c s) {t : Tid} (ho : s.lockOwner = some t) :
    enabled s (.thread t) = true := by
  have hi := reachable_lockInv h
  cases t with
  | zero =>
    have hp := hi.own0 ho
    have h1 : s.pc.isAcq = false := by
      cases hpc : s.pc <;> rw [hpc] at hp <;> first | rfl | cases hp
    have h2 : s.pc ≠ .done := by
      intro e; rw [e] at hp; cases hp
    simp only [enabled, callerEnabled, h1, Bool.not_false, Bool.true_or, Bool.and_true, bne_iff_ne, ne_eq]
    exact h2
  | succ i =>
    have hp := hi.ownCb i ho
    simp only [enabled, cbEnabled, getTrk_def]
    cases hpc : (getT s.trk i).pc <;> rw [hpc] at hp <;> first | rfl | cases hp

/-! ## `generator_unordered`: completion order, each tracker once -/

theorem reachable_ordInv {c : Cfg} {s : St} (hra : c.ra = 2) (h : Reachable c s) : OrdInv s := by
  obtain ⟨sched, rfl⟩ := h
  exact run_ord c hra sched _ ordInv_init

theorem reachable_valInv {c : Cfg} {s : St} (h : Reachable c s) : ValInv s := by
  obtain ⟨sched, rfl⟩ := h
  exact run_val c sched _ valInv_init

/-- The task ids of tracker `i` (its batch). -/
def batch (s : St) (i : Nat) : List Nat := (getTrk s i).items

/-- COMPLETION ORDER (C16). `return_as='generator_unordered'`, every interleaving: the values the consumer has received
so far are exactly the batches of the trackers `delivered`, concatenated in that order, and `delivered` is a PREFIX of
`appended` = the sequence in which `_register_outcome` appended the trackers to `_jobs` = the order in which the
completions were registered (under the lock).  So values are yielded in completion-registration order, batch by batch,
without gaps: a later completion is never yielded before an earlier one. -/
theorem unordered_completion_order {c : Cfg} {s : St} (hra : c.ra = 2) (h : Reachable c s) :
    s.delivered <+: s.appended ∧ s.out = s.delivered.flatMap (batch s) := by
  have ho := reachable_ordInv hra h
  have hv := reachable_valInv h
  refine ⟨?_, hv.out⟩
  unfold OrdInv at ho
  cases hc : s.pc.cls with
  | A infl => rw [hc] at ho; exact ordOK_A_prefix ho
  | B ne => rw [hc] at ho; exact ho.1
  | C rest => rw [hc] at ho; exact (List.prefix_append _ _).trans ho

/-- … and nothing that completed is skipped or lost while the retrieval loop runs: at every program point of the loop
(`Pc.cls = A infl`: `infl` = the tracker just popped, not yet handed over) the delivered trackers, the popped one and
the queue `_jobs` ARE the registration sequence; once `_remaining_outputs` is fixed (`Pc.cls = C rest`) what is still
to be yielded continues the registration sequence. -/
theorem unordered_queue_is_registration_order {c : Cfg} {s : St} (hra : c.ra = 2) (h : Reachable c s) :
    (∀ infl, s.pc.cls = .A infl → s.delivered ++ infl ++ s.jobs = s.appended) ∧
    (∀ rest, s.pc.cls = .C rest → (s.delivered ++ rest) <+: s.appended) := by
  have ho := reachable_ordInv hra h
  unfold OrdInv at ho
  constructor
  · intro infl hc; rw [hc] at ho; exact ho
  · intro rest hc; rw [hc] at ho; exact ho

/-- Every delivered tracker exists, its registered values were its own task ids, and the task ids of a tracker never
change (all modes). -/
theorem delivered_trackers_exist {c : Cfg} {s : St} (h : Reachable c s) : ∀ i ∈ s.delivered, i < s.trk.length :=
  (reachable_valInv h).bound

theorem reachable_bInv {c : Cfg} {s : St} (h : Reachable c s) : BInv s := by
  obtain ⟨sched, rfl⟩ := h
  exact (run_bninv c sched _ bInv_init nInv_init).1

theorem reachable_nInv {c : Cfg} {s : St} (h : Reachable c s) : NInv s := by
  obtain ⟨sched, rfl⟩ := h
  exact (run_bninv c sched _ bInv_init nInv_init).2

/-- Every tracker index the object holds (`_jobs`, `_jobs_set`, the control job, the tracker of the caller's
`get_status` program point, the registration sequence) refers to an existing tracker. -/
theorem indices_in_range {c : Cfg} {s : St} (h : Reachable c s) :
    (∀ j ∈ s.jobs, j < s.trk.length) ∧ (∀ j ∈ s.jobsSet, j < s.trk.length) ∧
    (∀ j, s.ctlJob = some j → j < s.trk.length) ∧ (∀ j ∈ s.appended, j < s.trk.length) :=
  ⟨(reachable_bInv h).jobs, (reachable_bInv h).set, (reachable_bInv h).ctl, (reachable_bInv h).app⟩

/-- A TRACKER REGISTERS ONCE. The registration sequence has no duplicates and every tracker in it has left
TASK_PENDING — although two threads may try to register the same tracker (its completion callback, and the caller
with a TimeoutError, which runs `_register_outcome` WITHOUT owning the lock across the whole function): the status
test-and-set under the lock decides, and the loser appends nothing. -/
theorem registration_once {c : Cfg} {s : St} (h : Reachable c s) :
    s.appended.Nodup ∧ ∀ i ∈ s.appended, (getTrk s i).status ≠ .pending :=
  ⟨(reachable_nInv h).nodup, (reachable_nInv h).np⟩

/-- NO BATCH TWICE (C16). `generator_unordered`: no tracker is delivered twice. -/
theorem unordered_no_batch_twice {c : Cfg} {s : St} (hra : c.ra = 2) (h : Reachable c s) : s.delivered.Nodup :=
  List.Nodup.sublist (unordered_completion_order hra h).1.sublist (reachable_nInv h).nodup

/-
FULL STATEMENT of `unordered_each_exactly_once` (NOT proved here):
  Reachable c s → c.ra = 2 →
    (∀ v ∈ s.out, v < c.n) ∧ s.out.Nodup ∧ (s.outcome = some (.ret s.out) → s.out.Perm (List.range c.n))
What is proved: `unordered_each_exactly_once_partial` below — the yielded values are the batches of `delivered`, in
order; `delivered` has NO DUPLICATES (no batch is yielded twice) and is a prefix of the registration sequence
`appended`, which has no duplicates either (a tracker registers once).  What is missing: (1) disjointness and range
of the batches of DIFFERENT trackers — the dispatch side, which is M1L's `exactly_once` / `dispatch_conservation` (the
definitions of `pull` / `dispatchLocked` are the same as M1L's up to `_register_new_job`; the ≈ 2 000 lines of M1L's
`ConsInv`/`SrcInv` proofs were not ported to the new state type), (2) at normal exhaustion all n were yielded = M1L's
`no_premature_exit` (`Inv2`, not ported).  Both are CHECKED by the tie's oracles on every forced schedule
(`wrong-result`, `executed-twice`, `not-executed-once`, `unordered-order`).
-/

/-- EXACTLY ONCE, partial (C16): see the comment above for the full statement and what is missing. -/
theorem unordered_each_exactly_once_partial {c : Cfg} {s : St} (hra : c.ra = 2) (h : Reachable c s) :
    s.out = s.delivered.flatMap (batch s) ∧ s.delivered.Nodup ∧ s.delivered <+: s.appended ∧ s.appended.Nodup ∧
    (∀ i ∈ s.delivered, i < s.trk.length) :=
  ⟨(unordered_completion_order hra h).2, unordered_no_batch_twice hra h, (unordered_completion_order hra h).1,
   (reachable_nInv h).nodup, delivered_trackers_exist h⟩

/-! ## timeouts -/

theorem reachable_tInv {c : Cfg} {s : St} (h : Reachable c s) : TInv c s := by
  obtain ⟨sched, rfl⟩ := h
  exact run_tinv c sched _ (tInv_init c)

/-- TIMEOUT RAISES, step 1 (C04). The caller is at the first status read of `get_status(timeout=T)` on tracker `i`
(head of `_jobs` in the ordered modes, control job in the unordered mode), the tracker is still pending, its counter was
started when the clock read `t0`, and MORE than `T` ticks have passed since (`T < clock - t0`; one tick per
`time.sleep` of the retrieval loop): the caller's next step leads to `_register_outcome(TimeoutError)` — it parks at
that function's lock. -/
theorem timeout_raises {c : Cfg} {s : St} {i : Nat} {k : GK} {T t0 : Nat} (hpc : s.pc = .gsStatus i k)
    (hT : c.timeout = some T) (hp : (getTrk s i).status = .pending) (hc : (getTrk s i).tcnt = some t0)
    (hw : T < s.clock - t0) : (stepCaller c s).pc = .toAcq i k := by
  unfold stepCaller
  simp only [hpc, hp, hc, hT]
  simp [setTrk, hw]

/-- TIMEOUT RAISES, step 2. At the lock of `_register_outcome(TimeoutError)`: if the tracker is STILL pending (no
completion callback registered its outcome in between — that is the only way out) the TimeoutError is registered: the
tracker's status becomes TASK_ERROR and the ghost `toWait` records (tracker, counter, clock). -/
theorem timeout_registers {c : Cfg} {s : St} {i : Nat} {k : GK} (hpc : s.pc = .toAcq i k) (hlt : i < s.trk.length)
    (hp : (getTrk s i).status = .pending) :
    (stepCaller c s).pc = .toRel i k true ∧ (getTrk (stepCaller c s) i).status = .error ∧
    (stepCaller c s).toWait = some (i, (getTrk s i).tcnt.getD s.clock, s.clock) := by
  unfold stepCaller
  simp only [hpc]
  have hne : ((getTrk s i).status != Status.pending) = false := by rw [hp]; rfl
  simp only [hne, Bool.false_eq_true, if_false]
  refine ⟨trivial, ?_, trivial⟩
  simp only [setTrk, getTrk_def]
  rw [getT_set, if_pos ⟨rfl, hlt⟩]

/-- … and the next steps of the caller store the TimeoutError in the tracker and set `_exception`, `_aborting`. -/
theorem timeout_stored {c : Cfg} {s : St} {i : Nat} {k : GK} (hpc : s.pc = .toRel i k true) (hlt : i < s.trk.length) :
    (getTrk (stepCaller c s) i).result = .exc .timeout ∧ (stepCaller c s).pc = .toStatus i k := by
  unfold stepCaller
  simp only [hpc, if_true]
  refine ⟨?_, trivial⟩
  simp only [setTrk, getTrk_def]
  rw [getT_set, if_pos ⟨rfl, hlt⟩]

/-- TIMEOUT ONLY WHEN WAITED (C04). In every reachable state: if a TimeoutError exists anywhere — stored in a tracker,
in the caller's hands on its way out, or as the outcome of the call (`raise TimeoutError`) — then the call has a timeout
`T`, and the ghost `toWait = (i, t0, t1)` says: the caller registered it for tracker `i` when the clock read `t1`, the
counter of `i` had been started by the caller at clock `t0` (counters are started only by `get_status` on a pending
tracker and reset only when the unordered branch releases its control job), and `T < t1 - t0`: more than `T`
`time.sleep`s of the retrieval loop lie between the two. -/
theorem timeout_only_when_waited {c : Cfg} {s : St} (h : Reachable c s)
    (hm : s.outcome = some (.raised .timeout) ∨ (∃ i, (getTrk s i).result = .exc .timeout) ∨ s.pc.carriesTO = true) :
    ∃ T i t0 t1, c.timeout = some T ∧ s.toWait = some (i, t0, t1) ∧ T < t1 - t0 := by
  apply (reachable_tInv h).wait
  rcases hm with hm | hm | hm
  · exact Or.inr (Or.inr hm)
  · exact Or.inr (Or.inl hm)
  · exact Or.inl hm

/-- The caller stands at the lock of `_register_outcome(TimeoutError)` only with an expired counter, and the code of the
timeout branch is reached only when `Parallel(timeout=…)` is not None. -/
theorem timeout_branch_guarded {c : Cfg} {s : St} (h : Reachable c s) :
    (s.pc.inGetStatus = true → c.timeout.isSome = true) ∧
    (∀ i k, s.pc = .toAcq i k → c.timeout.getD 0 < s.clock - (getTrk s i).tcnt.getD s.clock) :=
  ⟨(reachable_tInv h).code, (reachable_tInv h).exp⟩

theorem reachable_cInv {c : Cfg} {s : St} (hord : c.ra ≠ 2) (h : Reachable c s) : CInv s := by
  obtain ⟨sched, rfl⟩ := h
  exact run_cinv c (by simpa using hord) sched _ cInv_init

/-- TIMEOUT RAISES, trace level, ORDERED modes (`return_as` list / generator; C04). Every interleaving: once the caller
has registered a TimeoutError for a tracker (ghost `toWait ≠ none`; by `timeout_registers` that happens exactly when it
finds the head of `_jobs` still pending at the lock of `_register_outcome`, more than `timeout` ticks after it started
that tracker's counter) the call can only end by raising TimeoutError: when the caller is done, the outcome is
`raise TimeoutError` — no completion callback, however it interleaves, can turn it into a normal return or into another
exception. -/
theorem timeout_registered_raises_ordered {c : Cfg} {s : St} (hord : c.ra ≠ 2) (h : Reachable c s)
    (hw : s.toWait ≠ none) (hd : s.pc = .done) : s.outcome = some (.raised .timeout) := by
  have hc := (reachable_cInv hord h).chain hw
  unfold chainOK at hc
  simp only [hd] at hc
  exact hc

/-- … and until then the caller is on the one-way path `chainOK` (the registered tracker has status TASK_ERROR, holds the
TimeoutError, is the head of `_jobs` until the caller pops it; afterwards the caller carries the TimeoutError through
`except BaseException` / `finally`). -/
theorem timeout_path_ordered {c : Cfg} {s : St} (hord : c.ra ≠ 2) (h : Reachable c s) (hw : s.toWait ≠ none) :
    chainOK s :=
  (reachable_cInv hord h).chain hw

theorem reachable_uall {c : Cfg} {s : St} (hra : c.ra = 2) (h : Reachable c s) : UAll c s := by
  obtain ⟨sched, rfl⟩ := h
  exact run_uall c hra sched _ (uall_init c)

/-- TIMEOUT RAISES, trace level, UNORDERED mode (`generator_unordered`; C04). Every interleaving: once the caller has
registered a TimeoutError for its control job (ghost `toWait ≠ none`) the call can only end by RAISING: when the caller
is done the outcome is `raise e` for some exception `e` — never a normal exhaustion of the generator.  (`e` is the
TimeoutError, or the exception of a task / of the input iterable whose failure was registered in `_jobs` before the
control job: `_raise_error_fast` takes the FIRST error job of `_jobs`.) -/
theorem timeout_registered_raises_unordered {c : Cfg} {s : St} (hra : c.ra = 2) (h : Reachable c s)
    (hw : s.toWait ≠ none) (hd : s.pc = .done) : ∃ e, s.outcome = some (.raised e) := by
  have hc := (reachable_uall hra h).u.chain hw
  unfold uchainOK at hc
  simp only [hd] at hc
  exact hc

/-- … and until then the caller is on the one-way path `uchainOK`: it finishes the registration (`_exception`,
`_aborting`, `_jobs.append`), sleeps, `_wait_retrieval` and `_retrieve` see `_aborting`, `_raise_error_fast` finds an
error job of `_jobs` that holds an exception, `get_result` raises it, `except BaseException`, `finally`. -/
theorem timeout_path_unordered {c : Cfg} {s : St} (hra : c.ra = 2) (h : Reachable c s) (hw : s.toWait ≠ none) :
    uchainOK s :=
  (reachable_uall hra h).u.chain hw

/-- In the retrieval loop of the unordered mode every tracker of `_jobs` with status TASK_ERROR holds an exception
(`get_result` on it raises that exception, never AttributeError) — the window of the caller's own TimeoutError
registration (`status = TASK_ERROR` under the lock, `_result = …` after the release) is closed before the tracker is
appended to `_jobs`. -/
theorem error_jobs_hold_exceptions {c : Cfg} {s : St} (hra : c.ra = 2) (h : Reachable c s)
    (hd : s.pc.decided = false) :
    ∀ j ∈ s.jobs, (getTrk s j).status = .error → ∃ e, (getTrk s j).result = .exc e :=
  (reachable_uall hra h).u.res hd

/-! ## errors surface in the unordered mode -/

theorem reachable_eInv {c : Cfg} {s : St} (hra : c.ra = 2) (h : Reachable c s) : EInv s := by
  obtain ⟨sched, rfl⟩ := h
  exact run_einv c hra sched _ eInv_init

/-- ERRORS SURFACE, unordered (C04; the round-4 seed on the callback's lock scope). `generator_unordered`, every
interleaving: when the caller stands at the lock of `_raise_error_fast` — i.e. `_retrieve` has observed `_aborting` —
then `_aborting` is (still) set and the scan of `_jobs` it is about to make under the lock FINDS a tracker with status
TASK_ERROR.  It holds because the completion callback runs `_register_outcome` inside its first critical section
(status, `_exception`/`_aborting` and `_jobs.append(self)` are ONE atomic step), the tracker registered for an error of
the input iterable is appended in the same locked region, and the caller's own TimeoutError registration appends the
tracker before it can come back to `_retrieve`'s test. -/
theorem error_surfaces_unordered {c : Cfg} {s : St} (hra : c.ra = 2) (h : Reachable c s) (hpc : s.pc = .refAcq) :
    s.aborting = true ∧ ∃ j, firstErrorJob s s.jobs = some j ∧ j ∈ s.jobs ∧ (getTrk s j).status = .error := by
  have hi := reachable_eInv hra h
  have ha := hi.ref hpc
  have hm := hi.main
  rw [hpc] at hm
  exact ⟨ha, firstErrorJob_of_errIn s s.jobs (hm ha)⟩

/-- In the retrieval loop of the unordered mode `_aborting` is never set without an error job being in `_jobs`, in the
caller's hands (just popped), or about to be appended by the caller itself (its TimeoutError registration). -/
theorem aborting_has_error_job {c : Cfg} {s : St} (hra : c.ra = 2) (h : Reachable c s) (ha : s.aborting = true) :
    (s.pc.ecls = .need → ∃ j ∈ s.jobs, (getTrk s j).status = .error) ∧
    (∀ i, s.pc.ecls = .popped i → (∃ j ∈ s.jobs, (getTrk s j).status = .error) ∨ (getTrk s i).status = .error) := by
  have hm := (reachable_eInv hra h).main
  constructor
  · intro hc; rw [hc] at hm; exact hm ha
  · intro i hc; rw [hc] at hm; exact hm ha

/-! ## the hypotheses are satisfiable: concrete reachable states -/

/-- 2 tasks, `n_jobs = 2`, batch size 1, `pre_dispatch = 2`, `generator_unordered`, no timeout. -/
def cfgU : Cfg :=
  { nj := 2, bsAuto := false, bs := [1], pdMode := 0, pd := 2, ra := 2, abortDrops := true, n := 2, fails := [],
    iterfail := none }

/-- The caller dispatches both batches and waits; batch 1 completes first and its callback registers; then batch 0;
then the caller drains. -/
def schedU : List Act :=
  List.replicate 30 (.thread 0) ++ [.complete 1] ++ List.replicate 6 (.thread 2) ++ [.complete 0] ++
  List.replicate 6 (.thread 1) ++ List.replicate 12 (.thread 0)

set_option maxRecDepth 100000 in
/-- Completion order, not submission order: batch 1 registered first, so the consumer receives `[1, 0]`. -/
example : (run cfgU init schedU).outcome = some (.ret [1, 0]) ∧ (run cfgU init schedU).appended = [1, 0] := by
  decide +kernel

/-- 1 task, list mode, `timeout = 0` ticks: the caller alone (the batch stays parked in the backend). -/
def cfgT : Cfg :=
  { nj := 2, bsAuto := false, bs := [1], pdMode := 0, pd := 2, ra := 0, abortDrops := true, n := 1, fails := [],
    iterfail := none, timeout := some 0 }

set_option maxRecDepth 100000 in
/-- The caller starts the counter at clock 0, sleeps once, finds the counter expired (0 < 1 - 0), registers the
TimeoutError and raises it. -/
example : (run cfgT init (List.replicate 48 (.thread 0))).outcome = some (.raised .timeout) ∧
    (run cfgT init (List.replicate 48 (.thread 0))).toWait = some (0, 0, 1) := by
  decide +kernel

/-- 2 tasks, unordered, `timeout = 1`: the caller alone; the control job times out after two sleeps. -/
def cfgTU : Cfg := { cfgU with timeout := some 1 }

set_option maxRecDepth 100000 in
example : (run cfgTU init (List.replicate 64 (.thread 0))).outcome = some (.raised .timeout) ∧
    (run cfgTU init (List.replicate 64 (.thread 0))).toWait = some (0, 0, 2) := by
  decide +kernel

/-- Unordered, task 1 fails: its callback registers first; `_raise_error_fast` finds it and the call raises. -/
def cfgF : Cfg := { cfgU with fails := [1] }

set_option maxRecDepth 100000 in
example : (run cfgF init (List.replicate 30 (.thread 0) ++ [.complete 1] ++ List.replicate 3 (.thread 2) ++
    [.complete 0] ++ List.replicate 2 (.thread 1) ++ List.replicate 12 (.thread 0))).outcome
      = some (.raised (.task 1)) := by
  decide +kernel

end M1LU
