import JoblibProofs.Lemmas.ParallelProto
import JoblibProofs.Lemmas.AutoBatch
import JoblibProofs.Lemmas.ParallelSeq
import JoblibProofs.Lemmas.EvalExpr
import JoblibProofs.Lemmas.ParallelReconf
/-!
# C09 — Parallel consumes its input lazily, boundedly and from one thread at a time

Statement (properties.jsonl): `Parallel` takes items from its input iterable lazily and never from two threads at
once: at every moment the number of items taken exceeds the number of completed tasks by at most a bound fixed by
`pre_dispatch`, `n_jobs` and the batch size — never by the input length — no more than the pre-dispatched number of
batches is in flight, and `pre_dispatch='all'` takes everything up front. Once a task has failed or the output
generator has been closed, no further items are taken.

Model: `JoblibModel.ParallelProto` (M1). "Items taken" is `St.srcPos`, "completed tasks" is `St.nCompleted`,
"batches in flight" is `ownParked t0 s` (parked batches of the running call), `bmax c` is the largest scripted
batch size.

Quantifier reached: ALL schedules, ALL input lengths, ALL configurations (`n_jobs ≥ 2`, scripted batch sizes ≥ 1),
every state of a call (invariants `Inv`, `InvB`). The configuration-only bound of the statement is FALSE under
adversarial schedules (finding F18, `lookahead_unbounded_counterexample`): what is proved is
`lookahead_bound_partial`, configuration-only when no completion is delivered before `_start` returns, and growing
by `n_jobs · bmax` per task completed during `_start` otherwise.

"Arithmetic-only evaluation of pre_dispatch expressions" (`_utils.eval_expr`) and the way `pre_dispatch` fixes the
amount of the bound: model `JoblibModel.EvalExpr` (section "`_utils.eval_expr` …" below). Quantifier reached there:
EVERY AST `ast.parse(…, mode="eval").body` can be and EVERY interpretation of the eight operator functions
(`eval_arithmetic_only`, `eval_rejects_cleanly_partial`); every AST of the integer fragment (`eval_sound`); every
`pre_dispatch` value (text, int, float, bool, other) and every `n_jobs` for the resolution, which is a function
(`resolve_amount_fixed`), with `lookahead_bound_user` re-stating the look-ahead bound in terms of the USER's
`pre_dispatch` and `n_jobs`. Floats are binary64 values computed exactly except the general case of `float ** float`
(abstention, see the model's header); the parser is a sub-grammar (abstention outside it), tied by correspondence only.
-/
namespace C09
open JoblibModel.ParallelProto

/-- NO PULL AFTER ABORT. Once the call is aborting (a task failed, the input raised, the timeout expired, or the
generator was closed), `dispatch_one_batch` — from the caller or from a completion callback, including its locked
region re-check — returns without touching anything: the input position, the log's pull events, the queues are
unchanged; completions delivered by the backend change nothing but the backend's own bookkeeping. (The abort flag
itself is never cleared within a call: C04 `aborting_is_monotone`.) -/
theorem no_pull_after_abort (c : Cfg) {s : St} (hab : s.aborting = true) :
    (∀ fo bs, dispatchLocked c fo bs s = (s, false)) ∧ dispatchOneCb c s = (s, false) ∧
    dispatchOneMain c s = (s, false) ∧ (∀ b, dispatch c s b = s) ∧
    (∀ k, ∃ lg pk ib, deliver c k s = { s with log := lg, parked := pk, inCb := ib }) :=
  ⟨fun fo bs => dispatchLocked_aborting c fo bs hab, dispatchOneCb_aborting c hab,
    dispatchOneMain_aborting c hab, fun b => dispatch_aborting c b hab, fun k => deliver_aborting c k hab⟩

/-- ALL IS EAGER. With `pre_dispatch='all'`: when `_start` returns without the call aborting, the whole input has
been taken (`srcPos = n`, the iterator is exhausted, nothing is left in the look-ahead queue); and in every state
of such a call `_original_iterator` is `None`, so no completion callback ever pulls: a completion leaves the input
position unchanged. -/
theorem all_is_eager {c : Cfg} (hnj : 2 ≤ c.nj) (hbs : ∀ b ∈ c.bs, 1 ≤ b) (hmode : c.pdMode = 1) :
    (∀ (fuel base : Nat) (spec : CallSpec) (s₀ : St), Idle s₀ → s₀.hung = false → spec.n + 2 ≤ fuel →
      ∃ s1, callStart c fuel base spec s₀ = (s1, none) ∧
        (s1.aborting = false → s1.srcPos = spec.n ∧ s1.srcDead = true ∧ s1.ready = [])) ∧
    (∀ (t0 : Nat) (s : St), Inv c t0 s → s.origAlive = false ∧ ∀ k, (deliver c k s).srcPos = s.srcPos) := by
  have hc : CfgOK c := ⟨by omega, hbs⟩
  constructor
  · intro fuel base spec s₀ hi hh hf
    obtain ⟨s1, he, hS⟩ := callStart_started hc fuel base spec hi hh
    refine ⟨s1, he, fun hna => ?_⟩
    have hor : s1.origAlive = false := by
      cases hx : s1.origAlive with
      | false => rfl
      | true => exact absurd hmode (hS.inv.L.orig_mode hx)
    have hit : s1.iterating = false := by
      cases hx : s1.iterating with
      | false => rfl
      | true => rw [hS.inv.L.iter_orig hx] at hor; cases hor
    obtain ⟨h1, h2⟩ := hS.post hf hh (Or.inl hmode) hna hit
    have := (hS.inv.S.dead hna h2).1
    exact ⟨by rw [this, hS.frame.2.1], h2, h1⟩
  · intro t0 s h
    have hor : s.origAlive = false := by
      cases hx : s.origAlive with
      | false => rfl
      | true => exact absurd hmode (h.L.orig_mode hx)
    exact ⟨hor, fun k => deliver_srcPos_of_not_orig c k hor⟩

/-- PULLS ONLY IN THE LOCKED REGION. The input position is moved by nothing but the locked region of
`dispatch_one_batch` (`dispatchLocked`): registering an outcome, `_dispatch`, `get_status`, `get_result`, `_abort`,
the `finally` block and the exception handler leave it unchanged; a completion callback moves it only through
`dispatch_one_batch(self._original_iterator)`, which moves it only inside its locked region. Since the model's
callbacks are atomic and the locked region is entered by one thread at a time, the iterator is never advanced by
two threads at once. -/
theorem pulls_only_in_locked_region (c : Cfg) (s : St) :
    (∀ i st r, (registerOutcome c s i st r).srcPos = s.srcPos) ∧ (∀ b, (dispatch c s b).srcPos = s.srcPos) ∧
    (∀ i, (getStatus c s i).1.srcPos = s.srcPos) ∧ (∀ i, (getResult s i).1.srcPos = s.srcPos) ∧
    (abort c s).srcPos = s.srcPos ∧ (finallyBlock s).1.srcPos = s.srcPos ∧
    (handleException c s).srcPos = s.srcPos ∧
    (∀ i failed, (callback c s i failed).srcPos = s.srcPos ∨
      (s.origAlive = true ∧ ∃ s1, s1.srcPos = s.srcPos ∧
        (callback c s i failed).srcPos = (dispatchOneCb c s1).1.srcPos)) ∧
    ((dispatchOneCb c s).1.srcPos = s.srcPos ∨
      ∃ bs s1, s1.srcPos = s.srcPos ∧ (dispatchOneCb c s).1 = (dispatchLocked c true bs s1).1) :=
  ⟨fun i st r => (registerOutcome_srcPos c s i st r).1, dispatch_srcPos c s, getStatus_srcPos c s,
    getResult_srcPos s, abort_srcPos c s, finallyBlock_srcPos s, handleException_srcPos c s,
    callback_srcPos c s, dispatchOneCb_srcPos c s⟩

/-
Full statement (FALSE, see `lookahead_unbounded_counterexample`):
  lookahead_bound: in every state of every call, `srcPos − nCompleted ≤ B(c)` with `B` a function of
  `pre_dispatch`, `n_jobs` and `bmax` only.
What is proved (`lookahead_bound_partial`): the bound with `B = (pd + k · n_jobs · bmax + n_jobs) · bmax`, `k` =
number of TASKS completed before `_start` returned; for `k = 0` it is `(pd + n_jobs) · bmax`, configuration-only.
What is missing is exactly what F18 shows to be false: a bound on the batches the caller dispatches during
`_start` when completions interleave with its pre-dispatch loop.
-/

/-- LOOK-AHEAD BOUND, state form. In every state of a call that is not aborting: items taken − tasks completed
`≤ (P + n_jobs) · bmax`, `P` = number of parked batches of the call; and `P ≤` items taken `≤ pre_dispatch +
completed · n_jobs · bmax` (`pre_dispatch ≠ 'all'`). Neither bound mentions the input length. -/
theorem lookahead_bound_state {c : Cfg} {t0 : Nat} {s : St} (h : Inv c t0 s) (hB : InvB c t0 s)
    (hna : s.aborting = false) :
    s.srcPos - s.nCompleted ≤ (ownParked t0 s + c.nj) * bmax c ∧
    ownParked t0 s ≤ s.srcPos ∧
    (c.pdMode ≠ 1 → s.srcPos ≤ c.pd + s.nCompleted * (c.nj * bmax c)) := by
  refine ⟨by have := lookahead_le h hB hna; omega, ownParked_le_pulled h hna, fun hm => ?_⟩
  obtain ⟨r, _, h2⟩ := hB.budget hm
  omega

/-- The size invariant `InvB` (every batch ≤ `bmax`, look-ahead queue ≤ `n_jobs · bmax` tasks, input position paid
for by `pre_dispatch` + `n_jobs · bmax` per completed task) holds when `callStart` returns and is preserved by every
step of the protocol: hook points with any completions, the caller's `dispatch_one_batch`, `get_status`. So
`lookahead_bound_state` applies in every state of a call. -/
theorem size_invariant {c : Cfg} (hnj : 2 ≤ c.nj) (hbs : ∀ b ∈ c.bs, 1 ≤ b) :
    (∀ (fuel base : Nat) (spec : CallSpec) (s₀ : St), Idle s₀ → s₀.hung = false →
      ∃ s1, callStart c fuel base spec s₀ = (s1, none) ∧ Inv c s₀.trk.length s1 ∧ InvB c s₀.trk.length s1) ∧
    (∀ (t0 : Nat) (s : St), Inv c t0 s → InvB c t0 s →
      (∀ sleep, InvB c t0 (hook c sleep s)) ∧ (∀ k, InvB c t0 (deliver c k s)) ∧
      InvB c t0 (dispatchOneMain c s).1 ∧ (∀ i, InvB c t0 (getStatus c s i).1)) := by
  have hc : CfgOK c := ⟨by omega, hbs⟩
  constructor
  · intro fuel base spec s₀ hi hh
    obtain ⟨s1, he, hS⟩ := callStart_started hc fuel base spec hi hh
    exact ⟨s1, he, hS.inv, hS.invB⟩
  · intro t0 s h hB
    exact ⟨fun sl => (hook_spec hc sl h).B hB, fun k => (deliver_spec hc k h).1.B hB,
      (dispatchOneMain_spec hc h).B hB, fun i => getStatus_B i hB⟩

/-- PARKED BOUND. A completion (any hook point, any completions the schedule delivers there) never increases the
number of parked batches of the call: each completed batch leaves and its callback dispatches at most one new one.
Only the caller's pre-dispatch loop adds to the batches in flight. -/
theorem parked_bound {c : Cfg} (hnj : 2 ≤ c.nj) (hbs : ∀ b ∈ c.bs, 1 ≤ b) {t0 : Nat} {s : St} (h : Inv c t0 s) :
    (∀ k, ownParked t0 (deliver c k s) ≤ ownParked t0 s) ∧
    (∀ sleep, ownParked t0 (hook c sleep s) ≤ ownParked t0 s) ∧
    (∀ i, ownParked t0 (getStatus c s i).1 = ownParked t0 s) :=
  ⟨fun k => deliver_ownParked k h.T, fun sl => hook_ownParked ⟨by omega, hbs⟩ sl h,
    fun i => getStatus_ownParked c t0 s i⟩

/-- LOOK-AHEAD BOUND (partial: depends on the completions that happened before `_start` returned). Let `s₁` be
the state in which `callStart` (i.e. `_start`) returns on an idle object with `pre_dispatch ≠ 'all'`, and `k =
s₁.nCompleted` the number of tasks completed by then. In EVERY state `s` reachable afterwards by the steps of the
retrieval phase — any hook points with any completions, `get_status`, pops, yields, consumer pauses — that is not
aborting:
`items taken − tasks completed ≤ (pre_dispatch + k · n_jobs · bmax + n_jobs) · bmax`, and the batches in flight
are at most `pre_dispatch + k · n_jobs · bmax`. For every schedule that delivers no completion during `_start`
(`k = 0`) this is `(pre_dispatch + n_jobs) · bmax`: a function of the configuration only. -/
theorem lookahead_bound_partial {c : Cfg} (hnj : 2 ≤ c.nj) (hbs : ∀ b ∈ c.bs, 1 ≤ b) (hmode : c.pdMode ≠ 1)
    {fuel base : Nat} {spec : CallSpec} {s₀ s₁ s : St} (hi : Idle s₀) (hh : s₀.hung = false)
    (hstart : callStart c fuel base spec s₀ = (s₁, none)) (hna1 : s₁.aborting = false)
    (hr : RetrievalReach c s₀.trk.length s₁ s) (hna : s.aborting = false) :
    s.srcPos - s.nCompleted ≤ (c.pd + s₁.nCompleted * (c.nj * bmax c) + c.nj) * bmax c ∧
    ownParked s₀.trk.length s ≤ c.pd + s₁.nCompleted * (c.nj * bmax c) := by
  have hc : CfgOK c := ⟨by omega, hbs⟩
  obtain ⟨s1', he, hS⟩ := callStart_started hc fuel base spec hi hh
  rw [hstart] at he
  have e : s₁ = s1' := by
    have := congrArg Prod.fst he
    simpa using this
  subst e
  obtain ⟨i1, i2, i3, _⟩ := hr.spec hc hS.inv hS.invB
  have hP1 : ownParked s₀.trk.length s₁ ≤ c.pd + s₁.nCompleted * (c.nj * bmax c) := by
    obtain ⟨_, a2, a3⟩ := lookahead_bound_state hS.inv hS.invB hna1
    exact Nat.le_trans a2 (a3 hmode)
  have hP : ownParked s₀.trk.length s ≤ c.pd + s₁.nCompleted * (c.nj * bmax c) := Nat.le_trans i3 hP1
  refine ⟨?_, hP⟩
  have := (lookahead_bound_state i1 i2 hna).1
  have hm : (ownParked s₀.trk.length s + c.nj) * bmax c ≤
      (c.pd + s₁.nCompleted * (c.nj * bmax c) + c.nj) * bmax c := Nat.mul_le_mul_right _ (by omega)
  omega

set_option maxRecDepth 20000 in
/-- F18 (known finding): the configuration-only bound is FALSE. `n_jobs = 2`, `pre_dispatch = 1`, batch size 1
(`(pre_dispatch + n_jobs) · bmax = 3`): if one batch completes between every two dispatches of the caller's
pre-dispatch loop, that loop keeps draining the look-ahead batches sliced by the callbacks; with 10 such
completions `_start` returns with 17 items taken, 8 completed (look-ahead 9, 9 batches in flight), with 40 of them
and 40 tasks the whole input has been taken with only 20 completed (look-ahead 20): it grows with the input. -/
theorem lookahead_unbounded_counterexample :
    let c : Cfg := ⟨2, true, [1], 0, 1, 0, -1, false, true⟩
    let s10 := (callStart c 200 0 ⟨40, [], -1, []⟩ ({ sched := List.replicate 10 [0] } : St)).1
    let s40 := (callStart c 200 0 ⟨40, [], -1, []⟩ ({ sched := List.replicate 40 [0] } : St)).1
    (c.pd + c.nj) * bmax c = 3 ∧
    s10.srcPos - s10.nCompleted = 9 ∧ s10.parked.length = 9 ∧ s10.aborting = false ∧
    s40.srcPos - s40.nCompleted = 20 ∧ s40.aborting = false := by
  decide

/-- One `compute_batch_size()` call of the auto-batching backends at most doubles the effective batch size: the
`bmax` of the look-ahead bound grows at most geometrically per adjustment, never with the input length. -/
theorem auto_batch_size_at_most_doubles (s : JoblibModel.AutoBatch.St) (h : 1 ≤ s.eff) :
    (JoblibModel.AutoBatch.compute s).2 ≤ 2 * s.eff :=
  JoblibModel.AutoBatch.compute_le_double s h

/-! ### the hypotheses are satisfiable -/

/-- A run in which no completion is delivered during `_start` (`k = 0`): the state in which `callStart` returns
satisfies the hypotheses of `lookahead_bound_partial` with `nCompleted = 0`. -/
example : (callStart (⟨3, true, [2, 1], 0, 4, 0, -1, false, true⟩ : Cfg) 200 0 ⟨30, [], -1, []⟩
      ({ sched := [[], [], [], [], [], []] } : St)).1.nCompleted = 0 ∧
    (callStart (⟨3, true, [2, 1], 0, 4, 0, -1, false, true⟩ : Cfg) 200 0 ⟨30, [], -1, []⟩
      ({ sched := [[], [], [], [], [], []] } : St)).1.aborting = false := by decide


/-! ### the sequential path (`n_jobs == 1`) -/

section Sequential
open JoblibModel.ParallelSeq

/-- SEQUENTIAL IS LAZY. The invariant `SInv` of the suspended sequential generator holds when `seqStart` returns and
after every `next()` that yields a value; under it the items taken from the input exceed the tasks executed by
exactly the number of not yet executed items of the current re-batched tuple, at most `max batch_size 1` — whatever
the input length. -/
theorem sequential_is_lazy (c : Cfg) :
    (∀ (base : Nat) (spec : CallSpec) (s₀ : St), Idle s₀ →
      ∃ s1 bs, seqStart c base spec s₀ = (s1, { bs := bs }, none) ∧ SInv s1 { bs := bs }) ∧
    (∀ (fuel : Nat) (s s' : St) (g g' : SGen) (v : Nat), SInv s g → seqNext (fuel + 2) s g = (s', g', .value v) →
      SInv s' g' ∧ g'.bs = g.bs) ∧
    (∀ (s : St) (g : SGen), SInv s g →
      s.srcPos - s.nCompleted = g.pending.length ∧ s.srcPos - s.nCompleted ≤ max g.bs 1) := by
  refine ⟨?_, ?_, ?_⟩
  · intro base spec s₀ hi
    obtain ⟨s1, bs, he, hI, _⟩ := seqStart_spec c base spec hi
    exact ⟨s1, bs, he, hI⟩
  · intro fuel s s' g g' v h he
    have := seqNext_spec fuel h
    rw [he] at this
    exact ⟨this.2.2.1, this.2.2.2.2.1⟩
  · intro s g h
    obtain ⟨a, b⟩ := seq_lookahead h
    exact ⟨a, by omega⟩

/-- SEQUENTIAL: NO PULL AFTER FAILURE. Once `next()` has raised (a task failed or the input raised) or the generator
was closed, the generator is finished: every further `next()` returns `StopIteration` and leaves the whole state —
in particular the input position — unchanged. -/
theorem sequential_no_pull_after_failure :
    (∀ (fuel : Nat) (s s' : St) (g g' : SGen) (e : Exc), SInv s g → seqNext (fuel + 2) s g = (s', g', .raise e) →
      ∀ fuel', seqNext (fuel' + 1) s' g' = (s', g', .stop)) ∧
    (∀ (s : St) (g : SGen) (fuel' : Nat), g.live = true →
      seqNext (fuel' + 1) (seqClose s g).1 (seqClose s g).2 = ((seqClose s g).1, (seqClose s g).2, .stop) ∧
      (seqClose s g).1.srcPos = s.srcPos) := by
  constructor
  · intro fuel s s' g g' e h he fuel'
    have := seqNext_spec fuel h
    rw [he] at this
    exact seqNext_dead fuel' s' this.1
  · intro s g fuel' hl
    rw [seqClose_live s hl]
    exact ⟨seqNext_dead fuel' _ rfl, rfl⟩

end Sequential


/-! ### `_utils.eval_expr` and the `pre_dispatch` resolution -/

section EvalExprSection
open JoblibModel
open JoblibModel.EvalExpr hiding Exc Res

/-- ARITHMETIC ONLY. For EVERY interpretation `ops` of `node.value` and of the eight operator functions, and every
AST: if `eval_expr` returns a value then the AST is built only from `Constant` nodes, `BinOp` nodes with one of the 7
operators `+ - * / // % **` and `UnaryOp` nodes with unary minus — no `Name`, `Call`, `Attribute`, … node and no other
operator occurs anywhere in it; and a node of any other class is never handed to anything: `eval_` raises `TypeError`
on it at once. -/
theorem eval_arithmetic_only {α : Type} (ops : Ops α) (e : Ast) (v : α) (h : evalExprWith ops e = .ok v) :
    isArith e = true ∧ ∀ k, evalRaw ops (.other k) = .raise .TypeError :=
  ⟨evalRaw_ok_isArith ops e v (wrap_ok.1 h), fun _ => rfl⟩

/-
Full statement (FALSE, see `eval_rejects_cleanly_counterexample`):
  eval_rejects_cleanly: every AST outside the arithmetic fragment yields `ValueError`.
What is proved (`eval_rejects_cleanly_partial`): never a value; `ValueError`, unless a call of an operator function made
earlier in evaluation order (left operand before right operand, operator lookup before both) did not return a value —
then the outcome is that call's outcome (after the `TypeError → ValueError` re-labelling). With the model's Python
operator functions the classes that can get out are `ZeroDivisionError` and `OverflowError` (`eval_exception_classes`);
when every operator call succeeds the outcome is exactly `ValueError` (`eval_rejects_cleanly_when_ops_succeed`).
-/

/-- REJECTION (partial: see the comment above). For every interpretation of the operator functions and every AST
outside the arithmetic fragment: `eval_expr` never returns a value; it raises `ValueError`, or its outcome is the
(re-labelled) outcome `wrap r` of one call `r` of an operator function that did not return a value. -/
theorem eval_rejects_cleanly_partial {α : Type} (ops : Ops α) (e : Ast) (h : isArith e = false) :
    (∀ v, evalExprWith ops e ≠ .ok v) ∧
    (evalExprWith ops e = .raise .ValueError ∨
      ∃ r, OpCall ops r ∧ (∀ v, r ≠ .ok v) ∧ evalExprWith ops e = wrap r) := by
  have hno : ∀ v, evalRaw ops e ≠ .ok v := fun v hv => by
    have := evalRaw_ok_isArith ops e v hv
    rw [h] at this
    cases this
  refine ⟨fun v hv => hno v (wrap_ok.1 hv), ?_⟩
  rcases evalRaw_origin ops e with ⟨v, hv⟩ | h1 | h1 | h1
  · exact absurd hv (hno v)
  · left; simp [evalExprWith, h1, wrap]
  · left; simp [evalExprWith, h1, wrap]
  · right; exact ⟨_, h1, hno, rfl⟩

/-- When every call of an operator function returns a value, an AST outside the arithmetic fragment yields exactly
`ValueError`. -/
theorem eval_rejects_cleanly_when_ops_succeed {α : Type} (ops : Ops α)
    (happ : ∀ f a b, ∃ v, ops.apply f a b = .ok v) (hneg : ∀ a, ∃ v, ops.neg a = .ok v)
    (e : Ast) (h : isArith e = false) : evalExprWith ops e = .raise .ValueError := by
  rcases (eval_rejects_cleanly_partial ops e h).2 with h1 | ⟨r, hc, hno, _⟩
  · exact h1
  · rcases hc with ⟨f, a, b, hr⟩ | ⟨a, hr⟩
    · obtain ⟨v, hv⟩ := happ f a b
      exact absurd (hr.symm.trans hv) (hno v)
    · obtain ⟨v, hv⟩ := hneg a
      exact absurd (hr.symm.trans hv) (hno v)

/-- The unconditional rejection statement is FALSE of the model and of the code alike: in `(1/0) + foo` the left
operand is evaluated before the `Name` node is reached, and `ZeroDivisionError` is not among the exceptions
`eval_expr` re-labels (`eval_expr("(1/0)+foo")` raises `ZeroDivisionError`). Harmless for the security clause: nothing
of the `Name` node is evaluated. -/
theorem eval_rejects_cleanly_counterexample :
    isArith (.binOp .add (.binOp .div (.const (.int 1)) (.const (.int 0))) (.other .name)) = false ∧
    evalExpr (.binOp .add (.binOp .div (.const (.int 1)) (.const (.int 0))) (.other .name)) =
      .raise .ZeroDivisionError := by
  decide

/-- With the model's Python operator functions: whatever the AST, the only exception classes that leave `eval_expr`
are `ValueError`, `ZeroDivisionError` and `OverflowError`; in particular an AST outside the arithmetic fragment yields
one of these three or the model abstains (a float power it does not track was evaluated on the way) — never a value. -/
theorem eval_exception_classes (e : Ast) :
    (∀ x, evalExpr e = .raise x → x = .ValueError ∨ x = .ZeroDivisionError ∨ x = .OverflowError) ∧
    (isArith e = false → evalExpr e = .raise .ValueError ∨ evalExpr e = .raise .ZeroDivisionError ∨
      evalExpr e = .raise .OverflowError ∨ evalExpr e = .untracked) := by
  refine ⟨fun x hx => evalExpr_raise_class hx, fun h => ?_⟩
  cases hr : evalExpr e with
  | ok v => exact absurd hr ((eval_rejects_cleanly_partial pyOps e h).1 v)
  | untracked => exact Or.inr (Or.inr (Or.inr rfl))
  | raise x =>
    rcases evalExpr_raise_class hr with hx | hx | hx <;> subst hx
    · exact Or.inl rfl
    · exact Or.inr (Or.inl rfl)
    · exact Or.inr (Or.inr (Or.inl rfl))

/-- SOUNDNESS ON THE INTEGER FRAGMENT. `intDenote` is the mathematical value of an expression built from integer
constants, `+ - *`, `//` and `%` (Lean's floor division `Int.fdiv` / `Int.fmod`, divisor ≠ 0), `**` with a non-negative
exponent (`a ^ b`) and unary minus. Whenever it is defined, `eval_expr` — which computes `//`, `%` the way CPython's
`l_divmod` does (truncate, then fix the signs) and `**` by square-and-multiply — returns exactly that integer; the
only alternative is that the model abstains, which it does only when some power exceeds `intPowBitBound` bits
(`powWithinBound e = false`). -/
theorem eval_sound (e : Ast) (n : Int) (h : intDenote e = some n) :
    (powWithinBound e = true → evalExpr e = .ok (.int n)) ∧
    (evalExpr e = .ok (.int n) ∨ evalExpr e = .untracked) := by
  obtain ⟨h1, h2⟩ := evalRaw_int_sound e n h
  refine ⟨fun hp => ?_, ?_⟩
  · simp [evalExpr, evalExprWith, h1 hp, wrap]
  · rcases h2 with h2 | h2
    · left; simp [evalExpr, evalExprWith, h2, wrap]
    · right; simp [evalExpr, evalExprWith, h2, wrap]

/-- The denotation's `//` and `%` are Python's: `a = b·(a // b) + a % b` with the remainder in `[0, b)` for a positive
and in `(b, 0]` for a negative divisor (floor semantics, e.g. `7 // -2 = -4`, `7 % -2 = -1`). -/
theorem floor_semantics (a b : Int) (hb : b ≠ 0) :
    a = b * Int.fdiv a b + Int.fmod a b ∧ (0 < b → 0 ≤ Int.fmod a b ∧ Int.fmod a b < b) ∧
    (b < 0 → b < Int.fmod a b ∧ Int.fmod a b ≤ 0) ∧
    intDenote (.binOp .floorDiv (.const (.int 7)) (.unaryOp .usub (.const (.int 2)))) = some (-4) ∧
    intDenote (.binOp .mod (.const (.int 7)) (.unaryOp .usub (.const (.int 2)))) = some (-1) := by
  obtain ⟨h1, h2, h3⟩ := fdiv_fmod_floor a b hb
  exact ⟨h1, h2, h3, by decide, by decide⟩

/-- THE AMOUNT IS FIXED BY `pre_dispatch` AND `n_jobs`. The resolution is a function of the user's `pre_dispatch` and
the effective `n_jobs` alone: two M1 configurations set up from the same two arguments have the same `n_jobs`, the
same mode (`'all'` or not) and the same `islice` amount; `'all'` is recognised by string equality only; and an amount
handed to `islice` is at most `sys.maxsize`. -/
theorem resolve_amount_fixed (pd : PreDispatch) (n_jobs : Nat) :
    (∀ c c' : Cfg, UserCfg c pd n_jobs → UserCfg c' pd n_jobs →
      c.nj = c'.nj ∧ (c.pdMode = 1 ↔ c'.pdMode = 1) ∧ (c.pdMode ≠ 1 → c.pd = c'.pd)) ∧
    (resolvePreDispatch pd n_jobs = .all ↔ pd = .str allText) ∧
    (∀ a, resolvePreDispatch pd n_jobs = .amount a → a ≤ maxsize) := by
  refine ⟨?_, ?_, ?_⟩
  · intro c c' ⟨h1, h2⟩ ⟨h1', h2'⟩
    refine ⟨h1.trans h1'.symm, ?_⟩
    cases hr : resolvePreDispatch pd n_jobs with
    | all => simp only [hr] at h2 h2'; exact ⟨⟨fun _ => h2', fun _ => h2⟩, fun hm => absurd h2 hm⟩
    | amount a =>
      simp only [hr] at h2 h2'
      exact ⟨⟨fun hm => absurd hm h2.1, fun hm => absurd hm h2'.1⟩, fun _ => h2.2.trans h2'.2.symm⟩
    | raise x => simp only [hr] at h2
    | untracked => simp only [hr] at h2
  · have hv : ∀ v, resolveVal v ≠ .all := fun v => by
      unfold resolveVal resolveInt isliceStop
      split
      · split <;> simp
      · simp
      · simp
    have ha : ∀ e, resolveAst e ≠ .all := fun e => by
      unfold resolveAst
      split
      · exact hv _
      · simp
      · simp
    constructor
    · intro h
      cases pd with
      | str s =>
        by_cases hs : s = allText
        · rw [hs]
        · simp only [resolvePreDispatch, hs, if_false] at h
          split at h
          · exact absurd h (ha _)
          · simp at h
          · simp at h
      | int n => exact absurd h (hv _)
      | flt f => exact absurd h (hv _)
      | bool b => exact absurd h (hv _)
      | bytes => simp [resolvePreDispatch] at h
      | other => simp [resolvePreDispatch] at h
    · intro h
      subst h
      simp [resolvePreDispatch]
  · have hv : ∀ v a, resolveVal v = .amount a → a ≤ maxsize := fun v a h => by
      unfold resolveVal resolveInt at h
      split at h
      · exact (isliceStop_amount h).2
      · simp at h
      · simp at h
    have ha : ∀ e a, resolveAst e = .amount a → a ≤ maxsize := fun e a h => by
      unfold resolveAst at h
      split at h
      · exact hv _ a h
      · simp at h
      · simp at h
    intro a h
    cases pd with
    | str s =>
      unfold resolvePreDispatch at h
      simp only at h
      split at h
      · simp at h
      · split at h
        · exact ha _ a h
        · simp at h
        · simp at h
    | int n => exact hv _ a h
    | flt f => exact hv _ a h
    | bool b => exact hv _ a h
    | bytes => simp [resolvePreDispatch] at h
    | other => simp [resolvePreDispatch] at h

/-- LOOK-AHEAD BOUND IN TERMS OF THE USER'S ARGUMENTS (corollary of `lookahead_bound_partial`). Let the user pass
`pre_dispatch` (any text / number) and let the backend give `n_jobs ≥ 2`; if the resolution yields the amount `a`
(`resolvePreDispatch pre_dispatch n_jobs = .amount a`) then in every non-aborting state reachable in the retrieval
phase: `items taken − tasks completed ≤ (a + k · n_jobs · bmax + n_jobs) · bmax`, `k` = tasks completed before `_start`
returned, and at most `a + k · n_jobs · bmax` batches are in flight — a function of the user's `pre_dispatch`, `n_jobs`
and the batch size only (`k = 0`: no completion during `_start`). -/
theorem lookahead_bound_user {c : Cfg} {pd : PreDispatch} {n_jobs a : Nat} (hu : UserCfg c pd n_jobs)
    (ha : resolvePreDispatch pd n_jobs = .amount a) (hnj : 2 ≤ n_jobs) (hbs : ∀ b ∈ c.bs, 1 ≤ b)
    {fuel base : Nat} {spec : CallSpec} {s₀ s₁ s : St} (hi : Idle s₀) (hh : s₀.hung = false)
    (hstart : callStart c fuel base spec s₀ = (s₁, none)) (hna1 : s₁.aborting = false)
    (hr : RetrievalReach c s₀.trk.length s₁ s) (hna : s.aborting = false) :
    s.srcPos - s.nCompleted ≤ (a + s₁.nCompleted * (n_jobs * bmax c) + n_jobs) * bmax c ∧
    ownParked s₀.trk.length s ≤ a + s₁.nCompleted * (n_jobs * bmax c) := by
  obtain ⟨h1, h2⟩ := hu
  rw [ha] at h2
  have := lookahead_bound_partial (c := c) (by omega) hbs h2.1 hi hh hstart hna1 hr hna
  rw [h1, h2.2] at this
  exact this

/-- THE COMMON TEXTS, FOR EVERY `n_jobs`. `'n_jobs'`, `'2*n_jobs'` and the default `'2 * n_jobs'` resolve to `n_jobs`,
resp. `2·n_jobs`, for every `n_jobs ≥ 1` (below `sys.maxsize`): `str(n_jobs)` is substituted into the text, the text is
lexed and parsed back to the same integer, and evaluated. (Other texts: `resolve_text_witnesses`, and the
correspondence streams of the check.) -/
theorem resolve_common_texts (n_jobs : Nat) (h1 : 1 ≤ n_jobs) :
    (n_jobs ≤ maxsize → resolvePreDispatch (.str "n_jobs".toList) n_jobs = .amount n_jobs) ∧
    (2 * n_jobs ≤ maxsize → resolvePreDispatch (.str "2*n_jobs".toList) n_jobs = .amount (2 * n_jobs)) ∧
    (2 * n_jobs ≤ maxsize → resolvePreDispatch (.str "2 * n_jobs".toList) n_jobs = .amount (2 * n_jobs)) :=
  JoblibModel.EvalExpr.resolve_common_texts n_jobs h1

/-- LOOK-AHEAD BOUND FOR THE DEFAULT `pre_dispatch='2 * n_jobs'`, every `n_jobs ≥ 2`: in every non-aborting state of
the retrieval phase `items taken − tasks completed ≤ (3 · n_jobs + k · n_jobs · bmax) · bmax` (`k` = tasks completed
before `_start` returned; `3 · n_jobs · bmax` when no completion is delivered during `_start`), and at most
`2 · n_jobs + k · n_jobs · bmax` batches are in flight. -/
theorem lookahead_bound_default {c : Cfg} {n_jobs : Nat} (hu : UserCfg c (.str "2 * n_jobs".toList) n_jobs)
    (hnj : 2 ≤ n_jobs) (hm : 2 * n_jobs ≤ maxsize) (hbs : ∀ b ∈ c.bs, 1 ≤ b)
    {fuel base : Nat} {spec : CallSpec} {s₀ s₁ s : St} (hi : Idle s₀) (hh : s₀.hung = false)
    (hstart : callStart c fuel base spec s₀ = (s₁, none)) (hna1 : s₁.aborting = false)
    (hr : RetrievalReach c s₀.trk.length s₁ s) (hna : s.aborting = false) :
    s.srcPos - s.nCompleted ≤ (3 * n_jobs + s₁.nCompleted * (n_jobs * bmax c)) * bmax c ∧
    ownParked s₀.trk.length s ≤ 2 * n_jobs + s₁.nCompleted * (n_jobs * bmax c) := by
  have ha := (resolve_common_texts n_jobs (by omega)).2.2 hm
  obtain ⟨b1, b2⟩ := lookahead_bound_user hu ha hnj hbs hi hh hstart hna1 hr hna
  refine ⟨?_, b2⟩
  have e : 2 * n_jobs + s₁.nCompleted * (n_jobs * bmax c) + n_jobs =
      3 * n_jobs + s₁.nCompleted * (n_jobs * bmax c) := by omega
  rw [e] at b1
  exact b1

/-- `'all'`, user form: the configuration set up for `pre_dispatch='all'` is in mode 1, so `all_is_eager` applies. -/
theorem all_is_eager_user {c : Cfg} {n_jobs : Nat} (hu : UserCfg c (.str allText) n_jobs) : c.pdMode = 1 := by
  obtain ⟨_, h2⟩ := hu
  simpa [resolvePreDispatch] using h2

/-- ZERO AND NEGATIVE AMOUNTS, numbers. An int `n`: negative or above `sys.maxsize` ⇒ `islice` raises `ValueError`
(nothing is dispatched, the call fails); otherwise the amount is `n` — in particular `0` for `0` (finding F11: nothing
is dispatched, the call returns `[]`). A finite float is truncated TOWARD ZERO by `int()`: every float in `(-1, 1)`
gives the amount 0 (so `-0.5` is accepted and dispatches nothing), a float `≤ -1` raises `ValueError`; `inf` raises
`OverflowError`, `nan` raises `ValueError`, `True`/`False` are 1/0, objects without `__int__` raise `TypeError`. -/
theorem resolve_numbers (n_jobs : Int) :
    (∀ n : Int, n < 0 → resolvePreDispatch (.int n) n_jobs = .raise .ValueError) ∧
    (∀ n : Int, (maxsize : Int) < n → resolvePreDispatch (.int n) n_jobs = .raise .ValueError) ∧
    (∀ n : Int, 0 ≤ n → n ≤ (maxsize : Int) → resolvePreDispatch (.int n) n_jobs = .amount n.toNat) ∧
    (∀ m e : Int, resolvePreDispatch (.flt (.fin m e)) n_jobs = isliceStop (Int.tdiv (finRat m e).1 (finRat m e).2)) ∧
    (∀ m e : Int, resolvePreDispatch (.flt (.fin m e)) n_jobs = .amount 0 ↔ (finRat m e).1.natAbs < (finRat m e).2) ∧
    resolvePreDispatch (.flt .inf) n_jobs = .raise .OverflowError ∧
    resolvePreDispatch (.flt .nan) n_jobs = .raise .ValueError ∧
    resolvePreDispatch (.bool true) n_jobs = .amount 1 ∧ resolvePreDispatch (.bool false) n_jobs = .amount 0 ∧
    resolvePreDispatch .other n_jobs = .raise .TypeError ∧ resolvePreDispatch .bytes n_jobs = .raise .TypeError := by
  refine ⟨fun n h => isliceStop_neg h, fun n h => isliceStop_big h, fun n h0 h1 => isliceStop_ok h0 h1,
    fun m e => rfl, fun m e => ?_, rfl, rfl, rfl, rfl, rfl, rfl⟩
  show isliceStop (Int.tdiv (finRat m e).1 (finRat m e).2) = .amount 0 ↔ _
  rw [← tdiv_eq_zero_iff _ (finRat_den_pos m e)]
  constructor
  · intro h
    have := (isliceStop_amount h).1
    simpa using this
  · intro h
    rw [h]
    decide

/-- ZERO AND NEGATIVE AMOUNTS, texts (witnesses, evaluated by the kernel on the model — the same definitions the
driver runs). Amount 0 (F11): `'0*n_jobs'`, `'0.4*n_jobs'` with `n_jobs = 2` (0.8), `'-0.5'`, `'n_jobs//n_jobs - 1'`;
`ValueError` from `islice`: `'-1'`, `'-n_jobs'`, `'n_jobs - 2*n_jobs'`, `'-1.5'`, `'2**63'` (but `'2**63-1'` is
accepted), `'1 + 2*3**(4) / (6 + -7)'` (the docstring's `-161.0`). -/
theorem resolve_zero_negative_witnesses :
    resolvePreDispatch (.str "0*n_jobs".toList) 2 = .amount 0 ∧
    resolvePreDispatch (.str "0.4*n_jobs".toList) 2 = .amount 0 ∧
    resolvePreDispatch (.str "0.4*n_jobs".toList) 3 = .amount 1 ∧
    resolvePreDispatch (.str "-0.5".toList) 2 = .amount 0 ∧
    resolvePreDispatch (.str "n_jobs//n_jobs - 1".toList) 4 = .amount 0 ∧
    resolvePreDispatch (.str "-1".toList) 2 = .raise .ValueError ∧
    resolvePreDispatch (.str "-n_jobs".toList) 2 = .raise .ValueError ∧
    resolvePreDispatch (.str "n_jobs - 2*n_jobs".toList) 3 = .raise .ValueError ∧
    resolvePreDispatch (.str "-1.5".toList) 2 = .raise .ValueError ∧
    resolvePreDispatch (.str "2**63".toList) 2 = .raise .ValueError ∧
    resolvePreDispatch (.str "2**63-1".toList) 2 = .amount (2 ^ 63 - 1) ∧
    resolvePreDispatch (.str "1 + 2*3**(4) / (6 + -7)".toList) 2 = .raise .ValueError := by
  decide

/-- THE SUBSTITUTION IS TEXTUAL (witnesses). `n_jobs` is replaced in the text before parsing: `'2*n_jobs'`,
`'n_jobs'`, `'1.5*n_jobs'`, `'3 * n_jobs // 2'` mean what they say, but `'n_jobs2'` is `22`, `'1n_jobs'` is `12`,
`'n_jobs.5'` is `2.5`, `'n_jobsx'` is a `SyntaxError` (→ `ValueError`) and `'xn_jobs'`, `'n_jobs.real'`,
`'(1).__class__'` are rejected; exceptions that are NOT re-labelled surface as they are: `'n_jobs/0'`
(`ZeroDivisionError`), `'1e999'`, `'2.0**2000'` (`OverflowError`), `'None'`, `'1j'` (`TypeError` from `int()`). -/
theorem resolve_text_witnesses :
    resolvePreDispatch (.str "2*n_jobs".toList) 4 = .amount 8 ∧
    resolvePreDispatch (.str "n_jobs".toList) 16 = .amount 16 ∧
    resolvePreDispatch (.str "1.5*n_jobs".toList) 3 = .amount 4 ∧
    resolvePreDispatch (.str "3 * n_jobs // 2".toList) 3 = .amount 4 ∧
    resolvePreDispatch (.str "n_jobs2".toList) 2 = .amount 22 ∧
    resolvePreDispatch (.str "1n_jobs".toList) 2 = .amount 12 ∧
    resolvePreDispatch (.str "n_jobs.5".toList) 2 = .amount 2 ∧
    resolvePreDispatch (.str "n_jobsx".toList) 2 = .raise .ValueError ∧
    resolvePreDispatch (.str "xn_jobs".toList) 2 = .raise .ValueError ∧
    resolvePreDispatch (.str "n_jobs.real".toList) 2 = .raise .ValueError ∧
    resolvePreDispatch (.str "(1).__class__".toList) 2 = .raise .ValueError ∧
    resolvePreDispatch (.str "n_jobs/0".toList) 2 = .raise .ZeroDivisionError ∧
    resolvePreDispatch (.str "1e999".toList) 2 = .raise .OverflowError ∧
    resolvePreDispatch (.str "2.0**2000".toList) 2 = .raise .OverflowError ∧
    resolvePreDispatch (.str "None".toList) 2 = .raise .TypeError ∧
    resolvePreDispatch (.str "1j".toList) 2 = .raise .TypeError ∧
    resolvePreDispatch (.str "all".toList) 2 = .all ∧
    evalExpr (.other .call) = .raise .ValueError ∧ evalExpr (.other .attribute) = .raise .ValueError ∧
    evalExpr (.binOp .matMult (.const (.int 1)) (.const (.int 2))) = .raise .ValueError ∧
    evalExpr (.unaryOp .invert (.const (.int 1))) = .raise .ValueError := by
  decide +kernel

/-! the hypotheses are satisfiable -/

/-- `Parallel(n_jobs=3, pre_dispatch='2*n_jobs')` with scripted batch sizes 2, 1: the configuration with `pd = 6`. -/
example : UserCfg ⟨3, true, [2, 1], 2, 6, 0, -1, false, true⟩ (.str "2*n_jobs".toList) 3 := by
  refine ⟨rfl, ?_⟩
  have : resolvePreDispatch (.str "2*n_jobs".toList) ((3 : Nat) : Int) = .amount 6 := by decide
  rw [this]
  exact ⟨by decide, rfl⟩

/-- An expression of the integer fragment whose powers are within the bound: `3 * 4 // 2 - 2 ** 5 % 7`. -/
example : intDenote (.binOp .sub (.binOp .floorDiv (.binOp .mult (.const (.int 3)) (.const (.int 4))) (.const (.int 2)))
      (.binOp .mod (.binOp .pow (.const (.int 2)) (.const (.int 5))) (.const (.int 7)))) = some 2 ∧
    powWithinBound (.binOp .sub (.binOp .floorDiv (.binOp .mult (.const (.int 3)) (.const (.int 4))) (.const (.int 2)))
      (.binOp .mod (.binOp .pow (.const (.int 2)) (.const (.int 5))) (.const (.int 7)))) = true := by decide

end EvalExprSection

/-! ### the configuration of the object changes between calls (`JoblibModel.ParallelReconf`, round 5)

The bounds above (`lookahead_bound_state`, `lookahead_bound_user`, `parked_bound`, …) are statements about ONE call with the
`Cfg` it runs under, from any idle start state: they do not mention how the object was configured in earlier calls. In the model
of a sequence of calls with a configuration per call (`runCallsV`: `p.n_jobs` / the backend's worker count, `p.pre_dispatch`,
`p.batch_size`, `p.timeout` reassigned between calls) every call is the old `runCallF` applied with ITS configuration - nothing
of an earlier configuration is carried over - and the event-log correspondence ties the code to that. -/

/-- Conservative extension: with the same configuration at every call the per-call model is the old scenario model
(so every theorem about `runScenarioF` / `runScenario` speaks about these scenarios unchanged). -/
theorem reconf_same_cfg_is_old_model (c : JoblibModel.ParallelProto.Cfg) (guard : Bool) (enter : JoblibModel.ParallelStartup.Fault)
    (calls : List (JoblibModel.ParallelProto.CallSpec × JoblibModel.ParallelStartup.Fault)) (sched : List (List Nat)) :
    JoblibModel.ParallelReconf.runScenarioV c guard enter (calls.map (fun x => (c, x.1, x.2))) sched =
      JoblibModel.ParallelStartup.runScenarioF c guard enter calls sched :=
  JoblibModel.ParallelReconf.runScenarioV_same c guard enter calls sched

/-- Each call of a reconfigured object runs the one-call model under its OWN configuration: the step of `runCallsV` for the
call `(c, spec, f)` is `runCallF c …` whatever the configurations `cprev` of the earlier calls were (they only serve the hook
point before the call, where late completions of the earlier call are delivered). -/
theorem reconf_call_uses_its_own_cfg (guard : Bool) (fuel k base : Nat) (cprev c : JoblibModel.ParallelProto.Cfg)
    (spec : JoblibModel.ParallelProto.CallSpec) (f : JoblibModel.ParallelStartup.Fault)
    (rest : List (JoblibModel.ParallelProto.Cfg × JoblibModel.ParallelProto.CallSpec × JoblibModel.ParallelStartup.Fault))
    (s : JoblibModel.ParallelProto.St) (hh : s.hung = false) :
    JoblibModel.ParallelReconf.runCallsV guard fuel k base cprev ((c, spec, f) :: rest) s =
      JoblibModel.ParallelReconf.runCallsV guard fuel (k + 1) (base + spec.n) c rest
        (JoblibModel.ParallelStartup.runCallF c guard fuel base spec f
          (JoblibModel.ParallelProto.ev (if k ≥ 1 then JoblibModel.ParallelProto.hook cprev false s else s) ("call " ++ toString k))) := by
  simp [JoblibModel.ParallelReconf.runCallsV, hh]

/-- Seed m2 of round 5 as a witness: one object, `pre_dispatch='2*n_jobs'`, first call with 8 workers (amount 16), second call
with 2 workers (amount 4), 20 tasks, no completion during pre-dispatch: the second call takes exactly 4 items before it waits
(the first call's 16 would exceed that call's bound `(4 + 2) * 1 = 6`). -/
example : ((JoblibModel.ParallelReconf.runScenarioV ⟨8, false, [1], 2, 16, 0, -1, false, true⟩ true {}
      [(⟨8, false, [1], 2, 16, 0, -1, false, true⟩, ⟨1, [], -1, []⟩, {}),
       (⟨2, false, [1], 2, 4, 0, -1, false, true⟩, ⟨20, [], -1, []⟩, {})] []).dropWhile (· != "call 1")).take 12 =
    ["call 1", "configure", "start_call", "pull 1", "pull 2", "submit 1", "submit 2", "pull 3", "pull 4", "submit 3", "submit 4",
     "complete 1"] := by
  decide +kernel

end C09
