import JoblibProofs.Lemmas.ParallelProto
import JoblibProofs.Lemmas.AutoBatch
import JoblibProofs.Lemmas.ParallelSeq
/-!
# C09 — Parallel consumes its input lazily, boundedly and from one thread at a time

Statement (properties.jsonl): `Parallel` takes items from its input iterable lazily and never from two threads at
once: at every moment the number of items taken exceeds the number of completed tasks by at most a bound fixed by
`pre_dispatch`, `n_jobs` and the batch size — never by the input length — no more than the pre-dispatched number of
batches is in flight, and `pre_dispatch='all'` takes everything up front. Once a task has failed or the output
generator has been closed, no further items are taken.

Model: `JoblibModel.ParallelProto` (M1). "Items taken" is `St.srcPos`, "completed tasks" is `St.nCompleted`,
"batches in flight" is `ownParked t0 s` (parked batches of the running call), `bmax c` is the largest scripted
batch size.

Quantifier reached: ALL schedules, ALL input lengths, ALL configurations (`n_jobs ≥ 2`, scripted batch sizes ≥ 1),
every state of a call (invariants `Inv`, `InvB`). The configuration-only bound of the statement is FALSE under
adversarial schedules (finding F18, `lookahead_unbounded_counterexample`): what is proved is
`lookahead_bound_partial`, configuration-only when no completion is delivered before `_start` returns, and growing
by `n_jobs · bmax` per task completed during `_start` otherwise.
-/
namespace C09
open JoblibModel.ParallelProto

/-- NO PULL AFTER ABORT. Once the call is aborting (a task failed, the input raised, the timeout expired, or the
generator was closed), `dispatch_one_batch` — from the caller or from a completion callback, including its locked
region re-check — returns without touching anything: the input position, the log's pull events, the queues are
unchanged; completions delivered by the backend change nothing but the backend's own bookkeeping. (The abort flag
itself is never cleared within a call: C04 `aborting_is_monotone`.) -/
theorem no_pull_after_abort (c : Cfg) {s : St} (hab : s.aborting = true) :
    (∀ fo bs, dispatchLocked c fo bs s = (s, false)) ∧ dispatchOneCb c s = (s, false) ∧
    dispatchOneMain c s = (s, false) ∧ (∀ b, dispatch c s b = s) ∧
    (∀ k, ∃ lg pk ib, deliver c k s = { s with log := lg, parked := pk, inCb := ib }) :=
  ⟨fun fo bs => dispatchLocked_aborting c fo bs hab, dispatchOneCb_aborting c hab,
    dispatchOneMain_aborting c hab, fun b => dispatch_aborting c b hab, fun k => deliver_aborting c k hab⟩

/-- ALL IS EAGER. With `pre_dispatch='all'`: when `_start` returns without the call aborting, the whole input has
been taken (`srcPos = n`, the iterator is exhausted, nothing is left in the look-ahead queue); and in every state
of such a call `_original_iterator` is `None`, so no completion callback ever pulls: a completion leaves the input
position unchanged. -/
theorem all_is_eager {c : Cfg} (hnj : 2 ≤ c.nj) (hbs : ∀ b ∈ c.bs, 1 ≤ b) (hmode : c.pdMode = 1) :
    (∀ (fuel base : Nat) (spec : CallSpec) (s₀ : St), Idle s₀ → s₀.hung = false → spec.n + 2 ≤ fuel →
      ∃ s1, callStart c fuel base spec s₀ = (s1, none) ∧
        (s1.aborting = false → s1.srcPos = spec.n ∧ s1.srcDead = true ∧ s1.ready = [])) ∧
    (∀ (t0 : Nat) (s : St), Inv c t0 s → s.origAlive = false ∧ ∀ k, (deliver c k s).srcPos = s.srcPos) := by
  have hc : CfgOK c := ⟨by omega, hbs⟩
  constructor
  · intro fuel base spec s₀ hi hh hf
    obtain ⟨s1, he, hS⟩ := callStart_started hc fuel base spec hi hh
    refine ⟨s1, he, fun hna => ?_⟩
    have hor : s1.origAlive = false := by
      cases hx : s1.origAlive with
      | false => rfl
      | true => exact absurd hmode (hS.inv.L.orig_mode hx)
    have hit : s1.iterating = false := by
      cases hx : s1.iterating with
      | false => rfl
      | true => rw [hS.inv.L.iter_orig hx] at hor; cases hor
    obtain ⟨h1, h2⟩ := hS.post hf hh (Or.inl hmode) hna hit
    have := (hS.inv.S.dead hna h2).1
    exact ⟨by rw [this, hS.frame.2.1], h2, h1⟩
  · intro t0 s h
    have hor : s.origAlive = false := by
      cases hx : s.origAlive with
      | false => rfl
      | true => exact absurd hmode (h.L.orig_mode hx)
    exact ⟨hor, fun k => deliver_srcPos_of_not_orig c k hor⟩

/-- PULLS ONLY IN THE LOCKED REGION. The input position is moved by nothing but the locked region of
`dispatch_one_batch` (`dispatchLocked`): registering an outcome, `_dispatch`, `get_status`, `get_result`, `_abort`,
the `finally` block and the exception handler leave it unchanged; a completion callback moves it only through
`dispatch_one_batch(self._original_iterator)`, which moves it only inside its locked region. Since the model's
callbacks are atomic and the locked region is entered by one thread at a time, the iterator is never advanced by
two threads at once. -/
theorem pulls_only_in_locked_region (c : Cfg) (s : St) :
    (∀ i st r, (registerOutcome c s i st r).srcPos = s.srcPos) ∧ (∀ b, (dispatch c s b).srcPos = s.srcPos) ∧
    (∀ i, (getStatus c s i).1.srcPos = s.srcPos) ∧ (∀ i, (getResult s i).1.srcPos = s.srcPos) ∧
    (abort c s).srcPos = s.srcPos ∧ (finallyBlock s).1.srcPos = s.srcPos ∧
    (handleException c s).srcPos = s.srcPos ∧
    (∀ i failed, (callback c s i failed).srcPos = s.srcPos ∨
      (s.origAlive = true ∧ ∃ s1, s1.srcPos = s.srcPos ∧
        (callback c s i failed).srcPos = (dispatchOneCb c s1).1.srcPos)) ∧
    ((dispatchOneCb c s).1.srcPos = s.srcPos ∨
      ∃ bs s1, s1.srcPos = s.srcPos ∧ (dispatchOneCb c s).1 = (dispatchLocked c true bs s1).1) :=
  ⟨fun i st r => (registerOutcome_srcPos c s i st r).1, dispatch_srcPos c s, getStatus_srcPos c s,
    getResult_srcPos s, abort_srcPos c s, finallyBlock_srcPos s, handleException_srcPos c s,
    callback_srcPos c s, dispatchOneCb_srcPos c s⟩

/-
Full statement (FALSE, see `lookahead_unbounded_counterexample`):
  lookahead_bound: in every state of every call, `srcPos − nCompleted ≤ B(c)` with `B` a function of
  `pre_dispatch`, `n_jobs` and `bmax` only.
What is proved (`lookahead_bound_partial`): the bound with `B = (pd + k · n_jobs · bmax + n_jobs) · bmax`, `k` =
number of TASKS completed before `_start` returned; for `k = 0` it is `(pd + n_jobs) · bmax`, configuration-only.
What is missing is exactly what F18 shows to be false: a bound on the batches the caller dispatches during
`_start` when completions interleave with its pre-dispatch loop.
-/

/-- LOOK-AHEAD BOUND, state form. In every state of a call that is not aborting: items taken − tasks completed
`≤ (P + n_jobs) · bmax`, `P` = number of parked batches of the call; and `P ≤` items taken `≤ pre_dispatch +
completed · n_jobs · bmax` (`pre_dispatch ≠ 'all'`). Neither bound mentions the input length. -/
theorem lookahead_bound_state {c : Cfg} {t0 : Nat} {s : St} (h : Inv c t0 s) (hB : InvB c t0 s)
    (hna : s.aborting = false) :
    s.srcPos - s.nCompleted ≤ (ownParked t0 s + c.nj) * bmax c ∧
    ownParked t0 s ≤ s.srcPos ∧
    (c.pdMode ≠ 1 → s.srcPos ≤ c.pd + s.nCompleted * (c.nj * bmax c)) := by
  refine ⟨by have := lookahead_le h hB hna; omega, ownParked_le_pulled h hna, fun hm => ?_⟩
  obtain ⟨r, _, h2⟩ := hB.budget hm
  omega

/-- The size invariant `InvB` (every batch ≤ `bmax`, look-ahead queue ≤ `n_jobs · bmax` tasks, input position paid
for by `pre_dispatch` + `n_jobs · bmax` per completed task) holds when `callStart` returns and is preserved by every
step of the protocol: hook points with any completions, the caller's `dispatch_one_batch`, `get_status`. So
`lookahead_bound_state` applies in every state of a call. -/
theorem size_invariant {c : Cfg} (hnj : 2 ≤ c.nj) (hbs : ∀ b ∈ c.bs, 1 ≤ b) :
    (∀ (fuel base : Nat) (spec : CallSpec) (s₀ : St), Idle s₀ → s₀.hung = false →
      ∃ s1, callStart c fuel base spec s₀ = (s1, none) ∧ Inv c s₀.trk.length s1 ∧ InvB c s₀.trk.length s1) ∧
    (∀ (t0 : Nat) (s : St), Inv c t0 s → InvB c t0 s →
      (∀ sleep, InvB c t0 (hook c sleep s)) ∧ (∀ k, InvB c t0 (deliver c k s)) ∧
      InvB c t0 (dispatchOneMain c s).1 ∧ (∀ i, InvB c t0 (getStatus c s i).1)) := by
  have hc : CfgOK c := ⟨by omega, hbs⟩
  constructor
  · intro fuel base spec s₀ hi hh
    obtain ⟨s1, he, hS⟩ := callStart_started hc fuel base spec hi hh
    exact ⟨s1, he, hS.inv, hS.invB⟩
  · intro t0 s h hB
    exact ⟨fun sl => (hook_spec hc sl h).B hB, fun k => (deliver_spec hc k h).1.B hB,
      (dispatchOneMain_spec hc h).B hB, fun i => getStatus_B i hB⟩

/-- PARKED BOUND. A completion (any hook point, any completions the schedule delivers there) never increases the
number of parked batches of the call: each completed batch leaves and its callback dispatches at most one new one.
Only the caller's pre-dispatch loop adds to the batches in flight. -/
theorem parked_bound {c : Cfg} (hnj : 2 ≤ c.nj) (hbs : ∀ b ∈ c.bs, 1 ≤ b) {t0 : Nat} {s : St} (h : Inv c t0 s) :
    (∀ k, ownParked t0 (deliver c k s) ≤ ownParked t0 s) ∧
    (∀ sleep, ownParked t0 (hook c sleep s) ≤ ownParked t0 s) ∧
    (∀ i, ownParked t0 (getStatus c s i).1 = ownParked t0 s) :=
  ⟨fun k => deliver_ownParked k h.T, fun sl => hook_ownParked ⟨by omega, hbs⟩ sl h,
    fun i => getStatus_ownParked c t0 s i⟩

/-- LOOK-AHEAD BOUND (partial: depends on the completions that happened before `_start` returned). Let `s₁` be
the state in which `callStart` (i.e. `_start`) returns on an idle object with `pre_dispatch ≠ 'all'`, and `k =
s₁.nCompleted` the number of tasks completed by then. In EVERY state `s` reachable afterwards by the steps of the
retrieval phase — any hook points with any completions, `get_status`, pops, yields, consumer pauses — that is not
aborting:
`items taken − tasks completed ≤ (pre_dispatch + k · n_jobs · bmax + n_jobs) · bmax`, and the batches in flight
are at most `pre_dispatch + k · n_jobs · bmax`. For every schedule that delivers no completion during `_start`
(`k = 0`) this is `(pre_dispatch + n_jobs) · bmax`: a function of the configuration only. -/
theorem lookahead_bound_partial {c : Cfg} (hnj : 2 ≤ c.nj) (hbs : ∀ b ∈ c.bs, 1 ≤ b) (hmode : c.pdMode ≠ 1)
    {fuel base : Nat} {spec : CallSpec} {s₀ s₁ s : St} (hi : Idle s₀) (hh : s₀.hung = false)
    (hstart : callStart c fuel base spec s₀ = (s₁, none)) (hna1 : s₁.aborting = false)
    (hr : RetrievalReach c s₀.trk.length s₁ s) (hna : s.aborting = false) :
    s.srcPos - s.nCompleted ≤ (c.pd + s₁.nCompleted * (c.nj * bmax c) + c.nj) * bmax c ∧
    ownParked s₀.trk.length s ≤ c.pd + s₁.nCompleted * (c.nj * bmax c) := by
  have hc : CfgOK c := ⟨by omega, hbs⟩
  obtain ⟨s1', he, hS⟩ := callStart_started hc fuel base spec hi hh
  rw [hstart] at he
  have e : s₁ = s1' := by
    have := congrArg Prod.fst he
    simpa using this
  subst e
  obtain ⟨i1, i2, i3, _⟩ := hr.spec hc hS.inv hS.invB
  have hP1 : ownParked s₀.trk.length s₁ ≤ c.pd + s₁.nCompleted * (c.nj * bmax c) := by
    obtain ⟨_, a2, a3⟩ := lookahead_bound_state hS.inv hS.invB hna1
    exact Nat.le_trans a2 (a3 hmode)
  have hP : ownParked s₀.trk.length s ≤ c.pd + s₁.nCompleted * (c.nj * bmax c) := Nat.le_trans i3 hP1
  refine ⟨?_, hP⟩
  have := (lookahead_bound_state i1 i2 hna).1
  have hm : (ownParked s₀.trk.length s + c.nj) * bmax c ≤
      (c.pd + s₁.nCompleted * (c.nj * bmax c) + c.nj) * bmax c := Nat.mul_le_mul_right _ (by omega)
  omega

set_option maxRecDepth 20000 in
/-- F18 (known finding): the configuration-only bound is FALSE. `n_jobs = 2`, `pre_dispatch = 1`, batch size 1
(`(pre_dispatch + n_jobs) · bmax = 3`): if one batch completes between every two dispatches of the caller's
pre-dispatch loop, that loop keeps draining the look-ahead batches sliced by the callbacks; with 10 such
completions `_start` returns with 17 items taken, 8 completed (look-ahead 9, 9 batches in flight), with 40 of them
and 40 tasks the whole input has been taken with only 20 completed (look-ahead 20): it grows with the input. -/
theorem lookahead_unbounded_counterexample :
    let c : Cfg := ⟨2, true, [1], 0, 1, 0, -1, false, true⟩
    let s10 := (callStart c 200 0 ⟨40, [], -1, []⟩ ({ sched := List.replicate 10 [0] } : St)).1
    let s40 := (callStart c 200 0 ⟨40, [], -1, []⟩ ({ sched := List.replicate 40 [0] } : St)).1
    (c.pd + c.nj) * bmax c = 3 ∧
    s10.srcPos - s10.nCompleted = 9 ∧ s10.parked.length = 9 ∧ s10.aborting = false ∧
    s40.srcPos - s40.nCompleted = 20 ∧ s40.aborting = false := by
  decide

/-- One `compute_batch_size()` call of the auto-batching backends at most doubles the effective batch size: the
`bmax` of the look-ahead bound grows at most geometrically per adjustment, never with the input length. -/
theorem auto_batch_size_at_most_doubles (s : JoblibModel.AutoBatch.St) (h : 1 ≤ s.eff) :
    (JoblibModel.AutoBatch.compute s).2 ≤ 2 * s.eff :=
  JoblibModel.AutoBatch.compute_le_double s h

/-! ### the hypotheses are satisfiable -/

/-- A run in which no completion is delivered during `_start` (`k = 0`): the state in which `callStart` returns
satisfies the hypotheses of `lookahead_bound_partial` with `nCompleted = 0`. -/
example : (callStart (⟨3, true, [2, 1], 0, 4, 0, -1, false, true⟩ : Cfg) 200 0 ⟨30, [], -1, []⟩
      ({ sched := [[], [], [], [], [], []] } : St)).1.nCompleted = 0 ∧
    (callStart (⟨3, true, [2, 1], 0, 4, 0, -1, false, true⟩ : Cfg) 200 0 ⟨30, [], -1, []⟩
      ({ sched := [[], [], [], [], [], []] } : St)).1.aborting = false := by decide


/-! ### the sequential path (`n_jobs == 1`) -/

section Sequential
open JoblibModel.ParallelSeq

/-- SEQUENTIAL IS LAZY. The invariant `SInv` of the suspended sequential generator holds when `seqStart` returns and
after every `next()` that yields a value; under it the items taken from the input exceed the tasks executed by
exactly the number of not yet executed items of the current re-batched tuple, at most `max batch_size 1` — whatever
the input length. -/
theorem sequential_is_lazy (c : Cfg) :
    (∀ (base : Nat) (spec : CallSpec) (s₀ : St), Idle s₀ →
      ∃ s1 bs, seqStart c base spec s₀ = (s1, { bs := bs }, none) ∧ SInv s1 { bs := bs }) ∧
    (∀ (fuel : Nat) (s s' : St) (g g' : SGen) (v : Nat), SInv s g → seqNext (fuel + 2) s g = (s', g', .value v) →
      SInv s' g' ∧ g'.bs = g.bs) ∧
    (∀ (s : St) (g : SGen), SInv s g →
      s.srcPos - s.nCompleted = g.pending.length ∧ s.srcPos - s.nCompleted ≤ max g.bs 1) := by
  refine ⟨?_, ?_, ?_⟩
  · intro base spec s₀ hi
    obtain ⟨s1, bs, he, hI, _⟩ := seqStart_spec c base spec hi
    exact ⟨s1, bs, he, hI⟩
  · intro fuel s s' g g' v h he
    have := seqNext_spec fuel h
    rw [he] at this
    exact ⟨this.2.2.1, this.2.2.2.2.1⟩
  · intro s g h
    obtain ⟨a, b⟩ := seq_lookahead h
    exact ⟨a, by omega⟩

/-- SEQUENTIAL: NO PULL AFTER FAILURE. Once `next()` has raised (a task failed or the input raised) or the generator
was closed, the generator is finished: every further `next()` returns `StopIteration` and leaves the whole state —
in particular the input position — unchanged. -/
theorem sequential_no_pull_after_failure :
    (∀ (fuel : Nat) (s s' : St) (g g' : SGen) (e : Exc), SInv s g → seqNext (fuel + 2) s g = (s', g', .raise e) →
      ∀ fuel', seqNext (fuel' + 1) s' g' = (s', g', .stop)) ∧
    (∀ (s : St) (g : SGen) (fuel' : Nat), g.live = true →
      seqNext (fuel' + 1) (seqClose s g).1 (seqClose s g).2 = ((seqClose s g).1, (seqClose s g).2, .stop) ∧
      (seqClose s g).1.srcPos = s.srcPos) := by
  constructor
  · intro fuel s s' g g' e h he fuel'
    have := seqNext_spec fuel h
    rw [he] at this
    exact seqNext_dead fuel' s' this.1
  · intro s g fuel' hl
    rw [seqClose_live s hl]
    exact ⟨seqNext_dead fuel' _ rfl, rfl⟩

end Sequential

end C09
