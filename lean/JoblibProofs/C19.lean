import JoblibProofs.Lemmas.ArrayFormat
/-!
# C19 — numpy arrays persist bit-exactly and memory-map faithfully

Statement (properties.jsonl): numpy arrays of any dtype (structured, object, datetime, either endianness),
shape (0-d, empty, n-d), memory layout (C, Fortran, non-contiguous, memmap-backed) and subclass, alone or
nested in other containers, come back from dump/load with identical dtype, shape, order and element bytes
under every compressor. Loading an uncompressed file with `mmap_mode` yields arrays with identical contents
that are correctly aligned views on the file, and large arrays passed to process workers through automatic
memmapping present the same values to the task.

Quantifier reached here (byte-layout level): every start position in the file, every alignment constant,
every itemsize ≥ 1, every count (hence every shape), both orders, every payload and every continuation of the
file (so: arrays nested anywhere in a container), every buffer size of the chunked read; for the worker
path every shape / stride vector / offsets.

numpy itself is a PARAMETER (`nditer` order, `tobytes`, `frombuffer`, `memmap`, `as_strided`, `.flags`): the
model takes the byte string of the elements in the chosen order, and the flags, as inputs; what numpy does
with them is tested by the harness under numpy 2.4.6 (python3-vt), not proved.

Where the code makes the full statement false the negation is proved on a concrete witness and the fragment
that holds is kept as `…_partial`:
* F27  `read_inverts_write_partial` needs `itemsize ≥ 1` / `itemsize_zero_counterexample`
Repaired in /repo (b514cf6: F24; 5cddabe: F25, F26) — the model follows the repaired code and the full
statements are the property theorems `reduce_contiguous_faithful`, `reduce_strided_faithful`,
`total_buffer_len_covers`; the witnesses against the code as it was are kept in the section "PRE-FIX witnesses"
(`prefix_transposed_counterexample`, `prefix_negative_stride_counterexample`,
`prefix_total_buffer_len_floor_counterexample`) over the `…PreFix` definitions of the model file.
(F16, `np.matrix` loading as a plain `ndarray` under numpy 2, is about a `hasattr` on a numpy object: it
has no arithmetic to model and is reproduced by the harness oracle only.)

Model: `JoblibModel.ArrayFormat`.
-/
namespace C19
open JoblibModel.ArrayFormat JoblibModel.Generated

/-! ## Table-level facts (regenerated constants) -/

/-- The alignment constant is 16, so the padding length (≤ 16) fits the single byte it is stored in. -/
theorem table_alignment : numpyArrayAlignmentBytes = 16 := by decide

/-- `BUFFER_SIZE` is positive: `max_read_count ≥ 1` for every itemsize ≥ 1. -/
theorem table_buffer_size : 0 < bufferSize := by decide

/-! ## padding -/

/-- **padding_aligns.** For every position of the file handle the data start `pos + 1 + pad` is a multiple of
the alignment, and `1 ≤ pad ≤ align`: at least the length byte itself is always there to be skipped. -/
theorem padding_aligns (align pos : Nat) (h : 0 < align) :
    (pos + 1 + paddingLength align pos) % align = 0
    ∧ 1 ≤ paddingLength align pos ∧ paddingLength align pos ≤ align :=
  padding_core align pos h

/-- … and with the code's constant: 16-byte aligned, `1 ≤ pad ≤ 16`, so the pad length fits its byte and
`write_array` never raises `OverflowError`. -/
theorem padding_aligns_16 (pos : Nat) :
    (pos + 1 + paddingLength numpyArrayAlignmentBytes pos) % 16 = 0
    ∧ 1 ≤ paddingLength numpyArrayAlignmentBytes pos
    ∧ paddingLength numpyArrayAlignmentBytes pos ≤ 16
    ∧ paddingLength numpyArrayAlignmentBytes pos < 256 := by
  rw [table_alignment]
  have := padding_core 16 pos (by decide)
  omega

/-- The bytes `write_array` emits: the pad-length byte, that many `0xff`, the data. -/
theorem write_layout (align pos itemsize : Nat) (data : Bytes) (ha : 0 < align) (ha' : align < 256)
    (hi : 0 < itemsize) :
    writeArray (some align) pos itemsize data
      = .ok (paddingLength align pos :: (List.replicate (paddingLength align pos) padValue ++ data)) := by
  have hp := (padding_core align pos ha).2.2
  unfold writeArray
  simp only [Nat.ne_of_gt hi, if_false, Nat.ne_of_gt ha]
  rw [if_neg (by omega)]

/-! ## chunked read -/

/-! `Tiles l i j` (defined in `JoblibProofs/Lemmas/ArrayFormat.lean`) says that `l` is a sequence of consecutive
`(start, length)` pieces going from item `i` to item `j`: `Tiles [] i j ↔ i = j` and
`Tiles ((s, c) :: r) i j ↔ s = i ∧ Tiles r (i + c) j`. -/
example : Tiles [(0, 4), (4, 4), (8, 2)] 0 10 := by simp [Tiles]
example : ¬ Tiles [(0, 4), (5, 4)] 0 9 := by simp [Tiles]

/-- **chunked_read_covers_exactly.** For every `count`, `itemsize ≥ 1` and buffer size, the
`for i in range(0, count, max_read_count)` loop reads consecutive pieces that start at item 0 and end at item
`count` — no item twice, none skipped, none beyond — each of 1…`max_read_count` items, in
`⌈count / max_read_count⌉` reads. (Stated for any positive `max_read_count`; `max_read_count_pos` shows the
code's value is positive.) -/
theorem chunked_read_covers_exactly (max_read_count count : Nat) (hm : 0 < max_read_count) :
    Tiles (chunks max_read_count count 0) 0 count
    ∧ ((chunks max_read_count count 0).map (·.2)).sum = count
    ∧ (∀ c ∈ chunks max_read_count count 0, 1 ≤ c.2 ∧ c.2 ≤ max_read_count ∧ c.1 + c.2 ≤ count)
    ∧ (chunks max_read_count count 0).length = (count + max_read_count - 1) / max_read_count := by
  refine ⟨chunks_tiles _ _ 0 hm (Nat.zero_le _), ?_, chunks_bounds _ _ 0 hm, ?_⟩
  · simpa using chunks_sum max_read_count count 0 hm
  · simpa using chunks_length max_read_count count 0 hm

/-- The code's `max_read_count` exists and is positive exactly for `itemsize ≥ 1`, and one read never asks
for more than `max(BUFFER_SIZE, itemsize)` bytes (the purpose of the chunking: joblib issue with reads
≥ 2**32 from gzip streams). -/
theorem max_read_count_pos (itemsize : Nat) (hi : 0 < itemsize) :
    ∃ m, maxReadCount itemsize = .ok m ∧ 0 < m ∧ m * itemsize ≤ max bufferSize itemsize := by
  unfold maxReadCount
  have hb := table_buffer_size
  have hmin : min bufferSize itemsize ≠ 0 := by omega
  refine ⟨bufferSize / min bufferSize itemsize, by simp [hmin], ?_, ?_⟩
  · exact Nat.div_pos (Nat.min_le_left _ _) (by omega)
  · by_cases hle : itemsize ≤ bufferSize
    · rw [Nat.min_eq_right hle]
      have := Nat.div_mul_le_self bufferSize itemsize
      omega
    · have hlt : bufferSize < itemsize := by omega
      rw [Nat.min_eq_left (by omega), Nat.div_self hb]
      omega

/-! ## read inverts write -/

/-- **read_inverts_write** (`_partial`: needs `itemsize ≥ 1`, see `itemsize_zero_counterexample`). For every
alignment setting (16, any other constant that fits a byte, or `None` as in joblib ≤ 1.1 pickles), every start
position `pos`, every itemsize ≥ 1, every count, every element byte string of that size and EVERY continuation
`suf` of the file: what `read_array` reads back from the bytes `write_array` appended is exactly the element
bytes, and the handle is left exactly at the end of the array — so whatever was pickled after the array (the
rest of a container) is read from the right place. -/
theorem read_inverts_write_partial (align : Option Nat) (pos itemsize cnt : Nat) (data suf w : Bytes)
    (ha : ∀ a, align = some a → 0 < a ∧ a < 256) (hi : 0 < itemsize)
    (hd : data.length = cnt * itemsize)
    (hw : writeArray align pos itemsize data = .ok w) :
    readArray align ⟨w ++ suf, pos⟩ cnt itemsize = .ok (data, ⟨suf, pos + w.length⟩) := by
  obtain ⟨m, hm, hmpos, _⟩ := max_read_count_pos itemsize hi
  unfold readArray
  rw [hm]
  simp only
  cases align with
  | none =>
    have : w = data := by
      unfold writeArray at hw
      simp [Nat.ne_of_gt hi] at hw
      exact hw.symm
    subst this
    simp only [skipPadding]
    have := readLoop_spec itemsize m cnt hmpos 0 w suf [] pos (by simpa using hd)
    simpa using this
  | some a =>
    obtain ⟨ha0, ha1⟩ := ha a rfl
    rw [write_layout a pos itemsize data ha0 ha1 hi] at hw
    have hw' : w = paddingLength a pos :: (List.replicate (paddingLength a pos) padValue ++ data) := by
      cases hw; rfl
    subst hw'
    have hp := (padding_core a pos ha0).2.1
    generalize paddingLength a pos = p at hp
    have hskip : skipPadding (some a) ⟨(p :: (List.replicate p padValue ++ data)) ++ suf, pos⟩
        = ⟨data ++ suf, pos + 1 + p⟩ := by
      simp only [skipPadding, Handle.read, List.cons_append, List.take_succ_cons, List.take_zero,
        List.headD_cons, List.drop_succ_cons, List.drop_zero, List.length_cons]
      rw [if_pos (by omega)]
      simp only [List.append_assoc, List.length_append, List.length_replicate, Handle.mk.injEq]
      refine ⟨?_, by omega⟩
      rw [List.drop_append_of_le_length (by simp)]
      simp
    rw [hskip]
    have := readLoop_spec itemsize m cnt hmpos 0 data suf [] (pos + 1 + p) (by simpa using hd)
    rw [this]
    simp only [List.nil_append, List.length_cons, List.length_append, List.length_replicate,
      Except.ok.injEq, Prod.mk.injEq, Handle.mk.injEq, true_and]
    omega

/-- F27 witness: with `itemsize = 0` (`np.empty(3, 'V0')`, `np.zeros(3, np.dtype([]))`) neither side works:
`write_array` divides by the itemsize, and so does `read_array` (`BUFFER_SIZE // min(BUFFER_SIZE, 0)`). -/
theorem itemsize_zero_counterexample :
    writeArray (some 16) 100 0 [] = .error .zeroDivision
    ∧ readArray (some 16) ⟨[11, 255, 255, 255, 255, 255, 255, 255, 255, 255, 255, 255], 100⟩ 3 0
        = .error .zeroDivision := by
  constructor <;> rfl

/-- A truncated file is reported (`ValueError: EOF: reading array data`), never silently short:
if fewer than `count * itemsize` bytes follow the padding, `read_array` fails. -/
theorem short_data_is_an_error (pos itemsize cnt m : Nat) (d : Bytes) (hmp : 0 < m)
    (hshort : d.length < cnt * itemsize) :
    ∃ e, readLoop itemsize m cnt 0 ⟨d, pos⟩ [] = .error e := by
  -- by contradiction with the amount of data a successful loop consumes
  suffices h : ∀ (k i : Nat) (d acc : Bytes) (q : Nat), cnt - i = k → d.length < (cnt - i) * itemsize →
      ∃ e, readLoop itemsize m cnt i ⟨d, q⟩ acc = .error e from
    h cnt 0 d [] pos rfl (by simpa using hshort)
  intro k
  induction k using Nat.strongRecOn with
  | _ k ih =>
    intro i d acc q hk hlen
    unfold readLoop
    by_cases hlt : i < cnt
    · simp only [hlt, hmp, and_self, dite_true]
      unfold readBytes
      simp only [Handle.read]
      simp only [List.length_take]
      by_cases hgot : min (min m (cnt - i) * itemsize) d.length = min m (cnt - i) * itemsize
      · simp only [hgot, if_true]
        have hle : min m (cnt - i) * itemsize ≤ d.length := by omega
        apply ih (cnt - (i + m)) (by omega) (i + m) _ _ _ rfl
        rw [List.length_drop]
        have e : cnt - (i + m) = (cnt - i) - min m (cnt - i) := by omega
        rw [e, Nat.sub_mul]
        omega
      · simp [hgot]
    · have : cnt - i = 0 := by omega
      rw [this] at hlen
      simp at hlen

/-! ## memory mapping -/

/-- **mmap_offset_is_data_start.** For a file written by `write_array` (alignment recorded in the wrapper),
`read_mmap` maps from exactly the first data byte, that offset is a multiple of the alignment, no
"not byte aligned" warning is due, and the handle is left at the same place `read_array` leaves it. -/
theorem mmap_offset_is_data_start (a pos itemsize cnt : Nat) (data suf w : Bytes)
    (ha0 : 0 < a) (ha1 : a < 256) (hi : 0 < itemsize) (hd : data.length = cnt * itemsize)
    (hw : writeArray (some a) pos itemsize data = .ok w) :
    let r := readMmap (some a) ⟨w ++ suf, pos⟩ cnt itemsize
    r.offset = pos + (w.length - data.length)
    ∧ r.offset % a = 0
    ∧ r.warns = false
    ∧ r.after = ⟨suf, pos + w.length⟩
    ∧ readArray (some a) ⟨w ++ suf, pos⟩ cnt itemsize = .ok (data, r.after) := by
  have hrw := read_inverts_write_partial (some a) pos itemsize cnt data suf w
    (fun a' h => by cases h; exact ⟨ha0, ha1⟩) hi hd hw
  rw [write_layout a pos itemsize data ha0 ha1 hi] at hw
  have hw' : w = paddingLength a pos :: (List.replicate (paddingLength a pos) padValue ++ data) := by
    cases hw; rfl
  have hpad := padding_core a pos ha0
  subst hw'
  generalize paddingLength a pos = p at hpad hrw
  have hbody : (List.replicate p padValue ++ data).length = p + cnt * itemsize := by simp [hd]
  have hmm := readMmap_some a p (List.replicate p padValue ++ data) suf pos cnt itemsize hbody
  have hshape : (p :: (List.replicate p padValue ++ data)) ++ suf
      = p :: ((List.replicate p padValue ++ data) ++ suf) := rfl
  rw [hshape] at hrw ⊢
  rw [hmm]
  simp only [List.length_cons, List.length_append, List.length_replicate] at hrw ⊢
  have e1 : pos + p + 1 + cnt * itemsize = pos + (p + data.length + 1) := by omega
  refine ⟨by omega, ?_, trivial, by rw [e1], by rw [e1]; exact hrw⟩
  have := hpad.1
  rw [show pos + p + 1 = pos + 1 + p by omega]; exact this

/-- With a page-aligned mapping (numpy maps from `offset - offset % ALLOCATIONGRANULARITY`, the granularity
being a multiple of the alignment), the address of the first element is aligned whenever the file offset is. -/
theorem mmap_pointer_aligned (base gran offset a : Nat) (hg : a ∣ gran) (hb : base % gran = 0)
    (ho : offset % a = 0) : (base + offset % gran) % a = 0 := by
  have hba : base % a = 0 := by
    have : gran ∣ base := Nat.dvd_of_mod_eq_zero hb
    exact Nat.mod_eq_zero_of_dvd (Nat.dvd_trans hg this)
  have hoa : offset % gran % a = 0 := by
    rw [Nat.mod_mod_of_dvd _ hg]; exact ho
  rw [Nat.add_mod, hba, hoa]
  simp

/-- Old pickles (no alignment recorded): mapped from the current position, and the warning is issued
exactly when that position is not a multiple of `NUMPY_ARRAY_ALIGNMENT_BYTES`. -/
theorem mmap_legacy (h : Handle) (cnt itemsize : Nat) :
    (readMmap none h cnt itemsize).offset = h.pos
    ∧ ((readMmap none h cnt itemsize).warns = true ↔ h.pos % numpyArrayAlignmentBytes ≠ 0) := by
  simp [readMmap]

/-! ## order -/

/-- **order_choice.** Fortran order is recorded exactly for arrays that are F- and not C-contiguous; for
both orders the element that `read_array` places at index `idx` (C: `array.shape = shape`; F:
`array.shape = shape[::-1]` then `transpose()`) is the one `write_array` took from index `idx`
(`nditer(order=…)`) — for every shape of every rank and every index vector of that rank. -/
theorem order_choice (c f : Bool) (o : Order) (shape idx : List Nat) (h : shape.length = idx.length) :
    (orderOf c f = .F ↔ (f = true ∧ c = false))
    ∧ readIndex o shape idx = writeIndex o shape idx := by
  constructor
  · cases c <;> cases f <;> simp [orderOf]
  · cases o with
    | C => rfl
    | F => exact cIndex_reverse shape idx h

/-! ## the worker path: `_reduce_memmap_backed` / `_strided_from_memmap` (the code after /repo b514cf6, 5cddabe) -/

/-- **reduce_offset.** The offset handed to the worker is the file offset of the LOWEST byte of the view:
`a_start - m_start + m.offset`, where for a backing memmap with non-negative strides `m_start` is the
address that file offset `m.offset` is mapped at. -/
theorem reduce_offset (a m : Arr) (m_offset : Nat) (a_c a_f : Bool)
    (hm : ∀ s ∈ m.strides, 0 ≤ s) :
    (reduceMemmapBacked a m m_offset a_c a_f).offset
      = (a.ptr + lowAdj a.shape a.strides) - m.ptr + m_offset := by
  have : (byteBounds m).1 = m.ptr := by
    simp [byteBounds, lowAdj_nonneg_strides m.shape m.strides hm]
  unfold reduceMemmapBacked
  simp only [this]
  cases (a_f || a_c) <;> simp [byteBounds]

/-- **reduce_strided_faithful.** For a non-contiguous view with ANY stride vector — negative strides, strides
that are not multiples of the itemsize — the array rebuilt in the worker (`as_strided` anchored `first` bytes
into a byte buffer mapped at `offset`) finds every element at the file offset where the original view has it. -/
theorem reduce_strided_faithful (a m : Arr) (m_offset : Nat) (idx : List Nat)
    (hm : ∀ s ∈ m.strides, 0 ≤ s) :
    rebuiltElemOffset (reduceMemmapBacked a m m_offset false false) a.itemsize idx
      = originalElemOffset a m m_offset idx := by
  have h1 := lowAdj_nonneg_strides m.shape m.strides hm
  simp only [reduceMemmapBacked, Bool.or_self, Bool.false_eq_true, if_false,
    rebuiltElemOffset, originalElemOffset, byteBounds, firstElem, h1]
  omega

/-- **reduce_contiguous_faithful.** For a contiguous view — its strides are those of its own order: Fortran
strides when it is F- and not C-contiguous, C strides otherwise — the rebuilt memmap (`make_memmap(shape,
order)` at `offset`) is faithful, whatever the order of the backing memmap. -/
theorem reduce_contiguous_faithful (a m : Arr) (m_offset : Nat) (a_c a_f : Bool) (idx : List Nat)
    (hm : ∀ s ∈ m.strides, 0 ≤ s) (hcontig : (a_f || a_c) = true)
    (hown : a.strides = (if a_f && !a_c then fStrides a.shape a.itemsize else cStrides a.shape a.itemsize)) :
    rebuiltElemOffset (reduceMemmapBacked a m m_offset a_c a_f) a.itemsize idx
      = originalElemOffset a m m_offset idx := by
  have h1 : (byteBounds m).1 = m.ptr := by
    simp [byteBounds, lowAdj_nonneg_strides m.shape m.strides hm]
  have hnn : ∀ s ∈ a.strides, 0 ≤ s := by
    rw [hown]
    cases (a_f && !a_c)
    · exact cStrides_nonneg _ _
    · exact fStridesAux_nonneg _ _
  have h2 : (byteBounds a).1 = a.ptr := by
    simp [byteBounds, lowAdj_nonneg_strides a.shape a.strides hnn]
  simp only [reduceMemmapBacked, hcontig, if_true, rebuiltElemOffset, originalElemOffset, h1, h2]
  cases hord : (a_f && !a_c)
  · simp only [hord, Bool.false_eq_true, if_false] at hown ⊢
    rw [hown]; omega
  · simp only [hord, if_true] at hown ⊢
    rw [hown]; omega

/-- **total_buffer_len_covers.** The byte buffer mapped in the worker for a non-contiguous view is EXACTLY the
extent `[a_start, a_end)` of the view — every byte of every element, nothing floored, nothing beyond — and the
anchor `first` lies inside it with room for one item (a non-contiguous array has no empty dimension). -/
theorem total_buffer_len_covers (a : Arr) (hpos : ∀ n ∈ a.shape, 1 ≤ n) :
    mappedBytes a.shape a.strides a.itemsize = (byteBounds a).2 - (byteBounds a).1
    ∧ 0 ≤ firstElem a.shape a.strides
    ∧ firstElem a.shape a.strides + a.itemsize ≤ mappedBytes a.shape a.strides a.itemsize := by
  have hl := lowAdj_nonpos a.shape a.strides hpos
  have hh := highAdj_nonneg a.shape a.strides hpos
  simp only [mappedBytes, firstElem, byteBounds]
  omega

/-! ## which arguments travel as memory maps: `ArrayMemmapForwardReducer.__call__` -/

/-- **object_arrays_are_never_memmapped.** An array that is not already memmap-backed and whose dtype holds Python
objects ANYWHERE (`dtype.hasobject`: a plain object array, or a structured / sub-array dtype with an object field,
whose `kind` is `'V'`) is never dumped to the temp folder to be memory-mapped in the worker, whatever `max_nbytes`
and its size: it is pickled by value. (Its dump has `allow_mmap=False`, so `load_temporary_memmap` would get a
plain array back and fail.) -/
theorem object_arrays_are_never_memmapped (registeredType : Bool) (max_nbytes : Option Nat) (nbytes : Nat)
    (mmapModeNone : Bool) :
    forwardReduce registeredType false true max_nbytes nbytes mmapModeNone = .plainPickle := by
  cases registeredType <;> simp [forwardReduce]

/-- The whole decision: an argument is dumped and memory-mapped exactly when it is an exact `ndarray`/`memmap`,
not memmap-backed, object-free, `mmap_mode` is not `None`, `max_nbytes` is not `None` and `nbytes > max_nbytes`
(strictly); a memmap-backed one reuses its file whatever its size. -/
theorem forward_decision (rt bk ho : Bool) (max_nbytes : Option Nat) (nbytes : Nat) (mmapModeNone : Bool) :
    (forwardReduce rt bk ho max_nbytes nbytes mmapModeNone = .dumpAndMemmap
      ↔ rt = true ∧ bk = false ∧ ho = false ∧ mmapModeNone = false ∧ ∃ m, max_nbytes = some m ∧ m < nbytes)
    ∧ (forwardReduce rt bk ho max_nbytes nbytes mmapModeNone = .reuseBacking ↔ rt = true ∧ bk = true) := by
  cases rt <;> cases bk <;> cases ho <;> cases mmapModeNone <;> cases max_nbytes <;> simp [forwardReduce] <;> split <;> simp

/-- **mmap_mode_none_disables_memmapping** (repair F58). With `Parallel(mmap_mode=None)` — documented as "None
will disable memmapping" — no argument is ever dumped to the temp folder: an array that is not already backed by a
user memmap is pickled by value whatever `max_nbytes` and its size. Hence every dumped argument is loaded in the
worker with a real mode, for which `load_temporary_memmap` gets an `np.memmap` back. -/
theorem mmap_mode_none_disables_memmapping (rt ho : Bool) (max_nbytes : Option Nat) (nbytes : Nat) :
    forwardReduce rt false ho max_nbytes nbytes true = .plainPickle
    ∧ ∀ bk md, forwardReduce rt bk ho max_nbytes nbytes md = .dumpAndMemmap → loadTemporaryMemmapOk md = true := by
  constructor
  · cases rt <;> cases ho <;> simp [forwardReduce]
  · intro bk md h
    cases md
    · rfl
    · cases rt <;> cases bk <;> cases ho <;> simp [forwardReduce] at h

/-- F58 witness (the code before the repair): `Parallel(max_nbytes=1000, mmap_mode=None)` and a 2400-byte float
array: it is dumped although `mmap_mode` is `None`, and the worker's `load_temporary_memmap(filename, None, …)`
cannot give the task an array (`AttributeError` on `obj.filename`: BrokenProcessPool). -/
theorem prefix_mmap_mode_none_counterexample :
    forwardReducePreF58 true false false (some 1000) 2400 true = .dumpAndMemmap
    ∧ loadTemporaryMemmapOk true = false
    ∧ forwardReduce true false false (some 1000) 2400 true = .plainPickle := by
  decide

/-! ## the temporary dumps over a history of calls (`_memmaped_arrays`, `os.path.exists`)

FULL statement wanted by the property ("large arrays passed to process workers through automatic memmapping
present the same values to the task"): `∀ h, runHistory [] h = h.map (·.vals)`. It is FALSE of the code (F57, a
design trade-off: the dump is keyed by the identity of the array object and never refreshed inside one temp
folder): `history_stale_counterexample`. The fragment that holds: `history_faithful_partial` (no object changes
its values between two dispatches in the same folder), with its two practical instances
`fresh_context_is_faithful` (an unmanaged `Parallel`: a new folder per call) and `new_object_is_faithful`. -/

/-- **F57 witness.** `with Parallel(n_jobs=2, max_nbytes=1000) as p:` (one folder, 0), the same array object (7)
dispatched with values 1, mutated in place, dispatched with values 2: the second call's task sees 1. The same two
dispatches from an unmanaged `Parallel` (folders 0 and 1) see 1 then 2. -/
theorem history_stale_counterexample :
    runHistory [] [⟨0, 7, 1⟩, ⟨0, 7, 2⟩] = [1, 1]
    ∧ runHistory [] [⟨0, 7, 1⟩, ⟨1, 7, 2⟩] = [1, 2] := by
  decide

/-- **history_faithful_partial.** If the files already on disk hold the values their objects still have, and no
array object is dispatched twice in one folder with different values (it is not mutated in place between calls of
one managed `Parallel`), then every task of the history sees exactly the values its argument has at dispatch
time. -/
theorem history_faithful_partial (h : List Dispatch) (fs : TempFiles)
    (hfs : ∀ d ∈ h, ∀ v, fs.lookup (d.ctx, d.obj) = some v → v = d.vals)
    (hconst : ∀ d ∈ h, ∀ e ∈ h, d.ctx = e.ctx → d.obj = e.obj → d.vals = e.vals) :
    runHistory fs h = h.map (·.vals) :=
  runHistory_faithful h fs hfs hconst

/-- A dispatch into a folder that holds no dump of that object (every call of an unmanaged `Parallel`; the first
dispatch of a new object) dumps and shows the dispatch-time values. -/
theorem fresh_context_is_faithful (fs : TempFiles) (d : Dispatch) (hnew : fs.lookup (d.ctx, d.obj) = none) :
    (dispatchStep fs d).2 = d.vals ∧ (dispatchStep fs d).1.lookup (d.ctx, d.obj) = some d.vals := by
  simp [dispatchStep, hnew]

/-- Replacing the array by a NEW object (an equal copy, a freshly built array) between calls is always safe: a
history whose dispatches all have distinct (folder, object) pairs is faithful whatever the values. -/
theorem new_object_is_faithful (h : List Dispatch)
    (hdistinct : (h.map (fun d => (d.ctx, d.obj))).Nodup) :
    runHistory [] h = h.map (·.vals) := by
  apply history_faithful_partial
  · intro d _ v hv; simp [List.lookup] at hv
  · intro d hd e he hc ho
    have := nodup_key_eq h hdistinct d hd e he hc ho
    rw [this]

/-! ## PRE-FIX witnesses: the three defects of the code BEFORE b514cf6 / 5cddabe, on the `…PreFix` definitions,
and the same inputs on the code as it is now -/

/-- F25 witness (pre-fix): `m` = a C-order int64 memmap of 8 items, `a = m[::-1]` (`ptr` at the last item,
stride −8). The pre-fix rebuilt view looked for element 0 at file offset 0 — the original has it at 56 — and for
element 1 at offset −8, before the mapping (wrong values, or SIGSEGV in the worker). -/
theorem prefix_negative_stride_counterexample :
    let m : Arr := ⟨1000, [8], [8], 8⟩
    let a : Arr := ⟨1056, [8], [-8], 8⟩
    let r := reduceMemmapBackedPreFix a m 0 false false false
    rebuiltElemOffsetPreFix r 8 [0] = 0 ∧ originalElemOffset a m 0 [0] = 56
    ∧ rebuiltElemOffsetPreFix r 8 [1] = -8 ∧ originalElemOffset a m 0 [1] = 48 := by
  decide

/-- F24 witness (pre-fix): `m` = a C-order int64 memmap of shape (2, 3), `a = m.T` (shape (3, 2), strides
(8, 24), F-contiguous). The pre-fix reducer passed `order = "C"` (the memmap's) with `strides = None`, so the
worker's array had element [0, 1] at file offset 8 — the original has it at 24: wrong values, silently. -/
theorem prefix_transposed_counterexample :
    let m : Arr := ⟨1000, [2, 3], [24, 8], 8⟩
    let a : Arr := ⟨1000, [3, 2], [8, 24], 8⟩
    let r := reduceMemmapBackedPreFix a m 0 false true false
    r.strides = none ∧ r.order = .C
    ∧ rebuiltElemOffsetPreFix r 8 [0, 1] = 8 ∧ originalElemOffset a m 0 [0, 1] = 24 := by
  decide

/-- F26 witness (pre-fix): a field view `m['a']` (int64, itemsize 8) of 342 records of 12 bytes: the extent is
341·12 + 8 = 4100 bytes, `total_buffer_len = 4100 // 8 = 512` items = 4096 bytes mapped: the last element's
final 4 bytes lay beyond the mapping. -/
theorem prefix_total_buffer_len_floor_counterexample :
    let m : Arr := ⟨4096, [342], [12], 12⟩
    let a : Arr := ⟨4096, [342], [12], 8⟩
    let r := reduceMemmapBackedPreFix a m 0 false false false
    (byteBounds a).2 - (byteBounds a).1 = 4100 ∧ mappedBytesPreFix r 8 = some 4096
    ∧ originalElemOffset a m 0 [341] + 8 = 4100 := by
  decide

/-- The same three inputs on the code as it is now. -/
theorem prefix_witnesses_repaired :
    (let m : Arr := ⟨1000, [8], [8], 8⟩
     let a : Arr := ⟨1056, [8], [-8], 8⟩
     rebuiltElemOffset (reduceMemmapBacked a m 0 false false) 8 [1] = originalElemOffset a m 0 [1])
    ∧ (let m : Arr := ⟨1000, [2, 3], [24, 8], 8⟩
       let a : Arr := ⟨1000, [3, 2], [8, 24], 8⟩
       rebuiltElemOffset (reduceMemmapBacked a m 0 false true) 8 [0, 1] = originalElemOffset a m 0 [0, 1])
    ∧ mappedBytes [342] [12] 8 = 4100 := by
  decide

/-! ## Non-vacuity -/

example : writeArray (some 16) 121 8 [1, 2, 3, 4, 5, 6, 7, 8]
    = .ok ([6, 255, 255, 255, 255, 255, 255, 1, 2, 3, 4, 5, 6, 7, 8]) := by rfl
example : (121 + 1 + 6) % 16 = 0 := by decide
example : chunks 4 10 0 = [(0, 4), (4, 4), (8, 2)] := by
  simp [chunks]
example : maxReadCount 8 = .ok 32768 := by rfl
example : orderOf false true = .F ∧ orderOf true true = .C ∧ orderOf false false = .C := by decide
example : writeIndex .F [2, 3] [1, 2] = 5 ∧ readIndex .F [2, 3] [1, 2] = 5 ∧ writeIndex .C [2, 3] [1, 2] = 5 := by
  decide
example : reduceMemmapBacked ⟨1008, [3, 3], [128, 24], 8⟩ ⟨1000, [6, 8], [64, 8], 8⟩ 0 false false
    = ⟨8, .C, [3, 3], some [128, 24], some 39⟩ := by decide
example : mappedBytes [3, 3] [128, 24] 8 = 312 ∧ firstElem [3, 3] [-128, 24] = 256 := by decide

end C19
