import JoblibProofs.Lemmas.Tracker
import JoblibProofs.Lemmas.TrackerClient
import JoblibProofs.Lemmas.TrackerSignals
import JoblibModel.TrackerLag
/-!
# C20 — tracked temporary resources are deleted exactly when their last user is gone

Statement (properties.jsonl): every temporary file or folder registered with joblib's resource tracker is
deleted exactly when its reference count returns to zero — never while another registered user remains — and
whatever is still registered when the last client process exits, normally or by being killed, is deleted then.
Unbalanced or malformed requests neither stop the tracker nor make it delete a path that was not registered.

Quantifier reached here: request histories of ANY length (induction over the list of lines the tracker reads),
arbitrary bytes on each line (so every interleaving of the writes of any number of clients — the tracker sees one
byte stream), every resource type, names of any length including names containing ':' and non-ASCII bytes.
A client exiting or being killed is, for the tracker, the end of that client's lines; the death of the last client
is the end of the list (EOF of the pipe — an assumption about the OS, see TRUSTED_EXTRA in harness/props/c20.py).

Model: `JoblibModel.Tracker` (`step`, `run`, `finish`, `main`; abstract counter `absCount`, `netFrom`).

The abstract multiset: per (type, name) a natural number — `REGISTER` +1, `UNREGISTER` → 0, `MAYBE_UNLINK` −1 when
positive and nothing otherwise (`absCount`). "registers minus maybe-unlinks since the last unregister" read
literally (`netFrom`, an integer with no floor) is what `absCount` equals on balanced histories
(`refcount_balanced`); on an unbalanced history the literal reading is not what the code does (an extra
`MAYBE_UNLINK` is dropped, it does not make a later `REGISTER` start from −1): `net_differs_when_unbalanced`.
-/
namespace C20
open JoblibModel.Tracker

/-- The dict invariant of the model: names are distinct inside every per-type registry, after any history. -/
theorem distinct_keys (lines : List Line) : (run Registry.empty lines).1.Distinct :=
  run_distinct _ _ empty_distinct

/-- Invariant: every count stored in the registry is at least 1, after any history
(so `registry[rtype][name] -= 1` never goes below 0 and the `== 0` test cannot be jumped over). -/
theorem counts_positive (lines : List Line) (rt : RType) (name : Name) (c : Int)
    (h : lookup ((run Registry.empty lines).1.get rt) name = some c) : 1 ≤ c :=
  run_positive _ _ empty_distinct empty_positive rt name c h

/-- The registry refines the abstract counter, for every history: a name is in `registry[rt]` exactly when
its abstract count is positive, and then the stored count is that number. -/
theorem refcount_refines (lines : List Line) (rt : RType) (name : Name) :
    lookup ((run Registry.empty lines).1.get rt) name =
      if absCount rt name lines = 0 then none else some (absCount rt name lines : Int) := by
  have := run_refines Registry.empty lines rt name 0 empty_distinct
    (by cases rt <;> simp [Registry.empty, Registry.get, lookup, enc])
  rw [this]; rfl

/-- On a balanced history (no `MAYBE_UNLINK` for the name while it has no user) the abstract count is literally
"registers minus maybe-unlinks since the last unregister". -/
theorem refcount_balanced (lines : List Line) (rt : RType) (name : Name)
    (hb : BalancedFrom rt name 0 lines) :
    (absCount rt name lines : Int) = netFrom rt name 0 lines := by
  simpa [absCount] using balanced_net rt name 0 lines hb

/-- A clean-up action for `(rt, name)` is emitted by the loop exactly when the line is a `MAYBE_UNLINK` for that
type and name and it has exactly one user left (count 1 → 0) — whatever the history before. -/
theorem delete_iff_zero (lines : List Line) (l : Line) (rt : RType) (name : Name) :
    Action.cleanup rt name ∈ (step (run Registry.empty lines).1 l).2 ↔
      classify l = .req .maybeUnlink rt name ∧ absCount rt name lines = 1 := by
  have href := run_refines Registry.empty lines rt name 0 empty_distinct
    (by cases rt <;> simp [Registry.empty, Registry.get, lookup, enc])
  constructor
  · intro h
    unfold step at h
    cases hc : classify l <;> simp only [hc] at h <;> try (simp at h; done)
    rename_i c rt' name'
    rw [exec_acts, mem_execActs_cleanup] at h
    obtain ⟨rfl, rfl, rfl, h1⟩ := h
    refine ⟨rfl, ?_⟩
    rw [href] at h1
    exact (enc_eq_some_one _).mp h1
  · rintro ⟨hc, h1⟩
    rw [step_req _ _ _ _ _ hc, exec_acts, mem_execActs_cleanup]
    refine ⟨rfl, rfl, rfl, ?_⟩
    rw [href]; exact (enc_eq_some_one _).mpr h1

/-- … and that line emits nothing else, and afterwards the name has no user (it is gone from the registry). -/
theorem delete_is_single (lines : List Line) (l : Line) (rt : RType) (name : Name)
    (h : Action.cleanup rt name ∈ (step (run Registry.empty lines).1 l).2) :
    (step (run Registry.empty lines).1 l).2 = [.cleanup rt name] ∧
      absCount rt name (lines ++ [l]) = 0 ∧
      lookup ((run Registry.empty (lines ++ [l])).1.get rt) name = none := by
  obtain ⟨hc, h1⟩ := (delete_iff_zero lines l rt name).mp h
  have href := run_refines Registry.empty lines rt name 0 empty_distinct
    (by cases rt <;> simp [Registry.empty, Registry.get, lookup, enc])
  have h0 : absCount rt name (lines ++ [l]) = 0 := by
    unfold absCount at h1 ⊢
    rw [absCountFrom_append, h1]
    simp [absCountFrom, absStep, hc]
  refine ⟨?_, h0, ?_⟩
  · rw [step_req _ _ _ _ _ hc, exec_acts, href]
    unfold absCount at h1
    simp [h1, enc, execActs]
  · rw [refcount_refines, h0]; simp

/-- Whatever the tracker cleans up — in the loop or at EOF — has at least one user at that moment. -/
theorem cleanup_needs_user (lines : List Line) (l : Line) (rt : RType) (name : Name)
    (h : Action.cleanup rt name ∈ (step (run Registry.empty lines).1 l).2 ∨
         Action.cleanup rt name ∈ finish (run Registry.empty lines).1) :
    0 < absCount rt name lines := by
  rcases h with h | h
  · have := ((delete_iff_zero lines l rt name).mp h).2; omega
  · rw [finish_eq] at h
    have hk : name ∈ keys ((run Registry.empty lines).1.get rt) := by
      simp only [List.mem_append] at h
      rcases h with (h | h) | h <;>
        · have := (mem_unlinkResources_cleanup _ _ _ _).mp h
          obtain ⟨rfl, hk⟩ := this
          exact hk
    have hne : lookup ((run Registry.empty lines).1.get rt) name ≠ none :=
      fun e => (lookup_eq_none_iff _ _).mp e hk
    rw [refcount_refines] at hne
    by_cases h0 : absCount rt name lines = 0
    · simp [h0] at hne
    · omega

/-- Nothing is ever cleaned up — by the loop or by the EOF clean-up — that no `REGISTER` line named, with that
very type and name, earlier in the history. Unknown commands, unknown types, undecodable or unbalanced lines
therefore cannot make the tracker delete a path. -/
theorem never_delete_unregistered (lines : List Line) (rt : RType) (name : Name)
    (h : Action.cleanup rt name ∈ main lines) :
    ∃ l ∈ lines, classify l = .req .register rt name := by
  unfold main at h
  rcases List.mem_append.mp h with h | h
  · obtain ⟨pre, l, post, e, hm⟩ := mem_run_acts _ _ _ h
    have hpos := cleanup_needs_user pre l rt name (Or.inl hm)
    rcases registered_of_pos rt name pre 0 hpos with h0 | ⟨l', hl', hc⟩
    · omega
    · exact ⟨l', by simp [e, hl'], hc⟩
  · have hpos := cleanup_needs_user lines [] rt name (Or.inr h)
    rcases registered_of_pos rt name lines 0 hpos with h0 | h1
    · omega
    · exact h1

/-- The lines that must have no effect: undecodable bytes, an unknown resource type, an unknown command, and the
unbalanced requests (`UNREGISTER` / `MAYBE_UNLINK` of a name that registry does not hold). -/
def Malformed (reg : Registry) (l : Line) : Prop :=
  classify l = .undecodable ∨ (∃ c n r, classify l = .unknownType c n r) ∨
  (∃ c n rt, classify l = .unknownCmd c n rt) ∨
  (∃ rt name, (classify l = .req .unregister rt name ∨ classify l = .req .maybeUnlink rt name) ∧
    lookup (reg.get rt) name = none)

/-- A malformed or unbalanced line, in any state of the registry: the state is unchanged, no clean-up is done
(the only effect is one exception handed to `sys.excepthook`), and the loop continues — the lines after it are
processed exactly as if it had not been there. -/
theorem malformed_is_noop (reg : Registry) (l : Line) (rest : List Line) (h : Malformed reg l) :
    ∃ e, step reg l = (reg, [.report e]) ∧
      run reg (l :: rest) = ((run reg rest).1, .report e :: (run reg rest).2) := by
  have key : ∀ e, step reg l = (reg, [.report e]) →
      run reg (l :: rest) = ((run reg rest).1, .report e :: (run reg rest).2) := by
    intro e he; simp [run, he]
  rcases h with h | ⟨c, n, r, h⟩ | ⟨c, n, rt, h⟩ | ⟨rt, name, h | h, hl⟩
  · exact ⟨.unicodeDecodeError, by simp [step, h], key _ (by simp [step, h])⟩
  · exact ⟨.valueError, by simp [step, h], key _ (by simp [step, h])⟩
  · exact ⟨.runtimeError, by simp [step, h], key _ (by simp [step, h])⟩
  · have : step reg l = (reg, [.report .keyError]) := by rw [step_req _ _ _ _ _ h, exec_unreg_none hl]
    exact ⟨.keyError, this, key _ this⟩
  · have : step reg l = (reg, [.report .keyError]) := by rw [step_req _ _ _ _ _ h, exec_mu_none hl]
    exact ⟨.keyError, this, key _ this⟩

/-- After any history, a request is unbalanced exactly when the abstract count of its name is 0. -/
theorem unbalanced_iff (lines : List Line) (rt : RType) (name : Name) :
    lookup ((run Registry.empty lines).1.get rt) name = none ↔ absCount rt name lines = 0 := by
  rw [refcount_refines]
  by_cases h : absCount rt name lines = 0 <;> simp [h]

/-- `PROBE` (sent by every `ensure_running`) changes nothing and does nothing. -/
theorem probe_is_noop (reg : Registry) (l : Line) (h : classify l = .probe) : step reg l = (reg, []) := by
  simp [step, h]

/-- EOF: (1) exactly the names that still have a user are cleaned up, (2) no action is repeated (each remaining
name is cleaned once, whatever its count), (3) every clean-up of a folder comes after every clean-up of a file or
semaphore — the output splits into a part without folder clean-ups followed by a part with nothing but the
folder warning and folder clean-ups. -/
theorem eof_deletes_rest_folders_last (lines : List Line) :
    (∀ rt name, Action.cleanup rt name ∈ finish (run Registry.empty lines).1 ↔ 0 < absCount rt name lines) ∧
    (finish (run Registry.empty lines).1).Nodup ∧
    ∃ others folders, finish (run Registry.empty lines).1 = others ++ folders ∧
      (∀ a ∈ others, ∀ name, a ≠ .cleanup .folder name) ∧
      (∀ a ∈ folders, (∃ name, a = .cleanup .folder name) ∨ ∃ n, a = .leakWarning .folder n) := by
  have hd := distinct_keys lines
  generalize hreg : (run Registry.empty lines).1 = reg at hd
  refine ⟨?_, ?_, ?_⟩
  · intro rt name
    constructor
    · intro h
      exact cleanup_needs_user lines [] rt name (Or.inr (by rw [hreg]; exact h))
    · intro h
      have hl : lookup (reg.get rt) name ≠ none := by
        rw [← hreg, refcount_refines]
        have : ¬ absCount rt name lines = 0 := by omega
        simp [this]
      have hk : name ∈ keys (reg.get rt) := by
        apply Classical.byContradiction
        intro hn; exact hl ((lookup_eq_none_iff _ _).mpr hn)
      rw [finish_eq]
      simp only [List.mem_append]
      cases rt
      · exact Or.inr ((mem_unlinkResources_cleanup _ _ _ _).mpr ⟨rfl, hk⟩)
      · exact Or.inl (Or.inl ((mem_unlinkResources_cleanup _ _ _ _).mpr ⟨rfl, hk⟩))
      · exact Or.inl (Or.inr ((mem_unlinkResources_cleanup _ _ _ _).mpr ⟨rfl, hk⟩))
  · rw [finish_eq]
    have h1 := nodup_unlinkResources reg.file .file (hd .file)
    have h2 := nodup_unlinkResources reg.semlock .semlock (hd .semlock)
    have h3 := nodup_unlinkResources reg.folder .folder (hd .folder)
    rw [List.nodup_append]
    refine ⟨?_, h3, ?_⟩
    · rw [List.nodup_append]
      refine ⟨h1, h2, ?_⟩
      intro a ha b hb e
      subst e
      rcases mem_unlinkResources _ _ _ ha with rfl | ⟨n, rfl⟩ <;>
        rcases mem_unlinkResources _ _ _ hb with h | ⟨m, h⟩ <;> simp at h
    · intro a ha b hb e
      subst e
      rcases List.mem_append.mp ha with ha | ha <;>
        rcases mem_unlinkResources _ _ _ ha with rfl | ⟨n, rfl⟩ <;>
          rcases mem_unlinkResources _ _ _ hb with h | ⟨m, h⟩ <;> simp at h
  · refine ⟨unlinkResources reg.file .file ++ unlinkResources reg.semlock .semlock,
      unlinkResources reg.folder .folder, finish_eq reg, ?_, ?_⟩
    · intro a ha name e
      subst e
      rcases List.mem_append.mp ha with ha | ha <;>
        rcases mem_unlinkResources _ _ _ ha with h | ⟨m, h⟩ <;> simp at h
    · intro a ha
      rcases mem_unlinkResources _ _ _ ha with h | ⟨m, h⟩
      · exact Or.inr ⟨_, h⟩
      · exact Or.inl ⟨m, h⟩

/-- `"REGISTER"`, `"UNREGISTER"`, `"MAYBE_UNLINK"`. -/
def cmdStr : Cmd → Name
  | .register => sREGISTER
  | .unregister => sUNREGISTER
  | .maybeUnlink => sMAYBE_UNLINK

/-- What `ResourceTracker._send` writes, `f"{cmd}:{name}:{rtype}\n".encode("ascii")`, is read back as that very
request, for EVERY ASCII name — in particular names that contain ':' (the loop re-joins the middle fields),
spaces, or look like commands. (A name containing `\n` never reaches `step` as one line; `_send` does not check
for it — joblib's names are paths it generates itself.) -/
theorem parse_send_format (c : Cmd) (rt : RType) (name : Name) (hascii : ∀ b ∈ name, b < 128) :
    classify (cmdStr c ++ 58 :: name ++ 58 :: rt.str ++ [10]) = .req c rt name := by
  -- the line is `b0 :: mid ++ [bl] ++ [10]` with `b0` the first letter of the command, `bl` the last of the type
  have hparse : ∀ (c0 : Nat) (cs : Name) (ri : Name) (rl : Nat),
      isSpace c0 = false → isSpace rl = false → 58 ∉ (c0 :: cs) → 58 ∉ (ri ++ [rl]) →
      (∀ b ∈ c0 :: cs, b < 128) → (∀ b ∈ ri ++ [rl], b < 128) →
      parse ((c0 :: cs) ++ 58 :: name ++ 58 :: (ri ++ [rl]) ++ [10]) = some (c0 :: cs, name, ri ++ [rl]) := by
    intro c0 cs ri rl h0 hl hc hr hac har
    have e : (c0 :: cs) ++ 58 :: name ++ 58 :: (ri ++ [rl]) ++ [10]
        = (c0 :: (cs ++ 58 :: name ++ 58 :: ri) ++ [rl]) ++ [10] := by simp
    unfold parse
    rw [e, strip_line _ _ _ h0 hl]
    have hall : decodeAscii (c0 :: (cs ++ 58 :: name ++ 58 :: ri) ++ [rl])
        = some (c0 :: (cs ++ 58 :: name ++ 58 :: ri) ++ [rl]) := by
      unfold decodeAscii
      rw [if_pos]
      simp only [List.all_eq_true, decide_eq_true_eq]
      intro b hb
      simp only [List.cons_append, List.mem_cons, List.mem_append, List.append_assoc] at hb
      rcases hb with rfl | hb | rfl | hb | rfl | hb | hb
      · exact hac _ (by simp)
      · exact hac _ (by simp [hb])
      · omega
      · exact hascii _ hb
      · omega
      · exact har _ (by simp [hb])
      · exact har _ (by simp at hb; simp [hb])
    rw [hall]
    have e2 : c0 :: (cs ++ 58 :: name ++ 58 :: ri) ++ [rl] = (c0 :: cs) ++ 58 :: (name ++ 58 :: (ri ++ [rl])) := by
      simp
    have hf : fields ((c0 :: cs) ++ 58 :: (name ++ 58 :: (ri ++ [rl])))
        = (c0 :: cs) :: (fields name ++ [ri ++ [rl]]) := by
      rw [fields_append _ _ hc, fields_snoc _ _ hr]
    rw [e2]
    simp only [fields, List.cons.injEq] at hf
    simp only [hf.1, hf.2, List.dropLast_concat, Option.some.injEq, Prod.mk.injEq, true_and]
    exact ⟨joinColon_fields name, lastField_append _ _ _⟩
  have hcmd : ∀ c : Cmd, ∃ c0 cs, cmdStr c = c0 :: cs ∧ isSpace c0 = false ∧ 58 ∉ (c0 :: cs) ∧
      ∀ b ∈ c0 :: cs, b < 128 := by
    intro c; cases c <;> exact ⟨_, _, rfl, by decide, by decide, by decide⟩
  have hrt : ∀ rt : RType, ∃ ri rl, rt.str = ri ++ [rl] ∧ isSpace rl = false ∧ 58 ∉ (ri ++ [rl]) ∧
      ∀ b ∈ ri ++ [rl], b < 128 := by
    intro rt; cases rt
    · exact ⟨[102, 111, 108, 100, 101], 114, rfl, by decide, by decide, by decide⟩
    · exact ⟨[102, 105, 108], 101, rfl, by decide, by decide, by decide⟩
    · exact ⟨[115, 101, 109, 108, 111, 99], 107, rfl, by decide, by decide, by decide⟩
  have hp : parse (cmdStr c ++ 58 :: name ++ 58 :: rt.str ++ [10]) = some (cmdStr c, name, rt.str) := by
    obtain ⟨c0, cs, e1, h0, hc, hac⟩ := hcmd c
    obtain ⟨ri, rl, e2, hl, hr, har⟩ := hrt rt
    rw [e1, e2]
    exact hparse c0 cs ri rl h0 hl hc hr hac har
  simp only [classify, hp]
  cases c <;> cases rt <;>
    simp [cmdStr, sPROBE, sREGISTER, sUNREGISTER, sMAYBE_UNLINK, rtypeOf, RType.str]

/-- `f"{cmd}:{name}:{rtype}\n"` — the line `_send` writes. -/
def reqLine (c : Cmd) (rt : RType) (name : Name) : Line := cmdStr c ++ 58 :: name ++ 58 :: rt.str ++ [10]
def nA : Name := [47, 116, 47, 97]        -- "/t/a"
def nBC : Name := [47, 116, 47, 98, 58, 99] -- "/t/b:c"
def nD : Name := [47, 116, 47, 100]       -- "/t/d"

/-- The literal reading "registers minus maybe-unlinks" is NOT what the code does on an unbalanced history:
`MAYBE_UNLINK` then `REGISTER` of a fresh name leaves count 1 (the path is protected), where the literal
difference would be 0. This is the behaviour the property wants ("unbalanced requests … do not make it delete");
it is recorded so that nobody reads `refcount_refines` as the unfloored difference. -/
theorem net_differs_when_unbalanced :
    absCount .file nA [reqLine .maybeUnlink .file nA, reqLine .register .file nA] = 1 ∧
    netFrom .file nA 0 [reqLine .maybeUnlink .file nA, reqLine .register .file nA] = 0 ∧
    lookup ((run Registry.empty [reqLine .maybeUnlink .file nA, reqLine .register .file nA]).1.get .file) nA
      = some 1 := by
  decide +kernel

/-! Non-vacuity: concrete histories exercising the hypotheses and every branch. `a` = "a", `b:c` = a name with
a colon. -/
def hist : List Line :=
  [reqLine .register .file nA, reqLine .register .file nA, reqLine .register .file nBC,
   reqLine .register .folder nD, reqLine .maybeUnlink .file nA]

example : absCount .file nA hist = 1 ∧ absCount .file nBC hist = 1 ∧ absCount .folder nD hist = 1 := by decide +kernel
example : BalancedFrom .file nA 0 hist := by
  simp only [hist, BalancedFrom]; decide +kernel
-- the second MAYBE_UNLINK is the one that deletes; a third one is unbalanced and reported
example : (step (run Registry.empty hist).1 (reqLine .maybeUnlink .file nA)).2 = [.cleanup .file nA] := by decide +kernel
example : (run Registry.empty (hist ++ [reqLine .maybeUnlink .file nA, reqLine .maybeUnlink .file nA])).2
    = [.cleanup .file nA, .report .keyError] := by decide +kernel
-- EOF: the file with a colon in its name first, the folder last, one warning per non-empty type
example : finish (run Registry.empty hist).1
    = [.leakWarning .file 2, .cleanup .file nA, .cleanup .file nBC, .leakWarning .folder 1, .cleanup .folder nD] := by
  decide +kernel
-- every kind of malformed line satisfies `Malformed` in the empty registry
example : Malformed Registry.empty [255, 58, 120, 58, 102, 105, 108, 101, 10] := Or.inl (by decide +kernel)
example : Malformed Registry.empty [103, 97, 114, 98, 97, 103, 101, 10] :=
  Or.inr (Or.inl ⟨[103, 97, 114, 98, 97, 103, 101], [], [103, 97, 114, 98, 97, 103, 101], by decide +kernel⟩)
example : Malformed Registry.empty ([70, 79, 79] ++ 58 :: nA ++ 58 :: RType.str .file ++ [10]) :=
  Or.inr (Or.inr (Or.inl ⟨[70, 79, 79], nA, .file, by decide +kernel⟩))
example : Malformed Registry.empty (reqLine .maybeUnlink .file nA) :=
  Or.inr (Or.inr (Or.inr ⟨.file, nA, Or.inr (by decide +kernel), by decide⟩))
-- PROBE:0:noop
example : classify [80, 82, 79, 66, 69, 58, 48, 58, 110, 111, 111, 112, 10] = .probe := by decide +kernel
-- a last line without '\n' (EOF right after it) and surrounding blanks are accepted as the code accepts them
example : classify ([32, 9] ++ cmdStr .register ++ 58 :: nA ++ 58 :: RType.str .file ++ [32, 13]) =
    .req .register .file nA := by decide +kernel
-- "REGISTER:file": one separator only — the name is empty and the line is a valid request for ""
example : classify (cmdStr .register ++ 58 :: RType.str .file ++ [10]) = .req .register .file [] := by decide +kernel

/-! ## The client side: who sends which request when

Model: `JoblibModel.TrackerClient` — the main process (`TemporaryResourcesManager`, the reducer, executors and
pools), the worker processes, the temp root, composed with the tracker above: every line a process writes is read by
`Tracker.step` before the client looks at the disk again (`send`).  Operations (`Op`): `configure k`, `spawn k`,
`reduce k array`, `load c i`, `drop i` (a memmap is garbage-collected), `childExit c`, `childKill c`, `terminate k`,
`abort k`, `execTerminate kill`, `exitParent`, `killParent`, in ANY order and number (`runOps`), then `eof`.
Quantifier reached: every operation sequence (induction over the list), every configuration (`max_nbytes`, number of
`Parallel` objects, which of them use the multiprocessing backend), both variants of the code (`Cfg.fix`).

Ghost fields the statements speak about (no influence on the behaviour): `extra` — the files whose extra reference
the parent holds; `leaked` — registered references nobody will give back (memmaps of killed workers, pickles never
loaded); `dup` — some clean-up released an extra reference that was not held (F45); `bad` — the monitor: every
file that left the disk while it had a live user (`applyAction`: a clean-up action of the tracker while
`liveUsers > 0`; `clientRmtree`: a `shutil.rmtree` of the main process while a worker-side user remains — these two
functions are the only places where `disk.files` shrinks).

Full statement of `never_deleted_while_held`, FALSE on the pinned code (F45, `extra_reference_released_twice_counterexample`):
  ∀ cfg ops, (runOps cfg State.init ops).bad = []
Proved: `never_deleted_while_held_partial` under the guard "no clean-up (`_clean_temporary_resources(force=False)`)
meets a file whose extra reference is not held" — i.e. no file is met by two non-forced clean-ups (`dup = false`;
the extra reference is registered once per file name, `is_new_memmap`, but released by every clean-up that finds the
file) — and `never_deleted_while_held` for the repaired code (`Cfg.fix`: `fixes/F45-*.diff`), where the guard is a
theorem (`repaired_never_releases_twice`). -/

open JoblibModel.TrackerClient

/-- The composition is the tracker's own loop: the registry of the composed system is `Tracker.run` over exactly the
lines the processes wrote, in the order they wrote them. -/
theorem client_tracker_composed (cfg : Cfg) (ops : List Op) :
    (runOps cfg State.init ops).reg = (run Registry.empty (runOps cfg State.init ops).sent.reverse).1 :=
  (inv_runOps ops State.init (inv_init cfg)).wire.isRun

/-- (a) Every line a client ever writes is `f"{cmd}:{name}:{rtype}\n"` for one of the three commands, type "file" or
"folder" and an ASCII name, and the tracker's parser reads it back as that very request (`parse_send_format`). -/
theorem client_requests_wellformed (cfg : Cfg) (ops : List Op) :
    ∀ l ∈ (runOps cfg State.init ops).sent, ∃ c rt name, l = C20.reqLine c rt name ∧ (rt = .file ∨ rt = .folder) ∧
      classify l = .req c rt name := by
  intro l hl
  obtain ⟨c, rt, name, rfl, ha, hrt⟩ := (inv_runOps ops State.init (inv_init cfg)).wire.lines l hl
  exact ⟨c, rt, name, rfl, hrt, parse_send_format c rt name ha⟩

theorem enc_inj {a b : Nat} (h : enc a = enc b) : a = b := by
  unfold enc at h
  by_cases ha : a = 0 <;> by_cases hb : b = 0 <;> simp [ha, hb] at h <;> omega

/-- (d) The refinement: as long as no clean-up has released an extra reference that was not held, the tracker's
count of every file is the number of its registered users in the client model (the parent's extra reference,
pickles on their way, memmaps alive in workers, and the references that will never be given back) — in the
registry, and as the abstract counter of `refcount_refines` over the lines written. -/
theorem refcount_matches_users (cfg : Cfg) (ops : List Op) (f : FileKey)
    (hd : (runOps cfg State.init ops).dup = false) :
    lookup ((runOps cfg State.init ops).reg.get .file) f.name
        = (if trackedUsers (runOps cfg State.init ops).toClient f = 0 then none
           else some (trackedUsers (runOps cfg State.init ops).toClient f : Int)) ∧
    absCount .file f.name (runOps cfg State.init ops).sent.reverse
        = trackedUsers (runOps cfg State.init ops).toClient f := by
  have hi := inv_runOps ops State.init (inv_init cfg)
  have hj := (hi.cnt hd).j1 f
  refine ⟨hj, ?_⟩
  have hr := refcount_refines (runOps cfg State.init ops).sent.reverse .file f.name
  rw [← hi.wire.isRun, hj] at hr
  exact (enc_inj hr).symm

/-- With the repair no clean-up ever releases an extra reference that is not held — for every operation sequence. -/
theorem repaired_never_releases_twice (cfg : Cfg) (hfix : cfg.fix = true) (ops : List Op) :
    (runOps cfg State.init ops).dup = false :=
  ((inv_runOps ops State.init (inv_init cfg)).fix hfix).x0

/-- (d) for the repaired code: unconditionally. -/
theorem refcount_matches_users_repaired (cfg : Cfg) (hfix : cfg.fix = true) (ops : List Op) (f : FileKey) :
    absCount .file f.name (runOps cfg State.init ops).sent.reverse
        = trackedUsers (runOps cfg State.init ops).toClient f :=
  (refcount_matches_users cfg ops f (repaired_never_releases_twice cfg hfix ops)).2

/-- (b), the part that holds on the pinned code: as long as no clean-up has met a file whose extra reference was
not held (`dup = false` at the end, hence all along), no file has left the disk while it had a live user — neither
through the tracker (a registered user: a worker's memmap not yet collected, a pickle on its way, the extra
reference of the living parent) nor through a `rmtree` of the main process (any worker-side user). -/
theorem never_deleted_while_held_partial (cfg : Cfg) (ops : List Op)
    (hd : (runOps cfg State.init ops).dup = false) : (runOps cfg State.init ops).bad = [] :=
  ((inv_runOps ops State.init (inv_init cfg)).cnt hd).b

/-- (b) for the repaired code, at full strength: for EVERY operation sequence no file leaves the disk while it has
a live user. -/
theorem never_deleted_while_held (cfg : Cfg) (hfix : cfg.fix = true) (ops : List Op) :
    (runOps cfg State.init ops).bad = [] :=
  never_deleted_while_held_partial cfg ops (repaired_never_releases_twice cfg hfix ops)

/-- F45 as a program: one `Parallel` object, one worker; the array is dumped, the worker maps it and keeps it; the
call ends (`terminate`: the extra reference is released); the same object is used again and terminated again: the
clean-up finds the file and sends a second `MAYBE_UNLINK`. -/
def f45Program : List Op :=
  [.configure 0, .spawn 0, .reduce 0 ⟨1, false, false, 5000⟩, .load 0 0, .terminate 0, .configure 0, .terminate 0]

def cfgPinned : Cfg := ⟨false, some 4096, 4, []⟩
def cfgRepaired : Cfg := ⟨true, some 4096, 4, []⟩

/-- (b) at full strength is FALSE on the pinned code: after `f45Program` the file `/d_k/a` has been deleted while
worker 0 still maps it (the second `terminate` brought the count 1 → 0), and the tracker's count (0) is no longer
the number of users (1). -/
theorem extra_reference_released_twice_counterexample :
    (runOps cfgPinned State.init f45Program).bad = [⟨0, 1, 1⟩] ∧
    (runOps cfgPinned State.init f45Program).dup = true ∧
    (runOps cfgPinned State.init f45Program).holdings = [⟨0, ⟨0, 1, 1⟩, true⟩] ∧
    lookup ((runOps cfgPinned State.init f45Program).reg.get .file) (FileKey.mk 0 1 1).name = none ∧
    trackedUsers (runOps cfgPinned State.init f45Program).toClient ⟨0, 1, 1⟩ = 1 := by
  decide +kernel

theorem never_deleted_while_held_fails_on_pinned :
    ¬ ∀ ops : List Op, (runOps cfgPinned State.init ops).bad = [] := by
  intro h
  have := h f45Program
  rw [extra_reference_released_twice_counterexample.1] at this
  exact absurd this (by simp)

/-- (c) EOF: whatever the history, once the last process is gone and the tracker has run its `finally:` clean-up,
no folder and no file of any context is left under the temp root; and (`eof_deletes_rest_folders_last`) in that
clean-up every file is removed before every folder. -/
theorem eventually_deleted (cfg : Cfg) (ops : List Op) :
    (eof (runOps cfg State.init ops)).disk.dirs = [] ∧ (eof (runOps cfg State.init ops)).disk.files = [] := by
  have := eof_disk_empty (inv_runOps ops State.init (inv_init cfg))
  rw [this]; exact ⟨rfl, rfl⟩

/-- (c) the parent's own final clean-up: when the main process exits normally (its workers have left, its atexit
callbacks run) every folder and file of every context of every manager is gone already — before EOF. -/
theorem eventually_deleted_at_exit (cfg : Cfg) (ops : List Op)
    (hpa : (runOps cfg State.init ops).parentAlive = true) :
    (stepOp cfg (runOps cfg State.init ops) .exitParent).1.disk.dirs = [] ∧
    (stepOp cfg (runOps cfg State.init ops) .exitParent).1.disk.files = [] := by
  have h := inv_runOps ops State.init (inv_init cfg)
  have e : (stepOp cfg (runOps cfg State.init ops) .exitParent).1 = exitParent (runOps cfg State.init ops) := by
    simp [stepOp, Op.isWorkerOp, hpa, parentStep]
  rw [e, exitParent_disk_empty h hpa]; exact ⟨rfl, rfl⟩

/-- The invariants behind the theorems above hold after every operation sequence (what is cached is registered
and has its atexit callback, what is on disk is registered, a memmap is held by a live worker of the owning
executor, …): `JoblibModel.TrackerClient.Inv`. -/
theorem client_invariants (cfg : Cfg) (ops : List Op) : Inv cfg (runOps cfg State.init ops) :=
  inv_runOps ops State.init (inv_init cfg)

/-! Non-vacuity: the same program on the repaired code — the second clean-up skips the released file, the worker
keeps its file, the count is the number of users; after the memmap is collected the file goes, and the exit of the
parent leaves nothing. -/
example : (runOps cfgRepaired State.init f45Program).bad = [] ∧
    (runOps cfgRepaired State.init f45Program).disk.files = [⟨0, 1, 1⟩] ∧
    lookup ((runOps cfgRepaired State.init f45Program).reg.get .file) (FileKey.mk 0 1 1).name = some 1 ∧
    trackedUsers (runOps cfgRepaired State.init f45Program).toClient ⟨0, 1, 1⟩ = 1 := by decide +kernel
example : (runOps cfgRepaired State.init (f45Program ++ [.drop 0])).disk.files = [] ∧
    (runOps cfgRepaired State.init (f45Program ++ [.drop 0])).disk.dirs = [⟨0, 1⟩] ∧
    (runOps cfgRepaired State.init (f45Program ++ [.drop 0, .exitParent])).disk.dirs = [] := by decide +kernel
-- the guard of the partial theorem is satisfiable by a history in which files are released and deleted
example : (runOps cfgPinned State.init
      [.configure 0, .spawn 0, .reduce 0 ⟨1, false, false, 5000⟩, .load 0 0, .drop 0, .terminate 0]).dup = false ∧
    (runOps cfgPinned State.init
      [.configure 0, .spawn 0, .reduce 0 ⟨1, false, false, 5000⟩, .load 0 0, .drop 0, .terminate 0]).disk.dirs = [] := by
  decide +kernel
-- what the client writes for the first two operations of the program
example : (runOps cfgPinned State.init [.configure 0]).sent.reverse =
    [C20.reqLine .register .folder (FolderKey.mk 0 0).name, C20.reqLine .register .folder (FolderKey.mk 0 1).name] := by
  decide +kernel

/-! ### signals: the tracker outlives ^C and `killall python` at every phase of its life

Model: `JoblibModel.TrackerSignals` (mask, disposition, pending bit per signal; the head of `main` as the code has it). -/
section Signals
open JoblibModel.TrackerSignals

/-- The tracker outlives SIGINT and SIGTERM at every phase of its life. Spawned by `ensure_running` (both signals
blocked; `pi`/`pt`: one already pending when `main` starts), with any number of further arrivals before the first
statement of `main` (`a0`), between `signal(SIGINT, SIG_IGN)`, `signal(SIGTERM, SIG_IGN)` and
`pthread_sigmask(SIG_UNBLOCK, …)` (`a1`, `a2`), and during the command loop and the EOF clean-up (`a3`): the tracker
is alive at the end and ignores both signals. (So what is registered is still deleted when the last client is gone:
`eof_deletes_rest_folders_last`, `eventually_deleted`.) -/
theorem start_never_loses_to_a_pending_signal (pi pt : Bool) (a0 a1 a2 a3 : List Sig) :
    (life pi pt a0 a1 a2 a3).alive = true ∧ (life pi pt a0 a1 a2 a3).int.ignored = true
      ∧ (life pi pt a0 a1 a2 a3).term.ignored = true := by
  have h0 : sigSafe (launched pi pt) = true := by simp [sigSafe, launched]
  -- arrivals before the first statement: both stay in the mask
  have s1 := sigRun_arrivals a0 _ h0
  -- signal(SIGINT, SIG_IGN)
  have k2 := sigStep_keeps _ (.ignore .int) (by simp) s1.1
  have i2 := sigStep_ignore (sigRun (launched pi pt) (arrivals a0)) .int (sigSafe_alive s1.1)
  have s3 := sigRun_arrivals a1 _ k2.1
  -- signal(SIGTERM, SIG_IGN)
  have k4 := sigStep_keeps _ (.ignore .term) (by simp) s3.1
  have i4 := sigStep_ignore (sigRun (sigStep (sigRun (launched pi pt) (arrivals a0)) (.ignore .int)) (arrivals a1)) .term
    (sigSafe_alive s3.1)
  have s5 := sigRun_arrivals a2 _ k4.1
  -- both are ignored now
  have hi5 := s5.2.2.2.1 (k4.2.2.2.1 (s3.2.2.2.1 i2))
  have ht5 := s5.2.2.2.2 i4
  -- pthread_sigmask(SIG_UNBLOCK, …): nothing that is pending is delivered with the start-up disposition
  have u6 := sigStep_unblock _ (sigSafe_alive s5.1) hi5 ht5
  -- the rest of the tracker's life
  have s7 := sigRun_arrivals a3 _ (sigSafe_of_ignored u6.1 u6.2.1 u6.2.2)
  simp only [life, schedule, sigRun_append, sigRun_cons]
  exact ⟨sigSafe_alive s7.1, s7.2.2.2.1 u6.2.1, s7.2.2.2.2 u6.2.2⟩

/-- The order of the two steps matters: unblocking BEFORE ignoring loses the tracker to a SIGTERM or SIGINT that was
pending on the launcher's mask, or that arrives between the two steps. -/
theorem unblock_before_ignore_counterexample :
    (sigRun (launched false true) [.unblockAll, .ignore .int, .ignore .term]).alive = false
      ∧ (sigRun (launched true false) [.unblockAll, .ignore .int, .ignore .term]).alive = false
      ∧ (sigRun (launched false false) [.unblockAll, .arrive .term, .ignore .int, .ignore .term]).alive = false := by decide

/-- Why the launcher blocks the signals around the spawn (bpo-33613): a tracker spawned without the mask dies of a
SIGTERM arriving before `main`'s first statement; with the mask the same signal is survived. -/
theorem launcher_mask_is_needed :
    (sigRun unprotected (.arrive .term :: mainStart)).alive = false
      ∧ (sigRun (launched false false) (.arrive .term :: mainStart)).alive = true := by decide

example : (life true true [.int, .term] [.term] [.int, .int] [.term, .int, .term]).alive = true := by decide
end Signals

/-! ### the pipe is asynchronous: the tracker may lag behind the clients (finding F60)

`never_deleted_while_held` is about the SYNCHRONOUS composition (`TrackerClient.send` = the write and the tracker's
`step` at once). With a FIFO between clients and tracker (`JoblibModel.TrackerLag`: the tracker consumes at arbitrary
later points, `os.path.exists` / `os.listdir` / the worker's `open` see the disk as the tracker has left it so far) the
statement is FALSE even for the repaired manager: `tracker_lag_counterexample`. Hypothesis under which the synchronous
theorems speak about the real system: the tracker has read every line written before the next step of any client
that looks at the disk — `Op.catchUp` between any two client steps (`lag_with_caught_up_tracker_is_synchronous`);
the F60 schedule violates exactly this (the worker's `MAYBE_UNLINK` is still in the pipe when the reducer of the next
call runs `os.path.exists`). The general safety statement for `runSync` on this cut-down model is not proved here
(it is `never_deleted_while_held` on the full model); only the F60 client program is evaluated in both. -/
section Lag
open JoblibModel.TrackerLag

/-- F60: one unmanaged `Parallel` object called twice with the same array. With the tracker lagging behind the
worker's `MAYBE_UNLINK` of call 1, call 2's reducer still sees the dump (`os.path.exists`), skips the dump and only
registers the task; the tracker then reaches count 0 and unlinks the file while the pickled task of call 2 needs it
(`bad = [1]`), the worker gets `FileNotFoundError` (`loadfail = 1`). The same client steps composed synchronously:
nothing deleted in use, no failed load, the dump is on disk for the second task. -/
theorem tracker_lag_counterexample :
    (runL LState.init f60Lagging).bad = [1] ∧ (runL LState.init f60Lagging).loadfail = 1
      ∧ (runL LState.init f60Lagging).files = []
      ∧ (runSync LState.init f60Client).bad = [] ∧ (runSync LState.init f60Client).loadfail = 0
      ∧ (runSync LState.init f60Client).files = [1] := by decide +kernel

/-- The precise synchrony hypothesis: a lagging system in which the tracker catches up after every client step IS the
synchronous composition (for every start state and every client program). -/
theorem lag_with_caught_up_tracker_is_synchronous (s : LState) (ops : List JoblibModel.TrackerLag.Op) :
    runL s (ops.flatMap (fun op => [op, JoblibModel.TrackerLag.Op.catchUp])) = runSync s ops := by
  induction ops generalizing s with
  | nil => rfl
  | cons op r ih => simpa [runL, runSync, List.flatMap_cons, stepL] using ih (drain (stepL s op))

end Lag

end C20
