import JoblibProofs.Lemmas.Lru
import JoblibProofs.Lemmas.StoreLimits
import JoblibProofs.Lemmas.StoreLimitsOps
/-!
# C18 — reduce_size enforces every limit by evicting the minimal LRU prefix

Statement (properties.jsonl): after `Memory.reduce_size(bytes_limit, items_limit, age_limit)`
returns with no concurrent writer, the cache satisfies every limit given; entries are evicted
strictly from least to most recently accessed and none is evicted that did not have to be —
the evicted set is the shortest least-recently-used prefix meeting all limits.

Quantifier reached here: inventories of ANY length, arbitrary sizes (including 0) and access
times (including ties), every combination of the three limits (each absent or any integer).

Model: `JoblibModel.Lru` (`_get_items_to_delete`) and `JoblibModel.StoreLimits` (the store as a directory tree,
`get_items`, `memstr_to_bytes`, `enforce_store_limits` with its per-item `try/except OSError`, `clear_location` under
a fault pattern, `Memory.reduce_size`). The deadline `now - age_limit` is an input.

Second half of the file (store level): trees of ANY shape and size, every stat result (value or `OSError`), EVERY
fault pattern `raises : Path → Bool`, `bytes_limit` as int or as any string. The end-to-end theorems
(`reduce_size_limits_hold`, `reduce_size_evicts_minimal_lru_prefix`) carry the hypothesis `Separated`: no hash
directory nested in another one. Without it the statement is FALSE of the code — `nested_hash_dir_counterexample`
(a cached function whose name starts with 32 hex digits: its function directory is inventoried as an entry, and
evicting it evicts every entry of the function); hence the `…_partial` reading: full statement

    ∀ tree, after `reduceSize` the entries left are the survivors of the minimal LRU prefix

is proved for `Separated` trees only.
-/
namespace C18
open JoblibModel.Lru
open JoblibModel.StoreLimits

variable {α : Type}

/-- Limits a caller can meaningfully ask for: non-negative byte and item limits.
(With a negative limit nothing can satisfy it; the code then evicts everything — see
`negative_limit_evicts_all_partial`.) -/
def WF (l : Limits) : Prop :=
  (∀ b, l.bytes = some b → 0 ≤ b) ∧ (∀ n, l.items = some n → 0 ≤ n)

/-- Eviction order is an LRU order: a stable rearrangement of the inventory, non-decreasing in
last access. -/
theorem lru_order (items : List (Item α)) :
    (sortByAccess items).Perm items ∧
    (sortByAccess items).Pairwise (fun a b => a.access ≤ b.access) :=
  ⟨sortByAccess_perm items, sortByAccess_sorted items⟩

/-- The evicted entries are a prefix of the LRU order ("strictly from least to most recently
accessed"). -/
theorem deleted_is_prefix (items : List (Item α)) (l : Limits) :
    itemsToDelete items l <+: sortByAccess items := by
  unfold itemsToDelete
  split
  · exact List.nil_prefix
  · split
    · exact List.nil_prefix
    · obtain ⟨r, h, _⟩ := takeLoop_spec (toDeleteSize items l) (toDeleteItems items l) l.deadline
        (sortByAccess items) 0 0
      exact ⟨r, h.symm⟩

theorem sat_nil (l : Limits) (hwf : WF l) : Sat ([] : List (Item α)) l := by
  refine ⟨fun b hb => ?_, fun n hn => ?_, fun d _ it hit => by simp at hit⟩
  · simpa [total] using hwf.1 b hb
  · simpa using hwf.2 n hn

/-- After the eviction every limit given holds on what is left. -/
theorem limits_hold_after (items : List (Item α)) (l : Limits) (hwf : WF l) :
    Sat (survivors items l) l := by
  unfold survivors itemsToDelete
  split
  · rename_i he
    have : items = [] := by simpa using he
    subst this
    simpa [sortByAccess] using sat_nil l hwf
  · split
    · rename_i _ hn
      simp only [List.length_nil, List.drop_zero]
      simp only [nothingToDo, Bool.and_eq_true, decide_eq_true_eq] at hn
      obtain ⟨⟨h1, h2⟩, h3⟩ := hn
      refine ⟨fun b hb => ?_, fun n hn => ?_, fun d hd it hit => ?_⟩
      · rw [total_perm (sortByAccess_perm items)]
        simp [toDeleteSize, hb] at h1; omega
      · rw [sortByAccess_length]
        simp [toDeleteItems, hn] at h2; omega
      · have hit' : it ∈ items := (sortByAccess_perm items).mem_iff.mp hit
        rw [hd] at h3
        cases hm : minAccess items with
        | none => rw [minAccess_none items hm] at hit'; simp at hit'
        | some m =>
          rw [hm] at h3; simp at h3
          have := minAccess_le items m hm it hit'
          omega
    · obtain ⟨r, h, hb, _⟩ := takeLoop_spec (toDeleteSize items l) (toDeleteItems items l)
        l.deadline (sortByAccess items) 0 0
      generalize hd : takeLoop (toDeleteSize items l) (toDeleteItems items l) l.deadline
        (sortByAccess items) 0 0 = d at h hb
      have hdrop : (sortByAccess items).drop d.length = r := by
        rw [h]; simp
      rw [hdrop]
      cases r with
      | nil => exact sat_nil l hwf
      | cons it r' =>
        obtain ⟨b1, b2, b3⟩ := hb it r' rfl
        have htot : total d + total (it :: r') = total items := by
          rw [← total_append, ← h, total_perm (sortByAccess_perm items)]
        have hlen : d.length + (it :: r').length = items.length := by
          rw [← List.length_append, ← h, sortByAccess_length]
        refine ⟨fun b hb => ?_, fun n hn => ?_, fun dd hdd x hx => ?_⟩
        · simp [toDeleteSize, hb] at b1; omega
        · simp [toDeleteItems, hn] at b2; omega
        · have hs := sortByAccess_sorted items
          rw [h, List.pairwise_append] at hs
          have hfirst : dd < it.access := by simpa [fresh, hdd] using b3
          rcases List.mem_cons.mp hx with rfl | hx'
          · exact hfirst
          · have := (List.pairwise_cons.mp hs.2.1).1 x hx'
            omega

/-- No shorter LRU prefix would do: stopping the eviction after any `k` entries fewer than were
evicted leaves some limit violated. Together with `deleted_is_prefix` and `limits_hold_after`
this is "the shortest least-recently-used prefix meeting all limits". -/
theorem minimal (items : List (Item α)) (l : Limits) (k : Nat)
    (hk : k < (itemsToDelete items l).length) :
    ¬ Sat ((sortByAccess items).drop k) l := by
  unfold itemsToDelete at hk
  split at hk
  · simp at hk
  · split at hk
    · simp at hk
    · obtain ⟨r, h, _, hmin⟩ := takeLoop_spec (toDeleteSize items l) (toDeleteItems items l)
        l.deadline (sortByAccess items) 0 0
      generalize hd : takeLoop (toDeleteSize items l) (toDeleteItems items l) l.deadline
        (sortByAccess items) 0 0 = d at h hk hmin
      have hklen : k < (sortByAccess items).length := by
        rw [h, List.length_append]; omega
      intro hsat
      have hget : (sortByAccess items)[k]? = some (sortByAccess items)[k] :=
        List.getElem?_eq_getElem hklen
      apply hmin k _ hk hget
      have hdrop : (sortByAccess items).drop k
          = (sortByAccess items)[k] :: (sortByAccess items).drop (k + 1) :=
        List.drop_eq_getElem_cons hklen
      have htot := total_take_drop k (sortByAccess items)
      rw [total_perm (sortByAccess_perm items)] at htot
      have hlen : ((sortByAccess items).drop k).length = items.length - k := by
        rw [List.length_drop, sortByAccess_length]
      have hklen' := hklen
      rw [sortByAccess_length] at hklen
      refine ⟨?_, ?_, ?_⟩
      · cases hb : l.bytes with
        | none => simp [toDeleteSize, hb]; exact total_nonneg _
        | some b =>
          have := hsat.1 b hb
          simp [toDeleteSize, hb]; omega
      · cases hn : l.items with
        | none => simp [toDeleteItems, hn]
        | some n =>
          have := hsat.2.1 n hn
          simp [toDeleteItems, hn]; omega
      · cases hdl : l.deadline with
        | none => simp [fresh]
        | some dd =>
          have := hsat.2.2 dd hdl (sortByAccess items)[k]
            (List.mem_drop_iff_getElem.mpr ⟨0, by simpa using hklen', by simp⟩)
          simp only [fresh, decide_eq_true_eq]; exact this

/-- No limit given ⇒ nothing evicted. -/
theorem none_means_no_limit (items : List (Item α)) :
    itemsToDelete items ⟨none, none, none⟩ = [] := by
  unfold itemsToDelete
  split
  · rfl
  · simp [nothingToDo, toDeleteSize, toDeleteItems]

/-- Limits already satisfied ⇒ nothing evicted (no entry "evicted that did not have to be"). -/
theorem satisfied_evicts_nothing (items : List (Item α)) (l : Limits)
    (h : Sat (sortByAccess items) l) : itemsToDelete items l = [] := by
  cases hd : itemsToDelete items l with
  | nil => rfl
  | cons x xs =>
    exact absurd (by simpa using h) (minimal items l 0 (by rw [hd]; simp))

/-- A negative byte or item limit cannot be met; the code evicts everything. -/
theorem negative_limit_evicts_all_partial (items : List (Item α)) (l : Limits)
    (hneg : (∃ b, l.bytes = some b ∧ b < 0) ∨ (∃ n, l.items = some n ∧ n < 0)) :
    survivors items l = [] := by
  cases hs : survivors items l with
  | nil => rfl
  | cons x xs =>
    exfalso
    unfold survivors at hs
    have hpre := deleted_is_prefix items l
    obtain ⟨r, hr⟩ := hpre
    have hdrop : (sortByAccess items).drop (itemsToDelete items l).length = r := by
      rw [← hr]; simp
    rw [hdrop] at hs
    -- the loop stopped at `x`, so the break test held there
    unfold itemsToDelete at hr
    have hne : items ≠ [] := by
      intro h; subst h; simp [sortByAccess] at hr; simp [hr] at hs
    have hne' : items.isEmpty = false := by simpa using hne
    rw [if_neg (by simp [hne'])] at hr
    have htn := @total_nonneg α
    by_cases hnt : nothingToDo items l = true
    · simp only [nothingToDo, Bool.and_eq_true, decide_eq_true_eq] at hnt
      obtain ⟨⟨h1, h2⟩, _⟩ := hnt
      have hlenpos : 0 < items.length := List.length_pos_iff.mpr hne
      rcases hneg with ⟨b, hb, hb0⟩ | ⟨n, hn, hn0⟩
      · simp [toDeleteSize, hb] at h1; have := htn items; omega
      · simp [toDeleteItems, hn] at h2; omega
    · rw [if_neg hnt] at hr
      obtain ⟨r2, h, hb, _⟩ := takeLoop_spec (toDeleteSize items l) (toDeleteItems items l)
        l.deadline (sortByAccess items) 0 0
      generalize hd : takeLoop (toDeleteSize items l) (toDeleteItems items l) l.deadline
        (sortByAccess items) 0 0 = d at h hb hr
      have : r2 = r := by
        have := hr.trans h
        exact (List.append_cancel_left this).symm
      subst this
      obtain ⟨b1, b2, _⟩ := hb x xs hs
      have htot : total d + total (x :: xs) = total items := by
        rw [← hs, ← total_append, ← h, total_perm (sortByAccess_perm items)]
      have hlen : d.length + (x :: xs).length = items.length := by
        rw [← hs, ← List.length_append, ← h, sortByAccess_length]
      rcases hneg with ⟨b, hb, hb0⟩ | ⟨n, hn, hn0⟩
      · simp [toDeleteSize, hb] at b1; have := htn (x :: xs); omega
      · simp [toDeleteItems, hn] at b2; simp at hlen; omega


/-! ## The store: inventory, size strings, deletion loop, `Memory.reduce_size` -/

/-- `get_items`, when every stat succeeds, lists exactly the hash-named directories of the tree, each walked
directory once, in walk order — identified by their PATHS, whatever their basenames: entries of two functions
that have the same argument hash (same basename) are two items. -/
theorem get_items_one_per_entry (t : Dir) (hok : StatOk t) :
    (getItems t).map (·.id) = hashPaths t := by
  unfold getItems hashPaths
  rw [map_id_filterMap_itemOf]
  congr 1
  apply List.filter_congr
  intro e he
  rw [itemOf_eq_some_iff]
  obtain ⟨h1, h2⟩ := hok e he
  simp [lastAccess_isSome e h1, dirSize_isSome e.files h2]

/-- The size of an item is the sum of the sizes of the files DIRECTLY in its directory (sub-directories do not
count), and its age is that of `output.pkl`, else of the directory. -/
theorem get_items_size_is_sum (t : Dir) (it : Item Path) (hit : it ∈ getItems t) :
    ∃ e ∈ osWalk t, e.path = it.id ∧ isHashName e.name = true ∧
      (∀ f ∈ e.files, f.size.isSome = true) ∧
      it.size = (e.files.map (fun f => f.size.getD 0)).sum ∧
      lastAccess e = some it.access := by
  unfold getItems at hit
  obtain ⟨e, he, hi⟩ := List.mem_filterMap.mp hit
  obtain ⟨h1, h2, h3, h4⟩ := itemOf_some hi
  obtain ⟨h5, h6⟩ := dirSize_spec e.files it.size h3
  exact ⟨e, he, h4.symm, h1, h5, h6, h2⟩

/-- A hash directory is skipped exactly when it cannot be read: neither `output.pkl` nor the directory gives an
access time, or some file's size cannot be read. Everything else is an item. -/
theorem get_items_skips_unreadable (t : Dir) :
    (getItems t).map (·.id) =
      ((osWalk t).filter (fun e =>
        isHashName e.name && (lastAccess e).isSome && (dirSize e.files).isSome)).map (·.path) := by
  unfold getItems
  rw [map_id_filterMap_itemOf]
  congr 1
  apply List.filter_congr
  intro e _
  exact itemOf_eq_some_iff e

/-- Whatever `clear_location` calls raise `OSError`, the loop of `enforce_store_limits` calls it for EVERY selected
item, in the order selected (the LRU order), and the tree it leaves does not depend on which calls raised. -/
theorem enforce_attempts_every_selected (raises : Path → Bool) (bytes : Option BytesArg) (b items deadline : Option Int)
    (t t' : Dir) (calls : List Path) (hb : resolveBytes bytes = .ok b)
    (h : enforceStoreLimits bytes items deadline raises t = .returned t' calls) :
    calls = (itemsToDelete (getItems t) ⟨b, items, deadline⟩).map (·.id) ∧
    (itemsToDelete (getItems t) ⟨b, items, deadline⟩) <+: sortByAccess (getItems t) ∧
    t' = clearAll (itemsToDelete (getItems t) ⟨b, items, deadline⟩) t := by
  unfold enforceStoreLimits at h
  rw [hb] at h
  simp only [enforceLoop_eq, List.nil_append] at h
  injection h with h1 h2
  exact ⟨h2.symm, itemsToDelete_prefix _ _, h1.symm⟩

/-- The loop itself, for every selection and fault pattern. -/
theorem enforce_loop_calls (raises : Path → Bool) (sel : List (Item Path)) (t : Dir) :
    (enforceLoop raises sel t []).2 = sel.map (·.id) := by
  simp [enforceLoop_eq]

/-- The path condition `Separated` is what a tree "without a hash directory nested in another one" satisfies:
sibling names distinct (any file system), no hash-named directory below a hash-named one, store location not
hash-named. -/
theorem no_nesting_separated (t : Dir) (h : NoNesting t) : Separated t := separated_of_noNesting t h

/-- The inventory left by an outcome (`none` = it raised). -/
def inventoryAfter : Outcome → Option (List (Item Path))
  | .returned t _ => some (getItems t)
  | .raised _ => none

def callsOf : Outcome → Option (List Path)
  | .returned _ c => some c
  | .raised _ => none

theorem separated_items {t : Dir} (hsep : Separated t) :
    (∀ it ∈ getItems t, it.id ≠ []) ∧
    ((getItems t).map (·.id)).Pairwise (fun a b => ¬ a <+: b ∧ ¬ b <+: a) := by
  have hsub := itemIds_sublist_hashPaths t
  refine ⟨fun it hit h => hsep.1 ?_, hsep.2.sublist hsub⟩
  exact hsub.subset (h ▸ List.mem_map_of_mem hit)

/-- What `reduce_size` leaves, as an inventory: for a store without nested hash directories, a rearrangement of
the survivors of the selection — for every fault pattern. -/
theorem reduce_size_inventory_after (t t' : Dir) (bytes : Option BytesArg) (b items deadline : Option Int)
    (raises : Path → Bool) (calls : List Path) (hb : resolveBytes bytes = .ok b) (hsep : Separated t)
    (h : reduceSize true bytes items deadline raises t = .returned t' calls) :
    (getItems t').Perm (survivors (getItems t) ⟨b, items, deadline⟩) ∧
    calls = (itemsToDelete (getItems t) ⟨b, items, deadline⟩).map (·.id) := by
  obtain ⟨hne, hpw⟩ := separated_items hsep
  unfold reduceSize at h
  simp only [Bool.not_true, Bool.false_eq_true, if_false] at h
  split at h
  · rename_i hnone
    simp only [Bool.and_eq_true, Option.isNone_iff_eq_none] at hnone
    obtain ⟨⟨h1, h2⟩, h3⟩ := hnone
    subst h1 h2 h3
    injection h with h1 h2
    subst h1 h2
    have : b = none := by simpa [resolveBytes] using hb.symm
    subst this
    have hdel := none_means_no_limit (getItems t)
    unfold survivors
    rw [hdel]
    exact ⟨by simpa using (sortByAccess_perm (getItems t)).symm, rfl⟩
  · obtain ⟨hc, _, ht⟩ := enforce_attempts_every_selected raises bytes b items deadline t t' calls hb h
    refine ⟨?_, hc⟩
    rw [ht, getItems_clearAll _ _ (fun s hs => hne s ?_)]
    · exact filter_keeps_perm_survivors (getItems t) _ hpw
    · have := (itemsToDelete_prefix (getItems t) ⟨b, items, deadline⟩).subset hs
      exact (sortByAccess_perm (getItems t)).mem_iff.mp this

/-- The store location itself is not inventoried as an item (its basename does not start with 32 hex digits, or it
is unreadable). Always true for `Memory(location: str)`, whose store is `<location>/joblib`. -/
def RootNotItem (t : Dir) : Prop := ∀ it ∈ getItems t, it.id ≠ []

theorem separated_rootNotItem {t : Dir} (h : Separated t) : RootNotItem t := (separated_items h).1

/-- END TO END. After `Memory.reduce_size(bytes_limit, items_limit, age_limit)` returns, the inventory of the store
satisfies every limit given — for EVERY tree in which the store location itself is not an item (nested hash
directories allowed), every `bytes_limit` (int, or string: then the limit is its `memstr_to_bytes` value), and EVERY
fault pattern of `clear_location` (the stale-handle `OSError` of a vanished entry does not stop the loop). -/
theorem reduce_size_limits_hold (t t' : Dir) (bytes : Option BytesArg) (b items deadline : Option Int)
    (raises : Path → Bool) (calls : List Path) (hb : resolveBytes bytes = .ok b)
    (hwf : WF ⟨b, items, deadline⟩) (hroot : RootNotItem t)
    (h : reduceSize true bytes items deadline raises t = .returned t' calls) :
    Sat (getItems t') ⟨b, items, deadline⟩ := by
  unfold reduceSize at h
  simp only [Bool.not_true, Bool.false_eq_true, if_false] at h
  split at h
  · rename_i hnone
    simp only [Bool.and_eq_true, Option.isNone_iff_eq_none] at hnone
    obtain ⟨⟨h1, h2⟩, h3⟩ := hnone
    subst h1 h2 h3
    injection h with h1 h2
    subst h1
    have : b = none := by simpa [resolveBytes] using hb.symm
    subst this
    exact ⟨fun _ h => by simp at h, fun _ h => by simp at h, fun _ h => by simp at h⟩
  · obtain ⟨_, _, ht⟩ := enforce_attempts_every_selected raises bytes b items deadline t t' calls hb h
    rw [ht, getItems_clearAll _ _ (fun s hs => hroot s ?_)]
    · obtain ⟨R', hsub, hperm⟩ := filter_keeps_sub_survivors (getItems t) ⟨b, items, deadline⟩
      exact sat_perm hperm.symm _ (sat_sublist hsub _ (limits_hold_after (getItems t) _ hwf))
    · have := (itemsToDelete_prefix (getItems t) ⟨b, items, deadline⟩).subset hs
      exact (sortByAccess_perm (getItems t)).mem_iff.mp this

/-- The same for `Separated` trees (no hash directory nested in another one), the hypothesis of the minimality
theorem below. -/
theorem reduce_size_limits_hold_separated (t t' : Dir) (bytes : Option BytesArg) (b items deadline : Option Int)
    (raises : Path → Bool) (calls : List Path) (hb : resolveBytes bytes = .ok b)
    (hwf : WF ⟨b, items, deadline⟩) (hsep : Separated t)
    (h : reduceSize true bytes items deadline raises t = .returned t' calls) :
    Sat (getItems t') ⟨b, items, deadline⟩ :=
  reduce_size_limits_hold t t' bytes b items deadline raises calls hb hwf (separated_rootNotItem hsep) h

/-- Without `RootNotItem` even "the limits hold" is FALSE of the code. Witness: `Memory(pathlib.Path(".../<32 hex
digits>"))` (a `Path` location is used as it is, no `joblib` sub-directory): the store location is inventoried as an
item, `clear_location(self.location)` is `rm_subdirs`, which keeps the location and its files — after
`reduce_size(items_limit=0)` the inventory still has one item. -/
def hashRootStore : Dir :=
  .mk "0123456789abcdef0123456789abcdef" (some 500) [⟨".gitignore", some 37, some 0⟩] [
    .mk "mod" (some 900) [] [
      .mk "f" (some 900) [⟨"func_code.py", some 73, some 0⟩] [
        .mk "7b3337d59e2b737bfc2c2faddac9f48c" (some 900) [⟨"output.pkl", some 104, some 200⟩] []]]]

theorem hash_named_root_counterexample :
    callsOf (reduceSize true none (some 0) none (fun _ => false) hashRootStore)
      = some [["mod", "f", "7b3337d59e2b737bfc2c2faddac9f48c"], []] ∧
    inventoryAfter (reduceSize true none (some 0) none (fun _ => false) hashRootStore) = some [⟨[], 37, 500⟩] ∧
    ¬ Sat ([⟨[], 37, 500⟩] : List (Item Path)) ⟨none, some 0, none⟩ := by
  refine ⟨by decide, by decide, ?_⟩
  intro h
  have := h.2.1 0 rfl
  simp at this

/-- END TO END, minimality and order. The `clear_location` calls of `reduce_size` are, in order, the first
`calls.length` entries of the LRU order of the inventory; what is left is the rest of that order; and stopping
any earlier (after `k < calls.length` entries) would have left some limit violated. Same quantifiers as
`reduce_size_limits_hold` (no well-formedness of the limits needed). -/
theorem reduce_size_evicts_minimal_lru_prefix (t t' : Dir) (bytes : Option BytesArg) (b items deadline : Option Int)
    (raises : Path → Bool) (calls : List Path) (hb : resolveBytes bytes = .ok b) (hsep : Separated t)
    (h : reduceSize true bytes items deadline raises t = .returned t' calls) :
    calls = ((sortByAccess (getItems t)).take calls.length).map (·.id) ∧
    (getItems t').Perm ((sortByAccess (getItems t)).drop calls.length) ∧
    ∀ k, k < calls.length → ¬ Sat ((sortByAccess (getItems t)).drop k) ⟨b, items, deadline⟩ := by
  obtain ⟨hperm, hc⟩ := reduce_size_inventory_after t t' bytes b items deadline raises calls hb hsep h
  have hlen : calls.length = (itemsToDelete (getItems t) ⟨b, items, deadline⟩).length := by
    rw [hc, List.length_map]
  obtain ⟨r, hr⟩ := itemsToDelete_prefix (getItems t) ⟨b, items, deadline⟩
  refine ⟨?_, ?_, ?_⟩
  · rw [hlen, ← hr, List.take_left', ← hc]
    rfl
  · rw [hlen]; exact hperm
  · intro k hk
    exact minimal (getItems t) _ k (hlen ▸ hk)

/-- Without the hypothesis `Separated` the end-to-end minimality is FALSE of the code. Witness: the cached function
is called `deadbeefdeadbeefdeadbeefdeadbeef`; its function directory (holding `func_code.py`, last listed before
the three entries were last read) matches `[a-f0-9]{32}` and is inventoried as a fourth item; `items_limit=3` — which
the three entries already meet — selects it as the least recently used item, and `rmtree` of the function
directory evicts all three entries. -/
def nestedStore : Dir :=
  .mk "joblib" (some 900) [⟨".gitignore", some 29, some 0⟩] [
    .mk "mod" (some 900) [] [
      .mk "deadbeefdeadbeefdeadbeefdeadbeef" (some 150) [⟨"func_code.py", some 73, some 0⟩] [
        .mk "7b3337d59e2b737bfc2c2faddac9f48c" (some 900)
          [⟨"output.pkl", some 104, some 200⟩, ⟨"metadata.json", some 100, some 0⟩] [],
        .mk "5556f19cc5d04fa9894538e16fcc7603" (some 900)
          [⟨"output.pkl", some 104, some 300⟩, ⟨"metadata.json", some 100, some 0⟩] [],
        .mk "ce2175f47fb032fbcae50bc876000a6f" (some 900)
          [⟨"output.pkl", some 104, some 400⟩, ⟨"metadata.json", some 100, some 0⟩] []]]]

theorem nested_hash_dir_counterexample :
    (getItems nestedStore).length = 4 ∧
    callsOf (reduceSize true none (some 3) none (fun _ => false) nestedStore)
      = some [["mod", "deadbeefdeadbeefdeadbeefdeadbeef"]] ∧
    inventoryAfter (reduceSize true none (some 3) none (fun _ => false) nestedStore) = some [] ∧
    (survivors (getItems nestedStore) ⟨none, some 3, none⟩).length = 3 := by
  decide

/-- `memstr_to_bytes` on the modelled grammar, with a point: sign, integer digits `ip`, `.`, fractional digits `fp`
(not both empty), unit `K|M|G` = `2^k` → exactly `trunc(± (ip·10^|fp| + fp) · 2^k / 10^|fp|)`, i.e. the value
`ip.fp × unit` truncated toward zero, in exact integer arithmetic. -/
theorem memstr_exact (sign : List Char) (neg : Bool) (ip fp : List Char) (u : Char) (k : Nat)
    (hsign : (sign = [] ∧ neg = false) ∨ (sign = ['+'] ∧ neg = false) ∨ (sign = ['-'] ∧ neg = true))
    (hip : ∀ c ∈ ip, isDigit c = true) (hfp : ∀ c ∈ fp, isDigit c = true)
    (hne : ¬ (ip = [] ∧ fp = [])) (hu : unitExp u = some k) :
    memstrChars (sign ++ ip ++ '.' :: fp ++ [u]) =
      .ok (scaled neg (natOfDigits 0 ip * 10 ^ fp.length + natOfDigits 0 fp) fp.length k) := by
  have hassoc : sign ++ ip ++ '.' :: fp ++ [u] = (sign ++ (ip ++ '.' :: fp)) ++ [u] := by simp
  rw [hassoc, memstrChars_concat, hu]
  have hdotA : inAlphabet '.' = true := by decide
  have hall : (sign ++ (ip ++ '.' :: fp)).all inAlphabet = true := by
    simp only [List.all_append, List.all_cons, hdotA, Bool.true_and, Bool.and_eq_true, List.all_eq_true]
    refine ⟨?_, fun c hc => isDigit_inAlphabet (hip c hc), fun c hc => isDigit_inAlphabet (hfp c hc)⟩
    rcases hsign with ⟨rfl, _⟩ | ⟨rfl, _⟩ | ⟨rfl, _⟩ <;> intro c hc <;> simp at hc <;> subst hc <;> decide
  have hpu := parseUnsigned_point ip fp hip hfp hne
  have hpm : parseMantissa (sign ++ (ip ++ '.' :: fp))
      = some (neg, natOfDigits 0 (ip ++ fp), fp.length) := by
    rcases hsign with ⟨rfl, rfl⟩ | ⟨rfl, rfl⟩ | ⟨rfl, rfl⟩
    · rw [List.nil_append, parseMantissa_unsigned, hpu]; · rfl
      intro c hc
      cases ip with
      | nil => simp at hc; subst hc; decide
      | cons d r =>
        simp at hc; subst hc
        have := hip d (by simp)
        constructor <;> (intro h; subst h; revert this; decide)
    · simp [parseMantissa, hpu]
    · simp [parseMantissa, hpu]
  simp only [hall, if_true, hpm, natOfDigits_split]

/-- The same without a point: sign, digits (at least one), unit → `± digits · 2^k`. -/
theorem memstr_exact_int (sign : List Char) (neg : Bool) (ip : List Char) (u : Char) (k : Nat)
    (hsign : (sign = [] ∧ neg = false) ∨ (sign = ['+'] ∧ neg = false) ∨ (sign = ['-'] ∧ neg = true))
    (hip : ∀ c ∈ ip, isDigit c = true) (hne : ip ≠ []) (hu : unitExp u = some k) :
    memstrChars (sign ++ ip ++ [u]) = .ok (scaled neg (natOfDigits 0 ip) 0 k) := by
  rw [memstrChars_concat, hu]
  have hall : (sign ++ ip).all inAlphabet = true := by
    simp only [List.all_append, Bool.and_eq_true, List.all_eq_true]
    refine ⟨?_, fun c hc => isDigit_inAlphabet (hip c hc)⟩
    rcases hsign with ⟨rfl, _⟩ | ⟨rfl, _⟩ | ⟨rfl, _⟩ <;> intro c hc <;> simp at hc <;> subst hc <;> decide
  have hpu := parseUnsigned_int ip hip hne
  have hpm : parseMantissa (sign ++ ip) = some (neg, natOfDigits 0 ip, 0) := by
    rcases hsign with ⟨rfl, rfl⟩ | ⟨rfl, rfl⟩ | ⟨rfl, rfl⟩
    · rw [List.nil_append, parseMantissa_unsigned, hpu]; · rfl
      intro c hc
      cases ip with
      | nil => exact absurd rfl hne
      | cons d r =>
        simp at hc; subst hc
        have := hip d (by simp)
        constructor <;> (intro h; subst h; revert this; decide)
    · simp [parseMantissa, hpu]
    · simp [parseMantissa, hpu]
  simp only [hall, if_true, hpm]

/-- `scaled` IS truncation toward zero of `± n · 2^k / 10^f`. -/
theorem scaled_is_trunc (neg : Bool) (n f k : Nat) :
    scaled neg n f k = Int.tdiv ((if neg then -1 else 1) * ((n * 2 ^ k : Nat) : Int)) ((10 ^ f : Nat) : Int) := by
  cases neg
  · simp only [scaled, Bool.false_eq_true, if_false, Int.one_mul]
    rw [← Int.ofNat_tdiv]
  · simp only [scaled, if_true, Int.neg_mul, Int.one_mul, Int.neg_tdiv]
    rw [← Int.ofNat_tdiv]

/-- The arithmetic core of "the float computation gives the exact value" (header of `StoreLimits.lean`): let
`x = p/q` be ANY rational — in the code the double `float(text[:-1])` — whose distance from the mantissa `n/10^f`,
scaled by the unit `2^k`, is below `10^-f` (`|p·10^f − n·q| · 2^k < q`; for the correctly rounded double this follows
from `n · 2^k < 2^53`). If `2^k · n/10^f` is not an integer, `int(2^k · x)` is the model's value. (If it is an
integer below `2^53`, the mantissa is itself a double and `x` is exact.) The IEEE rounding bound is the one step
left to the correspondence. -/
theorem memstr_float_margin (n f k p q : Nat) (hnonint : (n * 2 ^ k) % 10 ^ f ≠ 0)
    (herr1 : p * 2 ^ k * 10 ^ f < n * 2 ^ k * q + q) (herr2 : n * 2 ^ k * q < p * 2 ^ k * 10 ^ f + q) :
    scaled false n f k = ((p * 2 ^ k / q : Nat) : Int) := by
  simp only [scaled, Bool.false_eq_true, if_false]
  rw [trunc_robust (n * 2 ^ k) (10 ^ f) (p * 2 ^ k) q (Nat.pow_pos (by decide)) hnonint herr1 herr2]

/-- Non-vacuity: `'0.1K'`; the double nearest to 0.1 is 3602879701896397 / 2^55; 102.4 truncates to 102 either way. -/
example : scaled false 1 1 10 = ((3602879701896397 * 2 ^ 10 / 2 ^ 55 : Nat) : Int) :=
  memstr_float_margin 1 1 10 3602879701896397 (2 ^ 55) (by decide) (by decide) (by decide)

/-- A string whose last character is not `K`, `M` or `G` is a `ValueError`, whatever precedes it (also characters
outside the modelled alphabet); the empty string is an `IndexError`. -/
theorem memstr_rejects_bad_unit (m : List Char) (u : Char) (hu : u ≠ 'K' ∧ u ≠ 'M' ∧ u ≠ 'G') :
    memstrChars (m ++ [u]) = .valueError ∧ memstrChars [] = .indexError := by
  refine ⟨?_, rfl⟩
  rw [memstrChars_concat]
  simp [unitExp, hu.1, hu.2.1, hu.2.2]

/-- A malformed mantissa over the modelled alphabet is a `ValueError` too (here: the witnesses of the harness's
malformed stream), and `reduce_size` then raises before the store is read. -/
theorem memstr_rejects_malformed :
    memstrToBytes "K" = .valueError ∧ memstrToBytes "1.2.3K" = .valueError ∧ memstrToBytes "--1K" = .valueError ∧
    memstrToBytes ".K" = .valueError ∧ memstrToBytes "+K" = .valueError ∧ memstrToBytes "10" = .valueError ∧
    memstrToBytes "1k" = .valueError ∧ memstrToBytes "" = .indexError ∧ memstrToBytes "1 K" = .outside := by
  decide

/-- No limit given (all three `None`), or `Memory(location=None)`: nothing is called, the store is unchanged —
whatever the tree, the fault pattern and (without a backend) the arguments. -/
theorem no_limits_no_change (t : Dir) (raises : Path → Bool) (bytes : Option BytesArg) (items deadline : Option Int) :
    reduceSize true none none none raises t = .returned t [] ∧
    reduceSize false bytes items deadline raises t = .returned t [] := by
  constructor <;> simp [reduceSize]

/-- Limits already met by the inventory: no `clear_location` call at all, the tree is returned as it was. -/
theorem satisfied_store_untouched (t : Dir) (bytes : Option BytesArg) (b items deadline : Option Int)
    (raises : Path → Bool) (hb : resolveBytes bytes = .ok b)
    (hsat : Sat (sortByAccess (getItems t)) ⟨b, items, deadline⟩) :
    reduceSize true bytes items deadline raises t = .returned t [] := by
  unfold reduceSize
  simp only [Bool.not_true, Bool.false_eq_true, if_false]
  split
  · rfl
  · unfold enforceStoreLimits
    rw [hb]
    simp only [satisfied_evicts_nothing (getItems t) _ hsat, enforceLoop]

/-! ## What an observer sees of the deletion loop: interruption after `k` removals; histories on one `Memory` object

"Entries are evicted strictly from least to most recently accessed" is a statement about the ORDER of the removals,
which a completed `reduce_size` does not show (the selected set alone fixes the final state) but an interruption
does: Ctrl-C (`KeyboardInterrupt`), `MemoryError`, an exception of a custom backend's `clear_location` that is no
`OSError`, a crash. `reduceSizeInt … (some k)` is `reduce_size` whose `clear_location` call number `k` raises such
an exception. -/

/-- INTERRUPTION. Whenever the deletion loop is left by an exception at call number `k` — for EVERY `k`, every tree
without nested hash directories, every limits, every `OSError` fault pattern of the calls before — exactly the `k`
least recently used entries are gone: the inventory left is the LRU order without its first `k` entries, and the
calls started are the first `k + 1` entries of that order. What has been removed so far is always a prefix of the LRU
order (and, by `deleted_is_prefix` / `minimal`, a prefix of the minimal one: `k` is below the selection's length). -/
theorem interrupted_eviction_is_lru_prefix (t t' : Dir) (bytes : Option BytesArg) (b items deadline : Option Int)
    (raises : Path → Bool) (k : Nat) (calls : List Path) (hb : resolveBytes bytes = .ok b) (hsep : Separated t)
    (h : reduceSizeInt true bytes items deadline raises (some k) t = .interrupted t' calls) :
    k < (itemsToDelete (getItems t) ⟨b, items, deadline⟩).length ∧
    calls = ((sortByAccess (getItems t)).take (k + 1)).map (·.id) ∧
    (getItems t').Perm ((sortByAccess (getItems t)).drop k) := by
  obtain ⟨hne, hpw⟩ := separated_items hsep
  unfold reduceSizeInt at h
  simp only [Bool.not_true, Bool.false_eq_true, if_false] at h
  split at h
  · cases h
  · unfold enforceStoreLimitsInt at h
    simp only [hb, enforceLoopInt_eq, List.nil_append] at h
    obtain ⟨r, hr⟩ := itemsToDelete_prefix (getItems t) ⟨b, items, deadline⟩
    generalize hsel : itemsToDelete (getItems t) ⟨b, items, deadline⟩ = sel at h hr ⊢
    by_cases hk : k < sel.length
    · simp only [hk, decide_true] at h
      injection h with h1 h2
      have htk : (sortByAccess (getItems t)).take k = sel.take k := by
        rw [← hr, List.take_append_of_le_length (Nat.le_of_lt hk)]
      have htk1 : (sortByAccess (getItems t)).take (k + 1) = sel.take (k + 1) := by
        rw [← hr, List.take_append_of_le_length hk]
      refine ⟨hk, by rw [htk1]; exact h2.symm, ?_⟩
      have hmem : ∀ s ∈ sel.take k, s ∈ getItems t := fun s hs =>
        (sortByAccess_perm (getItems t)).mem_iff.mp (by rw [← hr]; exact List.mem_append_left _ (List.mem_of_mem_take hs))
      rw [← h1, getItems_clearAll _ _ (fun s hs => hne s (hmem s hs))]
      refine filter_keeps_perm_split (getItems t) (sel.take k) _ ?_ hpw
      rw [← htk]; exact List.take_append_drop k _
    · simp only [hk, decide_false] at h
      cases h

/-- Every `k` below the number of selected entries IS an interruption point (the theorem above is not vacuous), and
an interruption scheduled later never happens: the call completes exactly as `reduce_size` does. -/
theorem interruption_points (t : Dir) (bytes : Option BytesArg) (b items deadline : Option Int)
    (raises : Path → Bool) (k : Nat) (hb : resolveBytes bytes = .ok b)
    (hlim : (bytes.isNone && items.isNone && deadline.isNone) = false) :
    (k < (itemsToDelete (getItems t) ⟨b, items, deadline⟩).length →
      ∃ t' calls, reduceSizeInt true bytes items deadline raises (some k) t = .interrupted t' calls) ∧
    ((itemsToDelete (getItems t) ⟨b, items, deadline⟩).length ≤ k →
      reduceSizeInt true bytes items deadline raises (some k) t
        = .ofOutcome (reduceSize true bytes items deadline raises t)) := by
  unfold reduceSizeInt reduceSize enforceStoreLimitsInt enforceStoreLimits
  simp only [Bool.not_true, Bool.false_eq_true, if_false, hlim, hb, enforceLoopInt_eq, enforceLoop_eq,
    List.nil_append]
  constructor
  · intro hk
    simp only [hk, decide_true]
    exact ⟨_, _, rfl⟩
  · intro hk
    have hk' : ¬ k < (itemsToDelete (getItems t) ⟨b, items, deadline⟩).length := by omega
    simp only [hk', decide_false, OutcomeI.ofOutcome]
    rw [List.take_of_length_le hk, List.take_of_length_le (by omega)]

/-- HISTORIES. `reduce_size` is a function of the store AS IT IS NOW: after ANY history on the same `Memory` object —
earlier `reduce_size` calls (completed, faulted or interrupted) interleaved with arbitrary changes of the tree made
behind its back (`Op.change f`: entries recomputed with another size after `MemorizedFunc.clear()` or a code change,
rewritten in place by `MemorizedFunc.call()`, removed by another `Memory` object or by hand, read, added) — a
`reduce_size` call is the call on the tree the history left, so its guarantees are about THAT tree's inventory:
the limits hold for the sizes and access times the directory has now, and the evicted entries are the minimal prefix
of the CURRENT LRU order. (In the model this is immediate — the model's only state is the tree, as the code's is:
`get_items` walks and stats the directory at every call; the harness ties it to the code over such histories.) -/
theorem reduce_size_history_independent (h : List Op) (t0 t' : Dir) (bytes : Option BytesArg)
    (b items deadline : Option Int) (raises : Path → Bool) (calls : List Path)
    (hb : resolveBytes bytes = .ok b) (hsep : Separated (runOps h t0))
    (hr : reduceAfter h t0 bytes items deadline raises none = .returned t' calls) :
    reduceSize true bytes items deadline raises (runOps h t0) = .returned t' calls ∧
    (WF ⟨b, items, deadline⟩ → Sat (getItems t') ⟨b, items, deadline⟩) ∧
    calls = ((sortByAccess (getItems (runOps h t0))).take calls.length).map (·.id) ∧
    (getItems t').Perm ((sortByAccess (getItems (runOps h t0))).drop calls.length) ∧
    ∀ k, k < calls.length → ¬ Sat ((sortByAccess (getItems (runOps h t0))).drop k) ⟨b, items, deadline⟩ := by
  unfold reduceAfter at hr
  rw [reduceSizeInt_none] at hr
  have hr' := ofOutcome_returned hr
  obtain ⟨h1, h2, h3⟩ := reduce_size_evicts_minimal_lru_prefix _ t' bytes b items deadline raises calls hb hsep hr'
  exact ⟨hr', fun hwf => reduce_size_limits_hold_separated _ t' bytes b items deadline raises calls hb hwf hsep hr',
    h1, h2, h3⟩

/-! Non-vacuity: concrete inventories meet the hypotheses and exercise every limit. -/
def ex : List (Item Nat) := [⟨0, 10, 300⟩, ⟨1, 0, 100⟩, ⟨2, 7, 100⟩, ⟨3, 5, 200⟩]
example : WF ⟨some 12, some 3, some 150⟩ := by
  refine ⟨?_, ?_⟩ <;> intro x h <;> simp at h <;> omega
example : (itemsToDelete ex ⟨some 12, none, none⟩).map (·.id) = [1, 2, 3] := by decide
example : (itemsToDelete ex ⟨none, some 3, none⟩).map (·.id) = [1] := by decide
example : (itemsToDelete ex ⟨none, none, some 150⟩).map (·.id) = [1, 2] := by decide
example : (itemsToDelete ex ⟨some 22, some 4, some 50⟩).map (·.id) = [] := by decide

/-! Non-vacuity of the store-level theorems. One store, two cached functions `f` and `g` called with EQUAL arguments
(equal entry basenames), a name that merely starts with 32 hex digits, a stray directory with 31 digits, a
sub-directory inside an entry (its files do not count), an unreadable entry. -/
def H1 : String := "0123456789abcdef0123456789abcdef"
def H2 : String := "fedcba9876543210fedcba9876543210"
def exStore : Dir :=
  .mk "joblib" (some 900) [⟨".gitignore", some 29, some 0⟩] [
    .mk "f" (some 900) [⟨"func_code.py", some 50, some 0⟩] [
      .mk H1 (some 900) [⟨"output.pkl", some 100, some 300⟩, ⟨"metadata.json", some 20, some 0⟩]
        [.mk "sub" (some 0) [⟨"big", some 5000, some 0⟩] []],
      .mk H2 (some 900) [⟨"output.pkl", some 200, some 100⟩] []],
    .mk "g" (some 900) [⟨"func_code.py", some 50, some 0⟩] [
      .mk H1 (some 900) [⟨"output.pkl", some 300, some 200⟩] [],
      .mk (H2 ++ "_tmp") (some 250) [⟨"metadata.json", some 7, some 0⟩] [],
      .mk "0123456789abcdef0123456789abcde" (some 1) [⟨"output.pkl", some 999, some 1⟩] []]]

example : StatOk exStore := by unfold StatOk; decide
example : Separated exStore := by unfold Separated; decide
example : NoNesting exStore := by unfold NoNesting; decide
example : ¬ NoNesting nestedStore := by unfold NoNesting; decide
example : ¬ Separated nestedStore := by unfold Separated; decide
/-- Two items with the same basename `H1` (under `f` and under `g`), the prefix-named one, not the 31-digit one;
the size of `f/H1` is 120: the 5000 bytes of its sub-directory do not count. -/
example : getItems exStore =
    [⟨["f", H1], 120, 300⟩, ⟨["f", H2], 200, 100⟩, ⟨["g", H1], 300, 200⟩, ⟨["g", H2 ++ "_tmp"], 7, 250⟩] := by
  decide
example : hashPaths exStore = [["f", H1], ["f", H2], ["g", H1], ["g", H2 ++ "_tmp"]] := by decide
/-- A `getsize` that raises hides the whole entry; an unreadable `output.pkl` falls back to the directory. -/
example : getItems (.mk "joblib" (some 9) [] [
    .mk H1 (some 9) [⟨"output.pkl", some 1, some 5⟩, ⟨"x.tmp", none, none⟩] [],
    .mk H2 (some 7) [⟨"output.pkl", some 3, none⟩] [],
    .mk (H2 ++ "0") none [⟨"metadata.json", some 3, some 1⟩] []]) = [⟨[H2], 3, 7⟩] := by decide
/-- items_limit=2 with the stale-handle fault on the FIRST victim: both victims are still attempted, in LRU order,
and two items are left. -/
example : callsOf (reduceSize true none (some 2) none (fun p => p == ["f", H2]) exStore)
    = some [["f", H2], ["g", H1]] := by decide
example : inventoryAfter (reduceSize true none (some 2) none (fun p => p == ["f", H2]) exStore)
    = some [⟨["f", H1], 120, 300⟩, ⟨["g", H2 ++ "_tmp"], 7, 250⟩] := by decide
/-- bytes_limit as a string: `'0.12K'` = 122 bytes (122.88 truncated) → three evictions, every call raising. -/
example : callsOf (reduceSize true (some (.str "0.12K")) none none (fun _ => true) exStore)
    = some [["f", H2], ["g", H1], ["g", H2 ++ "_tmp"]] := by decide
example : resolveBytes (some (.str "0.12K")) = .ok (some 122) := by rfl
example : WF ⟨some 122, some 2, none⟩ := by
  refine ⟨?_, ?_⟩ <;> intro x h <;> simp at h <;> omega
example : callsOf (reduceSize true (some (.str "1.2.3K")) (some 0) none (fun _ => false) exStore) = none := by decide
example : memstrToBytes "1.5K" = .ok 1536 ∧ memstrToBytes "-1.5K" = .ok (-1536) ∧ memstrToBytes "0.001M" = .ok 1048 ∧
    memstrToBytes ".5K" = .ok 512 ∧ memstrToBytes "1.K" = .ok 1024 ∧ memstrToBytes "+2G" = .ok 2147483648 ∧
    memstrToBytes "1.4990234375K" = .ok 1535 ∧ memstrToBytes "-0K" = .ok 0 := by decide
example : callsOf (reduceSize true none none none (fun _ => true) exStore) = some [] := by decide
example : callsOf (reduceSize false none (some 0) none (fun _ => true) exStore) = some [] := by decide

/-- Interruption at call 1 of 3 (`'0.12K'`, the first call raising `OSError`): exactly the least recently used entry
is gone; at call 3 or later the call completes. A history: the entry `f/H2` is rewritten with another size behind the
object's back between two calls — the second call works from the new size. -/
def interruptedAt : OutcomeI → Option (List Path × List (Item Path))
  | .interrupted t c => some (c, getItems t)
  | _ => none
example : interruptedAt (reduceSizeInt true (some (.str "0.12K")) none none (fun p => p == ["f", H2]) (some 1) exStore)
    = some ([["f", H2], ["g", H1]],
        [⟨["f", H1], 120, 300⟩, ⟨["g", H1], 300, 200⟩, ⟨["g", H2 ++ "_tmp"], 7, 250⟩]) := by decide
example : interruptedAt (reduceSizeInt true (some (.str "0.12K")) none none (fun _ => false) (some 3) exStore) = none := by
  decide
example : (getItems (runOps [.reduce none (some 3) none (fun _ => false) none, .change (fun _ => exStore)] exStore)).length
    = 4 := by decide

end C18
