import JoblibProofs.Lemmas.Lru
/-!
# C18 — reduce_size enforces every limit by evicting the minimal LRU prefix

Statement (properties.jsonl): after `Memory.reduce_size(bytes_limit, items_limit, age_limit)`
returns with no concurrent writer, the cache satisfies every limit given; entries are evicted
strictly from least to most recently accessed and none is evicted that did not have to be —
the evicted set is the shortest least-recently-used prefix meeting all limits.

Quantifier reached here: inventories of ANY length, arbitrary sizes (including 0) and access
times (including ties), every combination of the three limits (each absent or any integer).

Model: `JoblibModel.Lru` (`_get_items_to_delete`). The deadline `now - age_limit` is an input.
-/
namespace C18
open JoblibModel.Lru

/-- Limits a caller can meaningfully ask for: non-negative byte and item limits.
(With a negative limit nothing can satisfy it; the code then evicts everything — see
`negative_limit_evicts_all_partial`.) -/
def WF (l : Limits) : Prop :=
  (∀ b, l.bytes = some b → 0 ≤ b) ∧ (∀ n, l.items = some n → 0 ≤ n)

/-- Eviction order is an LRU order: a stable rearrangement of the inventory, non-decreasing in
last access. -/
theorem lru_order (items : List Item) :
    (sortByAccess items).Perm items ∧
    (sortByAccess items).Pairwise (fun a b => a.access ≤ b.access) :=
  ⟨sortByAccess_perm items, sortByAccess_sorted items⟩

/-- The evicted entries are a prefix of the LRU order ("strictly from least to most recently
accessed"). -/
theorem deleted_is_prefix (items : List Item) (l : Limits) :
    itemsToDelete items l <+: sortByAccess items := by
  unfold itemsToDelete
  split
  · exact List.nil_prefix
  · split
    · exact List.nil_prefix
    · obtain ⟨r, h, _⟩ := takeLoop_spec (toDeleteSize items l) (toDeleteItems items l) l.deadline
        (sortByAccess items) 0 0
      exact ⟨r, h.symm⟩

theorem sat_nil (l : Limits) (hwf : WF l) : Sat [] l := by
  refine ⟨fun b hb => ?_, fun n hn => ?_, fun d _ it hit => by simp at hit⟩
  · simpa [total] using hwf.1 b hb
  · simpa using hwf.2 n hn

/-- After the eviction every limit given holds on what is left. -/
theorem limits_hold_after (items : List Item) (l : Limits) (hwf : WF l) :
    Sat (survivors items l) l := by
  unfold survivors itemsToDelete
  split
  · rename_i he
    have : items = [] := by simpa using he
    subst this
    simpa [sortByAccess] using sat_nil l hwf
  · split
    · rename_i _ hn
      simp only [List.length_nil, List.drop_zero]
      simp only [nothingToDo, Bool.and_eq_true, decide_eq_true_eq] at hn
      obtain ⟨⟨h1, h2⟩, h3⟩ := hn
      refine ⟨fun b hb => ?_, fun n hn => ?_, fun d hd it hit => ?_⟩
      · rw [total_perm (sortByAccess_perm items)]
        simp [toDeleteSize, hb] at h1; omega
      · rw [sortByAccess_length]
        simp [toDeleteItems, hn] at h2; omega
      · have hit' : it ∈ items := (sortByAccess_perm items).mem_iff.mp hit
        rw [hd] at h3
        cases hm : minAccess items with
        | none => rw [minAccess_none items hm] at hit'; simp at hit'
        | some m =>
          rw [hm] at h3; simp at h3
          have := minAccess_le items m hm it hit'
          omega
    · obtain ⟨r, h, hb, _⟩ := takeLoop_spec (toDeleteSize items l) (toDeleteItems items l)
        l.deadline (sortByAccess items) 0 0
      generalize hd : takeLoop (toDeleteSize items l) (toDeleteItems items l) l.deadline
        (sortByAccess items) 0 0 = d at h hb
      have hdrop : (sortByAccess items).drop d.length = r := by
        rw [h]; simp
      rw [hdrop]
      cases r with
      | nil => exact sat_nil l hwf
      | cons it r' =>
        obtain ⟨b1, b2, b3⟩ := hb it r' rfl
        have htot : total d + total (it :: r') = total items := by
          rw [← total_append, ← h, total_perm (sortByAccess_perm items)]
        have hlen : d.length + (it :: r').length = items.length := by
          rw [← List.length_append, ← h, sortByAccess_length]
        refine ⟨fun b hb => ?_, fun n hn => ?_, fun dd hdd x hx => ?_⟩
        · simp [toDeleteSize, hb] at b1; omega
        · simp [toDeleteItems, hn] at b2; omega
        · have hs := sortByAccess_sorted items
          rw [h, List.pairwise_append] at hs
          have hfirst : dd < it.access := by simpa [fresh, hdd] using b3
          rcases List.mem_cons.mp hx with rfl | hx'
          · exact hfirst
          · have := (List.pairwise_cons.mp hs.2.1).1 x hx'
            omega

/-- No shorter LRU prefix would do: stopping the eviction after any `k` entries fewer than were
evicted leaves some limit violated. Together with `deleted_is_prefix` and `limits_hold_after`
this is "the shortest least-recently-used prefix meeting all limits". -/
theorem minimal (items : List Item) (l : Limits) (k : Nat)
    (hk : k < (itemsToDelete items l).length) :
    ¬ Sat ((sortByAccess items).drop k) l := by
  unfold itemsToDelete at hk
  split at hk
  · simp at hk
  · split at hk
    · simp at hk
    · obtain ⟨r, h, _, hmin⟩ := takeLoop_spec (toDeleteSize items l) (toDeleteItems items l)
        l.deadline (sortByAccess items) 0 0
      generalize hd : takeLoop (toDeleteSize items l) (toDeleteItems items l) l.deadline
        (sortByAccess items) 0 0 = d at h hk hmin
      have hklen : k < (sortByAccess items).length := by
        rw [h, List.length_append]; omega
      intro hsat
      have hget : (sortByAccess items)[k]? = some (sortByAccess items)[k] :=
        List.getElem?_eq_getElem hklen
      apply hmin k _ hk hget
      have hdrop : (sortByAccess items).drop k
          = (sortByAccess items)[k] :: (sortByAccess items).drop (k + 1) :=
        List.drop_eq_getElem_cons hklen
      have htot := total_take_drop k (sortByAccess items)
      rw [total_perm (sortByAccess_perm items)] at htot
      have hlen : ((sortByAccess items).drop k).length = items.length - k := by
        rw [List.length_drop, sortByAccess_length]
      have hklen' := hklen
      rw [sortByAccess_length] at hklen
      refine ⟨?_, ?_, ?_⟩
      · cases hb : l.bytes with
        | none => simp [toDeleteSize, hb]; exact total_nonneg _
        | some b =>
          have := hsat.1 b hb
          simp [toDeleteSize, hb]; omega
      · cases hn : l.items with
        | none => simp [toDeleteItems, hn]
        | some n =>
          have := hsat.2.1 n hn
          simp [toDeleteItems, hn]; omega
      · cases hdl : l.deadline with
        | none => simp [fresh]
        | some dd =>
          have := hsat.2.2 dd hdl (sortByAccess items)[k]
            (List.mem_drop_iff_getElem.mpr ⟨0, by simpa using hklen', by simp⟩)
          simp only [fresh, decide_eq_true_eq]; exact this

/-- No limit given ⇒ nothing evicted. -/
theorem none_means_no_limit (items : List Item) :
    itemsToDelete items ⟨none, none, none⟩ = [] := by
  unfold itemsToDelete
  split
  · rfl
  · simp [nothingToDo, toDeleteSize, toDeleteItems]

/-- Limits already satisfied ⇒ nothing evicted (no entry "evicted that did not have to be"). -/
theorem satisfied_evicts_nothing (items : List Item) (l : Limits)
    (h : Sat (sortByAccess items) l) : itemsToDelete items l = [] := by
  cases hd : itemsToDelete items l with
  | nil => rfl
  | cons x xs =>
    exact absurd (by simpa using h) (minimal items l 0 (by rw [hd]; simp))

/-- A negative byte or item limit cannot be met; the code evicts everything. -/
theorem negative_limit_evicts_all_partial (items : List Item) (l : Limits)
    (hneg : (∃ b, l.bytes = some b ∧ b < 0) ∨ (∃ n, l.items = some n ∧ n < 0)) :
    survivors items l = [] := by
  cases hs : survivors items l with
  | nil => rfl
  | cons x xs =>
    exfalso
    unfold survivors at hs
    have hpre := deleted_is_prefix items l
    obtain ⟨r, hr⟩ := hpre
    have hdrop : (sortByAccess items).drop (itemsToDelete items l).length = r := by
      rw [← hr]; simp
    rw [hdrop] at hs
    -- the loop stopped at `x`, so the break test held there
    unfold itemsToDelete at hr
    have hne : items ≠ [] := by
      intro h; subst h; simp [sortByAccess] at hr; simp [hr] at hs
    have hne' : items.isEmpty = false := by simpa using hne
    rw [if_neg (by simp [hne'])] at hr
    have htn := total_nonneg
    by_cases hnt : nothingToDo items l = true
    · simp only [nothingToDo, Bool.and_eq_true, decide_eq_true_eq] at hnt
      obtain ⟨⟨h1, h2⟩, _⟩ := hnt
      have hlenpos : 0 < items.length := List.length_pos_iff.mpr hne
      rcases hneg with ⟨b, hb, hb0⟩ | ⟨n, hn, hn0⟩
      · simp [toDeleteSize, hb] at h1; have := htn items; omega
      · simp [toDeleteItems, hn] at h2; omega
    · rw [if_neg hnt] at hr
      obtain ⟨r2, h, hb, _⟩ := takeLoop_spec (toDeleteSize items l) (toDeleteItems items l)
        l.deadline (sortByAccess items) 0 0
      generalize hd : takeLoop (toDeleteSize items l) (toDeleteItems items l) l.deadline
        (sortByAccess items) 0 0 = d at h hb hr
      have : r2 = r := by
        have := hr.trans h
        exact (List.append_cancel_left this).symm
      subst this
      obtain ⟨b1, b2, _⟩ := hb x xs hs
      have htot : total d + total (x :: xs) = total items := by
        rw [← hs, ← total_append, ← h, total_perm (sortByAccess_perm items)]
      have hlen : d.length + (x :: xs).length = items.length := by
        rw [← hs, ← List.length_append, ← h, sortByAccess_length]
      rcases hneg with ⟨b, hb, hb0⟩ | ⟨n, hn, hn0⟩
      · simp [toDeleteSize, hb] at b1; have := htn (x :: xs); omega
      · simp [toDeleteItems, hn] at b2; simp at hlen; omega

/-! Non-vacuity: concrete inventories meet the hypotheses and exercise every limit. -/
def ex : List Item := [⟨0, 10, 300⟩, ⟨1, 0, 100⟩, ⟨2, 7, 100⟩, ⟨3, 5, 200⟩]
example : WF ⟨some 12, some 3, some 150⟩ := by
  refine ⟨?_, ?_⟩ <;> intro x h <;> simp at h <;> omega
example : (itemsToDelete ex ⟨some 12, none, none⟩).map (·.id) = [1, 2, 3] := by decide
example : (itemsToDelete ex ⟨none, some 3, none⟩).map (·.id) = [1] := by decide
example : (itemsToDelete ex ⟨none, none, some 150⟩).map (·.id) = [1, 2] := by decide
example : (itemsToDelete ex ⟨some 22, some 4, some 50⟩).map (·.id) = [] := by decide

end C18
