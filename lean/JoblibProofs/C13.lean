import JoblibProofs.Lemmas.ZlibFile
/-!
# C13 — joblib's compressed file objects behave exactly like a plain byte stream

Statement (properties.jsonl): a file object opened for reading on zlib- or gzip-compressed data through
joblib's compressor classes behaves like a read-only binary stream over the uncompressed bytes: any sequence
of `read(n)`, `read()`, `readinto`, `readline`, `tell` and seeks to positions at or after the start (all three
whence modes, forwards and backwards, past the end clamping to the end) returns the same bytes and positions
as the reference stream. Writing the same bytes in any chunking and at any level yields a stream that the
standard zlib/gzip decoders expand to exactly those bytes.

Quantifier reached here: EVERY payload, EVERY chunking of it into decompressed chunks (any number of chunks,
empty chunks allowed — i.e. every way `zlib.decompressobj` may spread the payload over the 8192-byte raw
blocks, for every compression level), EVERY finite operation sequence over
{read n (n any integer), read(), readinto, readline, tell, seek off whence} in which no seek has a negative
target (`Spec.run … = some …` is exactly that side condition; an invalid `whence` is inside: both sides raise
ValueError). Write side: every chunk sequence, any compressor satisfying the streaming law (the level is a
parameter of the compressor).

Model: `JoblibModel.ZlibFile` — `ZFile` over `chunkSource`; reference stream `Spec` (= `io.BytesIO` with the
documented clamping of seeks past the end). Abstraction: `abs s = (payload, s.pos)`.

Modelled, not verified: the codec (`zlib`): on the read side it only enters through the chunk list, on the
write side through the hypothesis `law` of `write_roundtrip`; `io.BufferedIOBase.readinto` and
`io.IOBase.readline` (C code) as `read(len(b))` / repeated `read(1)`.
-/
namespace C13
open JoblibModel.ZlibFile

/-- Fuel that suffices for any operation on a file with this chunking (the driver uses exactly this). -/
def fuelFor (chunks : List Bytes) : Nat := chunks.length + chunks.flatten.length + 2

/-- REFINEMENT, general form. For any block source `S` that — under a source invariant `G` — delivers some
chunking (≤ `N` chunks) of `payload` after every rewind (`Regular`), and any file-object state `s` satisfying
the invariant `InvAt` (`_pos` = bytes consumed; the rest of the payload = unread part of `_buffer` ++ chunks
still to come): every operation sequence that the reference stream accepts (`Spec.run`) produces on the file
object exactly the reference outputs, ends at the reference position, and re-establishes the invariant —
i.e. every operation commutes with `abs s = (payload, s.pos)`. No operation runs out of fuel. -/
theorem zfile_refines_stream {σ : Type} {S : Source σ} {payload : Bytes} {G : σ → Prop} {N : Nat}
    (hR : Regular S payload G N) {fuel : Nat} (hf : N + payload.length + 2 ≤ fuel)
    (ops : List Op) (s : ZFile σ) (o : Nat) (cs : List Bytes) (pos' : Nat) (outs : List Out)
    (hI : InvAt S payload G N s o cs)
    (hspec : Spec.run payload s.pos ops = some (pos', outs)) :
    ∃ s' o' cs', runOps S fuel s ops = (s', outs) ∧ InvAt S payload G N s' o' cs' ∧ s'.pos = pos' :=
  runOps_refines hR hf ops s o cs pos' outs hI hspec

/-- REFINEMENT for `BinaryZlibFile(fp, "rb")` and EVERY chunking of the payload: a freshly opened file over
the chunk list `chunks` answers every in-scope operation sequence exactly as `io.BytesIO(chunks.flatten)`. -/
theorem zfile_refines_stream_chunks (chunks : List Bytes) (ops : List Op) (pos' : Nat) (outs : List Out)
    {fuel : Nat} (hf : fuelFor chunks ≤ fuel)
    (hspec : Spec.run chunks.flatten 0 ops = some (pos', outs)) :
    (runOps chunkSource fuel (openChunks chunks) ops).2 = outs ∧
    (runOps chunkSource fuel (openChunks chunks) ops).1.pos = pos' := by
  obtain ⟨s', _, _, h1, _, h3⟩ := runOps_refines (chunk_regular chunks) (by unfold fuelFor at hf; omega)
    ops (openChunks chunks) 0 chunks pos' outs (openChunks_inv chunks) hspec
  rw [h1]; exact ⟨rfl, h3⟩

/-- INVARIANT `pos = bytes consumed`: after any in-scope operation sequence on a fresh file, what is left of
the payload after `_pos` is exactly the unread part of `_buffer` followed by the chunks not yet fetched. -/
theorem invariant_preserved (chunks : List Bytes) (ops : List Op) (pos' : Nat) (outs : List Out)
    {fuel : Nat} (hf : fuelFor chunks ≤ fuel)
    (hspec : Spec.run chunks.flatten 0 ops = some (pos', outs)) :
    ∃ (o : Nat) (rest : List Bytes),
      let s := (runOps chunkSource fuel (openChunks chunks) ops).1
      s.bufferOffset = (o : Int) ∧ o ≤ s.buffer.length ∧ s.pos ≤ chunks.flatten.length ∧
      s.src.rest = rest ∧ chunks.flatten.drop s.pos = s.buffer.drop o ++ rest.flatten := by
  obtain ⟨s', o', cs', h1, h2, _⟩ := runOps_refines (chunk_regular chunks) (by unfold fuelFor at hf; omega)
    ops (openChunks chunks) 0 chunks pos' outs (openChunks_inv chunks) hspec
  rw [h1]
  refine ⟨o', s'.src.rest, h2.off, h2.off_le, h2.pos_le, rfl, ?_⟩
  have hy : cs' = s'.src.rest := by
    have : ∀ (c : ChunkSrc) (l : List Bytes), Yields chunkSource c l → l = c.rest := by
      intro c l h
      induction h with
      | eof h => simp only [chunkSource] at h; split at h <;> simp_all
      | chunk h _ ih =>
        simp only [chunkSource] at h
        split at h
        · cases h
        · rename_i heq; cases h; simp_all
    exact this _ _ h2.yields
  rw [← hy]; exact h2.rem

/-- `_size` is known once EOF has been reached: in mode `_MODE_READ_EOF` (in particular after `read()`),
`_size = _pos = len(payload)`; and `_size` is never anything but -1 or the payload length. -/
theorem size_known_at_eof {σ : Type} {S : Source σ} {payload : Bytes} {G : σ → Prop} {N : Nat}
    {s : ZFile σ} {o : Nat} {cs : List Bytes} (hI : InvAt S payload G N s o cs) :
    (s.size = -1 ∨ s.size = (payload.length : Int)) ∧
    (s.mode = .readEof → s.size = (payload.length : Int) ∧ s.pos = payload.length) := by
  refine ⟨hI.size, fun hm => ?_⟩
  obtain ⟨e1, e2, e3⟩ := hI.eof hm
  subst e2
  exact ⟨e3, hI.pos_of_nil e1⟩

/-- `read()` reaches EOF: afterwards the mode is `_MODE_READ_EOF`, so (previous theorem) the size is known. -/
theorem read_all_reaches_eof {σ : Type} {S : Source σ} {payload : Bytes} {G : σ → Prop} {N : Nat}
    (hR : Regular S payload G N) {fuel : Nat} {s : ZFile σ} {o : Nat} {cs : List Bytes}
    (hI : InvAt S payload G N s o cs) (hf : N + 2 ≤ fuel) :
    ∃ s', read S fuel (-1) s = .ok (s', payload.drop s.pos) ∧ s'.mode = .readEof ∧
      s'.size = (payload.length : Int) ∧ s'.pos = payload.length := by
  have := hI.len_le
  obtain ⟨s', o', h1, h2, h3, h4⟩ := readAll_spec (fuel := fuel) hR hI (by omega)
  refine ⟨s', ?_, h3, (h2.eof h3).2.2, h4⟩
  unfold JoblibModel.ZlibFile.read
  rw [checkCanRead_ok hI]
  simpa using h1

/-- WRITE SIDE: writing the chunks `ds` and closing hands the compressor exactly `ds`, in order, one
`compress` call per `write`, followed by exactly one `flush`; the file then contains the compressor's stream
for `ds`, and `tell()` before closing is the total length. -/
theorem write_concat {γ : Type} (C : Compressor γ) (init : γ) (ds : List Bytes) :
    ∃ w, (openWrite init).writeAll C ds = .ok w ∧ w.pos = ds.flatten.length ∧
      (w.close C).handed = ds ∧ (w.close C).flushes = 1 ∧ (w.close C).mode = .closed ∧
      (w.close C).fp = C.stream init ds := by
  obtain ⟨w, h1, h2, h3, h4, h5, h6⟩ := writeAll_spec C ds (openWrite init) rfl
  refine ⟨w, h1, by simpa [openWrite] using h5, ?_, ?_, ?_, ?_⟩
  · simpa [WFile.close, h2, openWrite] using h3
  · simp [WFile.close, h2, h4, openWrite]
  · simp [WFile.close, h2]
  · simpa [WFile.close, h2, openWrite] using h6

/-- With zlib's streaming law as the parameter (`law`: a decoder expands the concatenation of the outputs of
successive `compress` calls and the final `flush` to the concatenation of the inputs), the standard decoder
expands what was written — in ANY chunking — to exactly the bytes written. -/
theorem write_roundtrip {γ : Type} (C : Compressor γ) (init : γ) (decode : Bytes → Option Bytes)
    (law : ∀ ds : List Bytes, decode (C.stream init ds) = some ds.flatten) (ds : List Bytes) :
    ∃ w, (openWrite init).writeAll C ds = .ok w ∧ decode (w.close C).fp = some ds.flatten := by
  obtain ⟨w, h1, _, _, _, _, h6⟩ := write_concat C init ds
  exact ⟨w, h1, by rw [h6]; exact law ds⟩

/-- BYTES AFTER THE END OF THE COMPRESSED STREAM DO NOT CHANGE THE STREAM. `raw` a valid file of payload `p`
(codec law as hypothesis) followed by ANY bytes `t` (padding, the rest of a container, a plausible but wrong size
field): at the raw-block level (`rawSource`: 8192-byte reads of `raw ++ t`, `zlib.decompressobj` with `eof` /
`unused_data`) the file object answers EVERY in-scope operation sequence — in particular seeks relative to the end
issued before the object has seen EOF — exactly as `io.BytesIO(p)`. The size the object uses is the number of
decompressed bytes, never anything read from the file's last bytes. -/
theorem trailing_bytes_same_stream {c : Codec} {raw p : Bytes} {out : Nat → Bytes} (hv : ValidFile c raw p out)
    (t : Bytes) (ops : List Op) (pos' : Nat) (outs : List Out) {fuel : Nat}
    (hf : rawBound (raw ++ t) + p.length + 2 ≤ fuel)
    (hspec : Spec.run p 0 ops = some (pos', outs)) :
    (runOps (rawSource c) fuel (openRaw (raw ++ t)) ops).2 = outs ∧
    (runOps (rawSource c) fuel (openRaw (raw ++ t)) ops).1.pos = pos' := by
  have law := trail_law hv t
  have hp : (if (raw ++ t).length < raw.length then out (raw ++ t).length else p) = p := by
    have : ¬ (raw ++ t).length < raw.length := by simp
    simp only [this, if_false]
  obtain ⟨cs, hI⟩ := openRaw_inv law
  rw [hp] at hI
  have hR := raw_regular law
  rw [hp] at hR
  obtain ⟨s', _, _, h1, _, h3⟩ := runOps_refines hR hf ops (openRaw (raw ++ t)) 0 cs pos' outs hI hspec
  rw [h1]; exact ⟨rfl, h3⟩

theorem Spec.run_snoc (p : Bytes) (op : Op) : ∀ (ops : List Op) (pos pos' pos'' : Nat) (outs : List Out) (o : Out),
    Spec.run p pos ops = some (pos', outs) → Spec.applyOp p pos' op = some (pos'', o) →
    Spec.run p pos (ops ++ [op]) = some (pos'', outs ++ [o]) := by
  intro ops
  induction ops with
  | nil =>
    intro pos pos' pos'' outs o h1 h2
    simp only [Spec.run] at h1
    cases h1
    simp [Spec.run, h2]
  | cons a ops ih =>
    intro pos pos' pos'' outs o h1 h2
    simp only [Spec.run] at h1
    split at h1
    · cases h1
    · rename_i p1 o1 ha
      split at h1
      · cases h1
      · rename_i p2 os hr
        cases h1
        have := ih p1 pos' pos'' os o hr h2
        simp [Spec.run, ha, this]

theorem Spec.seek_end (p : Bytes) (pos k : Nat) (hk : k ≤ p.length) :
    Spec.applyOp p pos (.seek (-(k : Int)) 2) = some (p.length - k, .num (p.length - k)) := by
  simp [Spec.applyOp]
  omega

/-- A SEEK FROM THE END LANDS AT `size - k` IN EVERY STATE OF THE OBJECT. After ANY in-scope operation sequence
(nothing read yet, mid-stream, EOF seen, rewound, …) on ANY chunking — one chunk of megabytes included —
`seek(-k, 2)` with `k ≤ size` returns `len(payload) - k`: the size is the full decompressed length whatever
the history, and whatever the number of decompressed bytes one raw block expands to. -/
theorem seek_end_in_every_state (chunks : List Bytes) (ops : List Op) (pos' : Nat) (outs : List Out) (k : Nat)
    (hk : k ≤ chunks.flatten.length) {fuel : Nat} (hf : fuelFor chunks ≤ fuel)
    (hspec : Spec.run chunks.flatten 0 ops = some (pos', outs)) :
    (runOps chunkSource fuel (openChunks chunks) (ops ++ [.seek (-(k : Int)) 2])).2 =
      outs ++ [.num (chunks.flatten.length - k)] ∧
    (runOps chunkSource fuel (openChunks chunks) (ops ++ [.seek (-(k : Int)) 2])).1.pos =
      chunks.flatten.length - k := by
  have h2 := Spec.seek_end chunks.flatten pos' k hk
  exact zfile_refines_stream_chunks chunks _ _ _ hf (Spec.run_snoc _ _ ops 0 pos' _ outs _ hspec h2)

/-! Non-vacuity: a concrete chunking with an empty chunk, reads across chunk boundaries, a backward seek
(rewind) and a seek past the end; the reference stream accepts the sequence and the hypotheses hold. -/
def exChunks : List Bytes := [[97, 98, 10], [], [99, 100], [10, 101]]
def exOps : List Op := [.readline, .read 3, .tell, .seek (-5) 1, .readinto 2, .seek 100 0, .read (-1), .seek (-2) 2,
  .readline]

example : Spec.run exChunks.flatten 0 exOps =
    some (6, [.bytes [97, 98, 10], .bytes [99, 100, 10], .num 6, .num 1, .into [98, 10], .num 7, .bytes [],
              .num 5, .bytes [10]]) := by decide
example : (runOps chunkSource (fuelFor exChunks) (openChunks exChunks) exOps).2 =
    [.bytes [97, 98, 10], .bytes [99, 100, 10], .num 6, .num 1, .into [98, 10], .num 7, .bytes [],
     .num 5, .bytes [10]] := by decide +kernel
/-- A seek with a negative target is outside the property (the reference run is `none`). -/
example : Spec.run exChunks.flatten 0 [.seek (-1) 0] = none := by decide
/-- …and there the real code (and the model) indeed misbehave: after `seek(-3, 0)` a `read(2)` returns `b''`
although the stream is at position 0 (`_buffer_offset` is left negative). Not a C13 violation: out of scope. -/
example : (runOps chunkSource (fuelFor exChunks) (openChunks exChunks) [.seek (-3) 0, .read 2, .tell]).2 =
    [.num 0, .bytes [], .num 0] := by decide +kernel

end C13
