import JoblibProofs.Lemmas.FilterArgs
/-!
# C07 — argument canonicalisation binds parameters exactly as Python does

Statement (properties.jsonl): for every Python function signature — positional-only,
positional-or-keyword, `*args`, keyword-only and `**kwargs` parameters, each with or without a
default, and bound methods — and every call that Python accepts, joblib's `filter_args` (which keys
the `Memory` cache) succeeds and maps each parameter name to the value Python would bind to it, with
surplus positionals and keywords under `'*'` and `'**'`. Removing names via the ignore list removes
exactly those entries.

Quantifier reached here: signatures of ANY length (induction over the parameter list, not
enumeration), any mix of the five kinds that `inspect.Signature` can hold (`WF`), any defaults, any
number of positional arguments, any keyword dict (`CallWF`: distinct keys), any ignore list.
properties.jsonl asks for "up to 5 parameters"; the harness enumerates that slice exhaustively
against the real code and the theorems extend it to every length.

Model: `JoblibModel.FilterArgs`.
* `filterArgs`, `filterArgsMethod` transcribe `filter_args` WITH `fixes/F02-F05-filter-args.diff`.
* `bind` is Python's binding (the specification; validated by the harness against really calling
  generated functions and against `inspect.Signature.bind`), `rename` puts it in `filter_args`'
  output format, `SameDict` is `==` of the two dicts (order-insensitive, also inside `'**'`).
* `filterArgsOld` transcribes the pinned tree. For it the statement is FALSE — section `Old` keeps
  the four defect shapes F2–F5 of DESIGN §7 machine-checked.

Values are abstract ids in the model, so the theorems say nothing about code that inspects a value
(`default != empty`, `if value:`); that the implementation never does is an assumption of the model,
checked by the correspondence stream with identity-compared exotic objects (harness/props/c07.py).

Not claimed: that `filter_args` rejects every call Python rejects. It does not, before or after the
fix (`lenient_too_many_positionals`, `lenient_multiple_values`), and the property does not ask for it.
-/
namespace C07
open JoblibModel.FilterArgs

/-- **Main theorem.** For every well-formed signature (any length) and every call Python accepts
(`bind` succeeds with mapping `b`), `filter_args` with an empty ignore list succeeds and its result
is, as a dict, Python's mapping with the `*args` / `**kwargs` parameters filed under `'*'` / `'**'`. -/
theorem filterArgs_eq_bind (s : Sig) (c : Call) (b : List (Nat × Val))
    (hs : WF s) (hc : CallWF c) (hb : bind s c = .ok b) :
    ∃ d, filterArgs s [] c = .ok d ∧ SameDict d (rename s b) :=
  core_eq_bind hs (walkOK_walk hs) hc hb

/-- The same for a bound method `obj.m`: `selfP` is the first parameter of `m.__func__` (positional,
no default), `s` the rest of its signature; Python binds `obj.m(*a, **k)` as `m.__func__(obj, *a, **k)`
(`bindMethod`), and `filter_args` files `obj` under the name of `selfP`. -/
theorem filterArgsMethod_eq_bind (selfP : Param) (selfV : Nat) (s : Sig) (c : Call)
    (b : List (Nat × Val)) (hs : WF (selfP :: s)) (hself : selfP.positional = true)
    (hd : selfP.default = none) (hc : CallWF c) (hb : bindMethod selfP selfV s c = .ok b) :
    ∃ d, filterArgsMethod selfP selfV s [] c = .ok d ∧ SameDict d (rename (selfP :: s) b) :=
  core_eq_bind hs (walkOK_method hs hself hd) hc hb

/-- The result never has two entries for one key, whatever the signature, call and ignore list: the
association list IS a dict, so `SameDict` is dict equality. -/
theorem keys_nodup (s : Sig) (ig : List Key) (c : Call) (d : Dict)
    (h : filterArgs s ig c = .ok d) : (d.map Prod.fst).Nodup :=
  core_nodup h

/-- Python's mapping in `filter_args`' format has distinct keys as well. -/
theorem bound_keys_nodup (s : Sig) (c : Call) (b : List (Nat × Val))
    (hs : WF s) (hc : CallWF c) (hb : bind s c = .ok b) :
    ((rename s b).map Prod.fst).Nodup := by
  obtain ⟨d, hd, d', hp, he⟩ := filterArgs_eq_bind s c b hs hc hb
  rw [← he.keys]
  exact ((hp.map Prod.fst).nodup_iff).mp (keys_nodup s [] c d hd)

/-- **The ignore list removes exactly the named entries.** If the call canonicalises to `d₀` without
an ignore list, then with ignore list `ig` the result is `d₀` minus the keys in `ig` — and
`filter_args` succeeds iff `ig` has no repetition and names only keys of `d₀` (parameter names,
`'*'`, `'**'`). -/
theorem ignore_removes_exactly (s : Sig) (ig : List Key) (c : Call) (d₀ d : Dict)
    (h₀ : filterArgs s [] c = .ok d₀) :
    filterArgs s ig c = .ok d ↔
      ig.Nodup ∧ (∀ k ∈ ig, k ∈ d₀.map Prod.fst) ∧ d = d₀.filter (fun e => decide (e.1 ∉ ig)) := by
  have hn := keys_nodup s [] c d₀ h₀
  unfold filterArgs at h₀ ⊢
  rw [core_nil_ignore, h₀]
  exact ignoreLoop_ok_iff hn ig d

/-- When the ignore list is what makes `filter_args` fail, the failure is the
"argument is not defined" `ValueError`. -/
theorem ignore_failure_is_undefined (s : Sig) (ig : List Key) (c : Call) (d₀ : Dict) (e : Err)
    (h₀ : filterArgs s [] c = .ok d₀) (h : filterArgs s ig c = .error e) : e = .ignoreUndefined := by
  unfold filterArgs at h₀ h
  rw [core_nil_ignore, h₀] at h
  exact ignoreLoop_error h

/-- **The `Memory` wrapper accepts every call the function accepts.** For a call Python accepts and
an ignore list without repetition naming only parameters of the function (`'*'` / `'**'` for the
variadic ones), `filter_args` succeeds, and its result is Python's mapping minus the ignored keys. -/
theorem wrapper_accepts (s : Sig) (c : Call) (b : List (Nat × Val)) (ig : List Key)
    (hs : WF s) (hc : CallWF c) (hb : bind s c = .ok b)
    (hig : ig.Nodup) (hkeys : ∀ k ∈ ig, k ∈ (rename s b).map Prod.fst) :
    ∃ d, filterArgs s ig c = .ok d ∧
      SameDict d ((rename s b).filter (fun e => decide (e.1 ∉ ig))) := by
  obtain ⟨d₀, h₀, d', hp, he⟩ := filterArgs_eq_bind s c b hs hc hb
  refine ⟨d₀.filter (fun e => decide (e.1 ∉ ig)), ?_, d'.filter (fun e => decide (e.1 ∉ ig)),
    hp.filter _, he.filter (fun k => decide (k ∉ ig))⟩
  rw [ignore_removes_exactly s ig c d₀ _ h₀]
  refine ⟨hig, fun k hk => ?_, rfl⟩
  have : k ∈ d'.map Prod.fst := by rw [he.keys]; exact hkeys k hk
  exact (hp.map Prod.fst).mem_iff.mpr this

/-- The converse on the errors that matter: `filter_args` (no ignore list) raises only on calls
Python itself rejects. -/
theorem error_implies_python_rejects (s : Sig) (c : Call) (e : Err)
    (hs : WF s) (hc : CallWF c) (h : filterArgs s [] c = .error e) : ∃ e', bind s c = .error e' := by
  cases hb : bind s c with
  | error e' => exact ⟨e', rfl⟩
  | ok b =>
    obtain ⟨d, hd, _⟩ := filterArgs_eq_bind s c b hs hc hb
    rw [hd] at h; cases h

/-! ## Non-vacuity: the hypotheses hold for a signature using all five kinds

`def f(a, /, b=11, *args, c=12, d, **kw)` called as `f(1, 2, 3, 4, d=5, x=6)`;
names: a=0 b=1 args=2 c=3 d=4 kw=5, x=23. -/
def sigEx : Sig :=
  [⟨0, .posOnly, none⟩, ⟨1, .posKw, some 11⟩, ⟨2, .varPos, none⟩, ⟨3, .kwOnly, some 12⟩,
   ⟨4, .kwOnly, none⟩, ⟨5, .varKw, none⟩]
def callEx : Call := ⟨[1, 2, 3, 4], [(23, 6), (4, 5)]⟩

example : WF sigEx := by decide
example : CallWF callEx := by decide
example : bind sigEx callEx =
    .ok [(0, .one 1), (1, .one 2), (2, .seq [3, 4]), (3, .one 12), (4, .one 5), (5, .map [(23, 6)])] := by
  decide
example : filterArgs sigEx [] callEx =
    .ok [(.name 0, .one 1), (.name 1, .one 2), (.name 3, .one 12), (.name 4, .one 5),
         (.dstar, .map [(23, 6)]), (.star, .seq [3, 4])] := by decide
example : filterArgs sigEx [.star, .name 1] callEx =
    .ok [(.name 0, .one 1), (.name 3, .one 12), (.name 4, .one 5), (.dstar, .map [(23, 6)])] := by
  decide
/-- A keyword naming a positional-only parameter goes to `**kw` (Python accepts `f(a=7)` here). -/
example : filterArgs [⟨0, .posOnly, some 10⟩, ⟨1, .varKw, none⟩] [] ⟨[], [(0, 7)]⟩ =
    .ok [(.name 0, .one 10), (.dstar, .map [(0, 7)])] := by decide
/-- A bound method `def m(self, x, y=3)`, `obj.m(1)` (self=18, obj=999). -/
example : filterArgsMethod ⟨18, .posKw, none⟩ 999 [⟨0, .posKw, none⟩, ⟨1, .posKw, some 3⟩] [] ⟨[1], []⟩ =
    .ok [(.name 18, .one 999), (.name 0, .one 1), (.name 1, .one 3)] := by decide

/-! ## What is NOT claimed: `filter_args` is lenient on two kinds of calls Python rejects
(unchanged by the fix; the property is about accepted calls only). -/

/-- `def f(a)`, `f(1, 2)`: Python raises TypeError, `filter_args` drops the surplus positional. -/
theorem lenient_too_many_positionals :
    bind [⟨0, .posKw, none⟩] ⟨[1, 2], []⟩ = .error .tooManyPositional ∧
    filterArgs [⟨0, .posKw, none⟩] [] ⟨[1, 2], []⟩ = .ok [(.name 0, .one 1)] := by decide

/-- `def f(a)`, `f(1, a=2)`: Python raises TypeError, `filter_args` lets the keyword win. -/
theorem lenient_multiple_values :
    bind [⟨0, .posKw, none⟩] ⟨[1], [(0, 2)]⟩ = .error .multipleValues ∧
    filterArgs [⟨0, .posKw, none⟩] [] ⟨[1], [(0, 2)]⟩ = .ok [(.name 0, .one 2)] := by decide

/-! ## Old — the pinned tree before `fixes/F02-F05-filter-args.diff`

`filterArgsOld` transcribes `filter_args` as it was. Each theorem states what Python binds and what
the old code returned, on the witnesses of DESIGN §7 (F2–F5); `old_filterArgs_eq_bind_false` is the
negation of the main theorem for the old code. The harness replays the same witnesses on the real
function (corpus cases, run first). -/
section Old

/-- F2: `def f(a, /, b)`, `f(1, 2)` — the positional-only parameter is skipped and `b` gets the
value of `a`. -/
theorem old_F2_positional_only_dropped :
    WF [⟨0, .posOnly, none⟩, ⟨1, .posKw, none⟩] ∧
    bind [⟨0, .posOnly, none⟩, ⟨1, .posKw, none⟩] ⟨[1, 2], []⟩ = .ok [(0, .one 1), (1, .one 2)] ∧
    filterArgsOld [⟨0, .posOnly, none⟩, ⟨1, .posKw, none⟩] [] ⟨[1, 2], []⟩ = .ok [(.name 1, .one 1)] := by
  decide

/-- F2 (second shape): `def f(a, /)` — every call gets the same, empty key. -/
theorem old_F2_positional_only_empty_key :
    filterArgsOld [⟨0, .posOnly, none⟩] [] ⟨[1], []⟩ = .ok [] ∧
    filterArgsOld [⟨0, .posOnly, none⟩] [] ⟨[2], []⟩ = .ok [] := by decide

/-- F3: `def f(a=10, b=11, *, c, d=20)`, `f(1, c=0)` — `b` gets the default of `a`. -/
theorem old_F3_wrong_default :
    WF [⟨0, .posKw, some 10⟩, ⟨1, .posKw, some 11⟩, ⟨2, .kwOnly, none⟩, ⟨3, .kwOnly, some 20⟩] ∧
    bind [⟨0, .posKw, some 10⟩, ⟨1, .posKw, some 11⟩, ⟨2, .kwOnly, none⟩, ⟨3, .kwOnly, some 20⟩]
        ⟨[1], [(2, 0)]⟩
      = .ok [(0, .one 1), (1, .one 11), (2, .one 0), (3, .one 20)] ∧
    filterArgsOld [⟨0, .posKw, some 10⟩, ⟨1, .posKw, some 11⟩, ⟨2, .kwOnly, none⟩, ⟨3, .kwOnly, some 20⟩]
        [] ⟨[1], [(2, 0)]⟩
      = .ok [(.name 0, .one 1), (.name 1, .one 10), (.name 2, .one 0), (.name 3, .one 20)] := by
  decide

/-- F4: `def f(a, *args, k=0)`, `f(1, 2, 3)` — rejected ("keyword-only passed as positional"). -/
theorem old_F4_varargs_keyword_only_rejected :
    WF [⟨0, .posKw, none⟩, ⟨1, .varPos, none⟩, ⟨2, .kwOnly, some 0⟩] ∧
    bind [⟨0, .posKw, none⟩, ⟨1, .varPos, none⟩, ⟨2, .kwOnly, some 0⟩] ⟨[1, 2, 3], []⟩
      = .ok [(0, .one 1), (1, .seq [2, 3]), (2, .one 0)] ∧
    filterArgsOld [⟨0, .posKw, none⟩, ⟨1, .varPos, none⟩, ⟨2, .kwOnly, some 0⟩] [] ⟨[1, 2, 3], []⟩
      = .error .kwOnlyAsPositional := by
  decide

/-- F5: `def f(a, *, b=1, c)`, `f(0, c=5)` — rejected ("wrong number of arguments"). -/
theorem old_F5_required_keyword_only_after_default_rejected :
    WF [⟨0, .posKw, none⟩, ⟨1, .kwOnly, some 1⟩, ⟨2, .kwOnly, none⟩] ∧
    bind [⟨0, .posKw, none⟩, ⟨1, .kwOnly, some 1⟩, ⟨2, .kwOnly, none⟩] ⟨[0], [(2, 5)]⟩
      = .ok [(0, .one 0), (1, .one 1), (2, .one 5)] ∧
    filterArgsOld [⟨0, .posKw, none⟩, ⟨1, .kwOnly, some 1⟩, ⟨2, .kwOnly, none⟩] [] ⟨[0], [(2, 5)]⟩
      = .error .wrongNumber := by
  decide

/-- The main theorem is false of the old code. -/
theorem old_filterArgs_eq_bind_false :
    ¬ ∀ (s : Sig) (c : Call) (b : List (Nat × Val)), WF s → CallWF c → bind s c = .ok b →
        ∃ d, filterArgsOld s [] c = .ok d ∧ SameDict d (rename s b) := by
  intro h
  obtain ⟨d, hd, _⟩ := h _ ⟨[1, 2, 3], []⟩ _ old_F4_varargs_keyword_only_rejected.1 (by decide)
    old_F4_varargs_keyword_only_rejected.2.1
  rw [old_F4_varargs_keyword_only_rejected.2.2] at hd
  cases hd

/-- The repaired function on the same four witnesses. -/
theorem fixed_on_the_witnesses :
    filterArgs [⟨0, .posOnly, none⟩, ⟨1, .posKw, none⟩] [] ⟨[1, 2], []⟩
      = .ok [(.name 0, .one 1), (.name 1, .one 2)] ∧
    filterArgs [⟨0, .posKw, some 10⟩, ⟨1, .posKw, some 11⟩, ⟨2, .kwOnly, none⟩, ⟨3, .kwOnly, some 20⟩]
        [] ⟨[1], [(2, 0)]⟩
      = .ok [(.name 0, .one 1), (.name 1, .one 11), (.name 2, .one 0), (.name 3, .one 20)] ∧
    filterArgs [⟨0, .posKw, none⟩, ⟨1, .varPos, none⟩, ⟨2, .kwOnly, some 0⟩] [] ⟨[1, 2, 3], []⟩
      = .ok [(.name 0, .one 1), (.name 2, .one 0), (.star, .seq [2, 3])] ∧
    filterArgs [⟨0, .posKw, none⟩, ⟨1, .kwOnly, some 1⟩, ⟨2, .kwOnly, none⟩] [] ⟨[0], [(2, 5)]⟩
      = .ok [(.name 0, .one 0), (.name 1, .one 1), (.name 2, .one 5)] := by
  decide

end Old

end C07
