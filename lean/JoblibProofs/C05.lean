import JoblibProofs.Lemmas.StoreCrash
import JoblibModel.StoreIO
/-!
# C05 — killing the process at any instant never corrupts the Memory cache

Statement (properties.jsonl): if the process is killed at any instant while a cached function's result is being
computed, stored, invalidated or evicted, the cache directory stays usable: a later call in a fresh process returns the
correct value without raising (recomputing if necessary), including when a `cache_validation_callback` such as
`expires_after` is configured. A result file is never visible under its final name unless it is complete.

Model: `JoblibModel.Store` (repaired code: fixes F08, F09; `Cfg.legacy := true` is the code before them).
A workload is a program over single system calls; `crash k torn w fs` is the file system after its first `k` calls, the
k-th — when it is a `write` — cut to `torn` bytes; `run (callProc c a) _` is the same call made by a fresh process.
The eight workloads of the statement are instances of three programs:
* `callProc c a`  — cold first call, warm call, call after a source change (the directory was filled by another
  `ver`), callback-driven invalidation (`c.callback`), `call_and_shelve(...).get()` (`c.shelve`), compressed store
  (another `Codec`);
* `reduceProc c victims` — `Memory.reduce_size`;  `clearProc c` — `Memory.clear()`.

Quantifier reached: every workload and configuration, every initial directory satisfying `CacheOK` (any entries, any
leftovers of earlier crashes that satisfy it, any directory order `c.rank`), every `k`, every torn length, every
codec with `unpickle (pickle v) = v`, every `checkCode` for which no strict prefix of the text joblib writes compares
equal to the live source (`CodeOK`); the recovering call `f(a)` may use any argument, any callback, any participant id.
(The recovering call is `__call__`, `c.shelve = false`; the `call_and_shelve` WORKLOAD is covered, `get()` as the
recovering call is only covered by the kill sweep of the harness.) `unpickle p = error` for strict prefixes `p` (C14's
contract) turned out not to be needed: no torn result ever has a final name (`final_name_complete`).

What is false (witnesses below, replayed on the real code by harness/props/c05.py):
* before the repairs: `crash_recovery` fails when `expires_after` finds `output.pkl` without `metadata.json`
  (`old_code_F8_witness`) and when `func_code.py` is torn inside its first line (`old_code_F9_witness`);
* still: after a kill inside the directory removal of a *source change*, once `func_code.py` is gone but old entries
  remain, the recovering call is right (`crash_recovery`) but re-creates `func_code.py` next to the old entries, so a
  LATER call for another argument returns the old source's value (`stale_after_crash_witness`, finding F24). The fragment
  that holds is `later_calls_correct_partial`.
-/
namespace C05
open JoblibModel.Store

variable {π : Par}

/-- `numpy_pickle.load(numpy_pickle.dump(v)) = v` -/
def CodecOK (cd : Codec) : Prop := ∀ v, cd.unpickle (cd.pickle v) = some v

/-- A cache directory nobody was killed in (with respect to the live source `π.ver`): final names are complete; if
`func_code.py` compares equal to the live source — or is absent — every result present is of the live source.
(A directory filled by an older source has a `func_code.py` that compares different.) -/
def CacheOK (π : Par) (fs : FS) : Prop := Inv π false fs ∧ TrustK π false fs ∧ AbsK π false fs

/-- final names hold complete content -/
def FinalComplete (π : Par) (fs : FS) : Prop :=
  (∀ a d, fs.dataAt (pOut a) = some d → ∃ v, d = π.cd.pickle ⟨v, a⟩) ∧
  (∀ a d, fs.dataAt (pMeta a) = some d → d = π.cd.metaText)

inductive Workload
  | call (c : Cfg) (a : Nat)
  | reduce (c : Cfg) (victims : List Nat)
  | clear (c : Cfg)

def Workload.prog : Workload → Prog Unit
  | .call c a => (callProc c a).bind fun _ => .ret ()
  | .reduce c v => reduceProc c v
  | .clear c => clearProc c

/-- the workload's configuration agrees with the parameters (`call`: codec, version, participant id, repaired code) -/
def Workload.OK (π : Par) (me : Nat) : Workload → Prop
  | .call c _ => CfgOK π me c
  | _ => True

theorem alone (s : Bool) (lvl : Level) (me : Nat) : World π s lvl me (fun _ _ => False) :=
  ⟨fun _ _ h => h.elim, fun _ _ _ h => h⟩

/-- what every workload guarantees for each of its calls -/
def GS (π : Par) (me : Nat) (fs : FS) (o : Op) : Prop := Allowed π .clear (fun x => x = me) fs o ∧ CodeSafe π fs o

theorem satMapG {α : Type} {R : FS → FS → Prop} {G G' : FS → Op → Prop} {P : FS → Prop} {p : Prog α}
    {Q : α → FS → Prop} {E : Err → FS → Prop} (h : Sat R G P p Q E) (hg : ∀ fs o, G fs o → G' fs o) :
    Sat R G' P p Q E := by
  induction h with
  | ret h => exact .ret h
  | raise h => exact .raise h
  | op M h1 h2 _ ih => exact .op M (fun fs hp => ⟨hg _ _ (h1 fs hp).1, (h1 fs hp).2⟩) h2 ih

theorem workload_sat {me : Nat} (w : Workload) (hw : w.OK π me) (hcd : CodecOK π.cd) :
    Sat (fun _ _ => False) (GS π me) (CacheOK π) w.prog (fun _ _ => True) (fun _ _ => True) := by
  cases w with
  | call c a =>
    have h := callProc_sat (strong := True) (alone (π := π) false .calls me) c hw a hcd
    have h1 : Sat (fun _ _ => False) (OwnG π me True) (CacheOK π) (callProc c a) (fun _ _ => True) (fun _ _ => True) :=
      (h.pre fun fs (hc : CacheOK π fs) => ⟨hc.1, hc.2.1, fun _ => hc.2.2⟩).post (fun _ _ _ => trivial)
        (fun _ _ _ => trivial)
    exact satMapG (Sat.bind h1 fun _ => .ret fun _ _ => trivial) fun fs o hg => ⟨hg.1, hg.2 trivial⟩
  | reduce c v =>
    have h := reduceProc_sat (alone (π := π) false .calls me) c v
    exact satMapG ((h.pre fun fs (hc : CacheOK π fs) => hc.1).post (fun _ _ _ => trivial) (fun _ _ _ => trivial))
      fun fs o hg => ⟨hg.1.mono_level (Or.inr (Or.inr rfl)), hg.2⟩
  | clear c =>
    have h := clearProc_sat (strong := True) (alone (π := π) false .calls me) c
    exact satMapG ((h.pre fun fs (hc : CacheOK π fs) => hc.1).post (fun _ _ _ => trivial) (fun _ _ _ => trivial))
      fun fs o hg => ⟨hg.1, hg.2 trivial⟩

theorem cacheOK_crashOK {fs : FS} (h : CacheOK π fs) : CrashOK π fs := ⟨h.1, h.2.1⟩

/-- Every crash state of every workload satisfies `CrashOK`. -/
theorem crash_state_ok {me : Nat} (hco : CodeOK π) (hcd : CodecOK π.cd) (w : Workload) (hw : w.OK π me)
    {fs : FS} (h0 : CacheOK π fs) (k : Nat) (torn : Option Nat) : CrashOK π (crash k torn w.prog fs) :=
  Sat.crash (I := CrashOK π) (fun fs o hi hg => crashOK_step hco hi hg.1 hg.2) k torn (workload_sat w hw hcd) h0
    (cacheOK_crashOK h0)

/-- **final_name_complete.** At every prefix — torn or not — of every workload, a file named `output.pkl` holds a
complete pickle of a value for that entry's argument and a file named `metadata.json` the complete metadata text: a
final name only ever appears by `rename` of a completely written private temporary. -/
theorem final_name_complete {me : Nat} (hco : CodeOK π) (hcd : CodecOK π.cd) (w : Workload) (hw : w.OK π me)
    {fs : FS} (h0 : CacheOK π fs) (k : Nat) (torn : Option Nat) : FinalComplete π (crash k torn w.prog fs) := by
  have hi := (crash_state_ok hco hcd w hw h0 k torn).1
  refine ⟨fun a d hd => ?_, fun a d hd => ?_⟩
  · obtain ⟨i, hi'⟩ := dataAt_eq hd
    obtain ⟨v, hv, _⟩ := hi.out a i d hi'
    exact ⟨v, hv⟩
  · obtain ⟨i, hi'⟩ := dataAt_eq hd
    exact hi.metaOk a i d hi'

/-- a fresh process making a call on any `CrashOK` directory returns `f(a)` -/
theorem recover_correct {me : Nat} (hcd : CodecOK π.cd) (c : Cfg) (hc : CfgOK π me c) (hsh : c.shelve = false) (a : Nat)
    {fs : FS} (h : CrashOK π fs) : (run (callProc c a) fs).1 = .ok ⟨π.ver, a⟩ := by
  obtain ⟨tr, hr⟩ := runs_solo (callProc c a) fs
  have hs := callProc_sat (strong := False) (alone (π := π) false .calls me) c hc a hcd
  have := (hs.sound hr (fun _ _ _ hR => hR.elim) ⟨h.1, h.2, fun hf => hf.elim⟩).2
  revert this
  cases (run (callProc c a) fs).1 with
  | ok v => intro h; simp only [OutSat] at h; rw [h.2.2 hsh]
  | raised e =>
    intro h
    simp only [OutSat, EC] at h
    rcases h with h | h
    · cases h
    · rw [hsh] at h; cases h

/-- **crash_recovery.** For every workload, every `k`, every torn length: the call `f(a)` made afterwards by a fresh
process (any argument `a`, any validation callback, e.g. `expires_after`) returns `f(a)` and does not raise. -/
theorem crash_recovery {me me' : Nat} (hco : CodeOK π) (hcd : CodecOK π.cd) (w : Workload) (hw : w.OK π me)
    {fs : FS} (h0 : CacheOK π fs) (k : Nat) (torn : Option Nat)
    (c : Cfg) (hc : CfgOK π me' c) (hsh : c.shelve = false) (a : Nat) :
    (run (callProc c a) (crash k torn w.prog fs)).1 = .ok ⟨π.ver, a⟩ :=
  recover_correct hcd c hc hsh a (crash_state_ok hco hcd w hw h0 k torn)

/-! ## After the recovery

Full statement (FALSE for the source-change workload — `stale_after_crash_witness`):
  `recovery_idempotent : CrashOK π fs → CacheOK π (run (callProc c a) fs).2`
(the directory the recovering call leaves is again one nobody was killed in, so every later call is right). -/

/-- the recovering call keeps `CacheOK` -/
theorem recover_keeps_cacheOK {me : Nat} (hcd : CodecOK π.cd) (c : Cfg) (hc : CfgOK π me c) (hsh : c.shelve = false)
    (a : Nat) {fs : FS} (h : CacheOK π fs) : CacheOK π (run (callProc c a) fs).2 := by
  obtain ⟨tr, hr⟩ := runs_solo (callProc c a) fs
  have hs := callProc_sat (strong := True) (alone (π := π) false .calls me) c hc a hcd
  have hq := (hs.sound hr (fun _ _ _ hR => hR.elim) ⟨h.1, h.2.1, fun _ => h.2.2⟩).2
  revert hq
  cases (run (callProc c a) fs).1 with
  | ok v =>
    intro hq
    simp only [OutSat] at hq
    have ht : Inv π true (run (callProc c a) fs).2 := hq.2.1 trivial rfl
    exact ⟨hq.1, fun _ _ _ _ _ => ht, fun _ _ => ht⟩
  | raised e =>
    intro hq
    simp only [OutSat, EC] at hq
    rcases hq with hq | hq
    · cases hq
    · rw [hsh] at hq; cases hq

theorem cacheOK_of_live {fs : FS} (h : Inv π true fs) : CacheOK π fs :=
  ⟨inv_weaken h, fun _ _ _ _ _ => h, fun _ _ => h⟩

/-- a sequence of later calls, each by a fresh process -/
def laterCalls : List (Cfg × Nat) → FS → List (Outcome Val) × FS
  | [], fs => ([], fs)
  | (c, a) :: r, fs =>
    let x := run (callProc c a) fs
    let y := laterCalls r x.2
    (x.1 :: y.1, y.2)

/-- From a directory nobody was killed in, any sequence of calls by fresh processes returns the right values. -/
theorem calls_correct {me : Nat} (hcd : CodecOK π.cd) :
    ∀ (l : List (Cfg × Nat)) (fs : FS), (∀ x ∈ l, CfgOK π me x.1 ∧ x.1.shelve = false) → CacheOK π fs →
      (laterCalls l fs).1 = l.map fun x => .ok ⟨π.ver, x.2⟩ := by
  intro l
  induction l with
  | nil => intro fs _ _; rfl
  | cons x r ih =>
    intro fs hl h
    obtain ⟨c, a⟩ := x
    have hx := hl (c, a) List.mem_cons_self
    simp only [laterCalls, List.map_cons]
    rw [recover_correct hcd c hx.1 hx.2 a (cacheOK_crashOK h)]
    rw [ih _ (fun y hy => hl y (List.mem_cons_of_mem _ hy)) (recover_keeps_cacheOK hcd c hx.1 hx.2 a h)]

/-- Crash states of a workload started in a directory whose results are all of the live source (every workload but the
call after a source change) are again such directories. -/
theorem crash_state_live {me : Nat} (hcd : CodecOK π.cd) (w : Workload) (hw : w.OK π me)
    {fs : FS} (h0 : Inv π true fs) (k : Nat) (torn : Option Nat) : Inv π true (crash k torn w.prog fs) :=
  Sat.crash (I := Inv π true) (fun fs o hi hg => ⟨inv_apply hi hg.1, fun n => inv_apply hi (hg.1.tear n)⟩) k torn
    (workload_sat w hw hcd) (cacheOK_of_live h0) h0

/-- **later_calls_correct_partial.** If the results in the directory were all of the live source when the workload
started (i.e. for every workload except the call after a source change), then after a kill at any point EVERY later
call — any number of them, any arguments — returns the right value. -/
theorem later_calls_correct_partial {me me' : Nat} (hcd : CodecOK π.cd) (w : Workload) (hw : w.OK π me)
    {fs : FS} (h0 : Inv π true fs) (k : Nat) (torn : Option Nat)
    (l : List (Cfg × Nat)) (hl : ∀ x ∈ l, CfgOK π me' x.1 ∧ x.1.shelve = false) :
    (laterCalls l (crash k torn w.prog fs)).1 = l.map fun x => .ok ⟨π.ver, x.2⟩ :=
  calls_correct hcd l _ hl (cacheOK_of_live (crash_state_live hcd w hw h0 k torn))

/-- **recovery_idempotent_partial.** From a directory nobody was killed in, the recovering call returns `f(a)` and leaves
such a directory again (so making it twice, or any number of times, changes nothing about correctness). -/
theorem recovery_idempotent_partial {me : Nat} (hcd : CodecOK π.cd) (c : Cfg) (hc : CfgOK π me c) (hsh : c.shelve = false)
    (a : Nat) {fs : FS} (h : CacheOK π fs) :
    (run (callProc c a) fs).1 = .ok ⟨π.ver, a⟩ ∧ CacheOK π (run (callProc c a) fs).2 ∧
    (run (callProc c a) (run (callProc c a) fs).2).1 = .ok ⟨π.ver, a⟩ :=
  ⟨recover_correct hcd c hc hsh a (cacheOK_crashOK h), recover_keeps_cacheOK hcd c hc hsh a h,
   recover_correct hcd c hc hsh a (cacheOK_crashOK (recover_keeps_cacheOK hcd c hc hsh a h))⟩

/-! ## Witnesses on a concrete instance (the drivers' codec; source of version 0 / 1: `def f(x):\n` / `def g(x):\n`) -/

open JoblibModel.StoreIO in
def cdW : Codec := mkCodec false 1 [[100, 101, 102, 32, 102, 40, 120, 41, 58, 10], [100, 101, 102, 32, 103, 40, 120, 41, 58, 10]]

def cfg0 : Cfg := { codec := cdW, me := 0, ver := 0 }
def cfg1 : Cfg := { codec := cdW, me := 1, ver := 1 }
/-- the kernel lists `func_code.py` before the entry directories -/
def rankW : Name → Nat
  | .funcCode => 0
  | _ => 1

open JoblibModel.StoreIO in
theorem cdW_ok : CodecOK cdW := by
  intro v; simp [cdW, mkCodec, toyPickle, toyUnpickle]

/-- The cache after version 0 computed `f(3)` and `f(4)`. -/
def fsOld : FS := (run (callProc cfg0 4) (run (callProc cfg0 3) FS.empty).2).2

/-- **stale_after_crash_witness (F24).** The source changes to version 1; the next call starts emptying the function
directory and is killed after 11 system calls — `func_code.py` is unlinked, the entries are still there. The recovering
call `f(3)` is right (`⟨1, 3⟩`), but the call `f(4)` after it returns version 0's value `⟨0, 4⟩`. -/
theorem stale_after_crash_witness :
    (laterCalls [({ cfg1 with me := 2 }, 3), ({ cfg1 with me := 3 }, 4)]
      (crash 11 none (callProc { cfg1 with rank := rankW } 3) fsOld)).1 = [.ok ⟨1, 3⟩, .ok ⟨0, 4⟩] := by decide

/-- the crash point of F36, exactly: among the killed call's first 11 system calls none creates `func_code.py` … -/
example : ((runLog (callProc { cfg1 with rank := rankW } 3) fsOld).1.take 11).all
    (fun x => match x.1 with | .creat p => p != pCode | _ => true) = true := by decide

/-- … both old entries are still there … -/
example : ((crash 11 none (callProc { cfg1 with rank := rankW } 3) fsOld).get (pOut 3)).isSome = true ∧
    ((crash 11 none (callProc { cfg1 with rank := rankW } 3) fsOld).get (pOut 4)).isSome = true ∧
    (crash 11 none (callProc { cfg1 with rank := rankW } 3) fsOld).get pCode = none := by decide

/-- … and the 11th system call is the unlink of `func_code.py` -/
example : (((runLog (callProc { cfg1 with rank := rankW } 3) fsOld).1.take 11).getLast?.map
    fun x => ((match x.1 with | .unlink p _ => p == pCode | _ => false), x.2)) = some (true, .ok) := by decide

/-- **old_code_F8_witness.** Code before fix F08: a cold call killed after the `output.pkl` rename and before the
`metadata.json` rename (25 calls); the same call with `expires_after(...)` raises `KeyError`. -/
theorem old_code_F8_witness :
    (run (callProc { cfg0 with me := 1, callback := .expires true, legacy := true } 3)
      (crash 25 none (callProc cfg0 3) FS.empty)).1 = .raised .keyError := by decide

/-- the repaired code recomputes -/
example : (run (callProc { cfg0 with me := 1, callback := .expires true } 3)
      (crash 25 none (callProc cfg0 3) FS.empty)).1 = .ok ⟨0, 3⟩ := by decide

/-- **old_code_F9_witness.** Code before fix F09: a cold call killed inside the write of `func_code.py` (15th call), 13
bytes transferred (`# first line:`); the same call raises `ValueError`. -/
theorem old_code_F9_witness :
    (run (callProc { cfg0 with me := 1, legacy := true } 3)
      (crash 15 (some 13) (callProc cfg0 3) FS.empty)).1 = .raised .valueError := by decide

/-- the repaired code treats it as changed code and recomputes -/
example : (run (callProc { cfg0 with me := 1 } 3) (crash 15 (some 13) (callProc cfg0 3) FS.empty)).1 = .ok ⟨0, 3⟩ := by
  decide

/-! Non-vacuity of the hypotheses. -/

def πW : Par := ⟨cdW, 0⟩

theorem inv_empty (π : Par) (s : Bool) : Inv π s FS.empty := by
  have g : ∀ p, p ≠ [] → FS.empty.get p = none := by
    intro p hp; simp [FS.get, FS.empty, hp, lookup]
  have gf : ∀ p i c, FS.empty.get p ≠ some (.file i c) := by
    intro p i c h
    by_cases hp : p = []
    · subst hp; simp at h
    · rw [g p hp] at h; cases h
  refine ⟨⟨fun p q i c c' h => absurd h (gf p i c), fun p i c h => absurd h (gf p i c),
      fun q i c h => by simp [FS.empty] at h, fun p i c q c' h => absurd h (gf p i c)⟩, ?_, ?_, ?_, ?_, ?_⟩
  · intro p j h
    by_cases hp : p = []
    · subst hp; exact nil_not_file
    · rw [g p hp] at h; cases h
  · intro p i c h; exact absurd h (gf p i c)
  · intro a i d h; exact absurd h (gf _ i d)
  · intro a i d h; exact absurd h (gf _ i d)
  · intro p hp h; rw [g p hp] at h; cases h

example : CacheOK πW FS.empty := cacheOK_of_live (inv_empty _ _)
example : CodecOK πW.cd := cdW_ok
example : CfgOK πW 0 cfg0 := ⟨rfl, rfl, rfl, rfl⟩

open JoblibModel.StoreIO in
/-- `CodeOK` for the concrete comparison `checkCodeImpl` and this source: no strict prefix of the stored text compares
equal (all 26 of them checked). -/
example : CodeOK πW := by
  refine ⟨by decide, fun d hp hne => ?_⟩
  obtain ⟨n, rfl⟩ : ∃ n, d = (πW.cd.codeText πW.ver).take n := ⟨d.length, (List.prefix_iff_eq_take.mp hp)⟩
  have hlt : n < (πW.cd.codeText πW.ver).length := by
    rcases Nat.lt_or_ge n (πW.cd.codeText πW.ver).length with h | h
    · exact h
    · exact absurd (List.take_of_length_le h) hne
  have hlen : (πW.cd.codeText πW.ver).length = 26 := by decide
  have all : ∀ m, m < 26 → πW.cd.checkCode πW.ver ((πW.cd.codeText πW.ver).take m) ≠ .same := by decide
  exact all n (by rw [hlen] at hlt; exact hlt)

end C05
