import JoblibProofs.Lemmas.StoreCrash
import JoblibModel.StoreIO
/-!
# C05 — killing the process at any instant never corrupts the Memory cache

Statement (properties.jsonl): if the process is killed at any instant while a cached function's result is being
computed, stored, invalidated or evicted, the cache directory stays usable: a later call in a fresh process returns the
correct value without raising (recomputing if necessary), including when a `cache_validation_callback` such as
`expires_after` is configured. A result file is never visible under its final name unless it is complete.

Model: `JoblibModel.Store` (repaired code: fixes F08, F09; `Cfg.legacy := true` is the code before them).
A workload is a program over single system calls; `crash k torn w fs` is the file system after its first `k` calls, the
k-th — when it is a `write` — cut to `torn` bytes; `run (callProc c a) _` is the same call made by a fresh process.
The eight workloads of the statement are instances of three programs:
* `callProc c a`  — cold first call, warm call, call after a source change (the directory was filled by another
  `ver`), callback-driven invalidation (`c.callback`), `call_and_shelve(...).get()` (`c.shelve`), compressed store
  (another `Codec`);
* `reduceProc c victims` — `Memory.reduce_size`;  `clearProc c` — `Memory.clear()`.

Quantifier reached: every workload and configuration, every initial directory satisfying `CacheOK` (any entries, any
leftovers of earlier crashes that satisfy it, any directory order `c.rank`), every `k`, every torn length, every
codec with `unpickle (pickle v) = v`, every `checkCode` for which no strict prefix of the text joblib writes compares
equal to the live source (`CodeOK`); the recovering call `f(a)` may use any argument, any callback, any participant id.
(The recovering call is `__call__`, `c.shelve = false`; the `call_and_shelve` WORKLOAD is covered, `get()` as the
recovering call is only covered by the kill sweep of the harness.) `unpickle p = error` for strict prefixes `p` (C14's
contract) turned out not to be needed: no torn result ever has a final name (`final_name_complete`).

Generations (section "Generations and validity stamps" at the end): values carry the generation of the execution that
produced them, `metadata.json` the generation of its time stamp; the theorems above say "a value of the live source for
the right argument, of SOME generation" (`∃ g, … = .ok ⟨π.ver, a, g⟩`); that the generation is recent enough under an
expiring callback (`since g`) is `expiry_recovery_partial` / `stamp_not_newer_than_value_partial` (finite family, every
`k`, every torn length) and, for every configuration and directory, `entry_without_metadata_is_not_valid_under_a_callback`,
`accepted_under_since_has_recent_stamp`, `accepted_under_since_has_recent_value`; the seeded orders are refuted by
`metadata_first_counterexample`, `skip_callback_without_metadata_counterexample`.

What is false (witnesses below, replayed on the real code by harness/props/c05.py):
* before the repairs: `crash_recovery` fails when `expires_after` finds `output.pkl` without `metadata.json`
  (`old_code_F8_witness`) and when `func_code.py` is torn inside its first line (`old_code_F9_witness`);
* still: after a kill inside the directory removal of a *source change*, once `func_code.py` is gone but old entries
  remain, the recovering call is right (`crash_recovery`) but re-creates `func_code.py` next to the old entries, so a
  LATER call for another argument returns the old source's value (`stale_after_crash_witness`, finding F24). The fragment
  that holds is `later_calls_correct_partial`.
-/
namespace C05
open JoblibModel.Store

variable {π : Par}

/-- `numpy_pickle.load(numpy_pickle.dump(v)) = v` -/
def CodecOK (cd : Codec) : Prop := ∀ v, cd.unpickle (cd.pickle v) = some v

/-- A cache directory nobody was killed in (with respect to the live source `π.ver`): final names are complete; if
`func_code.py` compares equal to the live source — or is absent — every result present is of the live source.
(A directory filled by an older source has a `func_code.py` that compares different.) -/
def CacheOK (π : Par) (fs : FS) : Prop := Inv π false fs ∧ TrustK π false fs ∧ AbsK π false fs

/-- final names hold complete content -/
def FinalComplete (π : Par) (fs : FS) : Prop :=
  (∀ a d, fs.dataAt (pOut a) = some d → ∃ v g, d = π.cd.pickle ⟨v, a, g⟩) ∧
  (∀ a d, fs.dataAt (pMeta a) = some d → ∃ g, d = π.cd.metaText g)

inductive Workload
  | call (c : Cfg) (a : Nat)
  | reduce (c : Cfg) (victims : List Nat)
  | clear (c : Cfg)

def Workload.prog : Workload → Prog Unit
  | .call c a => (callProc c a).bind fun _ => .ret ()
  | .reduce c v => reduceProc c v
  | .clear c => clearProc c

/-- the workload's configuration agrees with the parameters (`call`: codec, version, participant id, repaired code) -/
def Workload.OK (π : Par) (me : Nat) : Workload → Prop
  | .call c _ => CfgOK π me c
  | _ => True

theorem alone (s : Bool) (lvl : Level) (me : Nat) : World π s lvl me (fun _ _ => False) :=
  ⟨fun _ _ h => h.elim, fun _ _ _ h => h⟩

/-- what every workload guarantees for each of its calls -/
def GS (π : Par) (me : Nat) (fs : FS) (o : Op) : Prop := Allowed π .clear (fun x => x = me) fs o ∧ CodeSafe π fs o

theorem satMapG {α : Type} {R : FS → FS → Prop} {G G' : FS → Op → Prop} {P : FS → Prop} {p : Prog α}
    {Q : α → FS → Prop} {E : Err → FS → Prop} (h : Sat R G P p Q E) (hg : ∀ fs o, G fs o → G' fs o) :
    Sat R G' P p Q E := by
  induction h with
  | ret h => exact .ret h
  | raise h => exact .raise h
  | op M h1 h2 _ ih => exact .op M (fun fs hp => ⟨hg _ _ (h1 fs hp).1, (h1 fs hp).2⟩) h2 ih

theorem workload_sat {me : Nat} (w : Workload) (hw : w.OK π me) (hcd : CodecOK π.cd) :
    Sat (fun _ _ => False) (GS π me) (CacheOK π) w.prog (fun _ _ => True) (fun _ _ => True) := by
  cases w with
  | call c a =>
    have h := callProc_sat (strong := True) (alone (π := π) false .calls me) c hw a hcd
    have h1 : Sat (fun _ _ => False) (OwnG π me True) (CacheOK π) (callProc c a) (fun _ _ => True) (fun _ _ => True) :=
      (h.pre fun fs (hc : CacheOK π fs) => ⟨hc.1, hc.2.1, fun _ => hc.2.2⟩).post (fun _ _ _ => trivial)
        (fun _ _ _ => trivial)
    exact satMapG (Sat.bind h1 fun _ => .ret fun _ _ => trivial) fun fs o hg => ⟨hg.1, hg.2 trivial⟩
  | reduce c v =>
    have h := reduceProc_sat (alone (π := π) false .calls me) c v
    exact satMapG ((h.pre fun fs (hc : CacheOK π fs) => hc.1).post (fun _ _ _ => trivial) (fun _ _ _ => trivial))
      fun fs o hg => ⟨hg.1.mono_level (Or.inr (Or.inr rfl)), hg.2⟩
  | clear c =>
    have h := clearProc_sat (strong := True) (alone (π := π) false .calls me) c
    exact satMapG ((h.pre fun fs (hc : CacheOK π fs) => hc.1).post (fun _ _ _ => trivial) (fun _ _ _ => trivial))
      fun fs o hg => ⟨hg.1, hg.2 trivial⟩

theorem cacheOK_crashOK {fs : FS} (h : CacheOK π fs) : CrashOK π fs := ⟨h.1, h.2.1⟩

/-- Every crash state of every workload satisfies `CrashOK`. -/
theorem crash_state_ok {me : Nat} (hco : CodeOK π) (hcd : CodecOK π.cd) (w : Workload) (hw : w.OK π me)
    {fs : FS} (h0 : CacheOK π fs) (k : Nat) (torn : Option Nat) : CrashOK π (crash k torn w.prog fs) :=
  Sat.crash (I := CrashOK π) (fun fs o hi hg => crashOK_step hco hi hg.1 hg.2) k torn (workload_sat w hw hcd) h0
    (cacheOK_crashOK h0)

/-- **final_name_complete.** At every prefix — torn or not — of every workload, a file named `output.pkl` holds a
complete pickle of a value for that entry's argument and a file named `metadata.json` the complete metadata text: a
final name only ever appears by `rename` of a completely written private temporary. -/
theorem final_name_complete {me : Nat} (hco : CodeOK π) (hcd : CodecOK π.cd) (w : Workload) (hw : w.OK π me)
    {fs : FS} (h0 : CacheOK π fs) (k : Nat) (torn : Option Nat) : FinalComplete π (crash k torn w.prog fs) := by
  have hi := (crash_state_ok hco hcd w hw h0 k torn).1
  refine ⟨fun a d hd => ?_, fun a d hd => ?_⟩
  · obtain ⟨i, hi'⟩ := dataAt_eq hd
    obtain ⟨v, g, hv, _⟩ := hi.out a i d hi'
    exact ⟨v, g, hv⟩
  · obtain ⟨i, hi'⟩ := dataAt_eq hd
    exact hi.metaOk a i d hi'

/-- a fresh process making a call on any `CrashOK` directory returns `f(a)` (a value of the live source for the argument
`a`, of some generation — which generations are acceptable is the business of `expiry_recovery` below) -/
theorem recover_correct {me : Nat} (hcd : CodecOK π.cd) (c : Cfg) (hc : CfgOK π me c) (hsh : c.shelve = false) (a : Nat)
    {fs : FS} (h : CrashOK π fs) : ∃ g, (run (callProc c a) fs).1 = .ok ⟨π.ver, a, g⟩ := by
  obtain ⟨tr, hr⟩ := runs_solo (callProc c a) fs
  have hs := callProc_sat (strong := False) (alone (π := π) false .calls me) c hc a hcd
  have := (hs.sound hr (fun _ _ _ hR => hR.elim) ⟨h.1, h.2, fun hf => hf.elim⟩).2
  revert this
  cases (run (callProc c a) fs).1 with
  | ok v => intro h; simp only [OutSat] at h; obtain ⟨g, hg⟩ := h.2.2 hsh; exact ⟨g, by rw [hg]⟩
  | raised e =>
    intro h
    simp only [OutSat, EC] at h
    rcases h with h | h
    · cases h
    · rw [hsh] at h; cases h

/-- **crash_recovery.** For every workload, every `k`, every torn length: the call `f(a)` made afterwards by a fresh
process (any argument `a`, any validation callback, e.g. `expires_after`) returns `f(a)` and does not raise. -/
theorem crash_recovery {me me' : Nat} (hco : CodeOK π) (hcd : CodecOK π.cd) (w : Workload) (hw : w.OK π me)
    {fs : FS} (h0 : CacheOK π fs) (k : Nat) (torn : Option Nat)
    (c : Cfg) (hc : CfgOK π me' c) (hsh : c.shelve = false) (a : Nat) :
    ∃ g, (run (callProc c a) (crash k torn w.prog fs)).1 = .ok ⟨π.ver, a, g⟩ :=
  recover_correct hcd c hc hsh a (crash_state_ok hco hcd w hw h0 k torn)

/-! ## After the recovery

Full statement (FALSE for the source-change workload — `stale_after_crash_witness`):
  `recovery_idempotent : CrashOK π fs → CacheOK π (run (callProc c a) fs).2`
(the directory the recovering call leaves is again one nobody was killed in, so every later call is right). -/

/-- the recovering call keeps `CacheOK` -/
theorem recover_keeps_cacheOK {me : Nat} (hcd : CodecOK π.cd) (c : Cfg) (hc : CfgOK π me c) (hsh : c.shelve = false)
    (a : Nat) {fs : FS} (h : CacheOK π fs) : CacheOK π (run (callProc c a) fs).2 := by
  obtain ⟨tr, hr⟩ := runs_solo (callProc c a) fs
  have hs := callProc_sat (strong := True) (alone (π := π) false .calls me) c hc a hcd
  have hq := (hs.sound hr (fun _ _ _ hR => hR.elim) ⟨h.1, h.2.1, fun _ => h.2.2⟩).2
  revert hq
  cases (run (callProc c a) fs).1 with
  | ok v =>
    intro hq
    simp only [OutSat] at hq
    have ht : Inv π true (run (callProc c a) fs).2 := hq.2.1 trivial rfl
    exact ⟨hq.1, fun _ _ _ _ _ => ht, fun _ _ => ht⟩
  | raised e =>
    intro hq
    simp only [OutSat, EC] at hq
    rcases hq with hq | hq
    · cases hq
    · rw [hsh] at hq; cases hq

theorem cacheOK_of_live {fs : FS} (h : Inv π true fs) : CacheOK π fs :=
  ⟨inv_weaken h, fun _ _ _ _ _ => h, fun _ _ => h⟩

/-- a sequence of later calls, each by a fresh process -/
def laterCalls : List (Cfg × Nat) → FS → List (Outcome Val) × FS
  | [], fs => ([], fs)
  | (c, a) :: r, fs =>
    let x := run (callProc c a) fs
    let y := laterCalls r x.2
    (x.1 :: y.1, y.2)

/-- an outcome without the generation of the value: (source version, argument) -/
def noGen : Outcome Val → Outcome (Nat × Nat)
  | .ok v => .ok (v.ver, v.arg)
  | .raised e => .raised e

/-- From a directory nobody was killed in, any sequence of calls by fresh processes returns the right values. -/
theorem calls_correct {me : Nat} (hcd : CodecOK π.cd) :
    ∀ (l : List (Cfg × Nat)) (fs : FS), (∀ x ∈ l, CfgOK π me x.1 ∧ x.1.shelve = false) → CacheOK π fs →
      (laterCalls l fs).1.map noGen = l.map fun x => .ok (π.ver, x.2) := by
  intro l
  induction l with
  | nil => intro fs _ _; rfl
  | cons x r ih =>
    intro fs hl h
    obtain ⟨c, a⟩ := x
    have hx := hl (c, a) List.mem_cons_self
    simp only [laterCalls, List.map_cons]
    obtain ⟨g, hg⟩ := recover_correct hcd c hx.1 hx.2 a (cacheOK_crashOK h)
    rw [hg]
    rw [ih _ (fun y hy => hl y (List.mem_cons_of_mem _ hy)) (recover_keeps_cacheOK hcd c hx.1 hx.2 a h)]
    rfl

/-- Crash states of a workload started in a directory whose results are all of the live source (every workload but the
call after a source change) are again such directories. -/
theorem crash_state_live {me : Nat} (hcd : CodecOK π.cd) (w : Workload) (hw : w.OK π me)
    {fs : FS} (h0 : Inv π true fs) (k : Nat) (torn : Option Nat) : Inv π true (crash k torn w.prog fs) :=
  Sat.crash (I := Inv π true) (fun fs o hi hg => ⟨inv_apply hi hg.1, fun n => inv_apply hi (hg.1.tear n)⟩) k torn
    (workload_sat w hw hcd) (cacheOK_of_live h0) h0

/-- **later_calls_correct_partial.** If the results in the directory were all of the live source when the workload
started (i.e. for every workload except the call after a source change), then after a kill at any point EVERY later
call — any number of them, any arguments — returns the right value. -/
theorem later_calls_correct_partial {me me' : Nat} (hcd : CodecOK π.cd) (w : Workload) (hw : w.OK π me)
    {fs : FS} (h0 : Inv π true fs) (k : Nat) (torn : Option Nat)
    (l : List (Cfg × Nat)) (hl : ∀ x ∈ l, CfgOK π me' x.1 ∧ x.1.shelve = false) :
    (laterCalls l (crash k torn w.prog fs)).1.map noGen = l.map fun x => .ok (π.ver, x.2) :=
  calls_correct hcd l _ hl (cacheOK_of_live (crash_state_live hcd w hw h0 k torn))

/-- **recovery_idempotent_partial.** From a directory nobody was killed in, the recovering call returns `f(a)` and leaves
such a directory again (so making it twice, or any number of times, changes nothing about correctness). -/
theorem recovery_idempotent_partial {me : Nat} (hcd : CodecOK π.cd) (c : Cfg) (hc : CfgOK π me c) (hsh : c.shelve = false)
    (a : Nat) {fs : FS} (h : CacheOK π fs) :
    (∃ g, (run (callProc c a) fs).1 = .ok ⟨π.ver, a, g⟩) ∧ CacheOK π (run (callProc c a) fs).2 ∧
    ∃ g, (run (callProc c a) (run (callProc c a) fs).2).1 = .ok ⟨π.ver, a, g⟩ :=
  ⟨recover_correct hcd c hc hsh a (cacheOK_crashOK h), recover_keeps_cacheOK hcd c hc hsh a h,
   recover_correct hcd c hc hsh a (cacheOK_crashOK (recover_keeps_cacheOK hcd c hc hsh a h))⟩

/-! ## Witnesses on a concrete instance (the drivers' codec; source of version 0 / 1: `def f(x):\n` / `def g(x):\n`) -/

open JoblibModel.StoreIO in
def cdW : Codec := mkCodec false 1 [[100, 101, 102, 32, 102, 40, 120, 41, 58, 10], [100, 101, 102, 32, 103, 40, 120, 41, 58, 10]]

def cfg0 : Cfg := { codec := cdW, me := 0, ver := 0 }
def cfg1 : Cfg := { codec := cdW, me := 1, ver := 1 }
/-- the kernel lists `func_code.py` before the entry directories -/
def rankW : Name → Nat
  | .funcCode => 0
  | _ => 1

open JoblibModel.StoreIO in
theorem cdW_ok : CodecOK cdW := by
  intro v; simp [cdW, mkCodec, toyPickle, toyUnpickle]

/-- The cache after version 0 computed `f(3)` and `f(4)`. -/
def fsOld : FS := (run (callProc cfg0 4) (run (callProc cfg0 3) FS.empty).2).2

/-- **stale_after_crash_witness (F24).** The source changes to version 1; the next call starts emptying the function
directory and is killed after 11 system calls — `func_code.py` is unlinked, the entries are still there. The recovering
call `f(3)` is right (`⟨1, 3⟩`), but the call `f(4)` after it returns version 0's value `⟨0, 4⟩`. -/
theorem stale_after_crash_witness :
    (laterCalls [({ cfg1 with me := 2 }, 3), ({ cfg1 with me := 3 }, 4)]
      (crash 11 none (callProc { cfg1 with rank := rankW } 3) fsOld)).1 = [.ok ⟨1, 3, 0⟩, .ok ⟨0, 4, 0⟩] := by decide

/-- the crash point of F36, exactly: among the killed call's first 11 system calls none creates `func_code.py` … -/
example : ((runLog (callProc { cfg1 with rank := rankW } 3) fsOld).1.take 11).all
    (fun x => match x.1 with | .creat p => p != pCode | _ => true) = true := by decide

/-- … both old entries are still there … -/
example : ((crash 11 none (callProc { cfg1 with rank := rankW } 3) fsOld).get (pOut 3)).isSome = true ∧
    ((crash 11 none (callProc { cfg1 with rank := rankW } 3) fsOld).get (pOut 4)).isSome = true ∧
    (crash 11 none (callProc { cfg1 with rank := rankW } 3) fsOld).get pCode = none := by decide

/-- … and the 11th system call is the unlink of `func_code.py` -/
example : (((runLog (callProc { cfg1 with rank := rankW } 3) fsOld).1.take 11).getLast?.map
    fun x => ((match x.1 with | .unlink p _ => p == pCode | _ => false), x.2)) = some (true, .ok) := by decide

/-- **old_code_F8_witness.** Code before fix F08: a cold call killed after the `output.pkl` rename and before the
`metadata.json` rename (25 calls); the same call with `expires_after(...)` raises `KeyError`. -/
theorem old_code_F8_witness :
    (run (callProc { cfg0 with me := 1, callback := .expires true, legacy := true } 3)
      (crash 25 none (callProc cfg0 3) FS.empty)).1 = .raised .keyError := by decide

/-- the repaired code recomputes -/
example : (run (callProc { cfg0 with me := 1, callback := .expires true } 3)
      (crash 25 none (callProc cfg0 3) FS.empty)).1 = .ok ⟨0, 3, 0⟩ := by decide

/-- **old_code_F9_witness.** Code before fix F09: a cold call killed inside the write of `func_code.py` (15th call), 13
bytes transferred (`# first line:`); the same call raises `ValueError`. -/
theorem old_code_F9_witness :
    (run (callProc { cfg0 with me := 1, legacy := true } 3)
      (crash 15 (some 13) (callProc cfg0 3) FS.empty)).1 = .raised .valueError := by decide

/-- the repaired code treats it as changed code and recomputes -/
example : (run (callProc { cfg0 with me := 1 } 3) (crash 15 (some 13) (callProc cfg0 3) FS.empty)).1 = .ok ⟨0, 3, 0⟩ := by
  decide

/-! Non-vacuity of the hypotheses. -/

def πW : Par := ⟨cdW, 0⟩

theorem inv_empty (π : Par) (s : Bool) : Inv π s FS.empty := by
  have g : ∀ p, p ≠ [] → FS.empty.get p = none := by
    intro p hp; simp [FS.get, FS.empty, hp, lookup]
  have gf : ∀ p i c, FS.empty.get p ≠ some (.file i c) := by
    intro p i c h
    by_cases hp : p = []
    · subst hp; simp at h
    · rw [g p hp] at h; cases h
  refine ⟨⟨fun p q i c c' h => absurd h (gf p i c), fun p i c h => absurd h (gf p i c),
      fun q i c h => by simp [FS.empty] at h, fun p i c q c' h => absurd h (gf p i c)⟩, ?_, ?_, ?_, ?_, ?_⟩
  · intro p j h
    by_cases hp : p = []
    · subst hp; exact nil_not_file
    · rw [g p hp] at h; cases h
  · intro p i c h; exact absurd h (gf p i c)
  · intro a i d h; exact absurd h (gf _ i d)
  · intro a i d h; exact absurd h (gf _ i d)
  · intro p hp h; rw [g p hp] at h; cases h

example : CacheOK πW FS.empty := cacheOK_of_live (inv_empty _ _)
example : CodecOK πW.cd := cdW_ok
example : CfgOK πW 0 cfg0 := ⟨rfl, rfl, rfl, rfl, rfl, rfl, rfl⟩

open JoblibModel.StoreIO in
/-- `CodeOK` for the concrete comparison `checkCodeImpl` and this source: no strict prefix of the stored text compares
equal (all 26 of them checked). -/
example : CodeOK πW := by
  refine ⟨by decide, fun d hp hne => ?_⟩
  obtain ⟨n, rfl⟩ : ∃ n, d = (πW.cd.codeText πW.ver).take n := ⟨d.length, (List.prefix_iff_eq_take.mp hp)⟩
  have hlt : n < (πW.cd.codeText πW.ver).length := by
    rcases Nat.lt_or_ge n (πW.cd.codeText πW.ver).length with h | h
    · exact h
    · exact absurd (List.take_of_length_le h) hne
  have hlen : (πW.cd.codeText πW.ver).length = 26 := by decide
  have all : ∀ m, m < 26 → πW.cd.checkCode πW.ver ((πW.cd.codeText πW.ver).take m) ≠ .same := by decide
  exact all n (by rw [hlen] at hlt; exact hlt)


/-! ## Generations and validity stamps (expiry)

The cached function is not pure: its value carries the GENERATION (`Val.gen`) of the execution that produced it, and
`metadata.json` carries a STAMP — the generation in which `_persist_input` read `time.time()`. A validation callback
`since g` (`expires_after` seen from a fixed instant) accepts an entry iff its stamp is `≥ g`. The property "a later
call returns the correct value … including when `expires_after` is configured" then means: the value returned under
`since g` is of a generation `≥ g` — an entry refreshed after its expiry must never look newer than the value it holds.

Full statements (NOT proved in this generality; what is missing is said below):
  `stamp_not_newer_than_value : CodeOK π → CodecOK π.cd → w.OK π me → CacheOK π fs → StampOK' π fs (no stamp or value
     of a generation later than the workload's) → ∀ k torn a, stampLeValue π.cd (crash k torn w.prog fs) a`
  `expiry_recovery : … → ∀ k torn, CfgOK π me' c → c.callback = .since g → g ≤ c.gen → c.shelve = false →
     ∃ g', (run (callProc c a) (crash k torn w.prog fs)).1 = .ok ⟨π.ver, a, g'⟩ ∧ g ≤ g'`
Missing for these: the rely/guarantee derivations of `Lemmas/StoreCall.lean` (`dumpItem_sat`, `storeMetadata_sat`,
`safeWrite_sat`) establish `Inv` only; the stamp invariant additionally needs, at the `rename` that installs
`metadata.json`, the program-order fact "`output.pkl` of this entry is absent or was installed by this very call"
(`dump_item` swallows its exceptions, so this needs `dumpItem` to be shown to succeed, or to leave no `output.pkl`, in
every `Inv` state), threaded through `mkdirp`/`safeWrite`. `crash_recovery` above already gives, for EVERY workload,
initial directory, `k` and torn length: the recovering call does not raise and returns a value of the live source for
the right argument (`∃ g, … = .ok ⟨π.ver, a, g⟩`); what the `_partial` theorems add — `g` is recent enough — is proved
for the finite family `casesW` below (every `k`, every torn length), by evaluation of the model. General, for every
configuration and directory: `entry_without_metadata_is_not_valid_under_a_callback`, and the step from the invariant
to the recovery — `accepted_under_since_has_recent_stamp`, `accepted_under_since_has_recent_value`: wherever the stamp
is not newer than the value, an entry accepted under `since g` holds a value of generation `≥ g`. -/

/-- generation of the value `output.pkl` of entry `a` holds (if it loads) -/
def outGen (cd : Codec) (fs : FS) (a : Nat) : Option Nat :=
  (fs.dataAt (pOut a)).bind fun d => (cd.unpickle d).map (·.gen)

/-- stamp of `metadata.json` of entry `a` (if it reads as JSON with a time) -/
def metaStampOf (cd : Codec) (fs : FS) (a : Nat) : Option Nat := (fs.dataAt (pMeta a)).bind cd.metaStamp

/-- the invariant: a readable stamp is not newer than the value it stands next to -/
def stampLeValue (cd : Codec) (fs : FS) (a : Nat) : Bool :=
  match metaStampOf cd fs a, outGen cd fs a with
  | some s, some g => decide (s ≤ g)
  | _, _ => true

theorem run_bind_const_ne {α : Type} (p : Prog α) (fs : FS) :
    (run (p.bind fun _ => Prog.ret false) fs).1 ≠ .ok true := by
  rw [run_bind]
  cases (run p fs).1 with
  | ok a => simp [run]
  | raised e => simp

/-- `_check_previous_func_code` answers `True` only after two observing calls: the directory is unchanged -/
theorem checkPrevious_true_noop (c : Cfg) (fs : FS) (h : (run (checkPrevious c) fs).1 = .ok true) :
    (run (checkPrevious c) fs).2 = fs := by
  unfold checkPrevious at h ⊢
  have e1 := openr_noop pCode fs
  simp only [run, e1] at h ⊢
  generalize (apply (.openr pCode) fs).1 = r at h ⊢
  cases r with
  | fd i =>
    simp only [run, apply] at h ⊢
    cases hc : c.codec.checkCode c.ver (fs.readData pCode i) with
    | same => rfl
    | differs => rw [hc] at h; exact absurd h (run_bind_const_ne _ _)
    | valueError =>
      rw [hc] at h
      simp only at h
      by_cases hl : c.legacy = true
      · rw [if_pos hl] at h; simp [run] at h
      · rw [if_neg hl] at h; exact absurd h (run_bind_const_ne _ _)
  | _ => exact absurd h (run_bind_const_ne _ _)

/-- **entry_without_metadata_is_not_valid_under_a_callback.** For EVERY configuration of the code (any codec, any
validation callback other than `None`, legacy or repaired `expires_after`, with or without `clear_item` of rejected
entries) and EVERY directory: when `metadata.json` of the entry is missing, is a directory, or does not read as JSON
with a time stamp, `_is_in_cache_and_valid` does not answer `True` — the entry's age is unknown, it is not served. (The
seeded variant `skipCallbackWithoutMetadata` is the negation: `skip_callback_without_metadata_counterexample`.) -/
theorem entry_without_metadata_is_not_valid_under_a_callback (c : Cfg) (a : Nat) (fs : FS)
    (hcb : c.callback ≠ .none) (hskip : c.skipCallbackWithoutMetadata = false)
    (hm : ∀ d, fs.dataAt (pMeta a) = some d → c.codec.metaStamp d = none) :
    (run (isInCacheAndValid c a) fs).1 ≠ .ok true := by
  intro h
  unfold isInCacheAndValid at h
  rw [run_bind] at h
  cases hcp : (run (checkPrevious c) fs).1 with
  | raised e => rw [hcp] at h; simp at h
  | ok b =>
    have hfs : b = true → (run (checkPrevious c) fs).2 = fs := fun hb => checkPrevious_true_noop c fs (by rw [hcp, hb])
    rw [hcp] at h
    cases b with
    | false => simp [run] at h
    | true =>
      rw [hfs rfl] at h
      simp only [Bool.not_true, Bool.false_eq_true, if_false, hskip, Bool.false_and] at h
      rw [run_bind] at h
      have ex : ∀ p, run (exists_ p) fs = (.ok ((apply (.stat p) fs).1 == .yes), fs) := fun p => rfl
      rw [ex] at h
      simp only at h
      cases he : ((apply (.stat (pOut a)) fs).1 == .yes) with
      | false => rw [he] at h; simp [run] at h
      | true =>
        rw [he] at h
        simp only [Bool.not_true, Bool.false_eq_true, if_false] at h
        rw [run_bind] at h
        have gm : run (getMetadata c a) fs = (.ok ((fs.dataAt (pMeta a)).bind c.codec.metaStamp), fs) := by
          unfold getMetadata FS.dataAt
          simp only [run, apply]
          cases hg : fs.get (pMeta a) with
          | none => rfl
          | some nd =>
            cases nd with
            | dir j => rfl
            | file i d => simp [apply, run, FS.readData, hg]
        rw [gm] at h
        have hnone : (fs.dataAt (pMeta a)).bind c.codec.metaStamp = none := by
          cases hd : fs.dataAt (pMeta a) with
          | none => rfl
          | some d => simpa using hm d hd
        rw [hnone] at h
        simp only at h
        by_cases hl : c.legacy = true
        · rw [if_pos hl] at h; simp [run] at h
        · rw [if_neg hl] at h
          by_cases hk : c.keepRejected = true
          · rw [if_pos hk] at h; simp [run] at h
          · rw [if_neg hk] at h; exact run_bind_const_ne _ _ h

/-- **accepted_under_since_has_recent_stamp.** For EVERY configuration of the code with the callback `since g` and EVERY
directory: if `_is_in_cache_and_valid` answers `True`, then `metadata.json` of the entry carries a readable stamp of a
generation `≥ g` (and `_check_previous_func_code` changed nothing). -/
theorem accepted_under_since_has_recent_stamp (c : Cfg) (a : Nat) (fs : FS) (g : Nat)
    (hcb : c.callback = .since g) (hskip : c.skipCallbackWithoutMetadata = false)
    (h : (run (isInCacheAndValid c a) fs).1 = .ok true) :
    ∃ t, metaStampOf c.codec fs a = some t ∧ g ≤ t := by
  have hne : c.callback ≠ .none := by rw [hcb]; intro e; cases e
  unfold isInCacheAndValid at h
  rw [run_bind] at h
  cases hcp : (run (checkPrevious c) fs).1 with
  | raised e => rw [hcp] at h; simp at h
  | ok b =>
    have hfs : b = true → (run (checkPrevious c) fs).2 = fs := fun hb => checkPrevious_true_noop c fs (by rw [hcp, hb])
    rw [hcp] at h
    cases b with
    | false => simp [run] at h
    | true =>
      rw [hfs rfl] at h
      simp only [Bool.not_true, Bool.false_eq_true, if_false, hskip, Bool.false_and] at h
      rw [run_bind] at h
      have ex : ∀ p, run (exists_ p) fs = (.ok ((apply (.stat p) fs).1 == .yes), fs) := fun p => rfl
      rw [ex] at h
      simp only at h
      cases he : ((apply (.stat (pOut a)) fs).1 == .yes) with
      | false => rw [he] at h; simp [run] at h
      | true =>
        rw [he] at h
        simp only [Bool.not_true, Bool.false_eq_true, if_false] at h
        rw [run_bind] at h
        have gm : run (getMetadata c a) fs = (.ok ((fs.dataAt (pMeta a)).bind c.codec.metaStamp), fs) := by
          unfold getMetadata FS.dataAt
          simp only [run, apply]
          cases hg : fs.get (pMeta a) with
          | none => rfl
          | some nd =>
            cases nd with
            | dir j => rfl
            | file i d => simp [apply, run, FS.readData, hg]
        rw [gm] at h
        have rej : (run (if c.keepRejected = true then Prog.ret false else (clearItem c a).bind fun _ => Prog.ret false) fs).1
            ≠ .ok true := by
          by_cases hk : c.keepRejected = true
          · rw [if_pos hk]; simp [run]
          · rw [if_neg hk]; exact run_bind_const_ne _ _
        unfold metaStampOf
        cases hst : (fs.dataAt (pMeta a)).bind c.codec.metaStamp with
        | none =>
          rw [hst] at h
          simp only at h
          by_cases hl : c.legacy = true
          · rw [if_pos hl] at h; simp [run] at h
          · rw [if_neg hl] at h; exact absurd h rej
        | some t =>
          rw [hst] at h
          simp only at h
          by_cases hacc : c.callback.accepts t = true
          · refine ⟨t, rfl, ?_⟩
            rw [hcb] at hacc
            simpa [Callback.accepts] using hacc
          · rw [if_neg hacc] at h; exact absurd h rej

/-- Hence, in EVERY directory in which the stamp of the entry is not newer than its value (`stampLeValue`), an entry that
`_is_in_cache_and_valid` accepts under `since g` holds — if it loads — a value of a generation `≥ g`. -/
theorem accepted_under_since_has_recent_value (c : Cfg) (a : Nat) (fs : FS) (g g' : Nat)
    (hcb : c.callback = .since g) (hskip : c.skipCallbackWithoutMetadata = false)
    (hinv : stampLeValue c.codec fs a = true) (hval : outGen c.codec fs a = some g')
    (h : (run (isInCacheAndValid c a) fs).1 = .ok true) : g ≤ g' := by
  obtain ⟨t, ht, hgt⟩ := accepted_under_since_has_recent_stamp c a fs g hcb hskip h
  unfold stampLeValue at hinv
  rw [ht, hval] at hinv
  have : t ≤ g' := by simpa using hinv
  omega
/-! ### The finite family (the drivers' codec `cdW`; generations 0 and 1; threshold `since 1`) -/

/-- a participant of generation `g` -/
def cfgG (me g : Nat) : Cfg := { codec := cdW, me := me, ver := 0, gen := g }

/-- the kernel lists `output.pkl` before `metadata.json` (the default rank lists them in creation order reversed) -/
def rankOutFirst : Name → Nat
  | .output => 0
  | _ => 1

/-- The cache after generation 0 computed and stored `f(3)` and `f(4)`. -/
def fsGen0 : FS := (run (callProc (cfgG 1 0) 4) (run (callProc (cfgG 0 0) 3) FS.empty).2).2

/-- the refresh: in generation 1, under "valid iff stamped in generation ≥ 1", the call `f(3)` -/
def refreshCfg : Cfg := { cfgG 2 1 with callback := .since 1 }

/-- a workload of the family: initial directory, program, live source version -/
structure CaseW where
  init : FS
  w : Workload
  ver : Nat := 0

/-- The family: first calls (generation 0 and 1) in an empty directory; the refresh of an expired entry under both
directory orders, as `__call__` and as `call_and_shelve(...).get()`; the refresh started in the directory a killed
refresh left behind (new `output.pkl`, no `metadata.json`; and: entry removed); a warm call without callback in
generation 1; a call after a source change in generation 1; `reduce_size` and `clear` in generation 1. -/
def casesW : List CaseW := [
  { init := FS.empty, w := .call (cfgG 2 0) 3 },
  { init := FS.empty, w := .call { cfgG 2 1 with callback := .since 1 } 3 },
  { init := fsGen0, w := .call refreshCfg 3 },
  { init := fsGen0, w := .call { refreshCfg with rank := rankOutFirst } 3 },
  { init := fsGen0, w := .call { refreshCfg with shelve := true } 3 },
  { init := crash 22 none (callProc refreshCfg 3) fsGen0, w := .call { refreshCfg with me := 3 } 3 },
  { init := crash 16 none (callProc refreshCfg 3) fsGen0, w := .call { refreshCfg with me := 3 } 3 },
  { init := fsGen0, w := .call (cfgG 2 1) 3 },
  { init := fsGen0, w := .call { cfgG 2 1 with ver := 1, callback := .since 1, rank := rankW } 3, ver := 1 },
  { init := fsGen0, w := .reduce (cfgG 2 1) [4, 3] },
  { init := fsGen0, w := .clear (cfgG 2 1) } ]

/-- kill points: after `k` system calls, `k < 64` (no workload of the family makes more than 50: beyond its last call
`crash` is the final state) -/
def killsW : List Nat := List.range 64

/-- torn lengths: the `k`-th call, when it is a write, transfers only its first `n` bytes, `n < 28` (the longest content
written, `func_code.py`, has 26 bytes), or is not torn -/
def tornsW : List (Option Nat) := none :: (List.range 28).map some

/-- the recovering call: a fresh process of generation 1 under "valid iff stamped in generation ≥ 1" -/
def recCfg (ver : Nat) : Cfg := { cfgG 9 1 with ver := ver, callback := .since 1 }

/-! ### All crash states of a solo run, each once -/

/-- the states a kill inside the call `o` can leave (a `write` cut to each strict prefix) -/
def tornStates (o : Op) (fs : FS) : List FS :=
  match o with
  | .write p i d => (List.range d.length).map fun n => (apply (.write p i (d.take n)) fs).2
  | _ => []

/-- every state a kill can leave: before the first call, inside each call, after each call -/
def crashStates {α : Type} : Prog α → FS → List FS
  | .ret _, fs => [fs]
  | .raise _, fs => [fs]
  | .op o k, fs => fs :: (tornStates o fs ++ crashStates (k (apply o fs).1) (apply o fs).2)

theorem self_mem_crashStates {α : Type} (p : Prog α) (fs : FS) : fs ∈ crashStates p fs := by
  cases p <;> simp [crashStates]

/-- `crashStates` is complete: the state after a kill at any point, torn or not, is one of them. -/
theorem crash_mem_crashStates {α : Type} (k : Nat) (torn : Option Nat) :
    ∀ (p : Prog α) (fs : FS), crash k torn p fs ∈ crashStates p fs := by
  induction k with
  | zero => intro p fs; cases p <;> exact self_mem_crashStates _ fs
  | succ k ih =>
    intro p fs
    cases p with
    | ret a => exact self_mem_crashStates _ fs
    | raise e => exact self_mem_crashStates _ fs
    | op o kont =>
      have rest : ∀ s, s ∈ crashStates (kont (apply o fs).1) (apply o fs).2 → s ∈ crashStates (.op o kont) fs :=
        fun s hs => List.mem_cons_of_mem _ (List.mem_append_right _ hs)
      have whole : (apply o fs).2 ∈ crashStates (.op o kont) fs := rest _ (self_mem_crashStates _ _)
      cases k with
      | zero =>
        cases torn with
        | none => exact rest _ (ih _ _)
        | some n =>
          show (apply (tear n o) fs).2 ∈ _
          rcases tear_eq n o with e | ⟨p, i, d, rfl, e⟩
          · rw [e]; exact whole
          · rw [e]
            by_cases hn : n < d.length
            · refine List.mem_cons_of_mem _ (List.mem_append_left _ ?_)
              simp only [tornStates, List.mem_map, List.mem_range]
              exact ⟨n, hn, rfl⟩
            · rw [List.take_of_length_le (by omega)]; exact whole
      | succ k' => exact rest _ (ih _ _)

/-- the invariant on every crash state of the family (evaluation of the model) -/
theorem stamp_sweep :
    ∀ x ∈ casesW, ∀ s ∈ crashStates x.w.prog x.init, ∀ a ∈ [3, 4, 5], stampLeValue cdW s a = true := by decide +kernel

/-- the recovering call on every crash state of the family (evaluation of the model) -/
theorem expiry_sweep :
    ∀ x ∈ casesW, ∀ s ∈ crashStates x.w.prog x.init, ∀ a ∈ [3, 4],
      (run (callProc (recCfg x.ver) a) s).1 = .ok ⟨x.ver, a, 1⟩ := by decide +kernel

/-- **stamp_not_newer_than_value_partial.** In EVERY crash state (every `k`, every torn length) of every workload of the
family, for every entry: the stamp of `metadata.json`, when readable, is not newer than the generation of the value in
the `output.pkl` next to it. (`output.pkl` is installed before `metadata.json`, and a rejected entry is removed before
it is recomputed: that order is what makes it hold — `metadata_first_counterexample`.) -/
theorem stamp_not_newer_than_value_partial (x : CaseW) (hx : x ∈ casesW) (k : Nat) (torn : Option Nat) (a : Nat)
    (ha : a ∈ [3, 4, 5]) : stampLeValue cdW (crash k torn x.w.prog x.init) a = true :=
  stamp_sweep x hx _ (crash_mem_crashStates k torn _ _) a ha

/-- **expiry_recovery_partial.** After a kill at any point (every `k`, every torn length) of every workload of the family,
the call `f(a)` made by a fresh process of generation 1 under the validation callback `since 1` does not raise and
returns the value of generation 1 (`≥ 1`: never the expired generation-0 value), for the refreshed argument and for
the bystander. Extends `crash_recovery` (which says: some generation) on this family. -/
theorem expiry_recovery_partial (x : CaseW) (hx : x ∈ casesW) (k : Nat) (torn : Option Nat) (a : Nat) (ha : a ∈ [3, 4]) :
    (run (callProc (recCfg x.ver) a) (crash k torn x.w.prog x.init)).1 = .ok ⟨x.ver, a, 1⟩ :=
  expiry_sweep x hx _ (crash_mem_crashStates k torn _ _) a ha

/-! ### The two seeded orders, as model variants -/

/-- C05-r4-m1: `metadata.json` before `output.pkl`, rejected entries not removed -/
def m1 (c : Cfg) : Cfg := { c with metadataFirst := true, keepRejected := true }
/-- C05-r4-m2: the callback is not consulted when there is no metadata -/
def m2 (c : Cfg) : Cfg := { c with skipCallbackWithoutMetadata := true }


/-- **metadata_first_counterexample (C05-r4-m1).** With `metadata.json` stored before `output.pkl` and rejected entries
not removed, the refresh of the expired entry `f(3)` killed after 14 system calls (the new `metadata.json` is installed,
the new `output.pkl` is not) leaves the generation-1 stamp next to the generation-0 value: the invariant fails, and the
recovering call of generation 1 under `since 1` accepts the entry and returns the EXPIRED value `⟨0, 3, 0⟩`. -/
theorem metadata_first_counterexample :
    stampLeValue cdW (crash 14 none (callProc (m1 refreshCfg) 3) fsGen0) 3 = false ∧
    metaStampOf cdW (crash 14 none (callProc (m1 refreshCfg) 3) fsGen0) 3 = some 1 ∧
    outGen cdW (crash 14 none (callProc (m1 refreshCfg) 3) fsGen0) 3 = some 0 ∧
    (run (callProc (m1 (recCfg 0)) 3) (crash 14 none (callProc (m1 refreshCfg) 3) fsGen0)).1 = .ok ⟨0, 3, 0⟩ := by
  decide +kernel

/-- the 14th call of that refresh is the `rename` that installs `metadata.json`; no `output.pkl` is renamed before it -/
example : (((runLog (callProc (m1 refreshCfg) 3) fsGen0).1.take 14).getLast?.map
      fun x => ((match x.1 with | .rename _ q => q == pMeta 3 | _ => false), x.2)) = some (true, .ok) ∧
    ((runLog (callProc (m1 refreshCfg) 3) fsGen0).1.take 14).all
      (fun x => match x.1 with | .rename _ q => q != pOut 3 | _ => true) = true := by decide +kernel

/-- each half of C05-r4-m1 alone is harmless for this refresh: every crash state recovers to the generation-1 value -/
example : ∀ c ∈ [{ refreshCfg with metadataFirst := true }, { refreshCfg with keepRejected := true }],
    ∀ s ∈ crashStates (callProc c 3) fsGen0, ∀ a ∈ [3, 4],
      (run (callProc { recCfg 0 with metadataFirst := c.metadataFirst, keepRejected := c.keepRejected } a) s).1
        = .ok ⟨0, a, 1⟩ := by decide +kernel

/-- **skip_callback_without_metadata_counterexample (C05-r4-m2).** A first call in generation 0 killed after 22 system
calls (`output.pkl` installed, `metadata.json` not yet): the entry has a value of generation 0 and no stamp. The code
(`entry_without_metadata_is_not_valid_under_a_callback`) recomputes; the variant that does not consult the callback
without metadata serves the generation-0 value to a call of generation 1 under `since 1` — and would for ever. -/
theorem skip_callback_without_metadata_counterexample :
    metaStampOf cdW (crash 22 none (callProc (m2 (cfgG 2 0)) 3) FS.empty) 3 = none ∧
    outGen cdW (crash 22 none (callProc (m2 (cfgG 2 0)) 3) FS.empty) 3 = some 0 ∧
    (run (callProc (m2 (recCfg 0)) 3) (crash 22 none (callProc (m2 (cfgG 2 0)) 3) FS.empty)).1 = .ok ⟨0, 3, 0⟩ ∧
    (run (callProc (recCfg 0) 3) (crash 22 none (callProc (m2 (cfgG 2 0)) 3) FS.empty)).1 = .ok ⟨0, 3, 1⟩ := by
  decide +kernel

/-! Non-vacuity: the family's workloads satisfy the hypotheses of the general theorems (`Workload.OK`, `CacheOK` of the
empty directory), and the refresh really goes through the expiry path: it removes the entry and stores generation 1. -/
example : (Workload.call refreshCfg 3).OK πW 2 := ⟨rfl, rfl, rfl, rfl, rfl, rfl, rfl⟩
example : (run (callProc refreshCfg 3) fsGen0).1 = .ok ⟨0, 3, 1⟩ ∧ steps (callProc refreshCfg 3) fsGen0 = 27 ∧
    outGen cdW fsGen0 3 = some 0 ∧ metaStampOf cdW fsGen0 3 = some 0 ∧
    outGen cdW (run (callProc refreshCfg 3) fsGen0).2 3 = some 1 ∧
    metaStampOf cdW (run (callProc refreshCfg 3) fsGen0).2 3 = some 1 := by decide +kernel
example : (crashStates (callProc refreshCfg 3) fsGen0).length = 41 := by decide +kernel

end C05
