import JoblibProofs.Lemmas.NJobs
/-!
# C15 — n_jobs bounds concurrency; nesting never multiplies worker processes

Statement (properties.jsonl): a `Parallel` call never executes more tasks simultaneously than its
resolved `n_jobs`: a positive `n_jobs` is the bound, a negative one means `cpu_count()+1+n_jobs` but
at least 1, 0 is rejected with `ValueError`, 1 runs in the calling thread, and `cpu_count()` is at
least 1 and honours CPU affinity and `LOKY_MAX_CPU_COUNT`. By default `Parallel` calls nested inside
workers start no further worker processes: the first nesting level runs on threads and deeper
levels run sequentially.

Quantifier reached here: ALL integers `n_jobs` (and `None`), all CPU counts, all four backend
classes, every nesting level (also `None`), daemon / non-daemon processes, main / other threads,
any loky depth, multiprocessing available or not; every combination of `os.cpu_count()` (also `None`/0),
affinity, cgroup quota/period, `LOKY_MAX_CPU_COUNT` (unset, any integer incl. 0 and negatives, or
not a number), physical-core count; nesting of ANY depth (the statement asks depth ≤ 3).

PARTIAL, as DESIGN.md C15 says: "never more than `n_jobs` tasks at once" is, beyond the arithmetic
proved here (`resolve_*`, `pool_sized_to_n_jobs`), the fact that `ThreadPool(n)`,
`MemmappingPool(n)` and loky's executor with `max_workers=n` run at most `n` tasks at a time, and
`workerEnv` (which thread / process a worker is) describes those pools. That part is MEASURED by the
harness (high-water marks, pids, thread ids), not proved.

Model: `JoblibModel.NJobs` (+ the backend selection of `JoblibModel.Config` for the nested case).
-/
namespace C15
open JoblibModel.NJobs JoblibModel.Config

/-- One of the guards of the backend class makes it run with a single job whatever was asked:
multiprocessing missing; (process backends) a daemonic process, a thread other than the main one
unless `nesting_level == 0`; (multiprocessing only) inside a loky worker. The sequential backend
always does. -/
def guarded (cls : BackendClass) (level : Option Nat) (env : EffEnv) : Bool :=
  match cls with
  | .sequential => true
  | .threading => env.mpNone
  | .loky => env.mpNone || env.daemon || nestedBelowThread env level
  | .multiprocessing =>
    env.mpNone || env.daemon || decide (env.lokyDepth > 0) || nestedBelowThread env level

/-! ## n_jobs arithmetic -/

/-- `resolve_pos`. A positive `n_jobs` is taken as it is. -/
theorem resolve_pos (cls : BackendClass) (level : Option Nat) (env : EffEnv) (n : Int)
    (hg : guarded cls level env = false) (hn : 0 < n) :
    effectiveNJobs cls level env (some n) = .ok n := by
  have h0 : n ≠ 0 := by omega
  have hneg : ¬ n < 0 := by omega
  cases cls <;> simp_all [guarded, effectiveNJobs, poolEffective] <;> (intro h; omega)

/-- `resolve_neg`. A negative `n_jobs` means `cpu_count() + 1 + n_jobs`, but at least 1. -/
theorem resolve_neg (cls : BackendClass) (level : Option Nat) (env : EffEnv) (n : Int)
    (hg : guarded cls level env = false) (hn : n < 0) :
    effectiveNJobs cls level env (some n) = .ok (max (env.cpus + 1 + n) 1) := by
  have h0 : n ≠ 0 := by omega
  cases cls <;> simp_all [guarded, effectiveNJobs, poolEffective]

/-- Under a guard every request except 0 resolves to one job (for the multiprocessing backend 0
does too — see `mp_zero_under_guard`). -/
theorem guarded_resolves_one (cls : BackendClass) (level : Option Nat) (env : EffEnv)
    (n : Option Int) (hg : guarded cls level env = true) (hn : n ≠ some 0) :
    effectiveNJobs cls level env n = .ok 1 := by
  cases cls
  · simp [effectiveNJobs, hn]
  · simp only [guarded] at hg
    cases n <;> simp_all [effectiveNJobs, poolEffective]
  · simp only [guarded, Bool.or_eq_true, decide_eq_true_eq] at hg
    unfold effectiveNJobs
    simp only []
    split
    · rfl
    · split
      · rfl
      · split
        · rfl
        · split
          · rfl
          · simp_all
  · simp only [guarded, Bool.or_eq_true] at hg
    unfold effectiveNJobs
    simp only [hn, if_false]
    split
    · rfl
    · cases n with
      | none => rfl
      | some m =>
        simp only []
        split
        · rfl
        · split
          · rfl
          · simp_all

/-- `resolve_ge_one`. Whatever `effective_n_jobs` returns is at least 1. -/
theorem resolve_ge_one (cls : BackendClass) (level : Option Nat) (env : EffEnv) (n : Option Int)
    (k : Int) (h : effectiveNJobs cls level env n = .ok k) : 1 ≤ k := by
  have pool : ∀ k, poolEffective env n = .ok k → 1 ≤ k := by
    intro k hk
    unfold poolEffective at hk
    cases n with
    | none => simp at hk; omega
    | some m =>
      split at hk
      · cases hk
      · rename_i h0
        have hm : m ≠ 0 := by intro h; apply h0; rw [h]
        split at hk
        · cases hk; omega
        · simp only [] at hk
          split at hk <;> (cases hk; omega)
  unfold effectiveNJobs at h
  cases cls with
  | sequential => simp only [] at h; split at h <;> cases h; omega
  | threading => exact pool k h
  | multiprocessing =>
    simp only [] at h
    repeat' split at h
    all_goals first
      | (cases h; omega)
      | exact pool k h
  | loky =>
    simp only [] at h
    split at h
    · cases h
    · rename_i h0
      split at h
      · cases h; omega
      · cases n with
        | none => simp only [] at h; cases h; omega
        | some m =>
          have hm : m ≠ 0 := by intro hh; apply h0; rw [hh]
          simp only [] at h
          repeat' split at h
          all_goals (cases h; omega)

/-- `resolve_zero_rejected`. A `Parallel` whose `n_jobs` is 0 is rejected with `ValueError` when its
backend is initialised — by every backend class, in every situation (under a guard of the
multiprocessing backend it is the sequential fallback that rejects it). -/
theorem resolve_zero_rejected (cls : BackendClass) (level : Option Nat) (env : EffEnv) :
    initializeBackend cls level env (some 0) = .error .valueError := by
  cases cls
  · simp [initializeBackend, effectiveNJobs, bind, Except.bind]
  · simp [initializeBackend, effectiveNJobs, poolEffective, bind, Except.bind]
  · unfold initializeBackend
    cases h : effectiveNJobs .multiprocessing level env (some 0) with
    | error e => cases e; rfl
    | ok n =>
      have h1 : n = 1 := by
        unfold effectiveNJobs at h
        simp only [] at h
        repeat' split at h
        all_goals first
          | (cases h; rfl)
          | (simp [poolEffective] at h)
      subst h1
      simp [bind, Except.bind, effectiveNJobs]
  · simp [initializeBackend, effectiveNJobs, bind, Except.bind]

/-- The bare method `effective_n_jobs(0)` raises for three of the four classes in every situation… -/
theorem effective_zero_rejected (cls : BackendClass) (level : Option Nat) (env : EffEnv)
    (hc : cls ≠ .multiprocessing) : effectiveNJobs cls level env (some 0) = .error .valueError := by
  cases cls <;> simp_all [effectiveNJobs, poolEffective]

/-- …and `MultiprocessingBackend.effective_n_jobs(0)` returns 1 under a guard (the guards are tested
first). This does not reach a `Parallel` call: `resolve_zero_rejected`. -/
theorem mp_zero_under_guard :
    effectiveNJobs .multiprocessing (some 0) ⟨false, true, true, 0, 4⟩ (some 0) = .ok 1 := by decide

/-- `one_is_sequential`. `n_jobs = 1` ends on the sequential backend with no pool at all — the
tasks run in the calling thread (`Parallel.__call__`: `if n_jobs == 1: _get_sequential_output`). -/
theorem one_is_sequential (cls : BackendClass) (level : Option Nat) (env : EffEnv) :
    initializeBackend cls level env (some 1) = .ok ⟨.sequential, 1, none⟩ := by
  have h : effectiveNJobs cls level env (some 1) = .ok 1 := by
    cases cls
    · simp [effectiveNJobs]
    · simp [effectiveNJobs, poolEffective]
    · unfold effectiveNJobs; simp only []
      repeat' split
      all_goals first | rfl | simp [poolEffective]
    · unfold effectiveNJobs; simp only []
      repeat' split
      all_goals first | rfl | simp_all
  unfold initializeBackend
  rw [h]
  cases cls <;> simp [bind, Except.bind, pure, Except.pure, effectiveNJobs]

/-- More generally: the call runs in the calling thread exactly when one job was resolved, and
otherwise the pool / executor is created with exactly the resolved `n_jobs` (≥ 2) workers. -/
theorem pool_sized_to_n_jobs (cls : BackendClass) (level : Option Nat) (env : EffEnv)
    (n : Option Int) (r : InitResult) (h : initializeBackend cls level env n = .ok r) :
    1 ≤ r.n_jobs ∧ (r.n_jobs = 1 ↔ r.cls = .sequential) ∧
      (r.cls = .sequential → r.pool = none) ∧
      (r.cls ≠ .sequential → r.cls = cls ∧ r.pool = some r.n_jobs ∧
        effectiveNJobs cls level env n = .ok r.n_jobs) := by
  unfold initializeBackend at h
  cases he : effectiveNJobs cls level env n with
  | error e => simp [he, bind, Except.bind] at h
  | ok k =>
    have hk := resolve_ge_one cls level env n k he
    simp only [he, bind, Except.bind] at h
    cases cls with
    | sequential =>
      simp only [pure, Except.pure] at h
      cases h
      have : k = 1 := by simp [effectiveNJobs] at he; split at he <;> cases he; rfl
      subst this; simp
    | threading | multiprocessing | loky =>
      simp only [] at h
      split at h
      · rename_i h1
        cases hs : effectiveNJobs .sequential level env n with
        | error e => simp [hs] at h
        | ok k' =>
          simp only [hs, pure, Except.pure] at h
          cases h
          have : k' = 1 := by simp [effectiveNJobs] at hs; split at hs <;> cases hs; rfl
          subst this; simp
      · rename_i h1
        simp only [pure, Except.pure] at h
        cases h
        simp [hk, h1]

/-! ## cpu_count -/

theorem osCpuCount_ge_one (e : CpuEnv) (hw : ∀ w, e.winCap = some w → 1 ≤ w) :
    1 ≤ osCpuCount e := by
  have hc1 : 1 ≤ osCpuCountRaw e := by
    unfold osCpuCountRaw; split
    · omega
    · split <;> omega
  unfold osCpuCount
  cases hcap : e.winCap with
  | none => simp only []; omega
  | some w => have := hw w hcap; simp only []; omega

/-- `cpu_count_ge_one`. `cpu_count()` — with or without `only_physical_cores` — is at least 1
whenever it returns (it raises `ValueError` only for a `LOKY_MAX_CPU_COUNT` that is not an integer),
for every combination of inputs, including `LOKY_MAX_CPU_COUNT=0` or negative. -/
theorem cpu_count_ge_one (e : CpuEnv) (b : Bool) (k : Int) (h : cpuCount e b = .ok k) : 1 ≤ k := by
  unfold cpuCount at h
  cases hu : cpuCountUser e (osCpuCount e) with
  | error x => simp [hu, bind, Except.bind] at h
  | ok u =>
    simp only [hu, bind, Except.bind, pure, Except.pure] at h
    split at h
    · cases h; omega
    · split at h
      · cases h; omega
      · split at h
        · split at h
          · cases h; omega
          · cases h; omega
        · cases h; omega

/-- The limits `cpu_count()` honours, each read as "at least one CPU". -/
structure WithinLimits (e : CpuEnv) (k : Int) : Prop where
  os : k ≤ max (osCpuCount e) 1
  affinity : ∀ a, e.affinity = some a → k ≤ max (a : Int) 1
  cgroup : ∀ q p, e.cgroup = some (q, p) → 0 < q → 0 < p → k ≤ max (ceilDiv q p) 1
  loky : ∀ v, e.lokyMax = some (some v) → k ≤ max v 1

/-- `cpu_count_le_each_limit`. The count never exceeds the machine's CPU count, the size of the
affinity mask, the cgroup CPU quota (`ceil(quota/period)`) or `LOKY_MAX_CPU_COUNT` — each limit
taken as at least 1. With `only_physical_cores=True` this needs the physical-core count not to
exceed the logical one (a fact about the machine, assumed). -/
theorem cpu_count_le_each_limit (e : CpuEnv) (b : Bool) (k : Int) (h : cpuCount e b = .ok k)
    (hp : ∀ p, e.physical = some p → (p : Int) ≤ osCpuCount e) : WithinLimits e k := by
  unfold cpuCount at h
  cases hu : cpuCountUser e (osCpuCount e) with
  | error x => simp [hu, bind, Except.bind] at h
  | ok u =>
    simp only [hu, bind, Except.bind, pure, Except.pure] at h
    -- what `u` is
    unfold cpuCountUser at hu
    cases hl : cpuCountLoky (osCpuCount e) e.lokyMax with
    | error x => simp [hl, bind, Except.bind] at hu
    | ok lk =>
      simp only [hl, bind, Except.bind, pure, Except.pure] at hu
      have hu' : u = min (cpuCountAffinity (osCpuCount e) e.affinity)
          (min (cpuCountCgroup (osCpuCount e) e.cgroup) lk) := (Except.ok.inj hu).symm
      have haff : ∀ a, e.affinity = some a → u ≤ (a : Int) := by
        intro a ha; rw [hu']; simp [cpuCountAffinity, ha]; omega
      have hcg : ∀ q p, e.cgroup = some (q, p) → 0 < q → 0 < p → u ≤ ceilDiv q p := by
        intro q p hc hq hpp; rw [hu']; simp [cpuCountCgroup, hc, hq, hpp]; omega
      have hlk : ∀ v, e.lokyMax = some (some v) → u ≤ v := by
        intro v hv
        rw [hv] at hl; simp [cpuCountLoky] at hl
        rw [hu', hl]; omega
      -- every returned value is ≤ max (min os u) 1 or, in the physical branch, ≤ os ≤ u
      have key : (k ≤ max (min (osCpuCount e) u) 1) ∨ (k ≤ osCpuCount e ∧ osCpuCount e ≤ u) := by
        split at h
        · cases h; left; omega
        · split at h
          · cases h; left; omega
          · rename_i hlt
            split at h
            · rename_i p hph
              split at h
              · cases h; left; omega
              · cases h; right; exact ⟨hp p hph, by omega⟩
            · cases h; left; omega
      refine ⟨?_, ?_, ?_, ?_⟩
      · rcases key with h1 | h1 <;> omega
      · intro a ha; have := haff a ha; rcases key with h1 | h1 <;> omega
      · intro q p hc hq hpp; have := hcg q p hc hq hpp; rcases key with h1 | h1 <;> omega
      · intro v hv; have := hlk v hv; rcases key with h1 | h1 <;> omega

/-- `ceilDiv q p` is the ceiling of `q / p`: the least integer whose product with `p` reaches `q`. -/
theorem cgroup_quota_is_ceiling (q p : Int) (hp : 0 < p) :
    q ≤ ceilDiv q p * p ∧ (ceilDiv q p - 1) * p < q := by
  unfold ceilDiv
  have h1 := Int.mul_ediv_add_emod (q + p - 1) p
  have h2 := Int.emod_nonneg (q + p - 1) (by omega : p ≠ 0)
  have h3 := Int.emod_lt_of_pos (q + p - 1) hp
  generalize (q + p - 1) / p = d at *
  generalize (q + p - 1) % p = m at *
  have e1 : d * p = p * d := Int.mul_comm _ _
  have e2 : (d - 1) * p = p * d - p := by
    rw [Int.sub_mul, Int.one_mul, Int.mul_comm]
  constructor <;> omega

/-- With nothing restricting it the count is the machine's. -/
theorem cpu_count_unrestricted (n : Nat) (hn : 1 ≤ n) :
    cpuCount ⟨some n, none, some n, none, none, none⟩ false = .ok n := by
  have : n ≠ 0 := by omega
  simp [cpuCount, cpuCountUser, cpuCountLoky, cpuCountAffinity, cpuCountCgroup, osCpuCount,
    osCpuCountRaw, bind, Except.bind, pure, Except.pure, this]
  omega

/-! ## Nesting -/

/-- One level below a backend that really uses workers. -/
theorem nested_level_one (cls : BackendClass) (level : Nat) (active : BackendClass × Nat)
    (hc : cls ≠ .sequential) :
    getNestedBackend cls level active =
      if level = 0 then (.threading, 1) else (.sequential, level + 1) := by
  cases cls <;> simp_all [getNestedBackend] <;> split <;> simp_all <;> omega

/-- Below a top-level call on ANY non-sequential backend (level 0), `Parallel(...)` without `backend=`
uses: depth 1 → the threading backend (level 1); every depth ≥ 2 → the sequential backend.
Induction on the depth. -/
theorem default_chain (top : BackendClass × Nat) (hc : top.1 ≠ .sequential) (h0 : top.2 = 0) :
    defaultAt top 1 = (.threading, 1) ∧ ∀ d, 2 ≤ d → defaultAt top d = (.sequential, 2) := by
  have h1 : defaultAt top 1 = (.threading, 1) := by
    simp only [defaultAt]
    rw [nested_level_one _ _ _ hc, if_pos h0]
  refine ⟨h1, ?_⟩
  intro d hd
  induction d with
  | zero => omega
  | succ d ih =>
    by_cases h2 : d = 1
    · subst h2
      simp only [defaultAt] at h1 ⊢
      rw [h1]; rfl
    · have := ih (by omega)
      simp only [defaultAt]
      rw [this]; rfl

/-- Backends that use threads never end with a process pool, whatever `n_jobs`. -/
theorem thread_backend_no_processes (cls : BackendClass) (level : Option Nat) (env : EffEnv)
    (n : Option Int) (r : InitResult) (hc : processBased cls = false)
    (h : initializeBackend cls level env n = .ok r) : processBased r.cls = false := by
  obtain ⟨_, _, _, h4⟩ := pool_sized_to_n_jobs cls level env n r h
  by_cases hs : r.cls = .sequential
  · rw [hs]; rfl
  · rw [(h4 hs).1]; exact hc

/-- Inside a worker, `BatchedCalls.__call__` installs `parallel_config(backend=nested, n_jobs=None)`;
a `Parallel` constructed there without `backend=` — whatever its `n_jobs`, `prefer`, `verbose`, … —
uses exactly that nested backend (link with the `Config` model: a backend set by a context is
"explicit", so hints do not move it; `require='sharedmem'` cannot either because the nested
backends support shared memory). -/
theorem worker_uses_nested (env : JoblibModel.Config.Env) (c : BackendClass) (l : Nat)
    (hsm : c.supportsSharedmem = true) (cm : Ctx) (cfg e : Config) (r : ParObs)
    (hin : parallelConfigInit Config.unset
        { Config.unset with backend := some (.backend c (some l)), n_jobs := some .none } = .ok (cm, cfg))
    (he : e.backend = none ∨ e.backend = some .none)
    (h : parallelInit env cfg e = .ok r) : r.backend = ⟨c, some l⟩ := by
  have hcfg : cfg = { Config.unset with backend := some (.backend c (some l)), n_jobs := some .none } := by
    simp [parallelConfigInit, newConfig, checkBackend, bind, Except.bind, pure, Except.pure] at hin
    rw [← hin.2]; rfl
  obtain ⟨a, ha, _, _, _, _, _, _, _, hch, _⟩ := parallelInit_ok h
  obtain ⟨_, _, _, explicit, b, hcb, h4⟩ := getActive_ok ha
  have hb : explicit = true ∧ b = ⟨c, some l⟩ := by
    rw [hcfg] at hcb
    simp [contextBackend, getConfigParam, Config.get] at hcb
    exact ⟨hcb.1, hcb.2.symm⟩
  obtain ⟨rfl, rfl⟩ := hb
  have hab : a.backend = ⟨c, some l⟩ := by
    have hft : ∀ p q, forceThreads true c p q = false := by
      intro p q; simp [forceThreads, hsm]
    have hfp : ∀ p, forceProcesses true c p = false := by intro p; simp [forceProcesses]
    simp only [hft, hfp] at h4
    simp at h4
    rw [h4]
  unfold chooseBackend at hch
  rcases he with he | he <;> rw [he] at hch <;> simp only [] at hch <;>
    exact (Except.ok.inj hch).symm.trans hab

/-- A process backend asked for explicitly inside a *thread* worker (any nesting level ≥ 1) or inside
a `multiprocessing` worker (a daemonic process) still gets one job; inside a loky worker the
multiprocessing backend does too. -/
theorem process_backend_in_worker_one (cls : BackendClass) (hc : processBased cls = true)
    (level : Nat) (hl : 1 ≤ level) (env : EffEnv) (n : Option Int) (hn : n ≠ some 0) :
    effectiveNJobs cls (some level) (workerEnv .threading env) n = .ok 1 ∧
    effectiveNJobs cls (some level) (workerEnv .multiprocessing env) n = .ok 1 ∧
    effectiveNJobs .multiprocessing (some level) (workerEnv .loky env) n = .ok 1 := by
  have hlv : (some level == some 0) = false := by
    simp; omega
  refine ⟨?_, ?_, ?_⟩
  · apply guarded_resolves_one _ _ _ _ _ hn
    cases cls <;> simp_all [processBased, guarded, workerEnv, nestedBelowThread]
  · apply guarded_resolves_one _ _ _ _ _ hn
    cases cls <;> simp_all [processBased, guarded, workerEnv]
  · apply guarded_resolves_one _ _ _ _ _ hn
    simp [guarded, workerEnv]

/-- `nested_default_no_processes`. Start from a top-level call on any backend that uses workers
(level 0). At every depth `d ≥ 1` below it, a `Parallel` that does not name a backend runs on the
threading backend (d = 1) or the sequential backend (d ≥ 2), and initialising it — for ANY
`n_jobs` and in ANY process/thread situation — never yields a process-based backend: no further
worker processes. -/
theorem nested_default_no_processes (top : BackendClass × Nat) (hc : top.1 ≠ .sequential)
    (h0 : top.2 = 0) (d : Nat) (hd : 1 ≤ d) :
    ((d = 1 ∧ defaultAt top d = (.threading, 1)) ∨ (2 ≤ d ∧ defaultAt top d = (.sequential, 2))) ∧
    ∀ (env : EffEnv) (n : Option Int) (r : InitResult),
      initializeBackend (defaultAt top d).1 (some (defaultAt top d).2) env n = .ok r →
        processBased r.cls = false := by
  obtain ⟨h1, h2⟩ := default_chain top hc h0
  have hcase : (d = 1 ∧ defaultAt top d = (.threading, 1)) ∨
      (2 ≤ d ∧ defaultAt top d = (.sequential, 2)) := by
    by_cases hd1 : d = 1
    · subst hd1; exact .inl ⟨rfl, h1⟩
    · exact .inr ⟨by omega, h2 d (by omega)⟩
  refine ⟨hcase, ?_⟩
  intro env n r hr
  apply thread_backend_no_processes _ _ _ _ _ _ hr
  rcases hcase with ⟨_, h⟩ | ⟨_, h⟩ <;> rw [h] <;> rfl

/-! ## A sequence of calls on the reusable loky executor -/

/-- What an executor looks like between two calls: never more live workers than `_max_workers`,
and none before the first submit. -/
def PoolWF (p : Pool) : Prop := p.alive ≤ p.maxWorkers ∧ (p.started = false → p.alive = 0)

/-- `resize_worker_count_eq`. Whatever the previous calls asked for — more workers, fewer, the same
number, or nothing yet — the call that asks the reusable executor for `n` workers runs on exactly
`n` live worker processes (growing spawns the difference, SHRINKING retires the surplus), and the
executor is again well-formed for the next call. By induction this holds along any sequence of
calls with growing and shrinking `n_jobs`. -/
theorem resize_worker_count_eq (cur : Option Pool) (same_args : Bool) (n : Nat)
    (h : ∀ p, cur = some p → PoolWF p) :
    (submitEnsure (getReusableExecutor cur same_args n)).alive = n ∧
    (submitEnsure (getReusableExecutor cur same_args n)).maxWorkers = n ∧
    PoolWF (submitEnsure (getReusableExecutor cur same_args n)) := by
  have fresh : (submitEnsure (Pool.fresh n)).alive = n ∧ (submitEnsure (Pool.fresh n)).maxWorkers = n ∧
      PoolWF (submitEnsure (Pool.fresh n)) := by
    simp [submitEnsure, Pool.fresh, PoolWF]
  cases cur with
  | none => exact fresh
  | some p =>
    obtain ⟨h1, h2⟩ := h p rfl
    simp only [getReusableExecutor]
    cases same_args with
    | false => exact fresh
    | true =>
      simp only [if_true]
      unfold resize
      by_cases hn : n = p.maxWorkers
      · subst hn
        simp only [if_true, submitEnsure, PoolWF]
        refine ⟨by omega, trivial, by omega, by simp⟩
      · rw [if_neg hn]
        cases hs : p.started with
        | false =>
          have := h2 hs
          simp [submitEnsure, PoolWF, this]
        | true =>
          simp only [Bool.not_true, Bool.false_eq_true, if_false, submitEnsure, PoolWF]
          refine ⟨by omega, trivial, by omega, by simp⟩

/-- …along a whole sequence of calls (each may or may not find the executor reusable). -/
theorem sequence_worker_count_eq (calls : List (Bool × Nat)) (cur : Option Pool)
    (h : ∀ p, cur = some p → PoolWF p) :
    ∀ st, st = calls.foldl (fun (acc : Option Pool × List Nat) c =>
        let p := submitEnsure (getReusableExecutor acc.1 c.1 c.2)
        (some p, acc.2 ++ [p.alive])) (cur, []) → st.2 = calls.map (·.2) := by
  suffices H : ∀ (calls : List (Bool × Nat)) (cur : Option Pool) (done : List Nat),
      (∀ p, cur = some p → PoolWF p) →
      (calls.foldl (fun (acc : Option Pool × List Nat) c =>
        let p := submitEnsure (getReusableExecutor acc.1 c.1 c.2)
        (some p, acc.2 ++ [p.alive])) (cur, done)).2 = done ++ calls.map (·.2) by
    intro st hst; rw [hst]; simpa using H calls cur [] h
  intro calls
  induction calls with
  | nil => intro cur done _; simp
  | cons c rest ih =>
    intro cur done hwf
    obtain ⟨ha, _, hw⟩ := resize_worker_count_eq cur c.1 c.2 hwf
    simp only [List.foldl_cons, List.map_cons]
    rw [ih _ _ (fun p hp => by cases hp; exact hw), ha]
    simp

/-- The shortcut "shrinking needs no spawn, just lower `_max_workers`" would leave the surplus
workers alive: 4 then 2 keeps 4 (witness of why the shrink branch matters). -/
theorem shrink_shortcut_counterexample :
    let p : Pool := ⟨4, 4, true⟩
    (submitEnsure { p with maxWorkers := 2 }).alive = 4 ∧ (submitEnsure (resize p 2)).alive = 2 := by
  decide


/-! ## The thread pool of one `ThreadingBackend` instance over a history of calls -/

/-- `thread_pool_exact`. One `ThreadingBackend` instance — at ANY nesting level: the instance a
`parallel_config(backend="threading")` block hands to every call, or the nested instance that
`BatchedCalls` installs for all the tasks of a batch in a thread, loky or multiprocessing worker —
serves ANY history of statements `Parallel(n_jobs=n)(…)` and `with Parallel(n_jobs=n) as p: p(…); p(…)`
with growing and shrinking `n` (also `n = 1`, which falls back to the sequential backend), each with
any number of tasks. Provided a `with` block contains only calls of its own `Parallel` object
(`TCall.clean`): EVERY task of EVERY call is put on a pool of exactly the call's resolved `n_jobs`
threads — never on a pool left by an earlier call — and once the history is over the instance holds
no pool. -/
theorem thread_pool_exact (cs : List TCall) (hc : ∀ c ∈ cs, c.clean = true) (b : TBackend)
    (hb : b.pool = none) :
    (∀ o ∈ (tRun .asIs b cs).2, ∀ k ∈ o.sizes, k = o.n) ∧ (tRun .asIs b cs).1.pool = none := by
  induction cs generalizing b with
  | nil => simp [tRun, hb]
  | cons c rest ih =>
    have hrest : ∀ c ∈ rest, c.clean = true := fun c h => hc c (List.mem_cons_of_mem _ h)
    cases c with
    | plain n t =>
      obtain ⟨p1, p2, _⟩ := tPlain_asIs n t b hb
      obtain ⟨h1, h2⟩ := ih hrest _ p2
      simp only [tRun]
      refine ⟨?_, h2⟩
      intro o ho
      simp only [List.mem_cons] at ho
      rcases ho with ho | ho
      · subst ho; exact p1
      · exact h1 o ho
    | managed n body =>
      have hbody : ownOnly body = true := hc (.managed n body) (List.mem_cons_self ..)
      obtain ⟨p1, p2⟩ := tManaged_asIs n body hbody b hb
      obtain ⟨h1, h2⟩ := ih hrest _ p2
      simp only [tRun]
      refine ⟨?_, h2⟩
      intro o ho
      simp only [List.mem_append] at ho
      rcases ho with ho | ho
      · intro k hk; rw [(p1 o ho).1]; exact (p1 o ho).2 k hk
      · exact h1 o ho

/-- Every task of a plain call with `n ≠ 1` is observed (the statement above is not about an empty
list of sizes). -/
theorem thread_pool_sees_every_task (n t : Nat) (hn : n ≠ 1) (b : TBackend) (hb : b.pool = none) :
    (tPlain .asIs b n t).2 = List.replicate t n := by
  obtain ⟨h1, _, h3⟩ := tPlain_asIs n t b hb
  exact List.eq_replicate_iff.mpr ⟨h3 hn, h1⟩

/-- Why `terminate()` at the end of every unmanaged call (and a pool built lazily with exactly
`_n_jobs` threads) matters: an instance that keeps its pool for the next call and rebuilds it only
when it is too SMALL puts the three tasks of the `n_jobs=2` call on the 4 threads left by the
`n_jobs=4` call. -/
theorem kept_pool_counterexample :
    (tRun .keepLarger TBackend.fresh [.plain 4 3, .plain 2 3]).2
      = [⟨4, [4, 4, 4], some 4⟩, ⟨2, [4, 4, 4], some 4⟩] := by decide

/-- The hypothesis `clean` cannot be dropped, in the model AND in the code (finding reported by the
check under `C15_FOREIGN_IN_MANAGED=1`): another `Parallel(n_jobs=2)` call made inside
`with Parallel(n_jobs=4) as p` through the same instance runs on p's 4 threads, then terminates
them, and p's next call runs on 2. -/
theorem foreign_call_in_managed_block_counterexample :
    (tRun .asIs TBackend.fresh [.managed 4 [.own 2, .foreign 2 2, .own 2]]).2
      = [⟨4, [4, 4], some 4⟩, ⟨2, [4, 4], none⟩, ⟨4, [2, 2], some 2⟩] := by decide

/-! ## Non-vacuity -/
example : PoolWF ⟨4, 4, true⟩ := by simp [PoolWF]
example : (tRun .asIs TBackend.fresh [.plain 4 2, .managed 3 [.own 1, .own 2], .plain 1 5, .plain 2 2]).2
    = [⟨4, [4, 4], none⟩, ⟨3, [3], some 3⟩, ⟨3, [3, 3], some 3⟩, ⟨1, [], none⟩, ⟨2, [2, 2], none⟩] := by decide
example : (submitEnsure (getReusableExecutor (some ⟨2, 2, true⟩) true 4)).alive = 4 := by decide
example : guarded .loky (some 0) ⟨false, false, true, 0, 8⟩ = false := by decide
example : guarded .multiprocessing (some 1) ⟨false, false, false, 0, 8⟩ = true := by decide
example : effectiveNJobs .loky (some 0) ⟨false, false, true, 0, 8⟩ (some (-2)) = .ok 7 := by decide
example : effectiveNJobs .threading (some 2) ⟨false, true, false, 3, 8⟩ (some (-20)) = .ok 1 := by decide
example : initializeBackend .loky (some 0) ⟨false, false, true, 0, 8⟩ (some (-1))
    = .ok ⟨.loky, 8, some 8⟩ := by decide
example : cpuCount ⟨some 16, none, some 6, some (250000, 100000), some (some 0), some 8⟩ false = .ok 1 := by
  decide
example : cpuCount ⟨some 16, none, some 6, some (250000, 100000), some (some 5), some 8⟩ true = .ok 3 := by
  decide
example : cpuCount ⟨some 16, none, some 16, none, none, some 8⟩ true = .ok 8 := by decide
example : (defaultAt (.loky, 0) 1, defaultAt (.loky, 0) 2, defaultAt (.loky, 0) 3)
    = ((.threading, 1), (.sequential, 2), (.sequential, 2)) := by decide

end C15
