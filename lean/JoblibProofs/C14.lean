import JoblibProofs.Lemmas.ZlibFile
import JoblibProofs.Lemmas.ZFileLegacy
/-!
# C14 — truncated or over-long files make load fail cleanly: never hang or lie

Statement (properties.jsonl): loading a file that is a strict prefix of a valid joblib file (any truncation
point, any compressor), or a valid file followed by extra bytes, always terminates and either raises an
exception or returns exactly the original object — never a different object and never an endless loop.
Consequently a damaged cache entry makes Memory recompute instead of failing or returning garbage.

What is proved, and for which code. The theorems are about joblib's own zlib/gzip file object
(`BinaryZlibFile._fill_buffer` and what is built on it) with the repair `fixes/F07-zlib-trailing-bytes.diff`
(`rawSource`/`rawStep`); the unchanged loop (`rawSourceOld`) is kept in the section "Unchanged code" with its
DIVERGENCE theorems — finding F7.

Quantifier reached:
* `fill_terminates`: EVERY file content (valid, truncated, corrupt, with trailing bytes), every file position,
  every codec (any function at all, including one that raises), every reachable decompressor state, every
  buffer state — `_fill_buffer` executes at most `⌈remaining/8192⌉ + 1` loop bodies.
* `truncation_never_lies`, `trailing_bytes_ignored`, `damaged_file_is_a_stream`, `load_class`,
  `load_error_or_original`: every valid file `raw` of every payload `p`, EVERY truncation length `k < |raw|`,
  EVERY suffix `t` of extra bytes (any length, including a second valid stream), every operation sequence.
  The codec law `ValidFile` (strict prefixes decode monotonically without error and without end-of-stream;
  the whole file, whatever follows it, decodes to the payload and reports end-of-stream at `|raw|` — probed on
  CPython's zlib) and the unpickler contract `UnpicklerContract` are EXPLICIT HYPOTHESES: CPython's zlib and
  pickle are modelled, not verified.

* `legacy_truncation_never_lies`, `legacy_trailing_bytes_ignored`, `legacy_load_class`: the LEGACY Z-file format
  (joblib < 0.10, `numpy_pickle_compat.read_zfile`, still reached by `joblib.load(<file name>)`): every data `p`,
  every zlib stream `z` of it, every well-formed length field, narrow and wide (python 2, joblib <= 0.8.4) header,
  EVERY truncation length, EVERY suffix. `zlib.decompress` is a parameter with the law `ZValid` as hypothesis.
  `read_zfile` is straight-line code: the model `readZfile` is a total function WITHOUT fuel — that it can be
  written so is the termination statement (a variant that streams through `decompressobj` in a loop has no such
  model).

Not covered by theorems (correspondence only, `harness/props/c14.py`): bz2/lzma/xz (CPython's own file
objects), the uncompressed path (the unpickler contract alone), `io.BufferedReader` (modelled as asking for
1 MiB at a time until the unpickler is satisfied: `loadZ`).
-/
namespace C14
open JoblibModel.ZlibFile

/-! ## Termination of the repaired `_fill_buffer` -/

/-- TERMINATION. For every codec, every file content and position, every reachable decompressor state
(`Decomp.WF`: `unused_data` is empty before end-of-stream — see `wf_reachable`) and every buffer state, the
repaired `_fill_buffer` needs at most `blocksLeft + 1 = ⌈(len(file) − pos)/8192⌉ + 1` executions of its loop
body: with that much fuel it never runs out. The measure `blocksLeft` (raw blocks left in `_fp`) strictly
decreases with every loop body that does not leave the loop (`rawStep_chunk_blocks`) — that is the proof. -/
theorem fill_terminates (c : Codec) (s : ZFile RawSrc) (hwf : s.src.dec.WF) (fuel : Nat)
    (hf : (s.src.file.length - s.src.fpos + 8191) / 8192 + 1 ≤ fuel) :
    fillBuffer (rawSource c) fuel s ≠ .error .outOfFuel := by
  unfold fillBuffer
  split
  · simp
  · exact fillLoop_raw_terminates c fuel s hwf (by simpa [blocksLeft, BUFFER_SIZE] using hf)

/-- Every decompressor state the file object can be in is well formed: the fresh one (open, `_rewind`), and
whatever `decompress` leaves behind. -/
theorem wf_reachable (c : Codec) (f : Bytes) :
    (openRaw f).src.dec.WF ∧ (∀ r : RawSrc, (rawRewind r).dec.WF) ∧
    (∀ (r r' : RawSrc) (b : Bytes), r.dec.WF → rawStep c r = .chunk b r' → r'.dec.WF) := by
  refine ⟨fun _ => rfl, fun _ _ => rfl, fun r r' b h hs => (rawStep_chunk_blocks c r r' b h hs).2⟩

/-! ## A damaged file is still a byte stream (repaired code) -/

/-- For ANY file `f` on which the codec is monotone (`StreamLaw`: no prefix is rejected, output only grows,
nothing comes after the end-of-stream marker) the repaired `BinaryZlibFile(f)` is, for every in-scope
operation sequence, indistinguishable from `io.BytesIO(out |f|)` — the bytes decodable from the whole file —
and no operation hangs (C13's refinement, instantiated at the raw-block level). -/
theorem damaged_file_is_a_stream {c : Codec} {f : Bytes} {E : Option Nat} {out : Nat → Bytes}
    (law : StreamLaw c f E out) (ops : List Op) (pos' : Nat) (outs : List Out) {fuel : Nat}
    (hf : rawBound f + (out f.length).length + 2 ≤ fuel)
    (hspec : Spec.run (out f.length) 0 ops = some (pos', outs)) :
    (runOps (rawSource c) fuel (openRaw f) ops).2 = outs := by
  obtain ⟨cs, hI⟩ := openRaw_inv law
  obtain ⟨s', _, _, h1, _, _⟩ := runOps_refines (raw_regular law) hf ops (openRaw f) 0 cs pos' outs hI hspec
  rw [h1]

/-- TRUNCATION NEVER LIES. `raw` a valid file of payload `p` (codec law as hypothesis), `k < |raw|`: on the
truncated file `read()` terminates, raises nothing, and returns a PREFIX of the payload (possibly all of it:
zlib's 4 trailing checksum bytes carry no data) — never anything else. -/
theorem truncation_never_lies {c : Codec} {raw p : Bytes} {out : Nat → Bytes} (hv : ValidFile c raw p out)
    (k : Nat) (hk : k < raw.length) {fuel : Nat} (hf : k / 8192 + 3 ≤ fuel) :
    ∃ s' d, read (rawSource c) fuel (-1) (openRaw (raw.take k)) = .ok (s', d) ∧ d <+: p ∧ d = out k := by
  have law := trunc_law hv k hk
  obtain ⟨cs, hI⟩ := openRaw_inv law
  have hl : (raw.take k).length = k := by rw [List.length_take]; omega
  have hb : rawBound (raw.take k) + 2 ≤ fuel := by
    simp only [rawBound, hl, BUFFER_SIZE]; omega
  have hcs := hI.len_le
  obtain ⟨s', o', h1, _, _, _⟩ := readAll_spec (fuel := fuel) (raw_regular law) hI (by omega)
  refine ⟨s', out k, ?_, ?_, rfl⟩
  · unfold JoblibModel.ZlibFile.read
    rw [checkCanRead_ok hI]
    simpa [hl, openRaw, openRead] using h1
  · rw [← hv.out_whole]
    exact hv.mono k raw.length (by omega) (Nat.le_refl _)

/-- EXTRA BYTES ARE IGNORED (repaired code). A valid file followed by ANY bytes `t` (garbage, zeros, a
second valid stream): `read()` terminates and returns exactly the payload. -/
theorem trailing_bytes_ignored {c : Codec} {raw p : Bytes} {out : Nat → Bytes} (hv : ValidFile c raw p out)
    (t : Bytes) {fuel : Nat} (hf : (raw ++ t).length / 8192 + 3 ≤ fuel) :
    ∃ s', read (rawSource c) fuel (-1) (openRaw (raw ++ t)) = .ok (s', p) := by
  have law := trail_law hv t
  obtain ⟨cs, hI⟩ := openRaw_inv law
  have hb : rawBound (raw ++ t) + 2 ≤ fuel := by
    simp only [rawBound, BUFFER_SIZE]; omega
  have hcs := hI.len_le
  obtain ⟨s', o', h1, _, _, _⟩ := readAll_spec (fuel := fuel) (raw_regular law) hI (by omega)
  refine ⟨s', ?_⟩
  unfold JoblibModel.ZlibFile.read
  rw [checkCanRead_ok hI]
  have hlt : ¬ (raw.length + t.length < raw.length) := by omega
  simpa [hlt, openRaw, openRead] using h1

/-- The contract of `pickle.Unpickler` for the pickle `pk` of the object `obj` (hypothesis): it stops at the
STOP opcode that ends `pk` whatever follows; on a strict prefix of `pk` it raises (`none`). -/
structure UnpicklerContract {Obj : Type} (unpickle : Bytes → Option Obj) (pk : Bytes) (obj : Obj) : Prop where
  stops_at_stop : ∀ t, unpickle (pk ++ t) = some obj
  prefix_raises : ∀ s, s <+: pk → s ≠ pk → unpickle s = none

/-- ERROR OR ORIGINAL. Whatever a truncated zlib/gzip file (any `k < |raw|`) or an extended one (any `t`)
delivers, unpickling it either raises or gives back exactly the original object. -/
theorem load_error_or_original {Obj : Type} {c : Codec} {raw p : Bytes} {out : Nat → Bytes}
    (hv : ValidFile c raw p out) (unpickle : Bytes → Option Obj) (obj : Obj)
    (hu : UnpicklerContract unpickle p obj) :
    (∀ k, k < raw.length → ∀ fuel, k / 8192 + 3 ≤ fuel →
      ∃ s' d, read (rawSource c) fuel (-1) (openRaw (raw.take k)) = .ok (s', d) ∧
        (unpickle d = none ∨ unpickle d = some obj)) ∧
    (∀ t fuel, (raw ++ t).length / 8192 + 3 ≤ fuel →
      ∃ s' d, read (rawSource c) fuel (-1) (openRaw (raw ++ t)) = .ok (s', d) ∧ unpickle d = some obj) := by
  constructor
  · intro k hk fuel hf
    obtain ⟨s', d, h1, h2, _⟩ := truncation_never_lies hv k hk hf
    refine ⟨s', d, h1, ?_⟩
    by_cases hd : d = p
    · right; rw [hd]; simpa using hu.stops_at_stop []
    · left; exact hu.prefix_raises d h2 hd
  · intro t fuel hf
    obtain ⟨s', h1⟩ := trailing_bytes_ignored hv t hf
    exact ⟨s', p, h1, by simpa using hu.stops_at_stop []⟩

/-- THE CLASS `load` ENDS IN (what the driver computes, `loadZ` = BufferedReader(1 MiB) + unpickler contract),
for any file on which the codec is monotone: never `hang`; `returns-original` exactly when the decodable bytes
contain the `need` bytes of the pickle, `raises` otherwise. -/
theorem load_class {c : Codec} {f : Bytes} {E : Option Nat} {out : Nat → Bytes}
    (law : StreamLaw c f E out) (need : Nat) (hneed : 0 < need) {fuel rounds : Nat}
    (hf : rawBound f + 2 ≤ fuel)
    (hr : ((out f.length).length + (IO_BUFFER_SIZE - 1)) / IO_BUFFER_SIZE + 1 ≤ rounds) :
    loadZ (rawSource c) fuel need rounds 0 (openRaw f) =
      if need ≤ (out f.length).length then .returnsOriginal else .raises := by
  obtain ⟨cs, hI⟩ := openRaw_inv law
  have := loadZ_spec (raw_regular law) hf need rounds 0 (openRaw f) 0 cs hI hneed
    (by simpa [openRaw, openRead] using hr)
  simpa [openRaw, openRead] using this

/-- `_read_bytes(fp, size)` (the exact-length loop that fetches array data) on any such file: it terminates
(never out of fuel: at most two reads), and returns EXACTLY the next `size` bytes of the stream or raises
ValueError when fewer are left — never a short or different result. -/
theorem read_bytes_terminates_exact {c : Codec} {f : Bytes} {E : Option Nat} {out : Nat → Bytes}
    (law : StreamLaw c f E out) (size : Nat) {fuel : Nat} (hf : rawBound f + 2 ≤ fuel) :
    (size ≤ (out f.length).length →
      ∃ s', readBytes (rawSource c) fuel size (openRaw f) = .ok (s', (out f.length).take size)) ∧
    ((out f.length).length < size →
      readBytes (rawSource c) fuel size (openRaw f) = .error (.exc .valueError)) := by
  obtain ⟨cs, hI⟩ := openRaw_inv law
  have h := readBytes_spec (raw_regular law) hf size hI
  simp only [openRaw, openRead, Nat.sub_zero, List.drop_zero] at h
  refine ⟨fun hle => ?_, fun hlt => ?_⟩
  · obtain ⟨s', h1, _⟩ := h.1 hle
    exact ⟨s', by simpa [openRaw, openRead] using h1⟩
  · simpa [openRaw, openRead] using h.2 hlt

/-- Consequently (`_cached_call`: `try: load … except Exception: recompute`): a damaged zlib/gzip cache entry
is either served as the original value or recomputed — the cached call never hangs. -/
theorem damaged_entry_recomputes {c : Codec} {f : Bytes} {E : Option Nat} {out : Nat → Bytes}
    (law : StreamLaw c f E out) (need : Nat) (hneed : 0 < need) {fuel rounds : Nat}
    (hf : rawBound f + 2 ≤ fuel)
    (hr : ((out f.length).length + (IO_BUFFER_SIZE - 1)) / IO_BUFFER_SIZE + 1 ≤ rounds) :
    cachedCall (loadZ (rawSource c) fuel need rounds 0 (openRaw f)) =
      if need ≤ (out f.length).length then .servedFromCache else .recomputed := by
  rw [load_class law need hneed hf hr]
  split <;> rfl

/-! ## The legacy Z-file format (joblib < 0.10): `numpy_pickle_compat.read_zfile` -/
section Legacy
open JoblibModel.ZFileLegacy

/-- LEGACY TRUNCATION NEVER LIES. `b"ZF" ++ field ++ [b" "] ++ z` a valid legacy file of the data `p` (`field` the
19-byte length field with `int(field, 16) = len(p)`, one more space in the wide header of joblib <= 0.8.4, `z` a
zlib stream of `p`: law `ZValid` as hypothesis). For EVERY truncation length `k` — inside the magic number, inside
the length field (whatever the cut field still parses to), between header and payload, anywhere inside the zlib
stream — `read_zfile` RAISES: it never returns data, so `joblib.load` can return nothing but an exception.
Termination: `readZfile` is a total function without fuel (no loop in `read_zfile`). -/
theorem legacy_truncation_never_lies {D : Bytes → Option Bytes} {z p field : Bytes} (hz : ZValid D z p)
    (hf : field.length = MAX_LEN) (hp : pyIntHex field = some (p.length : Int)) (wide : Bool)
    (k : Nat) (hk : k < (legacyFile field wide z).length) :
    ∃ e, readZfile D ((legacyFile field wide z).take k) = .error e := by
  have hD : D [] = none := by
    have := hz.prefix_raises 0 (List.length_pos_iff.mpr hz.nonempty)
    simpa using this
  have hl := header_len hf
  by_cases hle : k ≤ HEADER_LENGTH
  · exact readZfile_short D hD _ (by rw [List.length_take]; omega)
  · have hlen : (legacyFile field wide z).length = HEADER_LENGTH + ((pad wide).length + z.length) := by
      unfold legacyFile
      rw [List.length_append, hl, List.length_append]
    have hk' : k < HEADER_LENGTH + ((pad wide).length + z.length) := by rw [hlen] at hk; exact hk
    have htake : (legacyFile field wide z).take k =
        (ZFILE_PREFIX ++ field) ++ (pad wide ++ z).take (k - HEADER_LENGTH) := by
      unfold legacyFile
      rw [List.take_append, hl, List.take_of_length_le (by omega)]
    rw [htake, readZfile_full_header D hf p.length hp]
    obtain ⟨m, hm⟩ : ∃ m, k - HEADER_LENGTH = m + 1 := ⟨k - HEADER_LENGTH - 1, by omega⟩
    cases wide with
    | true =>
      have hrest : (pad true ++ z).take (k - HEADER_LENGTH) = 0x20 :: z.take m := by
        rw [hm]; simp [pad]
      have hm' : m < z.length := by simp [pad] at hk'; omega
      rw [hrest]
      simp only [List.take_succ_cons, List.take_zero, if_true, List.drop_succ_cons, List.drop_zero]
      rw [hz.prefix_raises m hm']
      exact ⟨_, rfl⟩
    | false =>
      have hrest : (pad false ++ z).take (k - HEADER_LENGTH) = z.take (m + 1) := by
        rw [hm]; simp [pad]
      have hm' : m + 1 < z.length := by simp [pad] at hk'; omega
      rw [hrest]
      have hns := take_one_of_head hz.nonempty hz.not_space (m + 1) (by omega)
      simp only [hns, if_false, List.drop_zero]
      rw [hz.prefix_raises (m + 1) hm']
      exact ⟨_, rfl⟩

/-- LEGACY: EXTRA BYTES ARE IGNORED. A valid legacy file followed by ANY bytes `t` (`t = []`: the intact file):
`read_zfile` returns exactly the data `p`. -/
theorem legacy_trailing_bytes_ignored {D : Bytes → Option Bytes} {z p field : Bytes} (hz : ZValid D z p)
    (hf : field.length = MAX_LEN) (hp : pyIntHex field = some (p.length : Int)) (wide : Bool) (t : Bytes) :
    readZfile D (legacyFile field wide z ++ t) = .ok p := by
  have hfile : legacyFile field wide z ++ t = (ZFILE_PREFIX ++ field) ++ (pad wide ++ (z ++ t)) := by
    simp [legacyFile, List.append_assoc]
  rw [hfile, readZfile_full_header D hf p.length hp]
  cases wide with
  | true =>
    rw [show pad true = [0x20] from rfl]
    simp only [if_true, List.cons_append, List.nil_append, List.take_succ_cons, List.take_zero,
      List.drop_succ_cons, List.drop_zero]
    rw [hz.whole t]
    simp
  | false =>
    have hns : (z ++ t).take 1 ≠ [0x20] := by
      have h := take_one_of_head hz.nonempty hz.not_space 1 (by omega)
      cases z with
      | nil => exact absurd rfl hz.nonempty
      | cons a r => simpa using h
    rw [show pad false = [] from rfl, List.nil_append]
    simp only [hns, if_false, List.drop_zero]
    rw [hz.whole t]
    simp

/-- LEGACY: THE CLASS `load` ENDS IN (`loadCompat` = `read_zfile` + the unpickler contract, `p` being the pickle):
every truncation raises, every extension returns the original; never anything else, and no fuel is involved. -/
theorem legacy_load_class {D : Bytes → Option Bytes} {z p field : Bytes} (hz : ZValid D z p)
    (hf : field.length = MAX_LEN) (hp : pyIntHex field = some (p.length : Int)) (wide : Bool) :
    (∀ k, k < (legacyFile field wide z).length →
      loadCompat D p.length ((legacyFile field wide z).take k) = .raises) ∧
    (∀ t, loadCompat D p.length (legacyFile field wide z ++ t) = .returnsOriginal) := by
  constructor
  · intro k hk
    obtain ⟨e, he⟩ := legacy_truncation_never_lies hz hf hp wide k hk
    simp [loadCompat, he]
  · intro t
    simp [loadCompat, legacy_trailing_bytes_ignored hz hf hp wide t]

end Legacy

/-! ## Unchanged code (pinned tree): finding F7 -/
section UnchangedCode

/-- DIVERGENCE of the unchanged `_fill_buffer`. In the state every valid zlib/gzip file followed by at least
one extra byte reaches — buffer used up, decompressor at end-of-stream holding non-empty `unused_data` — the
loop `rawblock = unused_data or read(8192); buffer = decompress(rawblock)` makes no progress: for EVERY amount
of fuel it is still running (`decompress` after eof returns `b''` and appends its argument to `unused_data`,
which doubles). There is no termination measure; `fill_terminates` is false of the unchanged code. -/
theorem old_fill_diverges (c : Codec) (s : ZFile RawSrc) (hm : s.mode = .read)
    (hoff : s.bufferOffset = (s.buffer.length : Int))
    (he : s.src.dec.eof = true) (hu : s.src.dec.unused ≠ []) :
    ∀ fuel, fillBuffer (rawSourceOld c) fuel s = .error .outOfFuel := by
  intro fuel
  unfold fillBuffer
  simp only [hm, show ¬ (Mode.read = Mode.readEof) by decide, if_false]
  exact fillLoop_old_diverges c fuel s hoff he hu

/-- …and that state is reached: on the unchanged code, `read()` of a valid file followed by ANY non-empty
suffix `t` (file within one raw block) never returns, for every fuel. -/
theorem old_read_diverges {c : Codec} {raw p : Bytes} {out : Nat → Bytes} (hv : ValidFile c raw p out)
    (t : Bytes) (ht : t ≠ []) (hlen : (raw ++ t).length ≤ 8192) :
    ∀ fuel, read (rawSourceOld c) fuel (-1) (openRaw (raw ++ t)) = .error .outOfFuel := by
  intro fuel
  unfold JoblibModel.ZlibFile.read
  simp only [checkCanRead, openRaw, openRead]
  have := old_readAll_diverges hv t ht (by simpa [BUFFER_SIZE] using hlen) fuel
  simpa [openRaw, openRead] using this

end UnchangedCode

/-! ## Non-vacuity: a codec, a valid file and an unpickler satisfying the hypotheses -/

/-- Toy stream format: `1 b` emits byte `b`, `0` is the end-of-stream marker. -/
def toyGo : Bytes → Bytes → Nat → Bytes × Option Nat
  | [], acc, _ => (acc, none)
  | 0 :: _, acc, n => (acc, some (n + 1))
  | [_], acc, _ => (acc, none)
  | _ :: b :: r, acc, n => toyGo r (acc ++ [b]) (n + 2)
def toyCodec : Codec := ⟨fun fed => some (toyGo fed [] 0)⟩
def toyRaw : Bytes := [1, 7, 1, 46, 0]
def toyOut (k : Nat) : Bytes := ([7, 46] : Bytes).take (k / 2)

example : ValidFile toyCodec toyRaw [7, 46] toyOut where
  prefix_ok := by
    intro k hk
    match k, hk with
    | 0, _ => rfl
    | 1, _ => rfl
    | 2, _ => rfl
    | 3, _ => rfl
    | 4, _ => rfl
    | k + 5, h => simp [toyRaw] at h; omega
  whole := by intro t; simp [toyCodec, toyRaw, toyGo]
  mono := by intro a b hab _; exact List.take_prefix_take_left (by omega)
  out_zero := rfl
  out_whole := rfl
  nonempty := by decide

/-- Toy unpickler: the object is everything before the first `.` (0x2e); no `.` ⇒ it raises. -/
def toyUnpickle : Bytes → Option Bytes
  | [] => none
  | b :: r => if b = 46 then some [] else (toyUnpickle r).map (b :: ·)

example : UnpicklerContract toyUnpickle [7, 46] [7] where
  stops_at_stop := by intro t; simp [toyUnpickle]
  prefix_raises := by
    intro s hs hne
    obtain ⟨r, hr⟩ := hs
    match s, hr with
    | [], _ => rfl
    | [a], hr => simp at hr; rw [hr.1]; rfl
    | [a, b], hr => simp at hr; exact absurd (by rw [hr.1, hr.2.1]) hne
    | a :: b :: c :: s', hr => simp at hr

/-- The concrete trailing-bytes witness: toy file + one extra byte. Unchanged code: still running after 50
loop bodies (and after any number, by `old_read_diverges`); repaired code: the payload. -/
example : (match read (rawSourceOld toyCodec) 50 (-1) (openRaw (toyRaw ++ [88])) with
    | .error .outOfFuel => true | _ => false) = true := by decide +kernel
example : ∀ fuel, read (rawSourceOld toyCodec) fuel (-1) (openRaw (toyRaw ++ [88])) = .error .outOfFuel :=
  old_read_diverges (c := toyCodec) (p := [7, 46]) (out := toyOut)
    { prefix_ok := by
        intro k hk
        match k, hk with
        | 0, _ => rfl
        | 1, _ => rfl
        | 2, _ => rfl
        | 3, _ => rfl
        | 4, _ => rfl
        | k + 5, h => simp [toyRaw] at h; omega
      whole := by intro t; simp [toyCodec, toyRaw, toyGo]
      mono := by intro a b hab _; exact List.take_prefix_take_left (by omega)
      out_zero := rfl
      out_whole := rfl
      nonempty := by decide } [88] (by decide) (by decide)
example : (match read (rawSource toyCodec) 50 (-1) (openRaw (toyRaw ++ [88])) with
    | .ok (_, d) => d | _ => []) = [7, 46] := by decide +kernel
/-- A truncation: 3 of the 5 bytes deliver the strict prefix `[7]`; the toy unpickler raises on it. -/
example : (match read (rawSource toyCodec) 50 (-1) (openRaw (toyRaw.take 3)) with
    | .ok (_, d) => toyUnpickle d | _ => some []) = none := by decide +kernel

/-- Non-vacuity of the legacy theorems: a toy `zlib.decompress` (the stream `[120, b, 0]` decodes to `[b]`), the
length field `0x1` padded to 19 bytes, both header widths; `int(·, 16)` on cut fields. -/
def toyD : Bytes → Option Bytes
  | 120 :: b :: 0 :: _ => some [b]
  | _ => none
def toyField : Bytes := [48, 120, 49] ++ List.replicate 16 32

example : JoblibModel.ZFileLegacy.ZValid toyD [120, 46, 0] [46] where
  whole := by intro t; rfl
  prefix_raises := by
    intro k hk
    match k, hk with
    | 0, _ => rfl
    | 1, _ => rfl
    | 2, _ => rfl
    | k + 3, h => simp at h; omega
  nonempty := by decide
  not_space := by decide
example : toyField.length = JoblibModel.ZFileLegacy.MAX_LEN := by decide
example : JoblibModel.ZFileLegacy.pyIntHex toyField = some 1 := by decide
example : JoblibModel.ZFileLegacy.pyIntHex [48, 120] = none := by decide              -- int(b"0x", 16)
example : JoblibModel.ZFileLegacy.pyIntHex [48] = some 0 := by decide                 -- int(b"0", 16)
example : (match JoblibModel.ZFileLegacy.readZfile toyD
    (JoblibModel.ZFileLegacy.legacyFile toyField true [120, 46, 0] ++ [7, 7]) with
    | .ok d => d | _ => []) = [46] := by decide
example : (match JoblibModel.ZFileLegacy.readZfile toyD
    ((JoblibModel.ZFileLegacy.legacyFile toyField false [120, 46, 0]).take 23) with
    | .error .zlibError => true | _ => false) = true := by decide
example : (match JoblibModel.ZFileLegacy.readZfile toyD
    ((JoblibModel.ZFileLegacy.legacyFile toyField false [120, 46, 0]).take 4) with
    | .error .valueError => true | _ => false) = true := by decide

end C14
