import JoblibModel.ExcTransport
import JoblibProofs.Lemmas.ParallelProto
import JoblibProofs.Lemmas.ParallelSeq
import JoblibProofs.Lemmas.ParallelStartup
/-!
# C04 — Task failures surface as that exception; Parallel stays reusable and clean

Statement (properties.jsonl): if a task raises, the `Parallel` call raises an exception of the same type and
arguments as one raised by its tasks instead of returning results; an exception raised by the input iterable is
raised in the caller; when the caller has to wait longer than `timeout` for a result `TimeoutError` is raised. The
call always terminates, and afterwards the same `Parallel` object can be called again and returns exactly the
results of the new tasks, with nothing left over from the failed call.

Model: `JoblibModel.ParallelProto` (M1). `Exc.task id` is the exception raised by task `id`, `Exc.iter pos` the one
raised by the input at global position `pos`; `St.failIds` are the ids of the tasks that raise.

Quantifier reached: ALL schedules (any `sched`, any leftovers of earlier calls in `parked`, failures arriving
before / after their neighbours, late completions after the abort and after the next call started), ALL positions
of failing tasks and of the failing iterator step, ALL configurations with `n_jobs ≥ 2`, scripted batch sizes ≥ 1,
`pre_dispatch = 'all'` or ≥ 1, completions arriving at the hook points between two calls and inside
`backend.abort_everything` (`between_calls_noop`, `abort_deliveries_are_noops`), all three `return_as` modes (except `timeout_raises`, stated for the ordered
retrieval branch), all sequences of calls on one object (through `Idle`, which every call re-establishes). By
invariants and induction, never by enumeration.

Worker-side traceback capture / EXCEPTION TRANSPORT of the pool backends (section "exception transport" at the end,
model `JoblibModel.ExcTransport`): ALL outcomes of a submitted callable whose returned value is a list (what
`BatchedCalls.__call__` returns), BOTH result channels (thread pool: identity; process pool: pickle round trip),
ALL pickle behaviours satisfying "a round trip that succeeds preserves class and args" (`RoundTripLaw`), ALL
exception classes / args / traceback strings. Not covered: loky's own executor-side capture (the loky backend does
not use `_TracebackCapturingWrapper`; covered by native runs), the CONTENT of the formatted traceback string.

Failures DURING THE START-UP of a call (F52; section "start-up failures" below, model
`JoblibModel.ParallelStartup`): ALL fault placements (`len(iterable)`, `backend.configure`, `n_jobs == 0`,
`backend.start_call`, `iter(iterable)`, the `pre_dispatch` resolution, `islice`), ALL idle states of the object (any
history of calls, failed start-ups and between-calls completions: `Reach`), ALL schedules, both `n_jobs ≠ 1` and the
sequential path; `startGuard = false` (the code before the repair) is refuted on a concrete two-call history.
-/
namespace C04
open JoblibModel.ParallelProto

/-- ERROR SURFACES. If a list-mode call on an idle object ends by raising `e`, then `e` is the exception of a
failing task of THIS call (`id ∈ failIds`, `base ≤ id < base + n`), or the exception of this call's failing
iterator step, or `TimeoutError` with a timeout configured — never `AttributeError` / `KeyError` (internal
errors) and never `RuntimeError`. The object is left idle and clean. -/
theorem error_surfaces {c : Cfg} (hnj : 2 ≤ c.nj) (hbs : ∀ b ∈ c.bs, 1 ≤ b)
    (hpd : c.pdMode = 1 ∨ 1 ≤ c.pd) {fuel base : Nat} {spec : CallSpec} {s₀ s' : St} {e : Exc} (hi : Idle s₀)
    (hh : s₀.hung = false) (hfuel : 2 * spec.n + s₀.sched.length + s₀.parked.length + 2 ≤ fuel)
    (hcall : callList c fuel base spec s₀ = (s', .raised e)) :
    ((∃ id, e = .task id ∧ id ∈ s₀.failIds ∧ base ≤ id ∧ id < base + spec.n) ∨
     (∃ pos, e = .iter pos ∧ 0 ≤ spec.iterfail ∧ (pos : Int) = base + spec.iterfail) ∨
     (e = .timeout ∧ 0 ≤ c.timeout)) ∧
    Idle s' ∧ Clean s' ∧ s'.exception = true := by
  have h := callList_general_all ⟨by omega, hbs⟩ (base := base) (spec := spec) hi hh hpd hfuel
  rw [hcall] at h
  obtain ⟨h1, h2, _, h4, h5, _⟩ := h
  refine ⟨?_, h1, h2, h4⟩
  cases e with
  | task id => exact Or.inl ⟨id, rfl, h5.1, h5.2.1, h5.2.2⟩
  | iter pos => exact Or.inr (Or.inl ⟨pos, rfl, h5.1, h5.2⟩)
  | timeout => exact Or.inr (Or.inr ⟨rfl, h5⟩)
  | runtime => exact h5.elim
  | attr => exact h5.elim
  | key => exact h5.elim

/-- A call on an object that is already running (an unfinished generator) raises `RuntimeError` and changes
nothing. -/
theorem overlapping_call_raises (c : Cfg) (fuel base : Nat) (spec : CallSpec) (s : St) (h : s.running = true) :
    callList c fuel base spec s = (s, .raised .runtime) := by
  unfold callList
  rw [callStart_running c fuel base spec s h]

/-- FAILURE IS RAISED (1/3). When the backend completes a parked batch of the running call that contains a
failing task — i.e. its completion callback runs while the call is in progress — the call is aborting and
`_exception` is set afterwards. -/
theorem failing_batch_aborts {c : Cfg} (hnj : 2 ≤ c.nj) (hbs : ∀ b ∈ c.bs, 1 ≤ b) {t0 : Nat} {s : St} {k i : Nat}
    (h : Inv c t0 s) (hk : s.parked[k]? = some i) (hi0 : t0 ≤ i) (hi1 : i < s.trk.length)
    (hfail : ∃ id ∈ (getTrk s i).items, id ∈ s.failIds) :
    (deliver c k s).aborting = true ∧ (deliver c k s).exception = true :=
  deliver_failing ⟨by omega, hbs⟩ h hk hi0 hi1 hfail

/-- FAILURE IS RAISED (2/3). Within a call the abort flag is never cleared: not by hook points (completions),
not by dispatching, not by `get_status`. (`_exception` equals `_aborting` in every state of the invariant.) -/
theorem aborting_is_monotone {c : Cfg} (hnj : 2 ≤ c.nj) (hbs : ∀ b ∈ c.bs, 1 ≤ b) {t0 : Nat} {s : St}
    (h : Inv c t0 s) (hab : s.aborting = true) :
    (∀ sleep, (hook c sleep s).aborting = true) ∧ (∀ k, (deliver c k s).aborting = true) ∧
    (dispatchOneMain c s).1.aborting = true ∧
    (∀ i, t0 ≤ i → i < s.trk.length → (getStatus c s i).1.aborting = true) ∧ s.exception = true := by
  have hc : CfgOK c := ⟨by omega, hbs⟩
  exact ⟨fun sl => (hook_spec hc sl h).later.frame.abort_mono hab,
    fun k => (deliver_spec hc k h).1.later.frame.abort_mono hab,
    (dispatchOneMain_spec hc h).later.frame.abort_mono hab,
    fun i h0 h1 => (getStatus_spec h h0 h1).2.1.frame.abort_mono hab, by rw [h.T.abort_exc]; exact hab⟩

/-- FAILURE IS RAISED (3/3). A call that returns normally ends with `_exception = False`: no error was
registered on any of its trackers during the call, so by (1/3) and (2/3) no batch containing a failing task
completed while the call was in progress. A call whose flag is set does not return: it raises (`error_surfaces`). -/
theorem ret_means_no_exception {c : Cfg} (hnj : 2 ≤ c.nj) (hbs : ∀ b ∈ c.bs, 1 ≤ b)
    (hpd : c.pdMode = 1 ∨ 1 ≤ c.pd) {fuel base : Nat} {spec : CallSpec} {s₀ s' : St} {v : List Nat} (hi : Idle s₀)
    (hh : s₀.hung = false) (hfuel : 2 * spec.n + s₀.sched.length + s₀.parked.length + 2 ≤ fuel)
    (hcall : callList c fuel base spec s₀ = (s', .ret v)) : s'.exception = false := by
  have h := callList_general_all ⟨by omega, hbs⟩ (base := base) (spec := spec) hi hh hpd hfuel
  rw [hcall] at h
  exact h.2.2.2.1

/-- ITERATOR ERROR IS RAISED. If the input iterable of the call raises at one of its steps (`0 ≤ iterfail ≤ n`)
the call never returns normally, for any schedule: it raises (that exception, or the exception of a task that
failed earlier — `error_surfaces`). -/
theorem iterator_error_is_raised {c : Cfg} (hnj : 2 ≤ c.nj) (hbs : ∀ b ∈ c.bs, 1 ≤ b)
    (hpd : c.pdMode = 1 ∨ 1 ≤ c.pd) {fuel base : Nat} {spec : CallSpec} {s₀ : St} (hi : Idle s₀)
    (hh : s₀.hung = false) (hfuel : 2 * spec.n + s₀.sched.length + s₀.parked.length + 2 ≤ fuel)
    (hit : 0 ≤ spec.iterfail ∧ spec.iterfail ≤ spec.n) :
    ∃ e, (callList c fuel base spec s₀).2 = .raised e := by
  have h := callList_general_all ⟨by omega, hbs⟩ (base := base) (spec := spec) hi hh hpd hfuel
  generalize callList c fuel base spec s₀ = r at h
  obtain ⟨s', o⟩ := r
  cases o with
  | ret v => exact absurd hit h.2.2.2.2.1
  | raised e => exact ⟨e, rfl⟩
  | hung => exact h.elim

/-- TIMEOUT RAISES. If the tracker the caller is waiting for (head of the job queue) is still pending and more
than `timeout` clock ticks have passed since the caller started waiting for it, the next retrieval step raises
`TimeoutError`, and the object is left idle and clean. -/
theorem timeout_raises {c : Cfg} {t0 : Nat} (hra : c.ra ≠ 2) (fuel : Nat) {s : St} {g : Gen} {i : Nat}
    {rest : List Nat} {ctr : Int} (h : GoodR c t0 s) (hph : g.phase = .start ∨ g.phase = .retrieve)
    (hb : g.buf = []) (hna : s.aborting = false) (hj : s.jobs = i :: rest)
    (hp : (getTrk s i).status = .pending) (hto : 0 ≤ c.timeout) (hctr : (getTrk s i).toCounter = some ctr)
    (hlate : s.now - ctr > c.timeout) :
    ∃ s' g', genNext c (fuel + 1) s g = (s', g', .raise .timeout) ∧ Idle s' ∧ Clean s' ∧ s'.exception = true :=
  timeout_step (by simp [ordered, hra]) fuel h hph hb hna hj hp hto hctr hlate

/-- CALL TERMINATES. Whatever fails and whatever the schedule, the call returns or raises — it never hangs
(given the fuel `2 n + |sched| + |parked| + 2`) — and `hung` stays false. -/
theorem call_terminates {c : Cfg} (hnj : 2 ≤ c.nj) (hbs : ∀ b ∈ c.bs, 1 ≤ b)
    (hpd : c.pdMode = 1 ∨ 1 ≤ c.pd) {fuel base : Nat} {spec : CallSpec} {s₀ : St} (hi : Idle s₀)
    (hh : s₀.hung = false) (hfuel : 2 * spec.n + s₀.sched.length + s₀.parked.length + 2 ≤ fuel) :
    (callList c fuel base spec s₀).2 ≠ .hung ∧ (callList c fuel base spec s₀).1.hung = false := by
  have h := callList_general_all ⟨by omega, hbs⟩ (base := base) (spec := spec) hi hh hpd hfuel
  generalize callList c fuel base spec s₀ = r at h
  obtain ⟨s', o⟩ := r
  cases o with
  | ret v => exact ⟨by simp, h.2.2.1⟩
  | raised e => exact ⟨by simp, h.2.2.1⟩
  | hung => exact h.elim

/-- CLEAN AFTER CALL. However a list-mode call ends (return or raise), afterwards `_running = False`, `_jobs`
and `_jobs_set` are empty, `_calling = False`, and the object is idle (ready for the next call). -/
theorem clean_after_call {c : Cfg} (hnj : 2 ≤ c.nj) (hbs : ∀ b ∈ c.bs, 1 ≤ b)
    (hpd : c.pdMode = 1 ∨ 1 ≤ c.pd) {fuel base : Nat} {spec : CallSpec} {s₀ : St} (hi : Idle s₀)
    (hh : s₀.hung = false) (hfuel : 2 * spec.n + s₀.sched.length + s₀.parked.length + 2 ≤ fuel) :
    Clean (callList c fuel base spec s₀).1 ∧ Idle (callList c fuel base spec s₀).1 := by
  have h := callList_general_all ⟨by omega, hbs⟩ (base := base) (spec := spec) hi hh hpd hfuel
  generalize callList c fuel base spec s₀ = r at h
  obtain ⟨s', o⟩ := r
  cases o with
  | ret v => exact ⟨h.2.1, h.1⟩
  | raised e => exact ⟨h.2.1, h.1⟩
  | hung => exact h.elim

/-- CLEAN AFTER CLOSE. Closing (or dropping) the output generator while the call is in progress leaves
`_running = False`, empty `_jobs` / `_jobs_set`, `_calling = False`; after the generator has reached its tail loop
or its end, closing changes nothing. -/
theorem clean_after_close (c : Cfg) (s : St) (g : Gen) :
    ((g.phase = .start ∨ g.phase = .retrieve) → Clean (genClose c s g).1) ∧
    ((g.phase = .tail ∨ g.phase = .done) → (genClose c s g).1 = s) := by
  constructor
  · intro h
    rw [genClose_active c s h]
    obtain ⟨lg, pk, sc, ib, he, _, _⟩ := handleException_eq c s
    show Clean (handleException c s)
    rw [he]
    exact ⟨rfl, rfl, rfl, rfl⟩
  · intro h
    rw [genClose_inactive c s h]

/-- CLEAN AFTER EXHAUSTION. When `next()` on a well-formed generator ends it (`StopIteration` or an exception),
the object is clean and idle. -/
theorem clean_after_exhaustion {c : Cfg} (hnj : 2 ≤ c.nj) (hbs : ∀ b ∈ c.bs, 1 ≤ b) (hra : c.ra ≠ 2) {t0 fuel : Nat}
    {s s' : St} {g g' : Gen} {o : Out} (hg : GenGood c t0 fuel s g) (hn : genNext c fuel s g = (s', g', o))
    (ho : o = .stop ∨ ∃ e, o = .raise e) : Clean s' ∧ Idle s' ∧ g'.phase = .done := by
  have h := genNext_spec ⟨by omega, hbs⟩ (by simp [ordered, hra]) hg
  rw [hn] at h
  rcases ho with ho | ⟨e, ho⟩
  · subst ho; exact ⟨h.2.2.1, h.2.1, h.1⟩
  · subst ho; exact ⟨h.2.2.1, h.2.1, h.1⟩

/-- STALE CALLBACKS ARE NO-OPS. A completion callback whose tracker belongs to another call returns at its
call-id guard without touching the `Parallel` object. -/
theorem stale_callbacks_are_noops (c : Cfg) (s : St) (i : Nat) (failed : Option Nat)
    (h : (getTrk s i).callId ≠ s.callId) : callback c s i failed = s :=
  stale_callback_noop c s i failed h

/-- NEXT CALL IS FRESH (1/2). From any idle state, `callStart` hands to `_start` a state whose look-ahead queue is
empty, whose counters are zero, whose input is the new iterable at position 0, and whose call id is fresh: it is
larger than the call id of every existing tracker — so every tracker of an earlier call (in particular every late
completion still parked) is stale for the new call — and no tracker table entry is changed. -/
theorem next_call_is_fresh (c : Cfg) (fuel base : Nat) (spec : CallSpec) {s : St} (hi : Idle s)
    (hh : s.hung = false) :
    ∃ sF, callStart c fuel base spec s = (start c fuel sF, none) ∧
      sF.ready = [] ∧ sF.srcPos = 0 ∧ sF.jobs = [] ∧ sF.jobsSet = [] ∧ sF.nCompleted = 0 ∧ sF.nDispTasks = 0 ∧
      sF.aborting = false ∧ sF.exception = false ∧ sF.base = base ∧ sF.spec = spec ∧ sF.trk = s.trk ∧
      (∀ i, (getTrk sF i).callId < sF.callId) := by
  obtain ⟨sF, he, hF⟩ := callStart_fresh c fuel base spec hi hh
  obtain ⟨z1, z2, z3, z4, _, z6, z7, z8, _, z10⟩ := hF.zero
  refine ⟨sF, he, z2, z1, z3, z4, z6, z7, z8, z10, hF.base, hF.spec, hF.trk, ?_⟩
  intro i
  rw [getTrk_same hF.trk, hF.callId]
  have := hi.callId_le i
  omega

/-- BETWEEN CALLS. At the hook point between two calls (and after the last call) the object is idle; whatever
the schedule delivers there — completions of batches of older calls (stale call id) or of the call that just ended
(after a normal end none of them is parked any more; after an abort / close `_aborting` is still set and the callback
returns at its abort guard) — changes only the backend's bookkeeping (`parked`, the log, the schedule position): the
`Parallel` object itself is untouched and stays idle. -/
theorem between_calls_noop (c : Cfg) {s : St} (hi : Idle s) :
    (∃ lg pk sc ib, hook c false s = { s with log := lg, parked := pk, sched := sc, inCb := ib } ∧
      pk.Sublist s.parked ∧ sc.length ≤ s.sched.length) ∧ Idle (hook c false s) :=
  JoblibModel.ParallelProto.between_calls_noop c hi

/-- DURING ABORT. `backend.abort_everything` is a hook point (batches in flight may complete while the backend is
cancelling them). `_aborting` is set before, so every callback delivered there returns at its abort guard: `_abort`
as a whole changes nothing but the two abort flags and the backend's bookkeeping; the same holds for the exception
handler + `finally` (`handleException`), which in addition clears the job queues and the running flags. -/
theorem abort_deliveries_are_noops (c : Cfg) (s : St) :
    (∃ lg pk sc ib, abort c s = { s with log := lg, parked := pk, sched := sc, inCb := ib, aborting := true, aborted := true } ∧
      pk.Sublist s.parked ∧ sc.length ≤ s.sched.length) ∧
    (∃ lg pk sc ib, handleException c s = { s with log := lg, parked := pk, sched := sc, inCb := ib, exception := true, aborting := true, aborted := true, jobs := [], jobsSet := [], running := false, calling := false } ∧
      pk.Sublist s.parked ∧ sc.length ≤ s.sched.length) :=
  ⟨abort_eq c s, handleException_eq c s⟩

/-- What the between-calls hook preserves of the state a call ended in (used by the two-call theorems). -/
theorem between_keeps {c : Cfg} {s : St} (hi : Idle s) :
    Idle (hook c false s) ∧ (hook c false s).hung = s.hung ∧ (hook c false s).failIds = s.failIds := by
  obtain ⟨⟨lg, pk, sc, ib, e, _, _⟩, h2⟩ := JoblibModel.ParallelProto.between_calls_noop c hi
  exact ⟨h2, by rw [e], by rw [e]⟩

/-- NEXT CALL IS FRESH (2/2): two consecutive calls on one object, with the hook point between them. Whatever the
first call does — any failing tasks, failing iterator, timeout, any schedule; it may return or raise — and whatever
completions of its still-parked batches the schedule delivers between the two calls, a second call whose own tasks do
not fail returns exactly the results of ITS tasks: nothing is left over from the first call. -/
theorem second_call_correct {c : Cfg} (hnj : 2 ≤ c.nj) (hbs : ∀ b ∈ c.bs, 1 ≤ b) (hra : c.ra ≠ 2)
    (hpd : c.pdMode = 1 ∨ 1 ≤ c.pd) (hto : c.timeout = -1) {fuel₁ fuel₂ base₁ base₂ : Nat} {spec₁ spec₂ : CallSpec}
    {s₀ : St} (hi : Idle s₀) (hh : s₀.hung = false)
    (hfuel₁ : 2 * spec₁.n + s₀.sched.length + s₀.parked.length + 2 ≤ fuel₁)
    (hfail₂ : ∀ id ∈ s₀.failIds, ¬ (base₂ ≤ id ∧ id < base₂ + spec₂.n)) (hiter₂ : spec₂.iterfail = -1)
    (hfuel₂ : 2 * spec₂.n + (hook c false (callList c fuel₁ base₁ spec₁ s₀).1).sched.length +
      (hook c false (callList c fuel₁ base₁ spec₁ s₀).1).parked.length + 2 ≤ fuel₂) :
    ∃ s₂, callList c fuel₂ base₂ spec₂ (hook c false (callList c fuel₁ base₁ spec₁ s₀).1) =
      (s₂, .ret (List.range' base₂ spec₂.n)) ∧ Idle s₂ ∧ Clean s₂ := by
  have hc : CfgOK c := ⟨by omega, hbs⟩
  have ho : ordered c = true := by simp [ordered, hra]
  have h1 := callList_general_all hc (base := base₁) (spec := spec₁) hi hh hpd hfuel₁
  have hidle : Idle (callList c fuel₁ base₁ spec₁ s₀).1 ∧ (callList c fuel₁ base₁ spec₁ s₀).1.hung = false ∧
      (callList c fuel₁ base₁ spec₁ s₀).1.failIds = s₀.failIds := by
    generalize callList c fuel₁ base₁ spec₁ s₀ = r at h1
    obtain ⟨s', o⟩ := r
    cases o with
    | ret v => exact ⟨h1.1, h1.2.2.1, h1.2.2.2.2.2⟩
    | raised e => exact ⟨h1.1, h1.2.2.1, h1.2.2.2.2.2⟩
    | hung => exact h1.elim
  obtain ⟨b1, b2, b3⟩ := between_keeps (c := c) hidle.1
  obtain ⟨s₂, e, r1, r2, _, _⟩ := callList_nofail hc ho (base := base₂) (spec := spec₂) b1 (b2.trans hidle.2.1) hpd
    (by rw [b3, hidle.2.2]; exact hfail₂) (by omega) (by omega) hfuel₂
  exact ⟨s₂, e, r1, r2⟩

/-- NEXT CALL IS FRESH, unordered mode: the second call returns a rearrangement of the results of ITS tasks (each
exactly once), whatever the first call did and whatever is delivered at the hook point between the calls. -/
theorem second_call_correct_unordered {c : Cfg} (hnj : 2 ≤ c.nj) (hbs : ∀ b ∈ c.bs, 1 ≤ b) (hra : c.ra = 2)
    (hpd : c.pdMode = 1 ∨ 1 ≤ c.pd) (hto : c.timeout = -1) {fuel₁ fuel₂ base₁ base₂ : Nat} {spec₁ spec₂ : CallSpec}
    {s₀ : St} (hi : Idle s₀) (hh : s₀.hung = false)
    (hfuel₁ : 2 * spec₁.n + s₀.sched.length + s₀.parked.length + 2 ≤ fuel₁)
    (hfail₂ : ∀ id ∈ s₀.failIds, ¬ (base₂ ≤ id ∧ id < base₂ + spec₂.n)) (hiter₂ : spec₂.iterfail = -1)
    (hfuel₂ : 2 * spec₂.n + (hook c false (callList c fuel₁ base₁ spec₁ s₀).1).sched.length +
      (hook c false (callList c fuel₁ base₁ spec₁ s₀).1).parked.length + 2 ≤ fuel₂) :
    ∃ s₂ out, callList c fuel₂ base₂ spec₂ (hook c false (callList c fuel₁ base₁ spec₁ s₀).1) = (s₂, .ret out) ∧
      out.Perm (List.range' base₂ spec₂.n) ∧ Idle s₂ ∧ Clean s₂ := by
  have hc : CfgOK c := ⟨by omega, hbs⟩
  have ho : ordered c = false := by simp [ordered, hra]
  have h1 := callList_general_all hc (base := base₁) (spec := spec₁) hi hh hpd hfuel₁
  have hidle : Idle (callList c fuel₁ base₁ spec₁ s₀).1 ∧ (callList c fuel₁ base₁ spec₁ s₀).1.hung = false ∧
      (callList c fuel₁ base₁ spec₁ s₀).1.failIds = s₀.failIds := by
    generalize callList c fuel₁ base₁ spec₁ s₀ = r at h1
    obtain ⟨s', o⟩ := r
    cases o with
    | ret v => exact ⟨h1.1, h1.2.2.1, h1.2.2.2.2.2⟩
    | raised e => exact ⟨h1.1, h1.2.2.1, h1.2.2.2.2.2⟩
    | hung => exact h1.elim
  obtain ⟨b1, b2, b3⟩ := between_keeps (c := c) hidle.1
  obtain ⟨s₂, out, e, hp, r1, r2, _, _⟩ := callList_nofail_u hc ho (base := base₂) (spec := spec₂) b1
    (b2.trans hidle.2.1) hpd (by rw [b3, hidle.2.2]; exact hfail₂) (by omega) (by omega) hfuel₂
  exact ⟨s₂, out, e, hp, r1, r2⟩

/-- CLEAN AFTER EXHAUSTION, unordered mode. -/
theorem clean_after_exhaustion_unordered {c : Cfg} (hnj : 2 ≤ c.nj) (hbs : ∀ b ∈ c.bs, 1 ≤ b) (hra : c.ra = 2)
    {t0 fuel : Nat} {s s' : St} {g g' : Gen} {o : Out} (hg : GenGoodU c t0 fuel s g)
    (hn : genNext c fuel s g = (s', g', o)) (ho : o = .stop ∨ ∃ e, o = .raise e) :
    Clean s' ∧ Idle s' ∧ g'.phase = .done := by
  have h := genNextU_spec ⟨by omega, hbs⟩ (by simp [ordered, hra]) hg
  rw [hn] at h
  rcases ho with ho | ⟨e, ho⟩
  · subst ho; exact ⟨h.2.2.1, h.2.1, h.1⟩
  · subst ho; exact ⟨h.2.2.1, h.2.1, h.1⟩

/-! ### the hypotheses are satisfiable -/

/-- A failing first call (task 3 of 8 raises, one completion delivered between every two caller actions) followed
by a clean second call on the same object. -/
example : (callList (⟨3, false, [2], 0, 2, 0, -1, false, false⟩ : Cfg) 200 0 ⟨8, [3], -1, []⟩
      ({ sched := [[0], [0], [0], [0], [0], [0]], failIds := [3] } : St)).2 = .raised (.task 3) := by decide

example : (callList (⟨3, false, [2], 0, 2, 0, -1, false, false⟩ : Cfg) 200 8 ⟨5, [], -1, []⟩
      (hook (⟨3, false, [2], 0, 2, 0, -1, false, false⟩ : Cfg) false
        (callList (⟨3, false, [2], 0, 2, 0, -1, false, false⟩ : Cfg) 200 0 ⟨8, [3], -1, []⟩
          ({ sched := [[0], [0], [0], [0], [0], [0]], failIds := [3] } : St)).1)).2 = .ret [8, 9, 10, 11, 12] := by
  decide

/-- The backend does not cancel (`abort_drops = false`): after the failing first call two of its batches are still
parked; one completes at the hook point between the calls (a no-op: the call is aborting), the other one stays
parked into the second call (stale call id there), which returns exactly its own results. -/
example : ((callList (⟨3, false, [2], 0, 3, 0, -1, false, false⟩ : Cfg) 200 0 ⟨12, [1], -1, []⟩
      ({ sched := [[], [1], [], [0]], failIds := [1] } : St)).1.parked,
    (hook (⟨3, false, [2], 0, 3, 0, -1, false, false⟩ : Cfg) false
      (callList (⟨3, false, [2], 0, 3, 0, -1, false, false⟩ : Cfg) 200 0 ⟨12, [1], -1, []⟩
        ({ sched := [[], [1], [], [0]], failIds := [1] } : St)).1).parked,
    (callList (⟨3, false, [2], 0, 3, 0, -1, false, false⟩ : Cfg) 200 12 ⟨5, [], -1, []⟩
      (hook (⟨3, false, [2], 0, 3, 0, -1, false, false⟩ : Cfg) false
        (callList (⟨3, false, [2], 0, 3, 0, -1, false, false⟩ : Cfg) 200 0 ⟨12, [1], -1, []⟩
          ({ sched := [[], [1], [], [0]], failIds := [1] } : St)).1)).2) =
    ([0, 2], [2], .ret [12, 13, 14, 15, 16]) := by decide


/-! ### the sequential path (`n_jobs == 1`) -/

section Sequential
open JoblibModel.ParallelSeq

/-- SEQUENTIAL ERROR SURFACES. If a sequential list-mode call on an idle object raises `e`, then `e` is the exception
of the FIRST failing task of this call in submission order — every earlier task of the call was executed and did
not fail, the failing one was executed, and no later task was (`nDispTasks = nCompleted + 1`) — or it is the
exception of the failing step of the input iterable; on an object that is already running the call raises
`RuntimeError` and changes nothing. -/
theorem sequential_error_surfaces (c : Cfg) {fuel base : Nat} {spec : CallSpec} {s₀ : St} :
    (s₀.running = true → seqCallList c fuel base spec s₀ = (s₀, .raised .runtime)) ∧
    (Idle s₀ → spec.n + 2 ≤ fuel → ∀ s' e, seqCallList c fuel base spec s₀ = (s', .raised e) →
      s'.exception = true ∧ (∀ id, base ≤ id → id < base + s'.nCompleted → id ∉ s₀.failIds) ∧
      ((e = .task (base + s'.nCompleted) ∧ base + s'.nCompleted ∈ s₀.failIds ∧ s'.nCompleted < spec.n ∧
          s'.nDispTasks = s'.nCompleted + 1) ∨
       (∃ pos, e = .iter pos ∧ 0 ≤ spec.iterfail ∧ (pos : Int) = (base : Int) + spec.iterfail))) := by
  constructor
  · intro hr
    unfold seqCallList
    rw [seqStart_running c base spec s₀ hr]
  · intro hi hf s' e he
    have := seqCallList_spec c (base := base) (spec := spec) hi hf
    rw [he] at this
    exact ⟨this.2.1, this.2.2.2.2.2.1, this.2.2.2.2.2.2⟩

/-- SEQUENTIAL CLEAN AFTER CALL. However a sequential call ends, `_running = False`, the job queues are (still)
empty, `hung`, the failing-id table and `_calling` are untouched, and the object is idle. -/
theorem sequential_clean_after_call (c : Cfg) {fuel base : Nat} {spec : CallSpec} {s₀ : St} (hi : Idle s₀)
    (hfuel : spec.n + 2 ≤ fuel) :
    (seqCallList c fuel base spec s₀).1.running = false ∧ (seqCallList c fuel base spec s₀).1.jobs = [] ∧
    (seqCallList c fuel base spec s₀).1.jobsSet = [] ∧
    (seqCallList c fuel base spec s₀).1.calling = s₀.calling ∧
    (seqCallList c fuel base spec s₀).1.hung = s₀.hung ∧ Idle (seqCallList c fuel base spec s₀).1 := by
  have h := seqCallList_spec c (base := base) (spec := spec) hi hfuel
  generalize seqCallList c fuel base spec s₀ = r at h
  obtain ⟨s', o⟩ := r
  cases o with
  | ret v => exact ⟨h.2.1.running, h.2.1.jobs, h.2.1.jobsSet, h.2.2.2.2.2.2.1, h.2.2.2.2.1, h.2.1⟩
  | raised e => exact ⟨h.1.running, h.1.jobs, h.1.jobsSet, h.2.2.2.2.1, h.2.2.1, h.1⟩
  | hung => exact h.elim

example : (seqCallList (⟨1, false, [2], 0, 2, 0, -1, false, true⟩ : Cfg) 20 0 ⟨6, [2, 4], -1, []⟩
    ({ failIds := [2, 4] } : St)).2 = .raised (.task 2) := by decide

end Sequential

/-! ### start-up failures (F52) -/

section Startup
open JoblibModel.ParallelStartup JoblibModel.ParallelSeq

/-- FAILED START RAISES THE FAULT. On an idle object — with or without the guard, whatever the schedule delivers
while `backend.configure` runs — a call whose start-up hits a reached fault ends with exactly the event
`raise <the fault's exception>` appended to the state `failedStart` computes, and in that state NOTHING was
dispatched and no task of this call ran: the tracker table is unchanged (no batch was created), the job queues are
empty, the dispatch / completion counters are 0, and the backend's parked batches are a sublist of those parked
before (anything the backend executed meanwhile was a leftover batch of an EARLIER call, completing as a no-op). The
same holds on the sequential path for the faults that strike before the `n_jobs == 1` test. -/
theorem failed_start_raises_the_fault (c : Cfg) (guard : Bool) (fuel base : Nat) (spec : CallSpec) (f : Fault)
    {s : St} (hi : Idle s) :
    (reached f s = true →
      runCallF c guard fuel base spec f s = ev (failedStart c guard f base spec s) ("raise " ++ faultStr f)) ∧
    (reachedCommon f s = true →
      seqRunCallF c guard fuel base spec f s = ev (failedStart c guard f base spec s) ("raise " ++ faultStr f)) ∧
    (failedStart c guard f base spec s).trk = s.trk ∧
    (failedStart c guard f base spec s).parked.Sublist s.parked ∧
    (failedStart c guard f base spec s).jobs = [] ∧ (failedStart c guard f base spec s).jobsSet = [] ∧
    (failedStart c guard f base spec s).nDispTasks = 0 ∧ (failedStart c guard f base spec s).nDispBatches = 0 ∧
    (failedStart c guard f base spec s).nCompleted = 0 := by
  refine ⟨fun hr => ?_, fun hr => ?_, ?_⟩
  · unfold runCallF
    rw [if_pos hr, if_neg (by simp [hi.running])]
  · unfold seqRunCallF
    rw [if_pos hr, if_neg (by simp [hi.running])]
  · obtain ⟨X, e, hP, _⟩ := failedStart_pre c guard f base spec hi
    rw [e]
    cases guard with
    | false =>
      rw [guardCleanup_false]
      exact ⟨hP.trk, hP.parked, hP.jobs.trans hi.jobs, hP.jobsSet.trans hi.jobsSet, hP.zero.1, hP.zero.2.1,
        hP.zero.2.2.1⟩
    | true =>
      have hQ := hP.post
      exact ⟨hQ.trk, hQ.parked, hQ.jobs.trans hi.jobs, hQ.jobsSet.trans hi.jobsSet, hQ.zero.1, hQ.zero.2.1,
        hQ.zero.2.2.1⟩

/-- FAILED START LEAVES CLEAN. With the guard of `Parallel.__call__` (/repo as it is), after a start-up that failed
at ANY of the seven fault points the object is `Clean` (`_running = False`, `_calling = False`, empty job queues) and
`Idle` in the sense of `clean_after_call` — exactly the state class every other call ends in — inside or outside a
`with` block (`managed` unchanged), with nothing hung. -/
theorem failed_start_leaves_clean (c : Cfg) (f : Fault) (base : Nat) (spec : CallSpec) {s : St} (hi : Idle s) :
    Clean (failedStart c true f base spec s) ∧ Idle (failedStart c true f base spec s) ∧
    (failedStart c true f base spec s).hung = s.hung ∧ (failedStart c true f base spec s).managed = s.managed ∧
    (failedStart c true f base spec s).failIds = s.failIds := by
  have hP := failedStart_post c f base spec hi
  exact ⟨hP.clean hi, hP.idle hi, hP.hung, hP.managed, hP.failIds⟩

/-- FAILED START RELEASES THE BACKEND as any other call does. With the guard, the state left is the state `X` in which
the failing statement was reached, with `_running` and `_calling` cleared and, appended to the event log (newest
first): `stop_call` iff `_calling` was set, then `terminate` iff the object is not used as a context manager. From
`iter(iterable)` on (kinds 5, 6, 7) `_calling` is set and `start_call` was the backend's last event: the
`start_call` of the failed call is immediately answered by `stop_call`. -/
theorem failed_start_releases_backend (c : Cfg) (f : Fault) (base : Nat) (spec : CallSpec) {s : St} (hi : Idle s) :
    ∃ X : St, failedStart c true f base spec s =
        { X with running := false, calling := false,
                 log := (if X.managed then [] else ["terminate"]) ++ (if X.calling then ["stop_call"] else []) ++ X.log } ∧
      X.managed = s.managed ∧ (5 ≤ f.kind → X.calling = true ∧ X.log.head? = some "start_call") := by
  obtain ⟨X, e, hP, h5⟩ := failedStart_pre c true f base spec hi
  obtain ⟨lg, e2, hlg⟩ := guardCleanup_true X hP.running
  exact ⟨X, by rw [e, e2, hlg], hP.managed, h5⟩

/-- NEXT CALL AFTER A FAILED START IS FRESH. After a failed start-up and whatever the schedule delivers at the hook
point before the next call, `callStart` accepts the next call (no `RuntimeError`) and hands `_start` a fresh state: empty
look-ahead queue and job queues, zero counters, the new input at position 0, a call id larger than that of every
existing tracker. -/
theorem next_call_after_failed_start_is_fresh (c : Cfg) (f : Fault) (fuel base₁ base₂ : Nat) (spec₁ spec₂ : CallSpec)
    {s : St} (hi : Idle s) (hh : s.hung = false) :
    ∃ sF, callStart c fuel base₂ spec₂ (hook c false (failedStart c true f base₁ spec₁ s)) = (start c fuel sF, none) ∧
      sF.ready = [] ∧ sF.srcPos = 0 ∧ sF.jobs = [] ∧ sF.jobsSet = [] ∧ sF.nCompleted = 0 ∧ sF.nDispTasks = 0 ∧
      sF.aborting = false ∧ sF.exception = false ∧ sF.base = base₂ ∧ sF.spec = spec₂ ∧
      (∀ i, (getTrk sF i).callId < sF.callId) := by
  obtain ⟨_, h2, h3, _, _⟩ := failed_start_leaves_clean c f base₁ spec₁ hi
  obtain ⟨b1, b2, _⟩ := between_keeps (c := c) h2
  obtain ⟨sF, he, z1, z2, z3, z4, z5, z6, z7, z8, z9, z10, _, z12⟩ :=
    next_call_is_fresh c fuel base₂ spec₂ b1 (b2.trans (h3.trans hh))
  exact ⟨sF, he, z1, z2, z3, z4, z5, z6, z7, z8, z9, z10, z12⟩

/-- SECOND CALL CORRECT, histories with failed starts. After ANY history on one object — list-mode calls that return
or raise (failing tasks, failing iterator, any schedule), start-ups that failed at any fault point, completions of
leftover batches delivered between the calls, in any order and number (`Reach`) — a call whose own tasks do not fail
returns exactly the results of ITS tasks, in order, and leaves the object idle and clean. -/
theorem second_call_correct_after_failed_starts {c : Cfg} (hnj : 2 ≤ c.nj) (hbs : ∀ b ∈ c.bs, 1 ≤ b) (hra : c.ra ≠ 2)
    (hpd : c.pdMode = 1 ∨ 1 ≤ c.pd) (hto : c.timeout = -1) {s₀ s : St} (hi : Idle s₀) (hh : s₀.hung = false)
    (hr : Reach c s₀ s) {fuel base : Nat} {spec : CallSpec}
    (hfail : ∀ id ∈ s₀.failIds, ¬ (base ≤ id ∧ id < base + spec.n)) (hiter : spec.iterfail = -1)
    (hfuel : 2 * spec.n + s.sched.length + s.parked.length + 2 ≤ fuel) :
    ∃ s', callList c fuel base spec s = (s', .ret (List.range' base spec.n)) ∧ Idle s' ∧ Clean s' := by
  have hc : CfgOK c := ⟨by omega, hbs⟩
  obtain ⟨r1, r2, r3⟩ := hr.idle hc hpd hi hh
  obtain ⟨s', e, q1, q2, _, _⟩ := callList_nofail hc (by simp [ordered, hra]) (base := base) (spec := spec) r1 r2 hpd
    (by rw [r3]; exact hfail) (by omega) (by omega) hfuel
  exact ⟨s', e, q1, q2⟩

/-- The same in unordered mode: a rearrangement of the results of the call's own tasks, each exactly once. -/
theorem second_call_correct_after_failed_starts_unordered {c : Cfg} (hnj : 2 ≤ c.nj) (hbs : ∀ b ∈ c.bs, 1 ≤ b)
    (hra : c.ra = 2) (hpd : c.pdMode = 1 ∨ 1 ≤ c.pd) (hto : c.timeout = -1) {s₀ s : St} (hi : Idle s₀)
    (hh : s₀.hung = false) (hr : Reach c s₀ s) {fuel base : Nat} {spec : CallSpec}
    (hfail : ∀ id ∈ s₀.failIds, ¬ (base ≤ id ∧ id < base + spec.n)) (hiter : spec.iterfail = -1)
    (hfuel : 2 * spec.n + s.sched.length + s.parked.length + 2 ≤ fuel) :
    ∃ s' out, callList c fuel base spec s = (s', .ret out) ∧ out.Perm (List.range' base spec.n) ∧ Idle s' ∧
      Clean s' := by
  have hc : CfgOK c := ⟨by omega, hbs⟩
  obtain ⟨r1, r2, r3⟩ := hr.idle hc hpd hi hh
  obtain ⟨s', out, e, hp, q1, q2, _, _⟩ := callList_nofail_u hc (by simp [ordered, hra]) (base := base) (spec := spec)
    r1 r2 hpd (by rw [r3]; exact hfail) (by omega) (by omega) hfuel
  exact ⟨s', out, e, hp, q1, q2⟩

/-- Every history of calls / failed start-ups / between-calls completions ends in an idle object; anything may fail
in the calls of the history. -/
theorem history_leaves_idle {c : Cfg} (hnj : 2 ≤ c.nj) (hbs : ∀ b ∈ c.bs, 1 ≤ b) (hpd : c.pdMode = 1 ∨ 1 ≤ c.pd)
    {s₀ s : St} (hi : Idle s₀) (hh : s₀.hung = false) (hr : Reach c s₀ s) :
    Idle s ∧ s.hung = false ∧ s.failIds = s₀.failIds :=
  hr.idle ⟨by omega, hbs⟩ hpd hi hh

/-- SEQUENTIAL PATH. (1) The faults that strike before the `n_jobs == 1` test run the same `failedStart`
(`failed_start_leaves_clean` needs no hypothesis on `n_jobs`). (2) `iter(iterable)` raises inside the output generator:
its `except BaseException` / `finally` leave the object idle with `_exception` set, no task executed, `_calling`
untouched. (3) After either, a sequential list-mode call that returns, returns exactly the results of its own tasks. -/
theorem sequential_failed_start (c : Cfg) (f : Fault) (fuel base₁ base₂ : Nat) (spec₁ spec₂ : CallSpec) {s : St}
    (hi : Idle s) (hfuel : spec₂.n + 2 ≤ fuel) :
    (∃ s1 bs, seqStart c base₁ spec₁ s = (s1, { bs := bs }, none) ∧ Idle (failed s1) ∧ (failed s1).exception = true ∧
      (failed s1).nCompleted = 0 ∧ (failed s1).calling = s.calling) ∧
    (∀ s' v, seqCallList c fuel base₂ spec₂ (hook c false (failedStart c true f base₁ spec₁ s)) = (s', .ret v) →
      v = List.range' base₂ spec₂.n ∧ Idle s') ∧
    (∀ s' e, seqCallList c fuel base₂ spec₂ (hook c false (failedStart c true f base₁ spec₁ s)) = (s', .raised e) →
      e ≠ .runtime ∧ Idle s') := by
  obtain ⟨s1, bs, he, a1, a2, _, a4, _, _, a7⟩ := seq_iter_fault_idle c base₁ spec₁ hi
  obtain ⟨_, h2, _, _, _⟩ := failed_start_leaves_clean c f base₁ spec₁ hi
  obtain ⟨b1, _, _⟩ := between_keeps (c := c) h2
  have hsp := seqCallList_spec c (fuel := fuel) (base := base₂) (spec := spec₂) b1 hfuel
  refine ⟨⟨s1, bs, he, a1, a2, a4, a7⟩, ?_, ?_⟩
  · intro s' v hv
    rw [hv] at hsp
    exact ⟨hsp.1, hsp.2.1⟩
  · intro s' e hv
    rw [hv] at hsp
    refine ⟨?_, hsp.1⟩
    rcases hsp.2.2.2.2.2.2 with ⟨h, _⟩ | ⟨pos, h, _⟩ <;> rw [h] <;> simp

/-- COUNTEREXAMPLE for the code before the F52 repair (`startGuard = false`): a call whose `backend.start_call` raises,
then a plain one-task call on the same object — the second call raises `RuntimeError` ("already running"). With the
guard the same history returns the second call's result. -/
theorem failed_start_counterexample :
    (callList (⟨2, false, [1], 0, 2, 0, -1, false, true⟩ : Cfg) 50 1 ⟨1, [], -1, []⟩
      (hook (⟨2, false, [1], 0, 2, 0, -1, false, true⟩ : Cfg) false
        (failedStart (⟨2, false, [1], 0, 2, 0, -1, false, true⟩ : Cfg) false ⟨4, 0⟩ 0 ⟨1, [], -1, []⟩ {}))).2
      = .raised .runtime ∧
    (callList (⟨2, false, [1], 0, 2, 0, -1, false, true⟩ : Cfg) 50 1 ⟨1, [], -1, []⟩
      (hook (⟨2, false, [1], 0, 2, 0, -1, false, true⟩ : Cfg) false
        (failedStart (⟨2, false, [1], 0, 2, 0, -1, false, true⟩ : Cfg) true ⟨4, 0⟩ 0 ⟨1, [], -1, []⟩ {}))).2
      = .ret [1] := by decide

/-- Without the guard EVERY failed start-up, at any fault point, from any idle state, leaves `_running` set — so the
next call raises `RuntimeError` and changes nothing (`overlapping_call_raises`). -/
theorem failed_start_unguarded_blocks_next_call (c : Cfg) (f : Fault) (fuel base₁ base₂ : Nat) (spec₁ spec₂ : CallSpec)
    {s : St} (hi : Idle s) :
    (failedStart c false f base₁ spec₁ s).running = true ∧
    callList c fuel base₂ spec₂ (failedStart c false f base₁ spec₁ s) =
      (failedStart c false f base₁ spec₁ s, .raised .runtime) := by
  have h := failedStart_unguarded_running c f base₁ spec₁ hi
  exact ⟨h, overlapping_call_raises c fuel base₂ spec₂ _ h⟩

/-- CONSERVATIVE EXTENSION. A scenario in which no fault is placed has, in the extended model, exactly the event log of
the old one — on both paths and for either position of the guard switch: every theorem above about `callList`,
`runCallList`, … is a theorem about the fault-free calls of the extended scenarios. -/
theorem no_fault_is_old_model (c : Cfg) (guard : Bool) (calls : List CallSpec) (sched : List (List Nat)) :
    runScenarioF c guard {} (calls.map (fun cs => (cs, ({} : Fault)))) sched = runScenario c calls sched ∧
    runScenarioSeqF c guard {} (calls.map (fun cs => (cs, ({} : Fault)))) sched = runScenarioSeq c calls sched :=
  ⟨runScenarioF_nofault c guard calls sched, runScenarioSeqF_nofault c guard calls sched⟩

/-! the hypotheses are satisfiable: the whole scenario of harness/ctl.py, two calls, the first one's `pre_dispatch`
cannot be resolved (`ValueError`), outside a with block -/

example : runScenarioF (⟨2, false, [1], 0, 2, 0, -1, false, true⟩ : Cfg) true {}
      [(⟨3, [], -1, []⟩, ⟨6, 1⟩), (⟨1, [], -1, []⟩, {})] [] =
    ["call 0", "configure", "start_call", "stop_call", "terminate", "raise ValueError",
     "call 1", "configure", "start_call", "pull 3", "submit 3", "complete 3", "exec 3", "stop_call", "terminate",
     "ret 3"] := by decide

example : runScenarioF (⟨2, false, [1], 0, 2, 0, -1, false, true⟩ : Cfg) false {}
      [(⟨3, [], -1, []⟩, ⟨6, 1⟩), (⟨1, [], -1, []⟩, {})] [] =
    ["call 0", "configure", "start_call", "raise ValueError", "call 1", "raise RuntimeError"] := by decide

end Startup

/-! ## exception transport (worker-side traceback capture; model `JoblibModel.ExcTransport`)

`Exc.task id` of the protocol model above is "the exception task `id` raised"; this section is about how that
exception object gets from the worker to `retrieve_result_callback` in the pool backends
(`_TracebackCapturingWrapper` → pool result channel → `_retrieve_traceback_capturing_wrapped_call`). Tied to the
code by `harness/exc_transport.py` (a transcription of the model run against the real functions; see the header of
the model file for why it is not a driver run). -/
section ExcTransport
open JoblibModel JoblibModel.ExcTransport
-- `deliver` alone would be ambiguous with `ParallelProto.deliver` (opened above): written `ExcTransport.deliver`

/-- TRANSPORT PRESERVES THE OUTCOME. For every outcome `o` of a submitted callable whose returned value (if it
returns) is a list — `hlist`: true of every `BatchedCalls`, the only callables `Parallel` submits — every result
channel `t` and every pickle behaviour `rt` satisfying `RoundTripLaw`:
(1) a returned list arrives as that list;
(2) a raised exception `e` arrives as a RAISED exception of the same class and args whose `__cause__` is the remote
traceback `tb` formatted in the worker — or, only in the process pool and only when the instance cannot make the
pickle round trip (`rt e = none`), as the separate outcome `transportError` (never as a returned value, never as an
exception of another class);
(3) the caller gets a return value only if the task returned it (a raise is never swallowed). -/
theorem transport_preserves_outcome (t : Transport) (rt : ExcV → Option ExcV) (hlaw : RoundTripLaw rt)
    (o : Outcome) (tb : Nat) (hlist : ∀ v, o = .returns v → ∃ xs, v = .list xs) :
    (∀ xs, o = .returns (.list xs) → ExcTransport.deliver t rt o tb = .ret (.list xs)) ∧
    (∀ e, o = .raises e →
      (∃ e', ExcTransport.deliver t rt o tb = .raised e' ∧ e'.cls = e.cls ∧ e'.args = e.args ∧ e'.cause = some tb) ∨
      (t = .process ∧ rt e = none ∧ ExcTransport.deliver t rt o tb = .transportError)) ∧
    (∀ v, ExcTransport.deliver t rt o tb = .ret v → o = .returns v) := by
  cases o with
  | returns v =>
    obtain ⟨xs, rfl⟩ := hlist v rfl
    refine ⟨?_, ?_, ?_⟩
    · intro ys h; cases h; cases t <;> rfl
    · intro e h; cases h
    · intro v h; cases t <;> simp [ExcTransport.deliver, wrap, transport, retrieve] at h <;> simp [h]
  | raises e =>
    refine ⟨?_, ?_, ?_⟩
    · intro ys h; cases h
    · intro e₁ h; cases h
      cases t with
      | thread => exact .inl ⟨rebuildExc e tb, rfl, rfl, rfl, rfl⟩
      | process =>
        cases hrt : rt e with
        | none => exact .inr ⟨rfl, rfl, by simp [ExcTransport.deliver, wrap, transport, hrt]⟩
        | some e' =>
          obtain ⟨hc, ha⟩ := hlaw e e' hrt
          exact .inl ⟨rebuildExc e' tb, by simp [ExcTransport.deliver, wrap, transport, hrt, retrieve], hc, ha, rfl⟩
    · intro v h
      cases t with
      | thread => simp [ExcTransport.deliver, wrap, transport, retrieve] at h
      | process =>
        cases hrt : rt e <;> simp [ExcTransport.deliver, wrap, transport, hrt, retrieve] at h

/-- In the thread pool nothing is pickled: the very instance the task raised is raised in the caller, with
`__cause__` set to the remote traceback — whatever pickle would have done with it. -/
theorem thread_transport_is_exact (rt : ExcV → Option ExcV) (e : ExcV) (tb : Nat) :
    ExcTransport.deliver .thread rt (.raises e) tb = .raised { e with cause := some tb } := rfl

/-- RAW POOL EXCEPTION. `PoolManagerMixin.submit` registers the completion callback as `error_callback` too; an
exception instance the pool hands to it (a failure outside the task body: no `_ExceptionWithTraceback` around it)
is raised by `retrieve_result_callback` as it is — it is not returned as a result. -/
theorem raw_pool_exception_is_raised (e : ExcV) : retrieve (poolRaw e) = .raised e := rfl

/-- HONEST WITNESS: the hypothesis `hlist` of `transport_preserves_outcome` cannot be dropped. A callable — not a
`BatchedCalls` — that RETURNS an exception instance `ValueError(3)` has it RAISED in the caller
(`if isinstance(out, BaseException): raise out` cannot tell it from the unpickled `_ExceptionWithTraceback`), and no
channel and no pickle behaviour ever delivers a returned exception instance as a return value. Harmless in joblib:
`BatchedCalls.__call__` returns a list, so a task function returning an exception instance yields a list holding it. -/
theorem returned_exception_instance_is_raised_witness :
    ExcTransport.deliver .thread rtGrid (.returns (.excInst ⟨1, [3], none⟩)) 5 = .raised ⟨1, [3], none⟩ ∧
    (∀ (t : Transport) (rt : ExcV → Option ExcV) (e : ExcV) (tb : Nat),
      ExcTransport.deliver t rt (.returns (.excInst e)) tb ≠ .ret (.excInst e)) := by
  refine ⟨by decide, ?_⟩
  intro t rt e tb h
  cases t with
  | thread => simp [ExcTransport.deliver, wrap, transport, retrieve] at h
  | process => cases hrt : rt e <;> simp [ExcTransport.deliver, wrap, transport, hrt, retrieve] at h

/-- the finite table of the model on the harness's grid; the literal rows below are READ by
harness/exc_transport.py and compared with its Python transcription of `deliver`. -/
theorem transport_table : table = [
    ("thread", "returns-list", "ret-list"),
    ("thread", "returns-exc", "raised"),
    ("thread", "raises", "raised-with-remote-traceback"),
    ("thread", "raises-unrebuildable", "raised-with-remote-traceback"),
    ("thread", "returns-exc-unrebuildable", "raised"),
    ("process", "returns-list", "ret-list"),
    ("process", "returns-exc", "raised"),
    ("process", "raises", "raised-with-remote-traceback"),
    ("process", "raises-unrebuildable", "transport-error"),
    ("process", "returns-exc-unrebuildable", "transport-error")] := by decide

/-! the hypotheses are satisfiable by a non-trivial instance: `rtGrid` satisfies the law, is not the identity
(it drops `__cause__`, as pickle does) and fails on one class -/

example : RoundTripLaw rtGrid := by
  intro e e' h
  unfold rtGrid at h
  split at h
  · cases h
  · cases h; exact ⟨rfl, rfl⟩

example : ∃ e, rtGrid e ≠ some e ∧ (rtGrid e).isSome := ⟨⟨1, [3], some 4⟩, by decide⟩
example : ExcTransport.deliver .process rtGrid (.raises ⟨1, [3], some 4⟩) 5 = .raised ⟨1, [3], some 5⟩ := by decide

end ExcTransport
end C04
